#!/bin/bash
# usage: seed_store.sh <id>   — after seed_confirm.sh /tmp/seedout/<id> said CONFIRMED: store it under /verif/seeded/<id> and drop the scratch worktree
set -u
id="$1"; src=/tmp/seedout/$id; dst=/verif/seeded/$id
mkdir -p "$dst"
cp "$src/patch.diff" "$src/zz_seed_demo_test.go" "$dst/"
python3 - "$src/meta.json" "$dst/meta.json" "$id" <<'PY'
import json,sys
m=json.load(open(sys.argv[1]))
m["confirmed_by"]="tools/seed_confirm.sh (scratch worktree of /repo HEAD: patch applies, go build ok, full suite passes with patch, demo fails with patch and passes without)"
json.dump(m,open(sys.argv[2],"w"),indent=1)
PY
git -C /repo worktree remove --force /tmp/seedwt/$id 2>/dev/null
echo stored $dst
