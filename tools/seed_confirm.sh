#!/bin/bash
# usage: seed_confirm.sh <dir with patch.diff, zz_seed_demo_test.go, meta.json>
# Confirms in a scratch worktree of /repo HEAD: patch applies and builds, full suite passes with it,
# demo fails with it and passes without it. Prints CONFIRMED or the reason it is not.
set -u
. /verif/env.sh
d=$(realpath "$1"); name=$(basename "$d")
wt=/tmp/seedwt/$name-$$
mkdir -p /tmp/seedwt
git -C /repo worktree add -q --detach "$wt" HEAD || exit 2
trap 'git -C /repo worktree remove --force "$wt" >/dev/null 2>&1' EXIT
cd "$wt"
demo_dir=$(python3 -c "import json;print(json.load(open('$d/meta.json'))['demo_dir'])")
demo_dir=${demo_dir#./}; [ -z "$demo_dir" ] && demo_dir=.
git apply "$d/patch.diff" || { echo "NOT-CONFIRMED $name: patch does not apply to HEAD"; exit 1; }
go build ./... || { echo "NOT-CONFIRMED $name: does not build"; exit 1; }
if go test -vet=off -count=1 ./... 2>&1 | grep -E "^(FAIL|---)" | head -5 | grep -q .; then echo "NOT-CONFIRMED $name: existing suite fails with the patch"; exit 1; fi
cp "$d/zz_seed_demo_test.go" "$demo_dir/zz_seed_demo_test.go"
if go test -vet=off -count=1 -run TestSeedDemo "./$demo_dir" >/tmp/seedwt/$name.with.log 2>&1; then echo "NOT-CONFIRMED $name: demo passes WITH the patch"; exit 1; fi
git apply -R "$d/patch.diff"
if ! go test -vet=off -count=1 -run TestSeedDemo "./$demo_dir" >/tmp/seedwt/$name.without.log 2>&1; then echo "NOT-CONFIRMED $name: demo fails WITHOUT the patch"; tail -5 /tmp/seedwt/$name.without.log; exit 1; fi
echo "CONFIRMED $name: suite passes with patch; demo fails with patch, passes without"
