#!/bin/bash
# usage: seed_check.sh <seed dir> <prop> [<prop>...]   — runs the checks against a scratch worktree with the patch applied
set -u
. /verif/env.sh
d=$(realpath "$1"); shift; name=$(basename "$d")
wt=/tmp/seedwt/chk-$name-$$
mkdir -p /tmp/seedwt
git -C /repo worktree add -q --detach "$wt" HEAD || exit 2
trap 'git -C /repo worktree remove --force "$wt" >/dev/null 2>&1' EXIT
( cd "$wt" && git apply "$d/patch.diff" ) || { echo "patch does not apply"; exit 2; }
props=$(IFS=,; echo "$*")
VERIF_DIR=/tmp/seedwt/ev-$$ ; mkdir -p $VERIF_DIR; cp /verif/known-findings.txt $VERIF_DIR/
/verif/bin/nagacheck -prop "$props" -repo "$wt" -verif $VERIF_DIR | grep -v "^VIOLATION" | cut -c1-300
rm -rf $VERIF_DIR
