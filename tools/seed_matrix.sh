#!/bin/bash
# usage: seed_matrix.sh [seed ...]  — for each seed, apply it in a scratch worktree and run every registered property; print which raise NEW violations
. /verif/env.sh
props=$(/verif/bin/nagacheck -list | tr ' ' ',')
seeds="$@"; [ -z "$seeds" ] && seeds=$(ls /verif/seeded)
for s in $seeds; do
  d=/verif/seeded/$s
  wt=/tmp/seedwt/mx-$s-$$; mkdir -p /tmp/seedwt
  git -C /repo worktree add -q --detach "$wt" HEAD || continue
  if ! ( cd "$wt" && git apply "$d/patch.diff" ); then echo "$s: patch does not apply"; git -C /repo worktree remove --force "$wt"; continue; fi
  ev=/tmp/seedwt/ev-$s-$$; mkdir -p $ev; cp /verif/known-findings.txt $ev/
  out=$(/verif/bin/nagacheck -prop "$props" -repo "$wt" -verif $ev 2>&1)
  caught=$(echo "$out" | grep -E "^C[0-9]+ tier" | grep -vE " 0 violations, 0 undecided" | awk '{print $1}' | tr '\n' ' ')
  rules=$(echo "$out" | grep -E "^\s+\[(violation|undecided)\]" | sed -E 's/.*rule=([^ ]+) construct=([^ ]+).*/\1 @ \2/' | sort -u | head -4 | tr '\n' ';')
  echo "$s: caught_by=[${caught}] ${rules}"
  rm -rf $ev; git -C /repo worktree remove --force "$wt"
done
