#!/usr/bin/env python3
"""Regenerates /verif/MANIFEST.json from the table below (claims) + properties.jsonl."""
import json, os
V = os.path.dirname(os.path.dirname(os.path.abspath(__file__)))
props = [json.loads(l) for l in open(os.path.join(V, 'properties.jsonl'))]
baseline = json.load(open('/root/.vp/BASELINE.json'))['cmd']

# id -> (technique, level text, level_note, design_ref, engines)
claims = json.load(open(os.path.join(V, 'tools', 'claims.json')))
na = json.load(open(os.path.join(V, 'tools', 'not_applicable.json')))

checks = []
for p in props:
    c = claims.get(p['id'])
    if not c:
        continue
    checks.append({
        "property_id": p['id'],
        "quick_cmd": "./check %s quick" % p['id'],
        "thorough_cmd": "./check %s thorough" % p['id'],
        "evidence_file": "/verif/evidence/%s.json" % p['id'],
        "replay_cmd_template": "./check %s --replay {path}" % p['id'],
        "engine": "nagacheck",
        "level_claimed": {"category": "other", "text": c['text'], "design_ref": c.get('design_ref', 'DESIGN.md §3 ' + p['id'])},
        "level_note": c['note'],
        "technique": c['technique'],
    })
m = {
    "version": 1,
    "setup_cmd": ". ./env.sh && cd nagacheck && go build -o ../bin/nagacheck .",
    "hooks": {"guard": "verif", "enable": "none: static analysis needs no instrumentation; /repo is analysed from source (go/packages), never built with hooks", "baseline_off_cmd": baseline, "source_commits": [], "add_only": True},
    "engines": [{"name": "nagacheck", "path": "nagacheck/", "serves_properties": sorted(claims.keys()),
                 "kind_free_text": "repository-specific static analyser (go/packages + go/types typed AST, go/cfg, go/ssa): handlewalk, dispatch/default discipline, literal tables, reset completeness, map-order, pairing/typestate, ownership, provenance, error-flow rules"}],
    "checks": checks,
    "notes": "Static analysis only; every claim is a set of structural necessary conditions (level 'other'); see DESIGN.md. Known findings: known-findings.txt.",
    "not_applicable": [{"property_id": p['id'], "reason": na.get(p['id'], "check not yet built; see DESIGN.md for the planned clauses")} for p in props if p['id'] not in claims],
}
json.dump(m, open(os.path.join(V, 'MANIFEST.json'), 'w'), indent=1)
print("claims:", sorted(claims.keys()))
