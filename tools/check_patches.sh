#!/bin/bash
# usage: check_patches.sh — every seed and control patch must apply to /repo HEAD (the thorough self-test
# skips a patch that does not apply, so a stale patch would silently stop exercising its rule).
rc=0
for d in /verif/seeded/*/ /verif/controls/*/; do
  [ -f "$d/patch.diff" ] || continue
  if ! git -C /repo apply --check "$d/patch.diff" 2>/dev/null; then echo "NOT APPLYING: $d"; rc=1; fi
done
[ $rc = 0 ] && echo "all patches apply"
exit $rc
