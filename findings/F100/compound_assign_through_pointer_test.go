package naga

// F100 (C08; fixed by 2fa83f3): fn bump(p: ptr<function, i32>) { *p += 1; } was lowered
// to Binary(Add, FunctionArgument(p), 1): the load rule does not load a pointer
// value, and the valid program was rejected by the SPIR-V backend.
// Copy into /repo and run  go test -vet=off -count=1 -run TestF100 .

import (
	"testing"

	"github.com/gogpu/naga/spirv"
	"github.com/gogpu/naga/wgsl"
)

func TestF100(t *testing.T) {
	src := `@group(0) @binding(0) var<storage, read_write> o: array<i32>;
fn bump(p: ptr<function, i32>) { *p += 1; }
@compute @workgroup_size(1) fn main(){ var i = 1; bump(&i); o[0] = i; }`
	ast, err := Parse(src)
	if err != nil {
		t.Fatal(err)
	}
	m, err := wgsl.Lower(ast)
	if err != nil {
		t.Fatal(err)
	}
	if errs, err := Validate(m); err != nil || len(errs) > 0 {
		t.Errorf("validate: %v %v", errs, err)
	}
	if _, err := spirv.NewBackend(spirv.DefaultOptions()).Compile(m); err != nil {
		t.Errorf("'*p += 1' through a pointer parameter is rejected: %v", err)
	}
}
