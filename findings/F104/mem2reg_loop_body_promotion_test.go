package mem2reg

// F104 (C13; fixed by 8b6f92d): mem2reg promoted the first load of n in a loop body
// ('loop { if n >= i { break; } n = n + 1u; ... }') to the variable's initial
// value: n was 0 at the top of every iteration.
// Copy into /repo/dxil/internal/passes/mem2reg and run  go test -vet=off -count=1 -run TestF104 ./dxil/internal/passes/mem2reg

import (
	"testing"

	"github.com/gogpu/naga"
	"github.com/gogpu/naga/ir"
	"github.com/gogpu/naga/wgsl"
)

func TestF104(t *testing.T) {
	src := `@group(0) @binding(0) var<storage, read_write> out: array<u32>;
@compute @workgroup_size(1) fn main(@builtin(local_invocation_index) i: u32){
 var n: u32;
 loop { if n >= i { break; } n = n + 1u; out[1] = n; }
}`
	ast, err := naga.Parse(src)
	if err != nil {
		t.Fatal(err)
	}
	m, err := wgsl.Lower(ast)
	if err != nil {
		t.Fatal(err)
	}
	fn := &m.EntryPoints[0].Function
	var loads []ir.ExpressionHandle
	for h, e := range fn.Expressions {
		if ld, ok := e.Kind.(ir.ExprLoad); ok {
			if _, isLocal := fn.Expressions[ld.Pointer].Kind.(ir.ExprLocalVariable); isLocal {
				loads = append(loads, ir.ExpressionHandle(h))
			}
		}
	}
	if err := Run(m, fn); err != nil {
		t.Fatal(err)
	}
	for _, h := range loads {
		if al, ok := fn.Expressions[h].Kind.(ir.ExprAlias); ok {
			if _, isZero := fn.Expressions[al.Source].Kind.(ir.ExprZeroValue); isZero {
				t.Errorf("the load of n at the top of the loop body was promoted to the variable's initial value: n is 0 in every iteration")
			}
		}
	}
}
