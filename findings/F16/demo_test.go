package naga_test

import (
	"bytes"
	"testing"

	"github.com/gogpu/naga"
	"github.com/gogpu/naga/spirv"
)

const shaderA = `
struct S { a: array<vec3<f32>, 4>, }
var<workgroup> wg: S;
@group(0) @binding(0) var<storage, read_write> out: array<f32>;
@compute @workgroup_size(1) fn main() { let s = wg; out[0] = s.a[1].x; }
`
const shaderB = `
@group(0) @binding(0) var<storage, read_write> out: array<f32>;
@compute @workgroup_size(1) fn main() { out[0] = 1.0; }
`


func TestF16(t *testing.T) {
	mk := func(src string) []byte { return nil }
	_ = mk
	astA, err := naga.Parse(shaderA)
	if err != nil { t.Fatal(err) }
	mA, err := naga.LowerWithSource(astA, shaderA)
	if err != nil { t.Fatal(err) }
	astB, err := naga.Parse(shaderB)
	if err != nil { t.Fatal(err) }
	mB, err := naga.LowerWithSource(astB, shaderB)
	if err != nil { t.Fatal(err) }
	opts := spirv.DefaultOptions()
	fresh, err := spirv.NewBackend(opts).Compile(mB)
	if err != nil { t.Fatal(err) }
	fresh = append([]byte(nil), fresh...)
	be := spirv.NewBackend(opts)
	if _, err := be.Compile(mA); err != nil { t.Fatal(err) }
	reused, err := be.Compile(mB)
	if err != nil { t.Fatal(err) }
	if !bytes.Equal(fresh, reused) {
		t.Fatalf("output of B depends on history: fresh %d bytes version word %x, after A %d bytes version word %x", len(fresh), fresh[4:8], len(reused), reused[4:8])
	}
}
