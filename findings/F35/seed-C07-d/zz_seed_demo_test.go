package naga

import (
	"encoding/binary"
	"testing"

	"github.com/gogpu/naga/ir"
	"github.com/gogpu/naga/spirv"
)

// The WGSL grammar lets @align / @size take any const i32 or u32 expression,
// so a suffixed literal (16u, 32i) must produce exactly the same memory layout
// as the bare literal. This test checks the IR offsets/span and the SPIR-V
// Offset / ArrayStride decorations against the WGSL layout rules.
const seedDemoSuffixed = `
struct Params {
    head: f32,
    @align(16u) dir: vec2<f32>,
    @size(32u) weight: f32,
    tail: f32,
}

@group(0) @binding(0) var<storage, read_write> items: array<Params>;

@compute @workgroup_size(1)
fn main() {
    items[0].tail = items[0].head + items[0].dir.x + items[0].weight;
}
`

const seedDemoPlain = `
struct Params {
    head: f32,
    @align(16) dir: vec2<f32>,
    @size(32) weight: f32,
    tail: f32,
}

@group(0) @binding(0) var<storage, read_write> items: array<Params>;

@compute @workgroup_size(1)
fn main() {
    items[0].tail = items[0].head + items[0].dir.x + items[0].weight;
}
`

func seedDemoLower(t *testing.T, src string) *ir.Module {
	t.Helper()
	ast, err := Parse(src)
	if err != nil {
		t.Fatalf("parse: %v", err)
	}
	mod, err := LowerWithSource(ast, src)
	if err != nil {
		t.Fatalf("lower: %v", err)
	}
	return mod
}

func seedDemoStruct(t *testing.T, mod *ir.Module, name string) (ir.TypeHandle, ir.StructType) {
	t.Helper()
	for h, ty := range mod.Types {
		if st, ok := ty.Inner.(ir.StructType); ok && ty.Name == name {
			return ir.TypeHandle(h), st
		}
	}
	t.Fatalf("struct %s not found", name)
	return 0, ir.StructType{}
}

func TestSeedDemoSuffixedAlignSizeLayout(t *testing.T) {
	// WGSL layout of Params:
	//   head   offset 0  size 4
	//   dir    offset 16 (align 16) size 8
	//   weight offset 24 size 32 (@size)
	//   tail   offset 56 size 4
	//   struct align 16, size roundUp(16, 60) = 64; array stride 64
	wantOffsets := []uint32{0, 16, 24, 56}
	const wantSpan = 64

	for _, tc := range []struct {
		name string
		src  string
	}{
		{"plain", seedDemoPlain},
		{"suffixed", seedDemoSuffixed},
	} {
		t.Run(tc.name, func(t *testing.T) {
			mod := seedDemoLower(t, tc.src)
			handle, st := seedDemoStruct(t, mod, "Params")
			if len(st.Members) != len(wantOffsets) {
				t.Fatalf("got %d members, want %d", len(st.Members), len(wantOffsets))
			}
			for i, m := range st.Members {
				if m.Offset != wantOffsets[i] {
					t.Errorf("IR: member %s offset = %d, want %d", m.Name, m.Offset, wantOffsets[i])
				}
			}
			if st.Span != wantSpan {
				t.Errorf("IR: struct span = %d, want %d", st.Span, wantSpan)
			}
			for _, ty := range mod.Types {
				if arr, ok := ty.Inner.(ir.ArrayType); ok && arr.Base == handle {
					if arr.Stride != wantSpan {
						t.Errorf("IR: array<Params> stride = %d, want %d", arr.Stride, wantSpan)
					}
				}
			}

			// SPIR-V: collect OpMemberDecorate Offset values and ArrayStride values.
			bin, err := GenerateSPIRV(mod, spirv.DefaultOptions())
			if err != nil {
				t.Fatalf("spirv: %v", err)
			}
			words := make([]uint32, len(bin)/4)
			for i := range words {
				words[i] = binary.LittleEndian.Uint32(bin[i*4:])
			}
			const (
				opDecorate       = 71
				opMemberDecorate = 72
				decArrayStride   = 6
				decOffset        = 35
			)
			// struct id -> member -> offset
			offsets := map[uint32]map[uint32]uint32{}
			var strides []uint32
			for i := 5; i < len(words); {
				wc := int(words[i] >> 16)
				op := words[i] & 0xffff
				if wc == 0 {
					t.Fatalf("bad SPIR-V instruction at word %d", i)
				}
				switch {
				case op == opMemberDecorate && wc == 5 && words[i+3] == decOffset:
					id := words[i+1]
					if offsets[id] == nil {
						offsets[id] = map[uint32]uint32{}
					}
					offsets[id][words[i+2]] = words[i+4]
				case op == opDecorate && wc == 4 && words[i+2] == decArrayStride:
					strides = append(strides, words[i+3])
				}
				i += wc
			}
			found := false
			for _, m := range offsets {
				if len(m) != len(wantOffsets) {
					continue
				}
				found = true
				for idx, want := range wantOffsets {
					if m[uint32(idx)] != want {
						t.Errorf("SPIR-V: member %d Offset = %d, want %d", idx, m[uint32(idx)], want)
					}
				}
			}
			if !found {
				t.Errorf("SPIR-V: no 4-member struct with Offset decorations found")
			}
			okStride := false
			for _, s := range strides {
				if s == wantSpan {
					okStride = true
				}
			}
			if !okStride {
				t.Errorf("SPIR-V: ArrayStride values %v, want one equal to %d", strides, wantSpan)
			}
		})
	}
}
