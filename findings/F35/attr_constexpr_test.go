package naga_test

// F35 (C17 / C07 / C14 / C06; found while triaging seed C07-d, now guarded by rule
// literal.rawparse): integer attribute arguments were parsed as plain decimal
// text. @workgroup_size(64u) silently became workgroup size 1, @align(0x10) and
// @size(K) were ignored (layout differs from WGSL), @id(3u) lost the id, and
// @group / @binding / @location accepted literals only. Fixed by /repo commits
// 0ccfddb (evaluate as constant expressions) and 22ecdf3 (dependency ordering follows
// attribute arguments). Copy into /repo (package naga_test): go test -run TestF35 .

import (
	"testing"

	"github.com/gogpu/naga"
	"github.com/gogpu/naga/ir"
)

func TestF35AttributeArgumentsAreConstantExpressions(t *testing.T) {
	src := "const G = 1; const B = 2u; const L = 3;\n" +
		"struct S { a: f32, @align(0x10) b: f32, @size(K) c: f32, d: f32 }\n" +
		"const K = 16;\n" +
		"@group(G) @binding(B + 1u) var<storage, read_write> s: S;\n" +
		"@id(K) override o: f32 = 1.0;\n" +
		"@compute @workgroup_size(64u, 0x2) fn main() { s.a = o; }\n"
	ast, err := naga.Parse(src)
	if err != nil {
		t.Fatal(err)
	}
	m, err := naga.Lower(ast)
	if err != nil {
		t.Fatal(err)
	}
	if wg := m.EntryPoints[0].Workgroup; wg != [3]uint32{64, 2, 1} {
		t.Errorf("workgroup size %v, want [64 2 1]", wg)
	}
	if id := m.Overrides[0].ID; id == nil || *id != 16 {
		t.Errorf("override id %v, want 16", id)
	}
	if b := m.GlobalVariables[0].Binding; b == nil || b.Group != 1 || b.Binding != 3 {
		t.Errorf("resource binding %v, want group 1 binding 3", b)
	}
	for _, ty := range m.Types {
		if st, ok := ty.Inner.(ir.StructType); ok && ty.Name == "S" {
			got := []uint32{st.Members[0].Offset, st.Members[1].Offset, st.Members[2].Offset, st.Members[3].Offset, st.Span}
			want := []uint32{0, 16, 20, 36, 48}
			for i := range want {
				if got[i] != want[i] {
					t.Errorf("struct S layout %v, want %v", got, want)
					break
				}
			}
		}
	}
}

// Same family (fbc0b00): 'override x: f32 = 1.5f;' lost its default initialiser (the literal text
// was handed to strconv.ParseFloat with its suffix), so resolving the override failed with
// "no value provided and no default initializer".
func TestF35OverrideSuffixedFloatDefault(t *testing.T) {
	src := "override x: f32 = 1.5f;\n@group(0) @binding(0) var<storage, read_write> out: f32;\n@compute @workgroup_size(1) fn main() { out = x; }"
	ast, err := naga.Parse(src)
	if err != nil {
		t.Fatal(err)
	}
	m, err := naga.Lower(ast)
	if err != nil {
		t.Fatal(err)
	}
	if m.Overrides[0].Init == nil {
		t.Fatal("override x has no default initialiser")
	}
	if err := ir.ProcessOverrides(ir.CloneModuleForOverrides(m), nil); err != nil {
		t.Fatal(err)
	}
}
