package naga

// F61 (C03; known finding, not repaired): the HLSL writer emits textureStore on
// an arrayed storage texture as tex[coord, layer] - in HLSL the comma operator,
// so the subscript is the layer alone - instead of tex[int3(coord, layer)]. The
// goldens hlsl/bounds-check-image-restrict.hlsl and -rzsw.hlsl contain that
// line, so the one-line repair (use writeTextureCoordinates) needs them edited.
// Copy into /repo and run  go test -vet=off -count=1 -run TestF61 .   (fails)

import (
	"strings"
	"testing"

	"github.com/gogpu/naga/hlsl"
	"github.com/gogpu/naga/wgsl"
)

func TestF61(t *testing.T) {
	src := `@group(0) @binding(0) var img: texture_storage_2d_array<rgba8unorm, write>;
@compute @workgroup_size(1) fn main(@builtin(global_invocation_id) id: vec3<u32>){
 textureStore(img, vec2<i32>(id.xy), i32(id.z), vec4<f32>(1.0));
}`
	ast, err := Parse(src)
	if err != nil {
		t.Fatal(err)
	}
	m, err := wgsl.Lower(ast)
	if err != nil {
		t.Fatal(err)
	}
	out, _, err := hlsl.Compile(m, hlsl.DefaultOptions())
	if err != nil {
		t.Fatal(err)
	}
	if strings.Contains(out, "img[int2(id.xy), int(id.z)]") || !strings.Contains(out, "img[int3(") {
		t.Errorf("layer written as a second subscript operand:\n%s", out)
	}
}
