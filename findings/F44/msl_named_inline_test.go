package naga

// F44 (C04): needsParensInContext treated every IR-named expression as "written
// as a name". A let declared in a loop body and used in the continuing block
// (which the MSL writer emits before the body) is expanded inline, and lost
// its parentheses: acc + s.y with let s = p + q became acc + p + q.y.
// Copy into /repo and run  go test -vet=off -count=1 -run TestF44 .

import (
	"strings"
	"testing"

	"github.com/gogpu/naga/msl"
	"github.com/gogpu/naga/wgsl"
)

func TestF44(t *testing.T) {
	src := `@group(0) @binding(0) var<storage, read_write> out: array<f32, 4>;
@group(0) @binding(1) var<uniform> p: vec4<f32>;
@group(0) @binding(2) var<uniform> q: vec4<f32>;
@compute @workgroup_size(1)
fn main() {
    var acc: f32 = 1.0;
    var i: u32 = 0u;
    loop {
        if i >= 4u { break; }
        let s = p + q;
        continuing {
            acc = acc + s.y;
            i = i + 1u;
        }
    }
    out[0] = acc;
}`
	ast, err := Parse(src)
	if err != nil {
		t.Fatal(err)
	}
	m, err := wgsl.Lower(ast)
	if err != nil {
		t.Fatal(err)
	}
	o := msl.DefaultOptions()
	o.FakeMissingBindings = true
	out, _, err := msl.Compile(m, o)
	if err != nil {
		t.Fatal(err)
	}
	if strings.Contains(out, "+ p + q.y") {
		t.Errorf("member access applied to the last operand of an inlined let:\n%s", out)
	}
	if !strings.Contains(out, "(p + q).y") && !strings.Contains(out, "s.y") {
		t.Errorf("expected (p + q).y or s.y in:\n%s", out)
	}
}
