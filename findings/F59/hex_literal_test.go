package naga

// F59 (C19, C06): two spellings of the same integer behaved differently:
//  - 'const A = 0x1f;' was taken for a suffixed (concrete) literal because its
//    last character is 'f', and emitted as a typed module constant, unlike
//    'const A = 31;';
//  - 'const C: f32 = 0x10 * 1.5;' was rejected while '16 * 1.5' was accepted.
// Copy into /repo and run  go test -vet=off -count=1 -run TestF59 .

import (
	"testing"

	"github.com/gogpu/naga/msl"
	"github.com/gogpu/naga/wgsl"
)

func TestF59(t *testing.T) {
	compile := func(lit string) (string, error) {
		src := `const A = ` + lit + `; const C: f32 = ` + lit + ` * 1.5;
@group(0) @binding(0) var<storage,read_write> o: array<f32>;
@compute @workgroup_size(1) fn main(){ o[0] = f32(A) + C; }`
		ast, err := Parse(src)
		if err != nil {
			return "", err
		}
		m, err := wgsl.Lower(ast)
		if err != nil {
			return "", err
		}
		o := msl.DefaultOptions()
		o.FakeMissingBindings = true
		out, _, err := msl.Compile(m, o)
		return out, err
	}
	dec, err := compile("31")
	if err != nil {
		t.Fatal(err)
	}
	hex, err := compile("0x1f")
	if err != nil {
		t.Fatalf("hexadecimal spelling rejected: %v", err)
	}
	if dec != hex {
		t.Errorf("31 and 0x1f compile to different output:\n--- 31\n%s\n--- 0x1f\n%s", dec, hex)
	}
}
