package naga

import (
	"strings"
	"testing"

	"github.com/gogpu/naga/glsl"
)

// F111: glsl.Compile with no entry point selected on a module with two entry
// points declared the globals reachable from the first, then wrote a
// `void main()` for each (the second using an undeclared sampler), and
// reported texture mappings of both.
func TestF111GLSLEmptySelectionCompilesOneEntryPoint(t *testing.T) {
	src := `
@group(0) @binding(0) var t1: texture_2d<f32>;
@group(0) @binding(1) var s1: sampler;
@group(0) @binding(2) var t2: texture_2d<f32>;
@fragment fn fa() -> @location(0) vec4<f32> { return textureSample(t1, s1, vec2<f32>(0.5)); }
@fragment fn fb() -> @location(0) vec4<f32> { return textureSample(t2, s1, vec2<f32>(0.5)); }
`
	ast, err := Parse(src)
	if err != nil {
		t.Fatal(err)
	}
	mod, err := Lower(ast)
	if err != nil {
		t.Fatal(err)
	}
	out, info, err := glsl.Compile(mod, glsl.DefaultOptions())
	if err != nil {
		t.Fatal(err)
	}
	if n := strings.Count(out, "void main()"); n != 1 {
		t.Errorf("%d definitions of main:\n%s", n, out)
	}
	if len(info.TextureMappings) != len(info.TextureSamplerPairs) {
		t.Errorf("TextureMappings %d entries, TextureSamplerPairs %d", len(info.TextureMappings), len(info.TextureSamplerPairs))
	}
}
