package mem2reg

// F105 (C13; fixed by ec72f03): the phi walk deleted 'x = i + 5u' in front of a loop and
// then withdrew x from promotion at the loop (x is stored inside it): the loads
// in and after the loop read an alloca that never received the store.
// Copy into /repo/dxil/internal/passes/mem2reg and run  go test -vet=off -count=1 -run TestF105 ./dxil/internal/passes/mem2reg

import (
	"testing"

	"github.com/gogpu/naga"
	"github.com/gogpu/naga/ir"
	"github.com/gogpu/naga/wgsl"
)

func TestF105(t *testing.T) {
	src := `@group(0) @binding(0) var<storage, read_write> out: array<u32>;
@compute @workgroup_size(1) fn main(@builtin(local_invocation_index) i: u32){
 var x: u32;
 x = i + 5u;
 loop { if x > 10u { break; } x = x + 1u; }
 out[0] = x;
}`
	ast, err := naga.Parse(src)
	if err != nil {
		t.Fatal(err)
	}
	m, err := wgsl.Lower(ast)
	if err != nil {
		t.Fatal(err)
	}
	fn := &m.EntryPoints[0].Function
	if err := Run(m, fn); err != nil {
		t.Fatal(err)
	}
	// x is still loaded through its alloca inside the loop: then the store in
	// front of the loop must still be there.
	realLoads := 0
	for _, e := range fn.Expressions {
		if ld, ok := e.Kind.(ir.ExprLoad); ok {
			if _, isLocal := fn.Expressions[ld.Pointer].Kind.(ir.ExprLocalVariable); isLocal {
				realLoads++
			}
		}
	}
	topStores := 0
	for _, st := range fn.Body {
		if s, ok := st.Kind.(ir.StmtStore); ok {
			if _, isLocal := fn.Expressions[s.Pointer].Kind.(ir.ExprLocalVariable); isLocal {
				topStores++
			}
		}
	}
	if realLoads > 0 && topStores == 0 {
		t.Errorf("the store 'x = i + 5u' in front of the loop was deleted while the loads of x in and after the loop still read the variable: x starts at 0")
	}
}
