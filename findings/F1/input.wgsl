// WGSL: x % y = x - y * trunc(x / y): -5.5 % 2.0 == -1.5 (sign of the dividend) -> OpFRem.
// naga emits OpFMod (sign of the divisor): 0.5. snapshot/testdata/golden/spv/operators.spvasm pins OpFMod,
// snapshot/testdata/reference/spv/wgsl-operators.spvasm (Rust naga) has OpFRem.
@group(0) @binding(0) var<storage, read_write> out: array<f32>;
@compute @workgroup_size(1) fn main() { let a = out[1]; let b = out[2]; out[0] = a % b; }
