package naga

// F40 (C04, known finding, not repaired): the MSL writer emits the vector of a
// swizzle without parentheses, so (a * b).xxyy becomes a * b.xxyy (a float2
// times a float4: rejected by the Metal compiler; for equal widths a different
// value). The golden snapshot/testdata/golden/msl/7048-multiple-dynamic-2.msl
// encodes this output ("val_0_ * val_1_.xxyy" for the WGSL "(val_0 * val_1).xxyy"),
// so the repair (ask needsParensInContext in writeSwizzle) cannot be made
// without editing the suite. Copy into /repo and run
//   go test -vet=off -count=1 -run TestF40 .      (fails on the pinned tree)

import (
	"strings"
	"testing"

	"github.com/gogpu/naga/msl"
	"github.com/gogpu/naga/wgsl"
)

func TestF40(t *testing.T) {
	src := `@group(0) @binding(0) var<storage,read_write> o: array<vec2<f32>>;
@group(0) @binding(1) var<storage,read_write> v: array<vec4<f32>>;
@compute @workgroup_size(1) fn main(){
 o[0] = (v[0] + v[1]).xy;
 o[2] = (v[0] * 2.0).yx;
}`
	ast, err := Parse(src)
	if err != nil {
		t.Fatal(err)
	}
	m, err := wgsl.Lower(ast)
	if err != nil {
		t.Fatal(err)
	}
	out, _, err := msl.Compile(m, msl.DefaultOptions())
	if err != nil {
		t.Fatal(err)
	}
	if strings.Contains(out, "2.0.yx") || !strings.Contains(out, ").xy") {
		t.Errorf("swizzle applied to the last operand only:\n%s", out)
	}
}
