package naga

// F45 (C15, C03): HLSL locals whose type NAME contains "RayQuery" were declared
// without the zero initialiser WGSL requires (the test was a substring search
// in the rendered type name). Copy into /repo and run
//   go test -vet=off -count=1 -run TestF45 .

import (
	"strings"
	"testing"

	"github.com/gogpu/naga/hlsl"
	"github.com/gogpu/naga/wgsl"
)

func TestF45(t *testing.T) {
	src := `@group(0) @binding(0) var<storage,read_write> d: array<f32>;
struct MyRayQueryData { a: i32, b: f32 }
fn helper() -> i32 { var inner: MyRayQueryData; return inner.a; }
@compute @workgroup_size(1) fn main(@builtin(global_invocation_id) g: vec3<u32>){
 var loc: MyRayQueryData;
 d[g.x] = f32(loc.a) + f32(helper());
}`
	ast, err := Parse(src)
	if err != nil {
		t.Fatal(err)
	}
	m, err := wgsl.Lower(ast)
	if err != nil {
		t.Fatal(err)
	}
	out, _, err := hlsl.Compile(m, hlsl.DefaultOptions())
	if err != nil {
		t.Fatal(err)
	}
	for _, line := range strings.Split(out, "\n") {
		l := strings.TrimSpace(line)
		if strings.HasPrefix(l, "MyRayQueryData ") && strings.HasSuffix(l, ";") && !strings.Contains(l, "=") && !strings.Contains(l, "(") {
			t.Errorf("local declared without zero initialiser: %s", l)
		}
	}
}
