package naga_test

// F33 (C03/C17, found by rule enummap.hlsl.format): storageFormatToHLSL mapped
// rg32uint to int4 and rg32sint to uint4 (the two were swapped between the
// signed and unsigned arms), so a texture_storage_2d<rg32uint, ...> was
// declared RWTexture2D<int4>: the declared component type contradicts the
// UINT resource format the WGSL attribute prescribes. Fixed by /repo commit ee43f2a.
// Copy into /repo (package naga_test) and run: go test -run TestF33 .

import (
	"strings"
	"testing"

	"github.com/gogpu/naga/hlsl"
	"github.com/gogpu/naga"
)

func TestF33Rg32StorageFormats(t *testing.T) {
	for _, c := range []struct{ format, elem, want string }{
		{"rg32uint", "u32", "RWTexture2D<uint4>"},
		{"rg32sint", "i32", "RWTexture2D<int4>"},
	} {
		src := "@group(0) @binding(0) var t: texture_storage_2d<" + c.format + ", write>;\n" +
			"@compute @workgroup_size(1) fn main() { textureStore(t, vec2<i32>(0, 0), vec4<" + c.elem + ">(1, 2, 3, 4)); }"
		ast, err := naga.Parse(src)
		if err != nil {
			t.Fatal(err)
		}
		mod, err := naga.Lower(ast)
		if err != nil {
			t.Fatal(err)
		}
		out, _, err := hlsl.Compile(mod, hlsl.DefaultOptions())
		if err != nil {
			t.Fatal(err)
		}
		if !strings.Contains(out, c.want) {
			t.Errorf("%s: HLSL does not declare %s:\n%s", c.format, c.want, out)
		}
	}
}
