package naga

// F39 (C04): MSL rendered a scalar-condition select as a bare ternary where
// it is an operand of a binary operator, and wrote the base of a dynamic
// access on a value without parentheses. Copy into /repo and run
//   go test -vet=off -count=1 -run TestF39 .
// Fails before fix a2ec01e, passes after.

import (
	"strings"
	"testing"

	"github.com/gogpu/naga/msl"
	"github.com/gogpu/naga/wgsl"
)

func TestF39(t *testing.T) {
	src := `@group(0) @binding(0) var<storage,read_write> o: array<f32>;
@group(0) @binding(1) var<storage,read_write> v: array<vec4<f32>>;
@compute @workgroup_size(1) fn main(@builtin(global_invocation_id) g: vec3<u32>){
 let x = o[0]; let c = o[1] < o[2];
 o[3] = x + select(1.0, 2.0, c);
 o[4] = select(1.0, 2.0, c) * x;
 o[9] = select(v[0], v[1], c)[g.x];
 o[10] = (v[0] + v[1])[g.x];
}`
	ast, err := Parse(src)
	if err != nil {
		t.Fatal(err)
	}
	m, err := wgsl.Lower(ast)
	if err != nil {
		t.Fatal(err)
	}
	out, _, err := msl.Compile(m, msl.DefaultOptions())
	if err != nil {
		t.Fatal(err)
	}
	for _, bad := range []string{"x + c ? ", "1.0 * x", " : _e"} {
		for _, line := range strings.Split(out, "\n") {
			if strings.Contains(line, "o[") && strings.Contains(line, " = ") && strings.Contains(line, bad) && !strings.Contains(line, "(c ?") {
				t.Errorf("unparenthesised ternary operand: %s", strings.TrimSpace(line))
			}
		}
	}
	if !strings.Contains(out, "x + (c ? 2.0 : 1.0)") || !strings.Contains(out, "(c ? 2.0 : 1.0) * x") {
		t.Errorf("select operands of binary operators are not parenthesised:\n%s", out)
	}
	if strings.Contains(out, "+ _e") && !strings.Contains(out, ")[") {
		t.Errorf("base of dynamic access not parenthesised:\n%s", out)
	}
}
