package naga

import (
	"strings"
	"testing"

	"github.com/gogpu/naga/msl"
)

// F117: MSL writes the break-if condition of a loop after the names baked by
// the continuing block have been dropped, so the condition is expanded again
// from its operands - and re-reads variables the continuing block has
// assigned in between. `let c = i >= 4u; i = i + 1u; break if c;` tests the
// incremented i: the loop runs one iteration less than WGSL prescribes. The
// Rust reference and the golden files spell it the same way.
func TestF117MSLBreakIfReadsAfterContinuingAssignments(t *testing.T) {
	src := `
@group(0) @binding(0) var<storage, read_write> out: array<u32, 8>;
@compute @workgroup_size(1) fn main() {
  var i: u32 = 0u;
  loop {
    out[i] = i;
    continuing {
      let c = i >= 4u;
      i = i + 1u;
      break if c;
    }
  }
}
`
	ast, err := Parse(src)
	if err != nil {
		t.Fatal(err)
	}
	mod, err := Lower(ast)
	if err != nil {
		t.Fatal(err)
	}
	out, _, err := msl.Compile(mod, msl.DefaultOptions())
	if err != nil {
		t.Fatal(err)
	}
	if strings.Contains(out, "if (i >= 4u)") {
		t.Errorf("the break-if condition re-reads i after `i = i + 1u`:\n%s", out)
	}
}
