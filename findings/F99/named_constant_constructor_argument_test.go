package naga

// F99 (C03-C05, C09; fixed by 5e286e0): vec2<f32>(K, -K) with 'const K = 3' as a
// module-scope initialiser: the abstract constant kept its i32 literal inside a
// float vector, and -K stayed an ExprUnary global expression (HLSL rejected the
// program, GLSL / MSL wrote 0 / {} for it - F93).
// Copy into /repo and run  go test -vet=off -count=1 -run TestF99 .

import (
	"strings"
	"testing"

	"github.com/gogpu/naga/glsl"
	"github.com/gogpu/naga/hlsl"
	"github.com/gogpu/naga/wgsl"
)

func TestF99(t *testing.T) {
	src := `const K = 3;
var<private> tf: vec2<f32> = vec2<f32>(K, -K);
const KI: i32 = 3;
var<private> ti: vec2<i32> = vec2<i32>(KI, -KI);
@group(0) @binding(0) var<storage, read_write> o: array<f32>;
@compute @workgroup_size(1) fn main(){ o[0] = tf.y + f32(ti.y); }`
	ast, err := Parse(src)
	if err != nil {
		t.Fatal(err)
	}
	m, err := wgsl.Lower(ast)
	if err != nil {
		t.Fatal(err)
	}
	opts := glsl.DefaultOptions()
	opts.EntryPoint = "main"
	out, _, err := glsl.Compile(m, opts)
	if err != nil {
		t.Fatal(err)
	}
	if !strings.Contains(out, "vec2(3.0, -3.0)") || !strings.Contains(out, "ivec2(3, -3)") {
		t.Errorf("glsl: named constants in a constructor initialiser (abstract K in a float vector, -K):\n%s", out)
	}
	if _, _, err := hlsl.Compile(m, hlsl.DefaultOptions()); err != nil {
		t.Errorf("hlsl rejects the valid program: %v", err)
	}
}
