// Drop into the repository ROOT directory (package naga, next to naga.go) and run:
//   go test -vet=off -count=1 -run TestDemoD2 .
package naga

import (
	"strings"
	"testing"

	"github.com/gogpu/naga/glsl"
	"github.com/gogpu/naga/ir"
)

func demoD2Lower(t *testing.T, src string) *ir.Module {
	t.Helper()
	ast, err := Parse(src)
	if err != nil {
		t.Fatalf("parse: %v", err)
	}
	m, err := LowerWithSource(ast, src)
	if err != nil {
		t.Fatalf("lower: %v", err)
	}
	return m
}

// The override reference `scale` becomes ExprConstant + a shadow Literal in
// ir.ProcessOverrides (rebuildFunctionExpressions), so every later expression
// handle of main shifts by one. overrideRemapExprHandles must apply that shift
// to all handle fields of later expressions.
const demoD2GradSrc = `
override scale: f32 = 2.0;
@group(0) @binding(0) var t: texture_2d<f32>;
@group(0) @binding(1) var s: sampler;
@fragment
fn main(@location(0) uv: vec2<f32>) -> @location(0) vec4<f32> {
    let k = scale;
    let dx = vec2<f32>(uv.x * k, 0.0);
    let dy = vec2<f32>(0.0, uv.y * k);
    return textureSampleGrad(t, s, uv, dx, dy);
}`

const demoD2RayQuerySrc = `
enable wgpu_ray_query;
override tmax: f32 = 100.0;
@group(0) @binding(0) var acc: acceleration_structure;
@group(0) @binding(1) var<storage, read_write> out: array<u32>;
@compute @workgroup_size(1)
fn main() {
    let far = tmax;
    var rq: ray_query;
    rayQueryInitialize(&rq, acc, RayDesc(4u, 0xFFu, 0.1, far, vec3<f32>(0.0), vec3<f32>(0.0, 1.0, 0.0)));
    while (rayQueryProceed(&rq)) {}
    let hit = rayQueryGetCommittedIntersection(&rq);
    out[0] = hit.kind;
}`

func TestDemoD2(t *testing.T) {
	// --- (a) SampleLevelGradient{X, Y}: IR level ---------------------------------
	m := demoD2Lower(t, demoD2GradSrc)
	if err := ir.ProcessOverrides(m, ir.PipelineConstants{"scale": 3}); err != nil {
		t.Fatalf("ProcessOverrides: %v", err)
	}
	fn := &m.EntryPoints[0].Function
	foundGrad := false
	for h, e := range fn.Expressions {
		is, ok := e.Kind.(ir.ExprImageSample)
		if !ok {
			continue
		}
		g, ok := is.Level.(ir.SampleLevelGradient)
		if !ok {
			t.Fatalf("[%d] ImageSample.Level is %T, want SampleLevelGradient", h, is.Level)
		}
		foundGrad = true
		// dx and dy are vec2<f32>(...) constructors in the source.
		for name, gh := range map[string]ir.ExpressionHandle{"X": g.X, "Y": g.Y} {
			if _, ok := fn.Expressions[gh].Kind.(ir.ExprCompose); !ok {
				t.Errorf("after ProcessOverrides: [%d] ImageSample.Level.%s = [%d] which is %T (%+v); want the vec2 ExprCompose built for the gradient",
					h, name, gh, fn.Expressions[gh].Kind, fn.Expressions[gh].Kind)
			}
		}
	}
	if !foundGrad {
		t.Fatalf("demo is stale: no ExprImageSample in main")
	}

	// --- (a') same input, end to end through the GLSL backend -------------------
	// glsl.Compile runs ir.ProcessOverrides itself when PipelineConstants are set.
	out, _, err := glsl.Compile(demoD2Lower(t, demoD2GradSrc), glsl.Options{
		LangVersion:       glsl.Version{Major: 3, Minor: 30},
		PipelineConstants: ir.PipelineConstants{"scale": 3},
	})
	if err != nil {
		t.Fatalf("glsl.Compile: %v", err)
	}
	var gradLine string
	for _, l := range strings.Split(out, "\n") {
		if strings.Contains(l, "textureGrad(") {
			gradLine = strings.TrimSpace(l)
		}
	}
	if !strings.Contains(gradLine, ", dx, dy)") {
		t.Errorf("GLSL samples with the wrong gradients:\n    got : %s\n    want: ... textureGrad(<tex>, <uv>, dx, dy);", gradLine)
	}

	// --- (b) ExprRayQueryGetIntersection{Query} ------------------------------------
	m = demoD2Lower(t, demoD2RayQuerySrc)
	if err := ir.ProcessOverrides(m, ir.PipelineConstants{"tmax": 50}); err != nil {
		t.Fatalf("ProcessOverrides: %v", err)
	}
	fn = &m.EntryPoints[0].Function
	foundRQ := false
	for h, e := range fn.Expressions {
		gi, ok := e.Kind.(ir.ExprRayQueryGetIntersection)
		if !ok {
			continue
		}
		foundRQ = true
		if _, ok := fn.Expressions[gi.Query].Kind.(ir.ExprLocalVariable); !ok {
			t.Errorf("after ProcessOverrides: [%d] RayQueryGetIntersection.Query = [%d] which is %T; want the ExprLocalVariable of `rq`",
				h, gi.Query, fn.Expressions[gi.Query].Kind)
		}
	}
	if !foundRQ {
		t.Fatalf("demo is stale: no ExprRayQueryGetIntersection in main")
	}
}
