// Drop into the repository ROOT directory (package naga, next to naga.go) and run:
//   go test -vet=off -count=1 -run TestDemoD1 .
package naga

import (
	"fmt"
	"testing"

	"github.com/gogpu/naga/dxil"
	"github.com/gogpu/naga/ir"
)

// Every helper below contains one statement kind whose expression handles
// ir.InlineUserFunctions (remapInlineStatementHandles) forgets to renumber.
const demoD1Src = `
enable wgpu_ray_query;

@group(0) @binding(0) var<storage, read_write> a: atomic<u32>;
@group(0) @binding(1) var<storage, read_write> out: array<u32>;
@group(0) @binding(2) var img: texture_storage_2d<r32uint, atomic>;
@group(0) @binding(3) var acc: acceleration_structure;
var<workgroup> wg: u32;

fn cas(cmp: u32, v: u32) -> u32 {
    let r = atomicCompareExchangeWeak(&a, cmp, v);
    return r.old_value;
}

fn wul() -> u32 {
    return workgroupUniformLoad(&wg);
}

fn sg(x: u32, p: bool) -> u32 {
    let b = subgroupBallot(p);
    let s = subgroupAdd(x);
    let g = subgroupBroadcast(x, 1u);
    return b.x + s + g;
}

fn tex(c: vec2<i32>, v: u32) {
    textureAtomicAdd(img, c, v);
}

fn rq(pos: vec3<f32>, dir: vec3<f32>) -> bool {
    var q: ray_query;
    rayQueryInitialize(&q, acc, RayDesc(4u, 0xFFu, 0.1, 100.0, pos, dir));
    return rayQueryProceed(&q);
}

@compute @workgroup_size(64)
fn main(@builtin(local_invocation_index) i: u32) {
    let x = i * 3u + 1u;
    let y = x * x;
    out[0] = cas(x, y);
    out[1] = wul();
    out[2] = sg(y, x > 4u);
    tex(vec2<i32>(i32(x), i32(y)), y);
    if rq(vec3<f32>(f32(x)), vec3<f32>(f32(y))) { out[3] = 1u; }
}
`

func demoD1Lower(t *testing.T, src string) *ir.Module {
	t.Helper()
	ast, err := Parse(src)
	if err != nil {
		t.Fatalf("parse: %v", err)
	}
	m, err := LowerWithSource(ast, src)
	if err != nil {
		t.Fatalf("lower: %v", err)
	}
	return m
}

func TestDemoD1(t *testing.T) {
	m := demoD1Lower(t, demoD1Src)
	ep := &m.EntryPoints[0].Function
	nPre := len(ep.Expressions) // main() itself contains none of the statements below

	if err := ir.InlineUserFunctions(m, nil); err != nil {
		t.Fatalf("InlineUserFunctions: %v", err)
	}

	// All statements of the kinds below were copied from a helper, so every
	// handle they hold must have been renumbered into the freshly appended
	// part of main's arena (>= nPre) and must denote the right kind of node.
	seen := map[string]bool{}
	check := func(stmt, field string, h ir.ExpressionHandle, wantKind string) {
		seen[stmt] = true
		if int(h) >= len(ep.Expressions) {
			t.Errorf("%s.%s = [%d]: out of range", stmt, field, h)
			return
		}
		got := fmt.Sprintf("%T", ep.Expressions[h].Kind)
		if int(h) < nPre {
			t.Errorf("%s.%s = [%d] (%s): still the callee's numbering, points at an unrelated expression of main (arena had %d expressions before inlining)",
				stmt, field, h, got, nPre)
			return
		}
		if wantKind != "" && got != wantKind {
			t.Errorf("%s.%s = [%d] is %s, want %s", stmt, field, h, got, wantKind)
		}
	}
	var walk func(b ir.Block)
	walk = func(b ir.Block) {
		for _, s := range b {
			switch k := s.Kind.(type) {
			case ir.StmtBlock:
				walk(k.Block)
			case ir.StmtIf:
				walk(k.Accept)
				walk(k.Reject)
			case ir.StmtLoop:
				walk(k.Body)
				walk(k.Continuing)
			case ir.StmtSwitch:
				for _, c := range k.Cases {
					walk(c.Body)
				}
			case ir.StmtAtomic:
				check("StmtAtomic", "Pointer", k.Pointer, "ir.ExprGlobalVariable")
				check("StmtAtomic", "Value", k.Value, "ir.ExprLoad")
				if ex, ok := k.Fun.(ir.AtomicExchange); ok && ex.Compare != nil {
					// cmp is a spilled scalar argument: must be a Load of the spill slot.
					check("StmtAtomic", "Fun.Compare", *ex.Compare, "ir.ExprLoad")
				} else {
					t.Errorf("StmtAtomic lost its compare operand")
				}
			case ir.StmtWorkGroupUniformLoad:
				check("StmtWorkGroupUniformLoad", "Pointer", k.Pointer, "ir.ExprGlobalVariable")
				check("StmtWorkGroupUniformLoad", "Result", k.Result, "ir.ExprWorkGroupUniformLoadResult")
			case ir.StmtSubgroupBallot:
				check("StmtSubgroupBallot", "Result", k.Result, "ir.ExprSubgroupBallotResult")
				if k.Predicate != nil {
					check("StmtSubgroupBallot", "Predicate", *k.Predicate, "ir.ExprLoad")
				}
			case ir.StmtSubgroupCollectiveOperation:
				check("StmtSubgroupCollectiveOperation", "Argument", k.Argument, "ir.ExprLoad")
				check("StmtSubgroupCollectiveOperation", "Result", k.Result, "ir.ExprSubgroupOperationResult")
			case ir.StmtSubgroupGather:
				check("StmtSubgroupGather", "Argument", k.Argument, "ir.ExprLoad")
				check("StmtSubgroupGather", "Result", k.Result, "ir.ExprSubgroupOperationResult")
				if bc, ok := k.Mode.(ir.GatherBroadcast); ok {
					check("StmtSubgroupGather", "Mode.Index", bc.Index, "ir.Literal")
				}
			case ir.StmtImageAtomic:
				check("StmtImageAtomic", "Image", k.Image, "ir.ExprGlobalVariable")
				check("StmtImageAtomic", "Coordinate", k.Coordinate, "")
				check("StmtImageAtomic", "Value", k.Value, "ir.ExprLoad")
			case ir.StmtRayQuery:
				check("StmtRayQuery", "Query", k.Query, "ir.ExprLocalVariable")
				switch f := k.Fun.(type) {
				case ir.RayQueryInitialize:
					check("StmtRayQuery", "Fun.AccelerationStructure", f.AccelerationStructure, "ir.ExprGlobalVariable")
					check("StmtRayQuery", "Fun.Descriptor", f.Descriptor, "ir.ExprCompose")
				case ir.RayQueryProceed:
					check("StmtRayQuery", "Fun.Result", f.Result, "ir.ExprRayQueryProceedResult")
				}
			}
		}
	}
	walk(ep.Body)
	for _, want := range []string{"StmtAtomic", "StmtWorkGroupUniformLoad", "StmtSubgroupBallot",
		"StmtSubgroupCollectiveOperation", "StmtSubgroupGather", "StmtImageAtomic", "StmtRayQuery"} {
		if !seen[want] {
			t.Errorf("demo is stale: no %s found in main after inlining", want)
		}
	}

	// End-to-end symptom through the only production user of the pass
	// (dxil.Compile inlines every helper that touches a global or returns
	// bool/aggregate): the stale Result handles make the DXIL emitter fail.
	for name, src := range map[string]string{
		"workgroupUniformLoad in helper": `
@group(0) @binding(1) var<storage, read_write> out: array<u32>;
var<workgroup> wg: u32;
fn wul() -> u32 { return workgroupUniformLoad(&wg); }
@compute @workgroup_size(64)
fn main(@builtin(local_invocation_index) i: u32) {
    let x = i * 3u + 1u;
    out[1] = wul() + x;
}`,
		"subgroup ops in helper": `
@group(0) @binding(1) var<storage, read_write> out: array<u32>;
fn sg(x: u32, p: bool) -> vec4<u32> {
    let b = subgroupBallot(p);
    let s = subgroupAdd(x);
    let g = subgroupBroadcast(x, 1u);
    return b + vec4(s + g);
}
@compute @workgroup_size(64)
fn main(@builtin(local_invocation_index) i: u32) {
    let x = i * 3u + 1u;
    let y = x * x;
    out[2] = sg(y, x > 4u).x;
}`,
	} {
		if _, err := dxil.Compile(demoD1Lower(t, src), dxil.DefaultOptions()); err != nil {
			t.Errorf("dxil.Compile (%s): %v", name, err)
		}
	}
}
