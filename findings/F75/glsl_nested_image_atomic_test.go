package naga

// F75 (C05, C08; fixed by e4a297f): the GLSL feature scan looked at top-level
// statements only; a textureAtomic* nested in an if / loop / switch did not
// request GL_OES_shader_image_atomic (required on ES 3.10).
// Copy into /repo and run  go test -vet=off -count=1 -run TestF75 .

import (
	"strings"
	"testing"

	"github.com/gogpu/naga/glsl"
	"github.com/gogpu/naga/wgsl"
)

func TestF75(t *testing.T) {
	src := `@group(0) @binding(0) var img: texture_storage_2d<r32uint, atomic>;
@compute @workgroup_size(1) fn main(@builtin(global_invocation_id) id: vec3<u32>){
 if id.x > 1u { textureAtomicMax(img, vec2<i32>(id.xy), 5u); }
}`
	ast, err := Parse(src)
	if err != nil {
		t.Fatal(err)
	}
	m, err := wgsl.Lower(ast)
	if err != nil {
		t.Fatal(err)
	}
	opts := glsl.DefaultOptions()
	opts.EntryPoint = "main"
	opts.LangVersion = glsl.Version{Major: 3, Minor: 10, ES: true}
	out, _, err := glsl.Compile(m, opts)
	if err != nil {
		t.Fatal(err)
	}
	if !strings.Contains(out, "GL_OES_shader_image_atomic") {
		t.Errorf("no image-atomics extension for a textureAtomicMax nested in an if:\n%s", out)
	}
}
