package naga

// F57 (C09): statements lowered from builtin calls in expression position
// (atomicStore, textureAtomic*, rayQueryGenerateIntersection ...) were appended
// before the Emit that covers their operands. Copy into /repo and run
//   go test -vet=off -count=1 -run TestF57 .

import (
	"testing"

	"github.com/gogpu/naga/ir"
	"github.com/gogpu/naga/wgsl"
)

func TestF57(t *testing.T) {
	src := `var<workgroup> a: atomic<i32>;
@group(0) @binding(2) var ai: texture_storage_2d<r32uint, atomic>;
@compute @workgroup_size(1) fn f(@builtin(global_invocation_id) g: vec3<u32>) {
 atomicStore(&a, i32(g.x) + 1);
 textureAtomicAdd(ai, vec2<i32>(g.xy) + vec2<i32>(2), g.y * 3u);
}`
	ast, err := Parse(src)
	if err != nil {
		t.Fatal(err)
	}
	m, err := wgsl.Lower(ast)
	if err != nil {
		t.Fatal(err)
	}
	emitted := map[ir.ExpressionHandle]bool{}
	fn := &m.EntryPoints[0].Function
	needs := func(h ir.ExpressionHandle) bool {
		switch fn.Expressions[h].Kind.(type) {
		case ir.ExprBinary, ir.ExprAs, ir.ExprCompose, ir.ExprLoad, ir.ExprAccessIndex, ir.ExprSwizzle:
			return true
		}
		return false
	}
	for i, st := range fn.Body {
		switch k := st.Kind.(type) {
		case ir.StmtEmit:
			for h := k.Range.Start; h < k.Range.End; h++ {
				emitted[h] = true
			}
		case ir.StmtStore:
			if needs(k.Value) && !emitted[k.Value] {
				t.Errorf("statement %d: Store uses expression %d before its Emit", i, k.Value)
			}
		case ir.StmtImageAtomic:
			if needs(k.Value) && !emitted[k.Value] {
				t.Errorf("statement %d: ImageAtomic uses expression %d before its Emit", i, k.Value)
			}
		}
	}
}
