package naga

// F63 (C11): an undeclared type in a let / const annotation or as the scalar
// parameter of a matrix constructor was accepted silently.
// Copy into /repo and run  go test -vet=off -count=1 -run TestF63 .

import "testing"

func TestF63(t *testing.T) {
	for _, src := range []string{
		`@compute @workgroup_size(1) fn f(){ let x: bogus = 1; }`,
		`@compute @workgroup_size(1) fn f(){ const y: nope = 1; }`,
		`@compute @workgroup_size(1) fn f(){ let m = mat2x2<bogus>(1.0, 2.0, 3.0, 4.0); }`,
	} {
		if _, err := Compile(src); err == nil {
			t.Errorf("undeclared type accepted: %s", src)
		}
	}
}
