package naga

// F68 (C17; known finding, not repaired): the SPIR-V backend never reads
// BuiltinBinding.Invariant, so @invariant @builtin(position) is emitted without
// the Invariant decoration. The golden spv/interface.spvasm (whose WGSL source
// declares @invariant) lacks the decoration, so the repair changes it.
// Copy into /repo and run  go test -vet=off -count=1 -run TestF68 .  (fails)

import (
	"encoding/binary"
	"testing"
)

func TestF68(t *testing.T) {
	src := `struct VO { @invariant @builtin(position) p: vec4<f32> }
@vertex fn vs() -> VO { return VO(vec4<f32>(0.0)); }`
	out, err := Compile(src)
	if err != nil {
		t.Fatal(err)
	}
	found := false
	for i := 20; i < len(out); {
		w := binary.LittleEndian.Uint32(out[i:])
		op, wc := w&0xffff, int(w>>16)
		if wc == 0 {
			break
		}
		if op == 71 && wc >= 3 && binary.LittleEndian.Uint32(out[i+8:]) == 18 { // OpDecorate ... Invariant
			found = true
		}
		i += wc * 4
	}
	if !found {
		t.Errorf("@invariant position output carries no Invariant decoration")
	}
}
