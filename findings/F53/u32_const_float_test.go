package naga

// F53 (C06): a u32 module constant >= 2^31 used in a float constant expression
// was widened through int32 and became negative. Copy into /repo and run
//   go test -vet=off -count=1 -run TestF53 .

import (
	"strings"
	"testing"

	"github.com/gogpu/naga/glsl"
	"github.com/gogpu/naga/wgsl"
)

func TestF53(t *testing.T) {
	src := `const K: u32 = 4000000000u;
const A = array<f32, 2>(f32(K), 1.0);
@group(0) @binding(0) var<storage,read_write> o: array<f32>;
@compute @workgroup_size(1) fn main(){ o[0] = A[0]; }`
	ast, err := Parse(src)
	if err != nil {
		t.Fatal(err)
	}
	m, err := wgsl.Lower(ast)
	if err != nil {
		t.Fatal(err)
	}
	out, _, err := glsl.Compile(m, glsl.DefaultOptions())
	if err != nil {
		t.Fatal(err)
	}
	if strings.Contains(out, "-2.9") {
		t.Errorf("f32(4000000000u) was evaluated as a negative number:\n%s", out)
	}
}
