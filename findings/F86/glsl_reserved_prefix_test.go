package naga

// F86 (C16; fixed by 27c0503): the GLSL namer had no reserved prefixes: fn gl_foo
// kept its (reserved) name, and var<private> _group_0_binding_0_vs shared its
// spelling with the invented uniform block member.
// Copy into /repo and run  go test -vet=off -count=1 -run TestF86 .

import (
	"regexp"
	"strings"
	"testing"

	"github.com/gogpu/naga/glsl"
	"github.com/gogpu/naga/wgsl"
)

func TestF86(t *testing.T) {
	src := `@group(0) @binding(0) var<uniform> scale: f32;
var<private> _group_0_binding_0_vs: f32 = 1.0;
fn gl_foo(x: f32) -> f32 { return x * 2.0; }
@vertex fn main() -> @builtin(position) vec4<f32> { return vec4<f32>(gl_foo(scale) + _group_0_binding_0_vs); }`
	ast, err := Parse(src)
	if err != nil {
		t.Fatal(err)
	}
	m, err := wgsl.Lower(ast)
	if err != nil {
		t.Fatal(err)
	}
	opts := glsl.DefaultOptions()
	opts.EntryPoint = "main"
	out, _, err := glsl.Compile(m, opts)
	if err != nil {
		t.Fatal(err)
	}
	if regexp.MustCompile(`float gl_foo\(`).MatchString(out) {
		t.Errorf("a user function keeps the reserved gl_ prefix:\n%s", out)
	}
	if strings.Contains(out, "float _group_0_binding_0_vs = 1.0;") {
		t.Errorf("a user variable and the uniform block member share the spelling _group_0_binding_0_vs:\n%s", out)
	}
}
