package naga

// F88 (C08, C19; fixed by 224a70c): lowerCall recognised built-in names before it
// consulted the declared functions: a user function named step, min or vecs
// (valid WGSL: module-scope declarations shadow predeclared names) could not
// be called.
// Copy into /repo and run  go test -vet=off -count=1 -run TestF88 .

import (
	"testing"

	"github.com/gogpu/naga/wgsl"
)

func TestF88(t *testing.T) {
	for _, src := range []string{
		`fn step(p: ptr<function, i32>) { *p = *p + 1; }
@compute @workgroup_size(1) fn main(){ var i = 0; step(&i); }`,
		`@group(0) @binding(0) var<storage, read_write> o: array<i32>;
fn min(a: i32) -> i32 { return a - 1; }
@compute @workgroup_size(1) fn main(){ o[0] = min(5); }`,
		`@group(0) @binding(0) var<storage, read_write> o: array<i32>;
fn vecs(a: i32) -> i32 { return a + 1; }
@compute @workgroup_size(1) fn main(){ o[0] = vecs(1); }`,
	} {
		ast, err := Parse(src)
		if err != nil {
			t.Errorf("parse: %v\n%s", err, src)
			continue
		}
		m, err := wgsl.Lower(ast)
		if err != nil {
			t.Errorf("a user function named like a built-in is not called: %v\n%s", err, src)
			continue
		}
		if errs, err := Validate(m); err != nil || len(errs) > 0 {
			t.Errorf("validate: %v %v\n%s", errs, err, src)
		}
	}
}
