package naga

import (
	"strings"
	"testing"

	"github.com/gogpu/naga/glsl"
	"github.com/gogpu/naga/ir"
)

// A supplied pipeline-constant value is converted to the override's type
// (2.5 -> i32 2, 3.9 -> u32 3). Everything derived from the override - here the
// initialisers of module-scope variables - must be computed from that converted
// value, exactly as if the WGSL source said `const steps: i32 = 2;`.
const seedDemoSrc = `
override steps: i32 = 1;
override lanes: u32 = 1u;

var<private> total: i32 = steps * 3;
var<private> width: u32 = lanes * 4u;

@group(0) @binding(0) var<storage, read_write> out: array<i32, 4>;

@compute @workgroup_size(1)
fn main() {
    out[0] = total;
    out[1] = steps * 3;
    out[2] = i32(width);
}
`

func seedDemoLower(t *testing.T) *ir.Module {
	t.Helper()
	ast, err := Parse(seedDemoSrc)
	if err != nil {
		t.Fatalf("parse: %v", err)
	}
	m, err := Lower(ast)
	if err != nil {
		t.Fatalf("lower: %v", err)
	}
	return m
}

func seedDemoGlobalInit(t *testing.T, m *ir.Module, name string) ir.LiteralValue {
	t.Helper()
	for i := range m.GlobalVariables {
		gv := &m.GlobalVariables[i]
		if gv.Name != name {
			continue
		}
		if gv.InitExpr == nil {
			t.Fatalf("global %q has no initialiser", name)
		}
		lit, ok := m.GlobalExpressions[*gv.InitExpr].Kind.(ir.Literal)
		if !ok {
			t.Fatalf("global %q initialiser is %T, want a literal after override resolution",
				name, m.GlobalExpressions[*gv.InitExpr].Kind)
		}
		return lit.Value
	}
	t.Fatalf("global %q not found", name)
	return nil
}

func seedDemoConstant(t *testing.T, m *ir.Module, name string) ir.LiteralValue {
	t.Helper()
	for i := range m.Constants {
		c := &m.Constants[i]
		if c.Name != name {
			continue
		}
		lit, ok := m.GlobalExpressions[c.Init].Kind.(ir.Literal)
		if !ok {
			t.Fatalf("constant %q init is %T, want a literal", name, m.GlobalExpressions[c.Init].Kind)
		}
		return lit.Value
	}
	t.Fatalf("constant %q not found after override resolution", name)
	return nil
}

func TestSeedDemoOverrideGlobalInitUsesConvertedValue(t *testing.T) {
	constants := ir.PipelineConstants{"steps": 2.5, "lanes": 3.9}

	// Through the exported resolution pass.
	m := ir.CloneModuleForOverrides(seedDemoLower(t))
	if err := ir.ProcessOverrides(m, constants); err != nil {
		t.Fatalf("ProcessOverrides: %v", err)
	}

	if got := seedDemoConstant(t, m, "steps"); got != ir.LiteralI32(2) {
		t.Fatalf("override steps: i32 supplied 2.5 resolved to %v, want 2", got)
	}
	if got := seedDemoConstant(t, m, "lanes"); got != ir.LiteralU32(3) {
		t.Fatalf("override lanes: u32 supplied 3.9 resolved to %v, want 3", got)
	}
	// steps == 2  =>  total = steps * 3 == 6
	if got := seedDemoGlobalInit(t, m, "total"); got != ir.LiteralI32(6) {
		t.Errorf("var<private> total: i32 = steps * 3 with steps=2 evaluated to %v, want 6", got)
	}
	// lanes == 3  =>  width = lanes * 4u == 12
	if got := seedDemoGlobalInit(t, m, "width"); got != ir.LiteralU32(12) {
		t.Errorf("var<private> width: u32 = lanes * 4u with lanes=3 evaluated to %v, want 12", got)
	}

	// Through a backend that accepts pipeline constants: the module-scope
	// initialiser and the same expression inside the function must agree.
	opts := glsl.DefaultOptions()
	opts.LangVersion = glsl.Version{Major: 4, Minor: 30}
	opts.EntryPoint = "main"
	opts.PipelineConstants = constants
	out, _, err := glsl.Compile(seedDemoLower(t), opts)
	if err != nil {
		t.Fatalf("glsl.Compile: %v", err)
	}
	if !strings.Contains(out, "int total = 6;") {
		t.Errorf("GLSL: want `int total = 6;` (steps converted to 2, times 3); output:\n%s", out)
	}
	if !strings.Contains(out, "uint width = 12u;") {
		t.Errorf("GLSL: want `uint width = 12u;` (lanes converted to 3, times 4); output:\n%s", out)
	}
}
