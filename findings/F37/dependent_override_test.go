package naga_test

// F37 (C14; found while triaging seed C14-d, guarded by rule override.converted):
// ProcessOverrides kept the RAW supplied f64 of an override in its table of resolved
// values, so everything evaluated from that table - the default initialisers of
// overrides that depend on it - used the unconverted number: with a: i32 supplied 2.5,
// 'override b: i32 = a * 2' became 5 although a itself is 2 (WGSL: b = 4).
// Fixed by /repo commit 0825971. Copy into /repo (package naga_test): go test -run TestF37 .

import (
	"strings"
	"testing"

	"github.com/gogpu/naga"
	"github.com/gogpu/naga/glsl"
	"github.com/gogpu/naga/ir"
)

func TestF37DependentOverrideUsesConvertedValue(t *testing.T) {
	src := "override a: i32 = 1;\noverride b: i32 = a * 2;\n" +
		"@group(0) @binding(0) var<storage, read_write> out: array<i32, 2>;\n" +
		"@compute @workgroup_size(1) fn main() { out[0] = a; out[1] = b; }"
	ast, err := naga.Parse(src)
	if err != nil {
		t.Fatal(err)
	}
	m, err := naga.Lower(ast)
	if err != nil {
		t.Fatal(err)
	}
	c := ir.CloneModuleForOverrides(m)
	if err := ir.ProcessOverrides(c, map[string]float64{"a": 2.5}); err != nil {
		t.Fatal(err)
	}
	out, _, err := glsl.Compile(c, glsl.DefaultOptions())
	if err != nil {
		t.Fatal(err)
	}
	if !strings.Contains(out, "const int a = 2;") || !strings.Contains(out, "const int b = 4;") {
		t.Errorf("want a = 2 and b = 4 (a converted to i32 before b is evaluated):\n%s", out)
	}
}
