package naga_test

// F34 (C08 / C19, found while triaging seed C11-c against rule astwalk/defafterinit):
// the dependency collector of the parser kept ONE set of local names per
// function and never removed a name when its block ended. A block-local
// (or for-init) declaration therefore hid a module-scope declaration of the
// same name for the rest of the function: the reference after the block was
// not recorded as a dependency, the function was lowered before the global,
// and a valid program was rejected with "unresolved identifier" - but only
// when the global is declared AFTER the function (declaration order is not
// significant in WGSL). Fixed by /repo commit 1add2db.
// Copy into /repo (package naga_test) and run: go test -run TestF34 .

import (
	"testing"

	"github.com/gogpu/naga"
)

func TestF34ClosedBlockDoesNotHideLaterGlobal(t *testing.T) {
	for name, src := range map[string]string{
		"block": "@group(0) @binding(0) var<storage, read_write> out: array<i32, 4>;\n@compute @workgroup_size(1) fn main() {\n  { let K = 1; out[0] = K; }\n  out[1] = K;\n}\nconst K = 7;\n",
		"for-init": "@group(0) @binding(0) var<storage, read_write> out: array<i32, 4>;\nfn h() -> i32 {\n  for (var K = 0; K < 2; K++) { }\n  return K;\n}\n@compute @workgroup_size(1) fn main() { out[0] = h(); }\nconst K = 7;\n",
	} {
		if _, err := naga.Compile(src); err != nil {
			t.Errorf("%s: valid program rejected: %v", name, err)
		}
	}
}
