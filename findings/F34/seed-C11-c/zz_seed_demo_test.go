package naga

import (
	"strings"
	"testing"
)

// A call to a user function with the wrong number (or types) of arguments must
// be rejected no matter where in the program it occurs, and must never be
// compiled to output. Here the callee is declared after the caller, and an
// earlier, already closed block of the caller happens to declare a local with
// the same name as the callee.
func TestSeedDemoWrongArgCountAfterScopedLocal(t *testing.T) {
	cases := []struct {
		name string
		src  string
		want string
	}{
		{
			name: "too_many_args",
			src: `@compute @workgroup_size(1)
fn main() {
    {
        let scale = 2u;
        _ = scale;
    }
    let r = scale(1u, 2u);
    _ = r;
}

fn scale(a: u32) -> u32 {
    return a * 2u;
}
`,
			want: "expects 1 argument(s), got 2",
		},
		{
			name: "too_few_args",
			src: `@compute @workgroup_size(1)
fn main() {
    for (var i = 0u; i < 2u; i++) {
        var scale = i;
        scale += 1u;
    }
    let r = scale(1u);
    _ = r;
}

fn scale(a: u32, b: u32) -> u32 {
    return a * b;
}
`,
			want: "expects 2 argument(s), got 1",
		},
		{
			name: "wrong_arg_type",
			src: `@compute @workgroup_size(1)
fn main() {
    if true {
        let scale = 2u;
        _ = scale;
    }
    let r = scale(vec2<u32>(1u, 2u));
    _ = r;
}

fn scale(a: u32) -> u32 {
    return a * 2u;
}
`,
			want: "type mismatch",
		},
	}

	for _, tc := range cases {
		t.Run(tc.name, func(t *testing.T) {
			ast, err := Parse(tc.src)
			if err != nil {
				t.Fatalf("source must parse, got: %v", err)
			}

			_, lowerErr := LowerWithSource(ast, tc.src)
			if lowerErr == nil {
				t.Errorf("lowering accepted a call with wrong arguments; want error containing %q", tc.want)
			} else {
				msg := lowerErr.Error()
				if !strings.Contains(msg, tc.want) {
					t.Errorf("lowering error %q does not contain %q", msg, tc.want)
				}
				// The position must fall inside fn main (lines 2..9 of the source).
				if !strings.HasPrefix(msg, "2:") {
					t.Errorf("error %q is not positioned at the declaration of fn main (line 2)", msg)
				}
			}

			out, err := Compile(tc.src)
			if err == nil {
				t.Errorf("Compile produced %d bytes of SPIR-V for an invalid program", len(out))
			}
		})
	}
}
