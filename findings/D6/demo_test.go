// Drop into msl/ (external test package msl_test; public APIs only).
// Run: go test -vet=off -count=1 -run TestDemoD6 ./msl/
package msl_test

import (
	"strings"
	"testing"

	"github.com/gogpu/naga"
	"github.com/gogpu/naga/msl"
)

// msl.Compile with PipelineConstants folds the override read into a literal
// and shifts the later expression handles of the function;
// adjustImageQuery copied ExprImageQuery.Query verbatim, so the mip level
// operand of textureDimensions(t, lvl) kept its old handle.
const demoD6Src = `
override base: u32 = 1u;
@group(0) @binding(0) var t: texture_2d<f32>;
@group(0) @binding(1) var<storage, read_write> out: array<u32>;
@compute @workgroup_size(1)
fn main(@builtin(local_invocation_index) i: u32) {
    let k = base * 2u;
    let lvl = i + k;
    let d = textureDimensions(t, lvl);
    out[0] = d.x;
}`

func TestDemoD6(t *testing.T) {
	ast, err := naga.Parse(demoD6Src)
	if err != nil {
		t.Fatal(err)
	}
	m, err := naga.LowerWithSource(ast, demoD6Src)
	if err != nil {
		t.Fatal(err)
	}
	opts := msl.DefaultOptions()
	opts.PipelineConstants = map[string]float64{"base": 2}
	out, _, err := msl.Compile(m, opts)
	if err != nil {
		t.Fatal(err)
	}
	// the level argument of get_width must be the baked `lvl` (i + 2u), not some other expression
	var line string
	for _, l := range strings.Split(out, "\n") {
		if strings.Contains(l, "get_width(") {
			line = l
		}
	}
	if line == "" {
		t.Fatalf("no get_width in output:\n%s", out)
	}
	if !strings.Contains(line, "get_width(lvl)") {
		t.Fatalf("textureDimensions level operand is not `lvl`: %q\n%s", strings.TrimSpace(line), out)
	}
}
