package naga

// F46 (C15): under msl.BoundsCheckRestrict a global that is itself a
// runtime-sized array (var<storage> d: array<f32>) was indexed without any
// clamp; only runtime arrays that are struct members were handled.
// Copy into /repo and run  go test -vet=off -count=1 -run TestF46 .

import (
	"strings"
	"testing"

	"github.com/gogpu/naga/msl"
	"github.com/gogpu/naga/wgsl"
)

func TestF46(t *testing.T) {
	src := `@group(0) @binding(0) var<storage,read_write> d: array<f32>;
@compute @workgroup_size(1) fn main(@builtin(global_invocation_id) g: vec3<u32>){
 d[g.x] = d[g.y] + d[3];
}`
	ast, err := Parse(src)
	if err != nil {
		t.Fatal(err)
	}
	m, err := wgsl.Lower(ast)
	if err != nil {
		t.Fatal(err)
	}
	o := msl.DefaultOptions()
	o.BoundsCheckPolicies.Buffer = msl.BoundsCheckRestrict
	o.BoundsCheckPolicies.Index = msl.BoundsCheckRestrict
	out, _, err := msl.Compile(m, o)
	if err != nil {
		t.Fatal(err)
	}
	for _, bad := range []string{"d[g.y]", "d[g.x]", "d[3]"} {
		if strings.Contains(out, bad) {
			t.Errorf("unclamped access %s under Restrict:\n%s", bad, out)
		}
	}
}
