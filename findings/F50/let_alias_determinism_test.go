package naga

// F50 (C12): several unused let aliases of one expression made the name of the
// emitted local depend on map iteration order (b, c or d from run to run).
// Copy into /repo and run  go test -vet=off -count=1 -run TestF50 .

import (
	"testing"

	"github.com/gogpu/naga/msl"
	"github.com/gogpu/naga/wgsl"
)

func TestF50(t *testing.T) {
	src := `@group(0) @binding(0) var<storage,read_write> o: array<f32>;
@compute @workgroup_size(1) fn main(){
 let a = o[1] * 2.0; let b = a; let c = a; let d = a;
 o[0] = 1.0;
}`
	seen := map[string]bool{}
	for i := 0; i < 200; i++ {
		ast, err := Parse(src)
		if err != nil {
			t.Fatal(err)
		}
		m, err := wgsl.Lower(ast)
		if err != nil {
			t.Fatal(err)
		}
		o := msl.DefaultOptions()
		o.FakeMissingBindings = true
		out, _, err := msl.Compile(m, o)
		if err != nil {
			t.Fatal(err)
		}
		seen[out] = true
	}
	if len(seen) != 1 {
		t.Errorf("%d distinct outputs for the same input", len(seen))
	}
}
