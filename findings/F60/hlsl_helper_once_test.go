package naga

// F60 (C03): the HLSL extractBits / insertBits helper overloads were written
// once per FUNCTION that uses them: two such functions gave two identical
// definitions (HLSL redefinition error). Copy into /repo and run
//   go test -vet=off -count=1 -run TestF60 .

import (
	"strings"
	"testing"

	"github.com/gogpu/naga/hlsl"
	"github.com/gogpu/naga/wgsl"
)

func TestF60(t *testing.T) {
	src := `@group(0) @binding(1) var<storage,read_write> o: array<u32>;
fn f(x: u32) -> u32 { return extractBits(x, 1u, 2u); }
fn g(x: u32) -> u32 { return extractBits(x, 2u, 3u) + insertBits(x, 1u, 0u, 2u); }
@compute @workgroup_size(1) fn main(@builtin(global_invocation_id) id: vec3<u32>){
 o[0] = f(id.x) + g(id.y) + insertBits(id.x, 3u, 1u, 2u);
}`
	ast, err := Parse(src)
	if err != nil {
		t.Fatal(err)
	}
	m, err := wgsl.Lower(ast)
	if err != nil {
		t.Fatal(err)
	}
	out, _, err := hlsl.Compile(m, hlsl.DefaultOptions())
	if err != nil {
		t.Fatal(err)
	}
	for _, h := range []string{"uint naga_extractBits(", "uint naga_insertBits("} {
		if n := strings.Count(out, h); n != 1 {
			t.Errorf("%s defined %d times", h, n)
		}
	}
}
