@group(0) @binding(0) var<storage, read_write> out: array<u32>;
@group(0) @binding(1) var<storage, read> inp: array<vec4<f32>>;
@compute @workgroup_size(1) fn main() { let v = inp[0] > vec4<f32>(0.5); if (all(v)) { out[0] = 1u; } if (any(v)) { out[1] = 1u; } }
