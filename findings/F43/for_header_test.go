package naga

// F43 (C11, C10): the parser accepted any statement in the init / update clause
// of a for loop. Invalid programs compiled, and 'for (;; break) {}' made the
// SPIR-V backend panic (nil current block). Copy into /repo and run
//   go test -vet=off -count=1 -run TestF43 .

import "testing"

func TestF43(t *testing.T) {
	for _, src := range []string{
		`@compute @workgroup_size(1) fn f(){ for (for (var j=0;j<1;j++) {} ;;) { break; } }`,
		`@compute @workgroup_size(1) fn f(){ for (if true { } ;;) { break; } }`,
		`@compute @workgroup_size(1) fn f(){ for (;; if true { }) { break; } }`,
		`@compute @workgroup_size(1) fn f(){ for (return;;) { break; } }`,
		`@compute @workgroup_size(1) fn f(){ for (;;break) { } }`,
		`@compute @workgroup_size(1) fn f(){ for (;;var k = 1) { break; } }`,
	} {
		func() {
			defer func() {
				if e := recover(); e != nil {
					t.Errorf("panic on %q: %v", src, e)
				}
			}()
			if _, err := Compile(src); err == nil {
				t.Errorf("invalid program accepted: %s", src)
			}
		}()
	}
	ok := `fn g() {} @compute @workgroup_size(1) fn f(){ var a = 0; for (var i = 0; i < 3; i++) { } for (let k = 1; a < 2; a += k) {} for (const c = 1;;g()) { break; } for (_ = 1; ; a--) { break; } for (;;) { break; } }`
	if _, err := Compile(ok); err != nil {
		t.Errorf("valid for headers rejected: %v", err)
	}
}
