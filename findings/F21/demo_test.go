// Drop into the repository ROOT directory (package naga) and run:
//   go test -vet=off -count=1 -run TestDemoF21 .
package naga

import (
	"testing"

	"github.com/gogpu/naga/ir"
)

// @group/@binding/@location/@blend_src accept any i32/u32 constant literal;
// the lowerer parsed them with strconv.ParseUint(text, 10, 32), dropped the
// error, and bound "1u" / "0x2" at 0.
func TestDemoF21(t *testing.T) {
	src := `
@group(1u) @binding(0x2) var<storage, read_write> out: array<f32>;
@fragment fn main(@location(3u) v: f32) -> @location(1u) vec4<f32> { out[0] = v; return vec4<f32>(v); }`
	ast, err := Parse(src)
	if err != nil {
		t.Fatal(err)
	}
	m, err := LowerWithSource(ast, src)
	if err != nil {
		t.Fatal(err)
	}
	b := m.GlobalVariables[0].Binding
	if b == nil || b.Group != 1 || b.Binding != 2 {
		t.Errorf("resource binding = %+v, want group 1 binding 2", b)
	}
	arg := m.EntryPoints[0].Function.Arguments[0].Binding
	if arg == nil {
		t.Fatal("no argument binding")
	}
	if lb, ok := (*arg).(ir.LocationBinding); !ok || lb.Location != 3 {
		t.Errorf("argument binding = %+v, want location 3", *arg)
	}
}
