package naga

import (
	"strings"
	"testing"

	"github.com/gogpu/naga/glsl"
	"github.com/gogpu/naga/hlsl"
	"github.com/gogpu/naga/ir"
)

// F122: names invented with a format that starts with a verb and do not go
// through the namer. HLSL spells the entry-point interface structs
// `<Stage>Input_<ep>` / `<Stage>Output_<ep>`, GLSL spells uniform / storage
// blocks `<Type>_block_<n><Stage>`; a user declaration with that spelling is
// defined a second time.
func TestF122InventedNamesCollideWithUserNames(t *testing.T) {
	lower := func(src string) *ir.Module {
		ast, err := Parse(src)
		if err != nil {
			t.Fatal(err)
		}
		mod, err := Lower(ast)
		if err != nil {
			t.Fatal(err)
		}
		return mod
	}
	h, _, err := hlsl.Compile(lower(`
struct FragmentInput_fs { @location(0) a: f32 }
@fragment fn fs(in: FragmentInput_fs, @builtin(sample_index) s: u32) -> @location(0) vec4<f32> { return vec4<f32>(in.a + f32(s)); }
`), hlsl.DefaultOptions())
	if err != nil {
		t.Fatal(err)
	}
	if n := strings.Count(h, "struct FragmentInput_fs"); n != 1 {
		t.Errorf("HLSL defines struct FragmentInput_fs %d times", n)
	}
	g, _, err := glsl.Compile(lower(`
struct S { a: f32 }
@group(0) @binding(0) var<uniform> u: S;
var<private> S_block_0Fragment: f32 = 1.0;
@fragment fn fs() -> @location(0) vec4<f32> { return vec4<f32>(u.a + S_block_0Fragment); }
`), glsl.DefaultOptions())
	if err != nil {
		t.Fatal(err)
	}
	if n := strings.Count(g, "S_block_0Fragment "); n > 1 && strings.Contains(g, "uniform S_block_0Fragment") && strings.Contains(g, "float S_block_0Fragment") {
		t.Errorf("GLSL declares S_block_0Fragment as a uniform block and as a variable:\n%s", g)
	}
}
