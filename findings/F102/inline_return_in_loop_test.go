package naga

// F102 (C13; fixed by 76cf8b4): ir.InlineUserFunctions rewrote 'return k' inside the
// callee's own loop to 'store; break' of that inner loop: after inlining,
// find() ran on to 'return 99u' every time.
// Copy into /repo and run  go test -vet=off -count=1 -run TestF102 .

import (
	"testing"

	"github.com/gogpu/naga/dxil"
	"github.com/gogpu/naga/ir"
	"github.com/gogpu/naga/wgsl"
)

func f102Module(t *testing.T) *ir.Module {
	src := `@group(0) @binding(0) var<storage, read_write> out: array<u32>;
fn find(n: u32) -> u32 { for (var k = 0u; k < 4u; k++) { if out[k] == n { return k; } } return 99u; }
@compute @workgroup_size(1) fn main(@builtin(local_invocation_index) i: u32){ out[5] = find(i); }`
	ast, err := Parse(src)
	if err != nil {
		t.Fatal(err)
	}
	m, err := wgsl.Lower(ast)
	if err != nil {
		t.Fatal(err)
	}
	return m
}

func TestF102(t *testing.T) {
	m := f102Module(t)
	if err := ir.InlineUserFunctions(m, func(*ir.Function) bool { return true }); err != nil {
		t.Fatal(err)
	}
	// After inlining, no StmtBreak that stands for the callee's `return k` may sit
	// inside the callee's own loop: there it only leaves that loop and the
	// following `return 99u` overwrites the result.
	fn := &m.EntryPoints[0].Function
	var nestedBreakAfterStore func(b ir.Block, depth int) bool
	nestedBreakAfterStore = func(b ir.Block, depth int) bool {
		for i, st := range b {
			switch k := st.Kind.(type) {
			case ir.StmtBreak:
				if depth >= 2 && i > 0 {
					if s, ok := b[i-1].Kind.(ir.StmtStore); ok {
						if lv, ok := fn.Expressions[s.Pointer].Kind.(ir.ExprLocalVariable); ok && len(fn.LocalVars[lv.Variable].Name) > 11 && fn.LocalVars[lv.Variable].Name[:12] == "_inline_ret_" {
							return true
						}
					}
				}
			case ir.StmtBlock:
				if nestedBreakAfterStore(k.Block, depth) {
					return true
				}
			case ir.StmtIf:
				if nestedBreakAfterStore(k.Accept, depth) || nestedBreakAfterStore(k.Reject, depth) {
					return true
				}
			case ir.StmtLoop:
				if nestedBreakAfterStore(k.Body, depth+1) || nestedBreakAfterStore(k.Continuing, depth+1) {
					return true
				}
			case ir.StmtSwitch:
				for _, c := range k.Cases {
					if nestedBreakAfterStore(c.Body, depth+1) {
						return true
					}
				}
			}
		}
		return false
	}
	if nestedBreakAfterStore(fn.Body, 0) {
		t.Errorf("the callee's `return k` inside its own loop became store + break of that inner loop: find() always yields 99")
	}
}

func TestF102DXIL(t *testing.T) {
	if _, err := dxil.Compile(f102Module(t), dxil.DefaultOptions()); err != nil {
		t.Errorf("dxil: %v", err)
	}
}
