package naga

// F98 (C18; fixed by 69e7c38): the OSG1 part named a fragment sample_mask output
// SV_Unknown6 (system value 0) while PSV0 and the metadata name the same
// element SV_Coverage: the container parts disagreed.
// Copy into /repo and run  go test -vet=off -count=1 -run TestF98 .

import (
	"bytes"
	"testing"

	"github.com/gogpu/naga/dxil"
	"github.com/gogpu/naga/wgsl"
)

func TestF98(t *testing.T) {
	src := `struct Out { @location(0) c: vec4<f32>, @builtin(sample_mask) m: u32 }
@fragment fn main() -> Out { return Out(vec4<f32>(1.0), 1u); }`
	ast, err := Parse(src)
	if err != nil {
		t.Fatal(err)
	}
	m, err := wgsl.Lower(ast)
	if err != nil {
		t.Fatal(err)
	}
	bin, err := dxil.Compile(m, dxil.DefaultOptions())
	if err != nil {
		t.Fatal(err)
	}
	if bytes.Contains(bin, []byte("SV_Unknown")) {
		t.Errorf("the output signature names the sample_mask element SV_Unknown<n> (PSV0 calls it SV_Coverage)")
	}
}
