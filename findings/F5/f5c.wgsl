@group(0) @binding(0 var<storage, read_write> out: array<f32>;
@compute @workgroup_size(1 fn main() { out[0] = 1.0; }
