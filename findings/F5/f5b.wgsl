@group(0) @binding(0) var<storage, read_write out: array<f32>;
@compute @workgroup_size(1) fn main() { var v: vec2<f32 = vec2<f32>(1.0); out[0] = v.x; }
