package naga

// Demonstration for finding F25 (property C01/C02): place in the repository root and run
//   go test -vet=off -count=1 -v -run TestF25 .
// Before the fix the SPIR-V for countLeadingZeros(x) was a bare GLSL.std.450 FindUMsb (75) and
// for countTrailingZeros(x) a bare FindILsb (73): clz(1) evaluated to 0 instead of 31, ctz(0) to
// 0xFFFFFFFF instead of 32.

import (
	"encoding/binary"
	"testing"
)

func TestF25(t *testing.T) {
	src := `
@group(0) @binding(0) var<storage, read_write> out: array<u32>;
@compute @workgroup_size(1) fn main() {
  let x = out[0];
  out[1] = countLeadingZeros(x);
  out[2] = countTrailingZeros(x);
}`
	spv, err := Compile(src)
	if err != nil {
		t.Fatal(err)
	}
	w := make([]uint32, len(spv)/4)
	for i := range w {
		w[i] = binary.LittleEndian.Uint32(spv[i*4:])
	}
	def := map[uint32][]uint32{}
	var stores [][]uint32
	for i := 5; i < len(w); {
		op, n := w[i]&0xffff, int(w[i]>>16)
		switch op {
		case 12, 130: // OpExtInst, OpISub
			def[w[i+2]] = append([]uint32{op}, w[i+3:i+n]...)
		case 62:
			stores = append(stores, w[i+1:i+n])
		}
		i += n
	}
	if len(stores) != 2 {
		t.Fatalf("stores: %v", stores)
	}
	if d := def[stores[0][1]]; len(d) == 0 || d[0] != 130 {
		t.Errorf("countLeadingZeros is stored straight from %v, want 31 - FindUMsb(x)", d)
	}
	if d := def[stores[1][1]]; len(d) < 3 || d[0] != 12 || d[2] != 38 {
		t.Errorf("countTrailingZeros is stored straight from %v, want UMin(32, FindILsb(x))", d)
	}
}
