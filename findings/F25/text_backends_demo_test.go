package naga

// Demonstration for finding F25 (properties C03, C05): place in the repository root and run
//   go test -vet=off -count=1 -v -run TestF25Text .
// Before the fix HLSL printed countLeadingZeros(x) as firstbithigh(x) and countTrailingZeros(x)
// as firstbitlow(x); GLSL printed (31 - findMSB(i)) for a signed i (32 for i = -1, WGSL says 0)
// and a bare findLSB(x) (-1 for 0, WGSL says 32).

import (
	"strings"
	"testing"

	"github.com/gogpu/naga/glsl"
	"github.com/gogpu/naga/hlsl"
)

func TestF25Text(t *testing.T) {
	src := `
@group(0) @binding(0) var<storage, read_write> out: array<u32>;
@group(0) @binding(2) var<storage, read_write> outi: array<vec2<i32>>;
@compute @workgroup_size(1) fn main() {
  let x = out[0];
  let i = outi[0];
  out[1] = countLeadingZeros(x);
  out[2] = countTrailingZeros(x);
  outi[1] = countLeadingZeros(i);
  outi[2] = countTrailingZeros(i);
}`
	ast, err := Parse(src)
	if err != nil {
		t.Fatal(err)
	}
	mod, err := Lower(ast)
	if err != nil {
		t.Fatal(err)
	}
	h, _, err := hlsl.Compile(mod, hlsl.DefaultOptions())
	if err != nil {
		t.Fatal(err)
	}
	g, _, err := glsl.Compile(mod, glsl.Options{LangVersion: glsl.Version{Major: 4, Minor: 50}, EntryPoint: "main"})
	if err != nil {
		t.Fatal(err)
	}
	for _, want := range []string{"(31u - firstbithigh(asuint(x)))", "min(32u, firstbitlow(asuint(x)))", "asint((31u - firstbithigh(asuint(i))))", "asint(min(32u, firstbitlow(asuint(i))))"} {
		if !strings.Contains(h, want) {
			t.Errorf("HLSL lacks %s:\n%s", want, h)
		}
	}
	for _, want := range []string{"uint((31 - findMSB(x)))", "min(uint(findLSB(x)), 32u)", "(31 - findMSB(uvec2(i)))", "ivec2(min(uvec2(findLSB(i)), 32u))"} {
		if !strings.Contains(g, want) {
			t.Errorf("GLSL lacks %s:\n%s", want, g)
		}
	}
}
