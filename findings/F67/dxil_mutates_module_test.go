package naga

// F67 (C12): dxil.Compile wrote a synthetic binding into the GlobalVariables of the
// module it was given; a later SPIR-V compile of the same module differed.
// Copy into /repo and run  go test -vet=off -count=1 -run TestF67 .
import ("testing";"os";"bytes";"github.com/gogpu/naga/dxil";"github.com/gogpu/naga/spirv";"github.com/gogpu/naga/wgsl")
func TestF67(t *testing.T){
 b,err:=os.ReadFile("snapshot/testdata/in/push-constants.wgsl"); if err!=nil{t.Fatal(err)}
 ast,err:=Parse(string(b)); if err!=nil{t.Fatal(err)}
 m,err:=wgsl.Lower(ast); if err!=nil{t.Fatal(err)}
 s1,err:=GenerateSPIRV(m, spirv.DefaultOptions()); if err!=nil{t.Fatal(err)}
 _,derr:=dxil.Compile(m, dxil.DefaultOptions()); t.Log("dxil:",derr)
 s2,err:=GenerateSPIRV(m, spirv.DefaultOptions()); if err!=nil{t.Fatal(err)}
 if !bytes.Equal(s1,s2){ t.Errorf("SPIR-V output changed after dxil.Compile on the same module: %d vs %d bytes", len(s1), len(s2)) }
}
