package naga

// F91 (C15; known finding, not repaired): the GLSL ReadZeroSkipWrite guard of
// textureLoad compares coordinate, array index, level and sample with the
// extent from above only: `(l < textureQueryLevels(t) && all(lessThan(c,
// textureSize(t, l))) ? texelFetch(t, c, l) : vec4(0.0))`. WGSL coordinates may
// be i32: a negative value passes the guard and reaches texelFetch (undefined
// in GLSL); textureSize(t, l) is also evaluated with an unchecked negative l.
// The goldens glsl/bounds-check-image-rzsw.glsl and the Rust reference spell
// the one-sided form.
// Copy into /repo and run  go test -vet=off -count=1 -run TestF91 .   (fails)

import (
	"strings"
	"testing"

	"github.com/gogpu/naga/glsl"
	"github.com/gogpu/naga/wgsl"
)

func TestF91(t *testing.T) {
	src := `@group(0) @binding(0) var tx: texture_2d<f32>;
@fragment fn main(@location(0) @interpolate(flat) c: vec2<i32>, @location(1) @interpolate(flat) l: i32) -> @location(0) vec4<f32> {
 return textureLoad(tx, c, l);
}`
	ast, err := Parse(src)
	if err != nil {
		t.Fatal(err)
	}
	m, err := wgsl.Lower(ast)
	if err != nil {
		t.Fatal(err)
	}
	opts := glsl.DefaultOptions()
	opts.EntryPoint = "main"
	opts.LangVersion = glsl.Version{Major: 4, Minor: 50}
	opts.BoundsCheckPolicies.ImageLoad = glsl.BoundsCheckReadZeroSkipWrite
	out, _, err := glsl.Compile(m, opts)
	if err != nil {
		t.Fatal(err)
	}
	if strings.Contains(out, "lessThan(") && !strings.Contains(out, "greaterThanEqual(") && !strings.Contains(out, ">= 0") && !strings.Contains(out, "lessThan(uvec") {
		t.Errorf("signed coordinates are only compared from above:\n%s", out)
	}
}
