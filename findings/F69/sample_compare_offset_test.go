package naga

// F69 (C01, C03-C05): the optional offset of textureSampleCompare /
// textureSampleCompareLevel was accepted by the front end and dropped.
// Copy into /repo and run  go test -vet=off -count=1 -run TestF69 .

import (
	"testing"

	"github.com/gogpu/naga/ir"
	"github.com/gogpu/naga/wgsl"
)

func TestF69(t *testing.T) {
	src := `@group(0) @binding(0) var d: texture_depth_2d; @group(0) @binding(1) var sc: sampler_comparison;
@fragment fn main(@location(0) uv: vec2<f32>) -> @location(0) vec4<f32> {
 let a = textureSampleCompare(d, sc, uv, 0.5, vec2<i32>(1,2));
 return vec4<f32>(a); }`
	ast, err := Parse(src)
	if err != nil {
		t.Fatal(err)
	}
	m, err := wgsl.Lower(ast)
	if err != nil {
		t.Fatal(err)
	}
	for _, e := range m.EntryPoints[0].Function.Expressions {
		if s, ok := e.Kind.(ir.ExprImageSample); ok && s.Offset == nil {
			t.Errorf("the offset argument of textureSampleCompare was dropped")
		}
	}
}
