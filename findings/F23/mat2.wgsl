var<private> m: mat4<f32>;
@compute @workgroup_size(1) fn main() { }
