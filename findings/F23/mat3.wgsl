var<private> m: mat2x2<vec2<f32>>;
@compute @workgroup_size(1) fn main() { }
