var<private> m: mat<f32>;
@compute @workgroup_size(1) fn main() { }
