package naga

import "testing"

// F121: `(*p).xy` with p a ptr<function, vec4<f32>> parameter was lowered to a
// swizzle of the pointer (the load rule leaves pointer values alone): the
// SPIR-V backend rejected the valid program ("swizzle requires vector type,
// got ir.PointerType").
func TestF121SwizzleThroughPointerParameter(t *testing.T) {
	src := `
fn f(p: ptr<function, vec4<f32>>) -> vec2<f32> { return (*p).xy; }
@group(0) @binding(0) var<storage, read_write> out: vec2<f32>;
@compute @workgroup_size(1) fn main() { var v = vec4<f32>(1.0, 2.0, 3.0, 4.0); out = f(&v); }
`
	if _, err := Compile(src); err != nil {
		t.Errorf("valid program rejected: %v", err)
	}
}
