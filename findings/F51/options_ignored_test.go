package naga
// F51 / F52 (C15, C17; known findings): options that are never read. Copy into /repo and run go test -vet=off -count=1 -run TestF51 . (fails on the pinned tree)
import ("testing";"bytes";"github.com/gogpu/naga/spirv";"github.com/gogpu/naga/glsl";"github.com/gogpu/naga/wgsl")
func TestF51(t *testing.T){
 src:=`@group(0) @binding(0) var<storage,read_write> o: array<f32>;
@group(0) @binding(1) var img: texture_storage_2d<rgba8unorm, write>;
@group(0) @binding(2) var<uniform> u: vec4<f32>;
@group(0) @binding(3) var tex: texture_2d<f32>;
@group(0) @binding(4) var smp: sampler;
@compute @workgroup_size(1) fn main(@builtin(global_invocation_id) g: vec3<u32>){
 var a: array<f32, 4>;
 a[g.x] = 1.0;
 o[g.y] = a[g.z] + u.x + textureSampleLevel(tex, smp, vec2<f32>(0.5), 0.0).x;
 textureStore(img, vec2<i32>(g.xy), vec4<f32>(1.0));
}`
 ast,err:=Parse(src); if err!=nil{t.Fatal(err)}
 m,err:=wgsl.Lower(ast); if err!=nil{t.Fatal(err)}
 o1:=spirv.DefaultOptions()
 b1,err:=GenerateSPIRV(m,o1); if err!=nil{t.Fatal(err)}
 o2:=spirv.DefaultOptions(); o2.BoundsCheckPolicies.Index=spirv.BoundsCheckRestrict; o2.BoundsCheckPolicies.ImageStore=spirv.BoundsCheckReadZeroSkipWrite
 b2,err:=GenerateSPIRV(m,o2); if err!=nil{t.Fatal(err)}
 if bytes.Equal(b1, b2) { t.Errorf("SPIR-V output is identical with and without the Index / ImageStore bounds-check policies") }
 g1:=glsl.DefaultOptions(); g1.LangVersion=glsl.Version450
 s1,_,err:=glsl.Compile(m,g1); if err!=nil{t.Fatal(err)}
 g2:=g1; g2.BoundsCheckPolicies.ImageStore=glsl.BoundsCheckReadZeroSkipWrite; g2.UniformBindingBase=10; g2.StorageBindingBase=20; g2.TextureBindingBase=30; g2.SamplerBindingBase=40
 s2,_,err:=glsl.Compile(m,g2); if err!=nil{t.Fatal(err)}
 if s1 == s2 { t.Errorf("GLSL output is identical with and without the binding-base options") }
}
