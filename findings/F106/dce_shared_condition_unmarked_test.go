package dce

// F106 (C13; fixed by e2fc662): 'let c = i > 1u; if c { dead } if c { out[0] = 2u; }' - the
// dead first if unmarked c (no other live EXPRESSION uses it), its Emit was
// swept, and the surviving second if tested an expression nothing evaluates.
// Copy into /repo/dxil/internal/passes/dce and run  go test -vet=off -count=1 -run TestF106 ./dxil/internal/passes/dce

import (
	"testing"

	"github.com/gogpu/naga"
	"github.com/gogpu/naga/ir"
	"github.com/gogpu/naga/wgsl"
)

func TestF106(t *testing.T) {
	src := `@group(0) @binding(0) var<storage, read_write> out: array<u32>;
@compute @workgroup_size(1) fn main(@builtin(local_invocation_index) i: u32){
 let c = i > 1u;
 var d: u32;
 if c { d = 1u; }
 if c { out[0] = 2u; }
}`
	ast, err := naga.Parse(src)
	if err != nil {
		t.Fatal(err)
	}
	m, err := wgsl.Lower(ast)
	if err != nil {
		t.Fatal(err)
	}
	fn := &m.EntryPoints[0].Function
	Run(m, fn)
	emitted := map[ir.ExpressionHandle]bool{}
	var conds []ir.ExpressionHandle
	var walk func(b ir.Block)
	walk = func(b ir.Block) {
		for _, st := range b {
			switch k := st.Kind.(type) {
			case ir.StmtEmit:
				for h := k.Range.Start; h < k.Range.End; h++ {
					emitted[h] = true
				}
			case ir.StmtIf:
				conds = append(conds, k.Condition)
				walk(k.Accept)
				walk(k.Reject)
			case ir.StmtBlock:
				walk(k.Block)
			case ir.StmtLoop:
				walk(k.Body)
				walk(k.Continuing)
			}
		}
	}
	walk(fn.Body)
	for _, c := range conds {
		if _, isBinary := fn.Expressions[c].Kind.(ir.ExprBinary); isBinary && !emitted[c] {
			t.Errorf("after dce an if still tests expression %d (i > 1u) but no Emit evaluates it any more", c)
		}
	}
}
