package naga

// F84 (C05, C15; fixed by e6bf424): GLSL resolved the image type of an expression
// only through a global variable. For a texture passed as a function argument
// the Restrict policy wrote texelFetch(t, ..., _eN_clamped_lod) without ever
// declaring _eN_clamped_lod (does not compile).
// Copy into /repo and run  go test -vet=off -count=1 -run TestF84 .

import (
	"regexp"
	"strings"
	"testing"

	"github.com/gogpu/naga/glsl"
	"github.com/gogpu/naga/wgsl"
)

func TestF84(t *testing.T) {
	src := `@group(0) @binding(0) var tx: texture_2d<f32>;
@group(0) @binding(1) var<storage, read_write> o: array<vec4<f32>>;
fn ld(t: texture_2d<f32>, c: vec2<i32>, l: i32) -> vec4<f32> { return textureLoad(t, c, l); }
@compute @workgroup_size(1) fn main(@builtin(global_invocation_id) id: vec3<u32>){ o[0] = ld(tx, vec2<i32>(id.xy), 1); }`
	ast, err := Parse(src)
	if err != nil {
		t.Fatal(err)
	}
	m, err := wgsl.Lower(ast)
	if err != nil {
		t.Fatal(err)
	}
	opts := glsl.DefaultOptions()
	opts.EntryPoint = "main"
	opts.LangVersion = glsl.Version{Major: 4, Minor: 50}
	opts.BoundsCheckPolicies.ImageLoad = glsl.BoundsCheckRestrict
	out, _, err := glsl.Compile(m, opts)
	if err != nil {
		t.Fatal(err)
	}
	for _, name := range regexp.MustCompile(`_e\d+_clamped_lod`).FindAllString(out, -1) {
		if !strings.Contains(out, "int "+name+" =") {
			t.Errorf("%s is used but never declared:\n%s", name, out)
			break
		}
	}
}
