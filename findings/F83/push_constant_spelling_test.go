package naga

// F83 (C03 fixed by d9092a3; C04 known finding): the HLSL and MSL writers handled
// the Immediate address space only. var<push_constant> (the other WGSL
// spelling; SpacePushConstant, the same storage class) became a plain global in
// HLSL (repaired) and is used but never declared in MSL (not repaired:
// TestNeedsPassThrough pins needsPassThrough(SpacePushConstant) == false).
// Copy into /repo and run  go test -vet=off -count=1 -run TestF83 .
// (TestF83HLSL passes on the repaired tree, TestF83MSL fails)

import (
	"strings"
	"testing"

	"github.com/gogpu/naga/hlsl"
	"github.com/gogpu/naga/ir"
	"github.com/gogpu/naga/msl"
	"github.com/gogpu/naga/wgsl"
)

func f83Module(t *testing.T) *ir.Module {
	src := `struct PC { a: f32, b: vec2<f32> }
var<push_constant> pc: PC;
@group(0) @binding(0) var<storage, read_write> o: f32;
@compute @workgroup_size(1) fn main() { o = pc.a + pc.b.y; }`
	ast, err := Parse(src)
	if err != nil {
		t.Fatal(err)
	}
	m, err := wgsl.Lower(ast)
	if err != nil {
		t.Fatal(err)
	}
	return m
}

func TestF83HLSL(t *testing.T) {
	out, _, err := hlsl.Compile(f83Module(t), hlsl.DefaultOptions())
	if err != nil {
		t.Fatal(err)
	}
	if !strings.Contains(out, "ConstantBuffer<PC> pc") {
		t.Errorf("hlsl: push constant declared as a plain global:\n%s", out)
	}
}

func TestF83MSL(t *testing.T) {
	out, _, err := msl.Compile(f83Module(t), msl.DefaultOptions())
	if err != nil {
		t.Fatal(err)
	}
	if !strings.Contains(out, "constant PC& pc") {
		t.Errorf("msl: pc is used but is not a parameter of the entry point:\n%s", out)
	}
}
