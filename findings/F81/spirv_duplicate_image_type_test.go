package naga

// F81 (C02; fixed by 8c01df8): the OpTypeImage cache was keyed on the IR storage
// format; rgba8unorm and bgra8unorm are both written Rgba8, so a module with
// both declared the same OpTypeImage twice (invalid: non-aggregate types are
// unique).
// Copy into /repo and run  go test -vet=off -count=1 -run TestF81 .

import (
	"encoding/binary"
	"fmt"
	"testing"

	"github.com/gogpu/naga/spirv"
	"github.com/gogpu/naga/wgsl"
)

func TestF81(t *testing.T) {
	src := `@group(0) @binding(0) var a: texture_storage_2d<rgba8unorm, write>;
@group(0) @binding(1) var b: texture_storage_2d<bgra8unorm, write>;
@compute @workgroup_size(1) fn main(@builtin(global_invocation_id) id: vec3<u32>){
 textureStore(a, vec2<i32>(id.xy), vec4<f32>(1.0));
 textureStore(b, vec2<i32>(id.xy), vec4<f32>(1.0));
}`
	ast, err := Parse(src)
	if err != nil {
		t.Fatal(err)
	}
	m, err := wgsl.Lower(ast)
	if err != nil {
		t.Fatal(err)
	}
	bin, err := spirv.NewBackend(spirv.DefaultOptions()).Compile(m)
	if err != nil {
		t.Fatal(err)
	}
	const opTypeImage = 25
	seen := map[string]bool{}
	for i := 5; i < len(bin)/4; {
		w := binary.LittleEndian.Uint32(bin[i*4:])
		op, n := w&0xffff, int(w>>16)
		if n == 0 {
			break
		}
		if op == opTypeImage {
			key := ""
			for k := 2; k < n; k++ {
				key += fmt.Sprint(binary.LittleEndian.Uint32(bin[(i+k)*4:]), ",")
			}
			if seen[key] {
				t.Errorf("the same OpTypeImage (%s) is declared twice", key)
			}
			seen[key] = true
		}
		i += n
	}
}
