package naga

// Demonstration for finding F29 (properties C11, C08/C19): place in the repository root and run
//   go test -vet=off -count=1 -run TestF29 .
// Before the fix (a) a false const_assert that names a constant declared later in the source was
// accepted (dependency ordering had no arm for const_assert, the assertion ran before the constant
// existed and "cannot evaluate" is silently accepted), at module scope and inside functions;
// (b) 'const_assert (a + b) > c;' was a parse error: the parser took the '(' as an optional wrapper.

import "testing"

func TestF29(t *testing.T) {
	for name, src := range map[string]string{
		"module": "const_assert N > 10;\nconst N = 4;\n@compute @workgroup_size(1) fn main() { }",
		"func":   "fn f() { const_assert N > 10; }\nconst N = 4;\n@compute @workgroup_size(1) fn main() { f(); }",
	} {
		if _, err := Compile(src); err == nil {
			t.Errorf("%s: false const_assert accepted", name)
		}
	}
	for name, src := range map[string]string{
		"paren_operand": "const N = 4;\nconst_assert (N + 8) > 10;\n@compute @workgroup_size(1) fn main() { }",
		"paren_whole":   "const N = 4;\nconst_assert(N + 8 > 10);\n@compute @workgroup_size(1) fn main() { }",
		"plain":         "const N = 4;\nconst_assert N + 8 > 10;\n@compute @workgroup_size(1) fn main() { }",
	} {
		if _, err := Compile(src); err != nil {
			t.Errorf("%s: valid program rejected: %v", name, err)
		}
	}
}
