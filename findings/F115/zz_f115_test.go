package naga

import "testing"

// F115: a pointer copied through a second let (`let p = &v; let q = p; f(q)`)
// was loaded at its use because only a let whose initialiser is spelled `&expr`
// was tracked as a pointer binding: "function f argument 0: type mismatch
// (expected ptr<...>, got i32)" for a valid program.
func TestF115PointerCopiedThroughLet(t *testing.T) {
	src := `
fn f(p: ptr<function, i32>) -> i32 { return *p; }
@group(0) @binding(0) var<storage, read_write> out: i32;
@compute @workgroup_size(1) fn main() {
  var v: i32 = 3;
  let p = &v;
  let q = p;
  out = f(q) + *q;
}
`
	if _, err := Compile(src); err != nil {
		t.Errorf("valid program rejected: %v", err)
	}
}
