package naga

// F80 (C01; known finding, not repaired): the lowerer stores the initialiser of
// a module-scope variable in GlobalVariable.InitExpr (a handle into
// GlobalExpressions) and leaves GlobalVariable.Init nil; the SPIR-V backend
// reads Init only, so `var<private> ps: u32 = 7u;` becomes an OpVariable
// without initializer and the program reads an undefined value. The Rust
// reference output has the initializer operand; 60 OpVariable ... Private
// lines of the spv goldens (abstract-types-var.spvasm, ...) have none, so the
// repair changes them.
// Copy into /repo and run  go test -vet=off -count=1 -run TestF80 .   (fails)

import (
	"encoding/binary"
	"testing"

	"github.com/gogpu/naga/spirv"
	"github.com/gogpu/naga/wgsl"
)

func TestF80(t *testing.T) {
	src := `@group(0) @binding(0) var<storage, read_write> o: array<u32>;
var<private> ps: u32 = 7u;
@compute @workgroup_size(1) fn main(){ o[0] = ps; }`
	ast, err := Parse(src)
	if err != nil {
		t.Fatal(err)
	}
	m, err := wgsl.Lower(ast)
	if err != nil {
		t.Fatal(err)
	}
	bin, err := spirv.NewBackend(spirv.DefaultOptions()).Compile(m)
	if err != nil {
		t.Fatal(err)
	}
	const opVariable, scPrivate = 59, 6
	for i := 5; i < len(bin)/4; {
		w := binary.LittleEndian.Uint32(bin[i*4:])
		op, n := w&0xffff, int(w>>16)
		if n == 0 {
			break
		}
		if op == opVariable && binary.LittleEndian.Uint32(bin[(i+3)*4:]) == scPrivate && n < 5 {
			t.Errorf("OpVariable Private without an initializer for var<private> ps: u32 = 7u")
		}
		i += n
	}
}
