package naga

// F70 (C05; known finding, not repaired): the GLSL writer expands pack4xU8 /
// pack4xU8Clamp to an unparenthesised chain of | terms, and composes expression
// text by substitution, so `pack4xU8(v) * 2u` is emitted as
// `a | b | c | (d << 24) * 2u` - the multiplication binds to the last term
// only. The goldens glsl/bits*.glsl and the Rust reference output spell the
// bare form, so the repair (one pair of parentheses) needs them edited.
// Copy into /repo and run  go test -vet=off -count=1 -run TestF70 .   (fails)

import (
	"strings"
	"testing"

	"github.com/gogpu/naga/glsl"
	"github.com/gogpu/naga/wgsl"
)

func TestF70(t *testing.T) {
	src := `@group(0) @binding(0) var<storage, read_write> o: array<u32>;
@compute @workgroup_size(1) fn main(@builtin(global_invocation_id) id: vec3<u32>){
 o[0] = pack4xU8(vec4<u32>(id, 1u)) * 2u;
}`
	ast, err := Parse(src)
	if err != nil {
		t.Fatal(err)
	}
	m, err := wgsl.Lower(ast)
	if err != nil {
		t.Fatal(err)
	}
	opts := glsl.DefaultOptions()
	opts.EntryPoint = "main"
	out, _, err := glsl.Compile(m, opts)
	if err != nil {
		t.Fatal(err)
	}
	if strings.Contains(out, "<< 24) * 2u") {
		t.Errorf("pack4xU8(v) * 2u multiplies the last term only:\n%s", out)
	}
}
