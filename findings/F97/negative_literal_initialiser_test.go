package naga

// F97 (C04, C05, C09; fixed by d724036): var<private> v: vec2<f32> = vec2<f32>(-1.0, 1.0);
// was written 'vec2 v = vec2(0, 1.0);' in GLSL and 'float2({}, 1.0)' in MSL: the
// lowerer stored the negation as an ExprUnary global expression, for which the
// two constant writers have no arm (their default is the silent literal of F93).
// Copy into /repo and run  go test -vet=off -count=1 -run TestF97 .

import (
	"strings"
	"testing"

	"github.com/gogpu/naga/glsl"
	"github.com/gogpu/naga/msl"
	"github.com/gogpu/naga/wgsl"
)

func TestF97(t *testing.T) {
	src := `var<private> v: vec2<f32> = vec2<f32>(-1.0, 1.0);
var<private> n: vec2<i32> = vec2<i32>(-3, 4);
@group(0) @binding(0) var<storage, read_write> o: array<f32>;
@compute @workgroup_size(1) fn main(){ o[0] = v.x + f32(n.x); }`
	ast, err := Parse(src)
	if err != nil {
		t.Fatal(err)
	}
	m, err := wgsl.Lower(ast)
	if err != nil {
		t.Fatal(err)
	}
	opts := glsl.DefaultOptions()
	opts.EntryPoint = "main"
	out, _, err := glsl.Compile(m, opts)
	if err != nil {
		t.Fatal(err)
	}
	if strings.Contains(out, "vec2 v = vec2(0, 1.0);") || !strings.Contains(out, "-1.0") || !strings.Contains(out, "-3") {
		t.Errorf("glsl: the negative components are lost:\n%s", out)
	}
	out, _, err = msl.Compile(m, msl.DefaultOptions())
	if err != nil {
		t.Fatal(err)
	}
	if strings.Contains(out, "float2({}, 1.0)") || !strings.Contains(out, "-1.0") {
		t.Errorf("msl: the negative component is lost:\n%s", out)
	}
}
