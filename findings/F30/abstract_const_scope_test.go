package naga

// Demonstration for finding F30 (properties C01/C04 wrong code, C11 undeclared identifier accepted):
// place in the repository root and run  go test -vet=off -count=1 -run TestF30 .
// Function-scope abstract constants (const b = 1;) live in Lowerer.localAbstractASTs, which
// pushScope/popScope did not save or restore and which resolveIdentifier consults first:
//   - a let/var in an inner block did not shadow such a constant ("let b = 10; out[0] = b;" stored 1),
//   - the constant stayed visible after its block ended (an undeclared identifier was accepted).

import (
	"strings"
	"testing"

	"github.com/gogpu/naga/msl"
)

func TestF30(t *testing.T) {
	hdr := "@group(0) @binding(0) var<storage, read_write> out: array<i32>;\n@compute @workgroup_size(1) fn main() "
	compile := func(body string) (string, error) {
		ast, err := Parse(hdr + body)
		if err != nil {
			return "", err
		}
		m, err := Lower(ast)
		if err != nil {
			return "", err
		}
		o, _, err := msl.Compile(m, msl.DefaultOptions())
		return o, err
	}
	o, err := compile("{ const b = 1; { let b = 10; out[0] = b; } }")
	if err != nil {
		t.Fatal(err)
	}
	if strings.Contains(o, "out[0] = 1;") {
		t.Errorf("inner 'let b = 10' does not shadow the abstract const b: stores 1\n%s", o[strings.Index(o, "kernel"):])
	}
	o, err = compile("{ const a = 1; { var a = 10; a += 1; out[0] = a; } out[1] = a; }")
	if err != nil {
		t.Fatal(err)
	}
	if strings.Contains(o, "1 = ") || strings.Contains(o, "out[0] = 1;") {
		t.Errorf("inner 'var a' does not shadow the abstract const a\n%s", o[strings.Index(o, "kernel"):])
	}
	if _, err = compile("{ { const b = 1; } out[0] = b; }"); err == nil {
		t.Errorf("b is used after the block that declares it ended, and the program was accepted")
	}
}
