package naga

// Second demonstration for finding F30 (C10 crash, C01/C04 wrong code): place in the repository root,
//   go test -vet=off -count=1 -run TestF30Capture .
// The initializer of a function-scope abstract constant is lowered again at every use of the constant,
// in the scope of the USE. Before the fix
//   - 'const x = x + 1;' (shadowing a module constant x) recursed until the stack overflowed,
//   - a name of the initializer that was shadowed between declaration and use resolved to the
//     shadowing binding: const a = b + 1; { let b = 10; out[0] = a; } stored 11 instead of 2.

import (
	"strings"
	"testing"

	"github.com/gogpu/naga/msl"
)

func TestF30Capture(t *testing.T) {
	compile := func(src string) string {
		ast, err := Parse(src)
		if err != nil {
			t.Fatal(err)
		}
		m, err := Lower(ast)
		if err != nil {
			t.Fatal(err)
		}
		o, _, err := msl.Compile(m, msl.DefaultOptions())
		if err != nil {
			t.Fatal(err)
		}
		return o[strings.Index(o, "kernel"):]
	}
	hdr := "@group(0) @binding(0) var<storage, read_write> out: array<i32>;\n"
	o := compile("const x = 5;\n" + hdr + "@compute @workgroup_size(1) fn main() { const x = x + 1; out[0] = x; }")
	if !strings.Contains(o, "out[0] = 6;") {
		t.Errorf("const x = x + 1 (outer x = 5): want out[0] = 6\n%s", o)
	}
	o = compile("const b = 1;\n" + hdr + "@compute @workgroup_size(1) fn main() { const a = b + 1; { let b = 10; out[0] = a; } }")
	if !strings.Contains(o, "out[0] = 2;") {
		t.Errorf("const a = b + 1 with b shadowed before the use: want out[0] = 2\n%s", o)
	}
	o = compile(hdr + "@compute @workgroup_size(1) fn main() { const b = 1; const a = b + 1; { const b = 7; out[0] = a + b; } }")
	if !strings.Contains(o, "out[0] = 9;") {
		t.Errorf("nested abstract consts: want out[0] = 9\n%s", o)
	}
}
