// Drop into the repository ROOT directory (package naga, next to naga.go) and run:
//   go test -vet=off -count=1 -run TestDemoD3 .
package naga

import (
	"fmt"
	"strings"
	"testing"

	"github.com/gogpu/naga/glsl"
	"github.com/gogpu/naga/ir"
)

// The override reference `scale` becomes ExprConstant + a shadow Literal in
// ir.ProcessOverrides (rebuildFunctionExpressions), so every later expression
// handle of main shifts by one. remapBlockHandles must apply that shift to all
// handle fields of the statements in the body.
const demoD3Src = `
override scale: u32 = 2u;
@group(0) @binding(0) var<storage, read_write> out: array<u32>;
@group(0) @binding(1) var img: texture_storage_2d<r32uint, atomic>;
@compute @workgroup_size(64)
fn main(@builtin(local_invocation_index) i: u32) {
    let k = scale;
    let x = i * k;
    let b = subgroupBallot(x > 4u);
    let s = subgroupAdd(x);
    let g = subgroupBroadcast(x, 1u);
    textureAtomicAdd(img, vec2<i32>(i32(i), 0), x);
    out[i] = b.x + s + g;
}`

func demoD3Lower(t *testing.T) *ir.Module {
	t.Helper()
	ast, err := Parse(demoD3Src)
	if err != nil {
		t.Fatalf("parse: %v", err)
	}
	m, err := LowerWithSource(ast, demoD3Src)
	if err != nil {
		t.Fatalf("lower: %v", err)
	}
	return m
}

func TestDemoD3(t *testing.T) {
	// --- IR level -----------------------------------------------------------------
	m := demoD3Lower(t)
	if err := ir.ProcessOverrides(m, ir.PipelineConstants{"scale": 3}); err != nil {
		t.Fatalf("ProcessOverrides: %v", err)
	}
	fn := &m.EntryPoints[0].Function
	seen := map[string]bool{}
	check := func(stmt, field string, h ir.ExpressionHandle, wantKind string) {
		seen[stmt] = true
		if int(h) >= len(fn.Expressions) {
			t.Errorf("%s.%s = [%d]: out of range", stmt, field, h)
			return
		}
		if got := fmt.Sprintf("%T", fn.Expressions[h].Kind); got != wantKind {
			t.Errorf("after ProcessOverrides: %s.%s = [%d] which is %s (%+v); want %s",
				stmt, field, h, got, fn.Expressions[h].Kind, wantKind)
		}
	}
	for _, s := range fn.Body {
		switch k := s.Kind.(type) {
		case ir.StmtSubgroupBallot:
			check("StmtSubgroupBallot", "Result", k.Result, "ir.ExprSubgroupBallotResult")
			check("StmtSubgroupBallot", "Predicate", *k.Predicate, "ir.ExprBinary") // x > 4u
		case ir.StmtSubgroupCollectiveOperation:
			check("StmtSubgroupCollectiveOperation", "Argument", k.Argument, "ir.ExprBinary") // x = i * k
			check("StmtSubgroupCollectiveOperation", "Result", k.Result, "ir.ExprSubgroupOperationResult")
		case ir.StmtSubgroupGather:
			check("StmtSubgroupGather", "Argument", k.Argument, "ir.ExprBinary") // x
			check("StmtSubgroupGather", "Result", k.Result, "ir.ExprSubgroupOperationResult")
			check("StmtSubgroupGather", "Mode.Index", k.Mode.(ir.GatherBroadcast).Index, "ir.Literal") // 1u
		case ir.StmtImageAtomic:
			check("StmtImageAtomic", "Image", k.Image, "ir.ExprGlobalVariable")
			check("StmtImageAtomic", "Coordinate", k.Coordinate, "ir.ExprCompose") // vec2<i32>(...)
			check("StmtImageAtomic", "Value", k.Value, "ir.ExprBinary")            // x
		}
	}
	for _, want := range []string{"StmtSubgroupBallot", "StmtSubgroupCollectiveOperation", "StmtSubgroupGather", "StmtImageAtomic"} {
		if !seen[want] {
			t.Errorf("demo is stale: no %s in main", want)
		}
	}

	// --- same input, end to end through the GLSL backend --------------------------
	// glsl.Compile runs ir.ProcessOverrides itself when PipelineConstants are set.
	out, _, err := glsl.Compile(demoD3Lower(t), glsl.Options{
		LangVersion:       glsl.Version{Major: 4, Minor: 50},
		PipelineConstants: ir.PipelineConstants{"scale": 3},
	})
	if err != nil {
		t.Fatalf("glsl.Compile: %v", err)
	}
	for _, want := range []string{
		"subgroupBallot((x > 4u))",
		"subgroupAdd(x)",
		"subgroupBroadcast(x, 1u)",
		"imageAtomicAdd(_group_0_binding_1_cs, ivec2(int(i), 0), x)",
	} {
		if !strings.Contains(out, want) {
			t.Errorf("GLSL output lacks %q", want)
		}
	}
	if t.Failed() {
		body := out[strings.Index(out, "void main()"):]
		t.Logf("emitted GLSL body:\n%s", body)
	}
}
