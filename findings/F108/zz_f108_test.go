package naga

import "testing"

// F108: names the lowerer translates through a table or a switch over the
// spelling (builtin value, address space, access mode, texel format, sampled
// type) were silently replaced by a valid default when misspelt.
func TestF108UnknownNamesAreRejected(t *testing.T) {
	for _, src := range []string{
		"@vertex fn vs(@builtin(bogus_name) i: u32) -> @builtin(position) vec4<f32> { return vec4<f32>(0.0); }",
		"var<bogus> x: u32;\n@compute @workgroup_size(1) fn main() { x = 1u; }",
		"@group(0) @binding(0) var t: texture_storage_2d<rgba8unorm, bogus>;\n@compute @workgroup_size(1) fn main() { }",
		"@group(0) @binding(0) var t: texture_storage_2d<bogusfmt, write>;\n@compute @workgroup_size(1) fn main() { }",
		"@group(0) @binding(0) var<storage, bogus> b: u32;\n@compute @workgroup_size(1) fn main() { }",
		"fn f(p: ptr<bogus, u32>) {}\n@compute @workgroup_size(1) fn main() { }",
		"@group(0) @binding(0) var t: texture_2d<bool>;\n@compute @workgroup_size(1) fn main() { }",
	} {
		if _, err := Compile(src); err == nil {
			t.Errorf("accepted: %s", src)
		}
	}
	for _, src := range []string{
		"@group(0) @binding(0) var t: texture_2d<f32>;\n@group(0) @binding(1) var s: texture_storage_2d<rgba8unorm, write>;\n@group(0) @binding(2) var<storage> b: u32;\n@group(0) @binding(3) var<storage, read_write> c: u32;\nvar<private> p: u32;\nfn f(q: ptr<function, u32>) {}\n@compute @workgroup_size(1) fn main(@builtin(local_invocation_id) id: vec3<u32>) { var v: u32; f(&v); }",
	} {
		if _, err := Compile(src); err != nil {
			t.Errorf("rejected: %v", err)
		}
	}
}
