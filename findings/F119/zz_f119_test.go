package dce

import (
	"testing"

	"github.com/gogpu/naga/ir"
)

// F119: `let c = x < 4; b = c; if c { t = 1 }` with t dead and b returned.
// Unmarking the dead if also unmarked c (only expressions count as other
// consumers), the re-mark pass skipped `b = c` because a store to a local is
// not a root, and the Emit that evaluates c was swept while the store stayed.
func TestF119StoreToLiveLocalKeepsItsValueEmitted(t *testing.T) {
	i32 := ir.TypeHandle(0)
	boolT := ir.TypeHandle(1)
	mod := &ir.Module{Types: []ir.Type{
		{Inner: ir.ScalarType{Kind: ir.ScalarSint, Width: 4}},
		{Inner: ir.ScalarType{Kind: ir.ScalarBool, Width: 1}},
	}}
	ret := ir.ExpressionHandle(6)
	fn := &ir.Function{
		Name:      "f",
		Arguments: []ir.FunctionArgument{{Name: "x", Type: i32}},
		Result:    &ir.FunctionResult{Type: boolT},
		LocalVars: []ir.LocalVariable{{Name: "b", Type: boolT}, {Name: "t", Type: i32}},
		Expressions: []ir.Expression{
			{Kind: ir.ExprFunctionArgument{Index: 0}},                   // 0
			{Kind: ir.Literal{Value: ir.LiteralI32(4)}},                 // 1
			{Kind: ir.ExprBinary{Op: ir.BinaryLess, Left: 0, Right: 1}}, // 2 c
			{Kind: ir.ExprLocalVariable{Variable: 0}},                   // 3 &b
			{Kind: ir.ExprLocalVariable{Variable: 1}},                   // 4 &t
			{Kind: ir.Literal{Value: ir.LiteralI32(1)}},                 // 5
			{Kind: ir.ExprLoad{Pointer: 3}},                             // 6 b
		},
		Body: ir.Block{
			{Kind: ir.StmtEmit{Range: ir.Range{Start: 2, End: 3}}},
			{Kind: ir.StmtStore{Pointer: 3, Value: 2}},
			{Kind: ir.StmtIf{Condition: 2, Accept: ir.Block{{Kind: ir.StmtStore{Pointer: 4, Value: 5}}}}},
			{Kind: ir.StmtEmit{Range: ir.Range{Start: 6, End: 7}}},
			{Kind: ir.StmtReturn{Value: &ret}},
		},
	}
	Run(mod, fn)
	storeStays, cEmitted := false, false
	for _, st := range fn.Body {
		switch k := st.Kind.(type) {
		case ir.StmtStore:
			if k.Value == 2 {
				storeStays = true
			}
		case ir.StmtEmit:
			if k.Range.Start <= 2 && 2 < k.Range.End {
				cEmitted = true
			}
		}
	}
	if storeStays && !cEmitted {
		t.Errorf("the store b = c stays but no Emit evaluates c any more: %#v", fn.Body)
	}
}
