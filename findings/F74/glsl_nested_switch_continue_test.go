package naga

// F74 (C05; fixed by feb3c7f): GLSL writes a single-body switch as
// do { } while(false) and a continue inside it as
// "should_continue = true; break;". In a regular switch nested in it the break
// left the inner switch only: the statements after the inner switch still ran
// before "if (should_continue) continue;".
// Copy into /repo and run  go test -vet=off -count=1 -run TestF74 .

import (
	"strings"
	"testing"

	"github.com/gogpu/naga/glsl"
	"github.com/gogpu/naga/wgsl"
)

func TestF74(t *testing.T) {
	src := `@group(0) @binding(0) var<storage, read_write> out: array<i32>;
@compute @workgroup_size(1) fn main(){
 var i = 0;
 loop {
  if i >= 4 { break; }
  let x = out[i];
  switch i { default: {
    switch x { case 1: { i += 1; continue; } case 2: { out[5] = 1; } default: {} }
    out[6] += 1;
  } }
  i += 1;
 }
}`
	ast, err := Parse(src)
	if err != nil {
		t.Fatal(err)
	}
	m, err := wgsl.Lower(ast)
	if err != nil {
		t.Fatal(err)
	}
	opts := glsl.DefaultOptions()
	opts.EntryPoint = "main"
	out, _, err := glsl.Compile(m, opts)
	if err != nil {
		t.Fatal(err)
	}
	// between the end of the inner switch and the store to out[6] the flag must be tested
	i := strings.Index(out, "default: {")
	j := strings.Index(out, "_group_0_binding_0_cs[6] =")
	if i < 0 || j < i || !strings.Contains(out[i:j], "if (should_continue)") {
		t.Errorf("the statements after the inner switch run after a continue:\n%s", out)
	}
}
