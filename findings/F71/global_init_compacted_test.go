package naga

// F71 (C09, C10; fixed by 1915e89): the lowerer builds a global variable's
// constructor initialiser after CompactTypes/ReorderTypes have renumbered the
// type arena, but resolved struct names through l.types and literal targets
// through the type registry (both hold the old handles), and used handle 0
// for a component type with no handle of its own. On the unrepaired tree the
// first program panics (index out of range), the second yields a float splat
// for a vec3<u32>, the third types a matrix column by an unrelated type.
// Copy into /repo and run  go test -vet=off -count=1 -run TestF71 .

import (
	"testing"

	"github.com/gogpu/naga/ir"
	"github.com/gogpu/naga/wgsl"
)

func TestF71(t *testing.T) {
	for _, src := range []string{
		"@group(0) @binding(0) var<storage, read_write> o: array<vec4<i32>>;\nstruct S { a: vec2<u32>, b: f32 }\nvar<private> pm: S = S(vec2(1, 2), 3);\n@compute @workgroup_size(1) fn main(){ o[3] = vec4<i32>(i32(pm.b)); }",
		"@group(0) @binding(0) var<storage, read_write> o: array<vec4<f32>>;\nvar<private> pv: vec3<u32> = vec3(3u);\n@compute @workgroup_size(1) fn main(){ o[3] = vec4<f32>(vec3<f32>(pv), 1.0); }",
		"@group(0) @binding(0) var<storage, read_write> o: array<vec4<f32>>;\nvar<private> pm: mat2x2<f32> = mat2x2(vec2(1.0, 2.0), vec2(3.0, 4.0));\n@compute @workgroup_size(1) fn main(){ o[3] = vec4<f32>(pm[0][0]); }",
	} {
		func() {
			defer func() {
				if r := recover(); r != nil {
					t.Errorf("panic: %v\n%s", r, src)
				}
			}()
			ast, err := Parse(src)
			if err != nil {
				t.Fatal(err)
			}
			m, err := wgsl.Lower(ast)
			if err != nil {
				t.Fatal(err)
			}
			for _, gv := range m.GlobalVariables {
				if gv.InitExpr == nil {
					continue
				}
				checkInit(t, m, *gv.InitExpr, gv.Type, src)
			}
		}()
	}
}

func checkInit(t *testing.T, m *ir.Module, h ir.ExpressionHandle, ty ir.TypeHandle, src string) {
	var want ir.ScalarType
	switch in := m.Types[ty].Inner.(type) {
	case ir.VectorType:
		want = in.Scalar
	case ir.MatrixType:
		want = in.Scalar
	default:
		return
	}
	switch k := m.GlobalExpressions[h].Kind.(type) {
	case ir.ExprSplat:
		checkLit(t, m, k.Value, want, src)
	case ir.ExprCompose:
		if k.Type != ty {
			t.Errorf("compose typed %d for a value of type %d\n%s", k.Type, ty, src)
		}
		for _, c := range k.Components {
			if cc, ok := m.GlobalExpressions[c].Kind.(ir.ExprCompose); ok {
				if v, ok := m.Types[cc.Type].Inner.(ir.VectorType); !ok || int(v.Size) != len(cc.Components) {
					t.Errorf("column of %d components typed %+v\n%s", len(cc.Components), m.Types[cc.Type].Inner, src)
				}
				continue
			}
			checkLit(t, m, c, want, src)
		}
	}
}

func checkLit(t *testing.T, m *ir.Module, h ir.ExpressionHandle, want ir.ScalarType, src string) {
	lit, ok := m.GlobalExpressions[h].Kind.(ir.Literal)
	if !ok {
		return
	}
	var got ir.ScalarKind
	switch lit.Value.(type) {
	case ir.LiteralF32:
		got = ir.ScalarFloat
	case ir.LiteralU32:
		got = ir.ScalarUint
	case ir.LiteralI32:
		got = ir.ScalarSint
	default:
		return
	}
	if got != want.Kind {
		t.Errorf("literal %T in a value whose scalar kind is %v\n%s", lit.Value, want.Kind, src)
	}
}
