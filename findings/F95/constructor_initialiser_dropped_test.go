package naga

// F95 (C09; fixed by e2b635e): a constructor initialiser with a non-literal argument
// (array<i32, 2>(K, K * 2)) could not be converted to global expressions and was
// dropped without a diagnostic: the array started at zero.
// Copy into /repo and run  go test -vet=off -count=1 -run TestF95 .

import (
	"strings"
	"testing"

	"github.com/gogpu/naga/msl"
	"github.com/gogpu/naga/wgsl"
)

func TestF95(t *testing.T) {
	src := `const K = 3;
var<private> a: array<i32, 2> = array<i32, 2>(K, K * 2);
@group(0) @binding(0) var<storage, read_write> o: array<i32>;
@compute @workgroup_size(1) fn main(){ o[0] = a[1]; }`
	ast, err := Parse(src)
	if err != nil {
		t.Fatal(err)
	}
	m, err := wgsl.Lower(ast)
	if err != nil {
		return // reported as unsupported (d724036): not silently zero
	}
	for _, g := range m.GlobalVariables {
		if g.Name == "a" && g.InitExpr == nil && g.Init == nil {
			t.Fatalf("the initialiser of a was dropped without a diagnostic: the array starts at zero")
		}
	}
	out, _, err := msl.Compile(m, msl.DefaultOptions())
	if err != nil {
		t.Fatal(err)
	}
	if !strings.Contains(out, "{3, 6}") {
		t.Errorf("a is not initialised with {3, 6}:\n%s", out)
	}
}
