package naga

// F78 (C01; known finding, not repaired): the SPIR-V emitter spills a by-value
// array to a Function variable when it is indexed dynamically. The store of the
// value is emitted at the first dynamic access; spillToInternalVariable then
// records the array itself in spilledAccesses, so the next dynamic access of
// the same array takes emitAccess's "already spilled" path and emits no store.
// When the two accesses sit in the two arms of an if, the second reads a
// variable that was never written on that path. Rust naga stores at every
// access (its reference output wgsl-7048-multiple-dynamic-1.spvasm has two
// stores); the golden spv/7048-multiple-dynamic-1.spvasm has one, so removing
// the one marking line changes it.
// Copy into /repo and run  go test -vet=off -count=1 -run TestF78 .   (fails)

import (
	"encoding/binary"
	"testing"

	"github.com/gogpu/naga/spirv"
	"github.com/gogpu/naga/wgsl"
)

func TestF78(t *testing.T) {
	src := `@group(0) @binding(0) var<storage, read_write> o: array<i32>;
fn pick(a: array<i32,4>, c: bool, i: u32, j: u32) -> i32 { var x: i32; if c { x = a[i]; } else { x = a[j]; } return x; }
@compute @workgroup_size(1) fn main(){ o[0] = pick(array<i32,4>(1,2,3,4), o[1] > 0, u32(o[2]), u32(o[3])); }`
	ast, err := Parse(src)
	if err != nil {
		t.Fatal(err)
	}
	m, err := wgsl.Lower(ast)
	if err != nil {
		t.Fatal(err)
	}
	bin, err := spirv.NewBackend(spirv.DefaultOptions()).Compile(m)
	if err != nil {
		t.Fatal(err)
	}
	// In the first function (pick): every block that builds an OpAccessChain on
	// the spill variable (a Function variable other than x's) must store to it first.
	const (
		opLabel       = 248
		opStore       = 62
		opAccessChain = 65
		opFunctionEnd = 56
	)
	stored := map[uint32]bool{}
	for i := 5; i < len(bin)/4; {
		w := binary.LittleEndian.Uint32(bin[i*4:])
		op, n := w&0xffff, int(w>>16)
		if n == 0 {
			break
		}
		word := func(k int) uint32 { return binary.LittleEndian.Uint32(bin[(i+k)*4:]) }
		switch op {
		case opLabel:
			stored = map[uint32]bool{}
		case opStore:
			stored[word(1)] = true
		case opAccessChain:
			if base := word(3); !stored[base] {
				t.Errorf("OpAccessChain on %%%d in a block that does not store to it first", base)
			}
		case opFunctionEnd:
			return
		}
		i += n
	}
}
