package naga

// F87 (C16; known finding, not repaired): names the HLSL writer invents without
// the namer. A function returning an array gets `typedef T ret_<fn>[N]`; with a
// user struct spelt ret_mk the output defines ret_mk twice. (The same holds for
// Construct<Type> helper names and GLSL's _eN_clamped_lod.) Rust naga spells
// these names the same way and the goldens contain them.
// Copy into /repo and run  go test -vet=off -count=1 -run TestF87 .   (fails)

import (
	"strings"
	"testing"

	"github.com/gogpu/naga/hlsl"
	"github.com/gogpu/naga/wgsl"
)

func TestF87(t *testing.T) {
	src := `struct ret_mk { a: f32 }
@group(0) @binding(0) var<storage, read_write> o: array<f32>;
fn mk() -> array<f32, 2> { return array<f32, 2>(1.0, 2.0); }
@compute @workgroup_size(1) fn main(){ var s: ret_mk; s.a = mk()[1]; o[0] = s.a; }`
	ast, err := Parse(src)
	if err != nil {
		t.Fatal(err)
	}
	m, err := wgsl.Lower(ast)
	if err != nil {
		t.Fatal(err)
	}
	out, _, err := hlsl.Compile(m, hlsl.DefaultOptions())
	if err != nil {
		t.Fatal(err)
	}
	if strings.Contains(out, "struct ret_mk") && strings.Contains(out, "typedef float ret_mk[2]") {
		t.Errorf("ret_mk names a struct and a typedef:\n%s", out)
	}
}
