package naga

// F47 (C04, C15): the ReadZeroSkipWrite check of an atomic operation on an
// element of a runtime-sized array read _buffer_sizes.size<position> instead of
// size<global handle>: an undeclared member (or another buffer's size) whenever
// the global is not global 0. Copy into /repo and run
//   go test -vet=off -count=1 -run TestF47 .

import (
	"regexp"
	"strings"
	"testing"

	"github.com/gogpu/naga/msl"
	"github.com/gogpu/naga/wgsl"
)

func TestF47(t *testing.T) {
	src := `@group(0) @binding(0) var<uniform> u: vec4<u32>;
struct S { n: u32, a: array<atomic<u32>> }
@group(0) @binding(1) var<storage,read_write> s: S;
@compute @workgroup_size(1) fn main(@builtin(global_invocation_id) g: vec3<u32>){
 atomicAdd(&s.a[g.x], u.x);
}`
	ast, err := Parse(src)
	if err != nil {
		t.Fatal(err)
	}
	m, err := wgsl.Lower(ast)
	if err != nil {
		t.Fatal(err)
	}
	out, _, err := msl.Compile(m, msl.DefaultOptions())
	if err != nil {
		t.Fatal(err)
	}
	for _, use := range regexp.MustCompile(`_buffer_sizes\.(size\d+)`).FindAllStringSubmatch(out, -1) {
		if !strings.Contains(out, "uint "+use[1]+";") {
			t.Errorf("%s is used but _mslBufferSizes does not declare it:\n%s", use[0], out)
			break
		}
	}
}
