package naga

// F76 (C05, C17; known finding, not repaired): glslBuiltIn names
// @builtin(sample_mask) gl_SampleMaskIn[0] whether it is a fragment input or a
// fragment output, so the output is written as `gl_SampleMaskIn[0] = ...` - an
// assignment to a read-only input; the output built-in is gl_SampleMask[0].
// The golden glsl/interface.glsl contains that assignment, so the repair
// changes it.
// Copy into /repo and run  go test -vet=off -count=1 -run TestF76 .   (fails)

import (
	"strings"
	"testing"

	"github.com/gogpu/naga/glsl"
	"github.com/gogpu/naga/wgsl"
)

func TestF76(t *testing.T) {
	src := `struct Out { @location(0) c: vec4<f32>, @builtin(sample_mask) m: u32 }
@fragment fn main(@builtin(sample_mask) in_mask: u32) -> Out {
 return Out(vec4<f32>(1.0), in_mask & 1u);
}`
	ast, err := Parse(src)
	if err != nil {
		t.Fatal(err)
	}
	m, err := wgsl.Lower(ast)
	if err != nil {
		t.Fatal(err)
	}
	opts := glsl.DefaultOptions()
	opts.EntryPoint = "main"
	out, _, err := glsl.Compile(m, opts)
	if err != nil {
		t.Fatal(err)
	}
	if strings.Contains(out, "gl_SampleMaskIn[0] =") {
		t.Errorf("the sample_mask output is assigned to the input built-in:\n%s", out)
	}
}
