// Drop into <repo>/dxil/ as maporder_site10_test.go (package dxil); run: go test ./dxil -run TestMapOrderSite10 -count=1 -v
// Site 10: mem2reg phiWalker.handleIf ranges w.candidates; one ExprPhi + StmtEmit is appended per candidate in map order, so the phi instruction order (and every later value ID) in the merge block varies.
package dxil

import (
	"crypto/sha256"
	"fmt"
	"testing"

	"github.com/gogpu/naga/wgsl"
)

const mapOrderSrcSite10 = `
@fragment
fn main(@location(0) c: f32) -> @location(0) vec4<f32> {
    var a: f32 = 0.0;
    var b: f32 = 1.0;
    var d: f32 = 4.0;
    if c > 0.5 {
        a = 2.0 * c;
        b = 3.0 * c;
        d = 5.0 * c;
    }
    return vec4<f32>(a, b, d, 1.0);
}
`

func TestMapOrderSite10(t *testing.T) {
	src := mapOrderSrcSite10
	seen := map[string]int{}
	for i := 0; i < 200; i++ {
		tokens, err := wgsl.NewLexer(src).Tokenize()
		if err != nil {
			t.Fatalf("tokenize: %v", err)
		}
		ast, err := wgsl.NewParser(tokens).Parse()
		if err != nil {
			t.Fatalf("parse: %v", err)
		}
		irMod, err := wgsl.LowerWithSource(ast, src)
		if err != nil {
			t.Fatalf("lower: %v", err)
		}
		blob, cerr := Compile(irMod, DefaultOptions())
		switch {
		case cerr != nil:
			seen["ERR: "+cerr.Error()]++
		case Validate(blob, ValidateBitcode) != nil:
			seen["INVALID"]++
		default:
			seen[fmt.Sprintf("ok sha256=%x", sha256.Sum256(blob))]++
		}
	}
	for k, v := range seen {
		t.Logf("%3d x %s", v, k)
	}
	if len(seen) > 1 {
		t.Errorf("%d distinct results over 200 compiles of identical input", len(seen))
	}
}
