// Drop into <repo>/dxil/ as maporder_site12_test.go (package dxil); run: go test ./dxil -run TestMapOrderSite12 -count=1 -v
// Site 12: sroa.Run ranges candidates; decompose() appends per-member LocalVars/Expressions per candidate, so new local indices depend on map order; preAllocateLocalVars emits allocas in LocalVars index order.
package dxil

import (
	"crypto/sha256"
	"fmt"
	"testing"

	"github.com/gogpu/naga/wgsl"
)

const mapOrderSrcSite12 = `
struct S { p: vec4<f32>, q: vec2<f32> }
struct T { u: vec3<f32>, w: vec4<f32> }
struct U { m: vec2<f32>, n: vec3<f32> }
@fragment
fn main(@location(0) c: vec4<f32>) -> @location(0) vec4<f32> {
    var s: S;
    var t: T;
    var u: U;
    s.p = c;
    s.q = c.xy;
    t.u = c.xyz;
    t.w = c * 2.0;
    u.m = c.zw;
    u.n = c.yzw;
    s.p = s.p * t.w;
    s.q = s.q * u.m;
    t.u = t.u * u.n;
    t.w = t.w + s.p;
    u.m = u.m + s.q;
    u.n = u.n + t.u;
    return s.p + vec4<f32>(s.q, t.u.xy) + t.w + vec4<f32>(u.m, u.n.xy);
}
`

func TestMapOrderSite12(t *testing.T) {
	src := mapOrderSrcSite12
	seen := map[string]int{}
	for i := 0; i < 200; i++ {
		tokens, err := wgsl.NewLexer(src).Tokenize()
		if err != nil {
			t.Fatalf("tokenize: %v", err)
		}
		ast, err := wgsl.NewParser(tokens).Parse()
		if err != nil {
			t.Fatalf("parse: %v", err)
		}
		irMod, err := wgsl.LowerWithSource(ast, src)
		if err != nil {
			t.Fatalf("lower: %v", err)
		}
		blob, cerr := Compile(irMod, DefaultOptions())
		switch {
		case cerr != nil:
			seen["ERR: "+cerr.Error()]++
		case Validate(blob, ValidateBitcode) != nil:
			seen["INVALID"]++
		default:
			seen[fmt.Sprintf("ok sha256=%x", sha256.Sum256(blob))]++
		}
	}
	for k, v := range seen {
		t.Logf("%3d x %s", v, k)
	}
	if len(seen) > 1 {
		t.Errorf("%d distinct results over 200 compiles of identical input", len(seen))
	}
}
