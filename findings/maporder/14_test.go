// Drop into <repo>/glsl/ as maporder_site14_test.go (package glsl_test); run: go test ./glsl -run TestMapOrderSite14 -count=1 -v
// Site 14: codegen.Compile ranges w.combinedSamplers and writes textureMappings[cs.glslName]. glslName is the texture global's name "_group_G_binding_B_stage", so two texture globals with the same @group/@binding used by one entry point (accepted by the front end and by glsl.Compile without error) collide on the key and the last writer in map order wins: SamplerBinding differs between runs.
package glsl_test

import (
	"fmt"
	"sort"
	"testing"

	"github.com/gogpu/naga/glsl"
	"github.com/gogpu/naga/wgsl"
)

const mapOrderSrcSite14 = `
@group(0) @binding(0) var ta: texture_2d<f32>;
@group(0) @binding(0) var tb: texture_2d<f32>;
@group(0) @binding(1) var s1: sampler;
@group(0) @binding(2) var s2: sampler;
@fragment
fn main(@location(0) uv: vec2<f32>) -> @location(0) vec4<f32> {
    return textureSample(ta, s1, uv) + textureSample(tb, s2, uv);
}
`

func TestMapOrderSite14(t *testing.T) {
	src := mapOrderSrcSite14
	texts := map[string]int{}
	infos := map[string]int{}
	for i := 0; i < 200; i++ {
		tokens, err := wgsl.NewLexer(src).Tokenize()
		if err != nil {
			t.Fatalf("tokenize: %v", err)
		}
		ast, err := wgsl.NewParser(tokens).Parse()
		if err != nil {
			t.Fatalf("parse: %v", err)
		}
		m, err := wgsl.LowerWithSource(ast, src)
		if err != nil {
			t.Fatalf("lower: %v", err)
		}
		out, info, err := glsl.Compile(m, glsl.DefaultOptions())
		if err != nil {
			t.Fatalf("glsl.Compile: %v", err)
		}
		keys := make([]string, 0, len(info.TextureMappings))
		for k := range info.TextureMappings {
			keys = append(keys, k)
		}
		sort.Strings(keys)
		tm := ""
		for _, k := range keys {
			v := info.TextureMappings[k]
			sb := "nil"
			if v.SamplerBinding != nil {
				sb = fmt.Sprintf("(%d,%d)", v.SamplerBinding.Group, v.SamplerBinding.Binding)
			}
			tm += fmt.Sprintf("%s=>tex(%d,%d),samp%s; ", k, v.TextureBinding.Group, v.TextureBinding.Binding, sb)
		}
		texts[out]++
		infos[tm]++
	}
	for k, v := range infos {
		t.Logf("TextureMappings %3d x %s", v, k)
	}
	if len(infos) > 1 {
		t.Errorf("%d distinct TranslationInfo.TextureMappings over 200 compiles of identical input", len(infos))
	}
	if len(texts) > 1 {
		t.Errorf("%d distinct GLSL texts over 200 compiles of identical input", len(texts))
		for k, v := range texts {
			t.Logf("---- %d x\n%s", v, k)
		}
	}
}
