// Drop into <repo>/dxil/ as maporder_site08_test.go (package dxil); run: go test ./dxil -run TestMapOrderSite08 -count=1 -v
// Sites 8/9 (negative result): Phase A initialValues appends one ExprZeroValue per uninitialised candidate in map order. Handle numbering differs but DXIL bytes do not. 12 vars so the map is >8 entries (fully random order).
package dxil

import (
	"crypto/sha256"
	"fmt"
	"testing"

	"github.com/gogpu/naga/wgsl"
)

const mapOrderSrcSite08 = `
@fragment
fn main(@location(0) c: f32) -> @location(0) vec4<f32> {
    var v0: f32; var v1: i32; var v2: u32; var v3: f32; var v4: i32; var v5: u32;
    var v6: f32; var v7: i32; var v8: u32; var v9: f32; var v10: i32; var v11: u32;
    let x = c + f32(v0) + f32(v1) + f32(v2) + f32(v3) + f32(v4) + f32(v5) + f32(v6) + f32(v7) + f32(v8) + f32(v9) + f32(v10) + f32(v11);
    return vec4<f32>(x, x, x, 1.0);
}
`

func TestMapOrderSite08(t *testing.T) {
	src := mapOrderSrcSite08
	seen := map[string]int{}
	for i := 0; i < 200; i++ {
		tokens, err := wgsl.NewLexer(src).Tokenize()
		if err != nil {
			t.Fatalf("tokenize: %v", err)
		}
		ast, err := wgsl.NewParser(tokens).Parse()
		if err != nil {
			t.Fatalf("parse: %v", err)
		}
		irMod, err := wgsl.LowerWithSource(ast, src)
		if err != nil {
			t.Fatalf("lower: %v", err)
		}
		blob, cerr := Compile(irMod, DefaultOptions())
		switch {
		case cerr != nil:
			seen["ERR: "+cerr.Error()]++
		case Validate(blob, ValidateBitcode) != nil:
			seen["INVALID"]++
		default:
			seen[fmt.Sprintf("ok sha256=%x", sha256.Sum256(blob))]++
		}
	}
	for k, v := range seen {
		t.Logf("%3d x %s", v, k)
	}
	if len(seen) > 1 {
		t.Errorf("%d distinct results over 200 compiles of identical input", len(seen))
	}
}
