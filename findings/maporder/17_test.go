// Drop into <repo>/dxil/ as maporder_site17_test.go (package dxil); run: go test ./dxil -run TestMapOrderSite17 -count=1 -v
// Site 17: ir.collectCalleeHandles returns callees in map order; topologicalCallOrder DFS therefore reaches different cycles first, and the "function call cycle involving %q" error names a different function. (Recursion is not rejected by the WGSL front end.) On acyclic graphs any topological order gives the same result.
package dxil

import (
	"crypto/sha256"
	"fmt"
	"testing"

	"github.com/gogpu/naga/wgsl"
)

const mapOrderSrcSite17 = `
fn f(x: f32) -> f32 { return g(x) + h(x); }
fn g(x: f32) -> f32 { return f(x); }
fn h(x: f32) -> f32 { return h(x); }
@fragment
fn main(@location(0) c: f32) -> @location(0) vec4<f32> {
    return vec4<f32>(f(c));
}
`

func TestMapOrderSite17(t *testing.T) {
	src := mapOrderSrcSite17
	seen := map[string]int{}
	for i := 0; i < 200; i++ {
		tokens, err := wgsl.NewLexer(src).Tokenize()
		if err != nil {
			t.Fatalf("tokenize: %v", err)
		}
		ast, err := wgsl.NewParser(tokens).Parse()
		if err != nil {
			t.Fatalf("parse: %v", err)
		}
		irMod, err := wgsl.LowerWithSource(ast, src)
		if err != nil {
			t.Fatalf("lower: %v", err)
		}
		blob, cerr := Compile(irMod, DefaultOptions())
		switch {
		case cerr != nil:
			seen["ERR: "+cerr.Error()]++
		case Validate(blob, ValidateBitcode) != nil:
			seen["INVALID"]++
		default:
			seen[fmt.Sprintf("ok sha256=%x", sha256.Sum256(blob))]++
		}
	}
	for k, v := range seen {
		t.Logf("%3d x %s", v, k)
	}
	if len(seen) > 1 {
		t.Errorf("%d distinct results over 200 compiles of identical input", len(seen))
	}
}
