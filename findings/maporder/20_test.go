// Drop into <repo>/wgsl/ as maporder_site20_test.go (package wgsl_test); run: go test ./wgsl -run TestMapOrderWarnings -count=1 -v
package wgsl_test

import (
	"strings"
	"testing"

	"github.com/gogpu/naga/wgsl"
)

// site 20: Lowerer.checkUnusedVariables ranges l.localDecls and appends one Warning per unused local.
const srcUnused = `
@fragment
fn main(@location(0) c: f32) -> @location(0) vec4<f32> {
    var a: f32 = 1.0;
    var b: f32 = 2.0;
    var d: f32 = 3.0;
    let e = 4.0;
    return vec4<f32>(c);
}
`

func TestMapOrderWarnings(t *testing.T) {
	seen := map[string]int{}
	for i := 0; i < 200; i++ {
		tokens, err := wgsl.NewLexer(srcUnused).Tokenize()
		if err != nil {
			t.Fatal(err)
		}
		ast, err := wgsl.NewParser(tokens).Parse()
		if err != nil {
			t.Fatal(err)
		}
		res, err := wgsl.LowerWithWarnings(ast, srcUnused)
		if err != nil {
			t.Fatal(err)
		}
		var msgs []string
		for _, w := range res.Warnings {
			msgs = append(msgs, w.Message)
		}
		seen[strings.Join(msgs, " | ")]++
	}
	if len(seen) > 1 {
		t.Errorf("LowerWithWarnings returned %d distinct warning orders for identical input:", len(seen))
	}
	for k, v := range seen {
		t.Logf("%3d x %s", v, k)
	}
}
