// Drop into <repo>/glsl/ as maporder_site15_test.go (package glsl_test); run: go test ./glsl -run TestMapOrderSite15 -count=1 -v
// Site 15: Writer.writeGlobalVariable returns the first combinedSamplers entry (map order) whose samplerHandle matches. Reached via fallbackCombinedName when the image operand does not resolve to a global (binding_array element) and the sampler is shared by two or more direct texture pairs. (The GLSL for binding_array is already broken -- "unknown_type" -- but Compile returns no error and the text differs run to run.)
package glsl_test

import (
	"fmt"
	"sort"
	"testing"

	"github.com/gogpu/naga/glsl"
	"github.com/gogpu/naga/wgsl"
)

const mapOrderSrcSite15 = `
@group(0) @binding(0) var t1: texture_2d<f32>;
@group(0) @binding(1) var t2: texture_2d<f32>;
@group(0) @binding(2) var s: sampler;
@group(0) @binding(3) var ta: binding_array<texture_2d<f32>, 4>;
@fragment
fn main(@location(0) uv: vec2<f32>) -> @location(0) vec4<f32> {
    return textureSample(t1, s, uv) + textureSample(t2, s, uv) + textureSample(ta[1], s, uv);
}
`

func TestMapOrderSite15(t *testing.T) {
	src := mapOrderSrcSite15
	texts := map[string]int{}
	infos := map[string]int{}
	for i := 0; i < 200; i++ {
		tokens, err := wgsl.NewLexer(src).Tokenize()
		if err != nil {
			t.Fatalf("tokenize: %v", err)
		}
		ast, err := wgsl.NewParser(tokens).Parse()
		if err != nil {
			t.Fatalf("parse: %v", err)
		}
		m, err := wgsl.LowerWithSource(ast, src)
		if err != nil {
			t.Fatalf("lower: %v", err)
		}
		out, info, err := glsl.Compile(m, glsl.DefaultOptions())
		if err != nil {
			t.Fatalf("glsl.Compile: %v", err)
		}
		keys := make([]string, 0, len(info.TextureMappings))
		for k := range info.TextureMappings {
			keys = append(keys, k)
		}
		sort.Strings(keys)
		tm := ""
		for _, k := range keys {
			v := info.TextureMappings[k]
			sb := "nil"
			if v.SamplerBinding != nil {
				sb = fmt.Sprintf("(%d,%d)", v.SamplerBinding.Group, v.SamplerBinding.Binding)
			}
			tm += fmt.Sprintf("%s=>tex(%d,%d),samp%s; ", k, v.TextureBinding.Group, v.TextureBinding.Binding, sb)
		}
		texts[out]++
		infos[tm]++
	}
	for k, v := range infos {
		t.Logf("TextureMappings %3d x %s", v, k)
	}
	if len(infos) > 1 {
		t.Errorf("%d distinct TranslationInfo.TextureMappings over 200 compiles of identical input", len(infos))
	}
	if len(texts) > 1 {
		t.Errorf("%d distinct GLSL texts over 200 compiles of identical input", len(texts))
		for k, v := range texts {
			t.Logf("---- %d x\n%s", v, k)
		}
	}
}
