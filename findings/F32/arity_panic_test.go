package naga_test

// F32 (C10, found by rule abort.argindex): textureSample(t), textureSample(t, s)
// and textureLoad(t) panicked the lowerer with "index out of range"
// (lowerTextureSample / lowerTextureLoad indexed args[1], args[2] with only
// len(args) >= 1 established by lowerTextureCall). Fixed by /repo commit a7de7b6.
// Copy into /repo (package naga_test) and run: go test -run TestF32 .

import (
	"testing"

	"github.com/gogpu/naga"
)

func TestF32TextureBuiltinArityDoesNotPanic(t *testing.T) {
	pre := "@group(0) @binding(0) var t: texture_2d<f32>;\n@group(0) @binding(1) var s: sampler;\n"
	for _, call := range []string{"textureSample(t)", "textureSample(t, s)", "textureLoad(t)"} {
		src := pre + "@fragment fn main() -> @location(0) vec4<f32> { let x = " + call + "; return vec4<f32>(0.0); }"
		func() {
			defer func() {
				if r := recover(); r != nil {
					t.Errorf("%s: compiler panicked: %v", call, r)
				}
			}()
			if _, err := naga.Compile(src); err == nil {
				t.Errorf("%s: accepted", call)
			}
		}()
	}
}
