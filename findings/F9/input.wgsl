struct S { @size(16) a: f32, b: f32 }
@group(0) @binding(0) var<storage, read_write> s: S;
@compute @workgroup_size(1) fn main() { s.b = s.a; }
