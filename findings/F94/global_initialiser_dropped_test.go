package naga

// F94 (C09, C01-C05; fixed by dd4a30b): the lowerer silently dropped every
// module-scope initialiser that was not a literal, a constructor or an override
// expression: var<private> y: i32 = K; (= K * 2, = -K, = CFG) started at zero in
// every backend; = 1 + 2 became a float expression that GLSL / MSL wrote as 0 / {}.
// Copy into /repo and run  go test -vet=off -count=1 -run TestF94 .

import (
	"strings"
	"testing"

	"github.com/gogpu/naga/glsl"
	"github.com/gogpu/naga/hlsl"
	"github.com/gogpu/naga/msl"
	"github.com/gogpu/naga/wgsl"
)

func TestF94(t *testing.T) {
	src := `const K = 3;
struct Config { a: f32, b: f32 }
const CFG: Config = Config(1.5, 2.0);
var<private> x: i32 = 1 + 2;
var<private> y: i32 = K;
var<private> z: i32 = K * 2;
var<private> u: i32 = -K;
var<private> w: f32 = 1.5 * 2.0;
var<private> cfg: Config = CFG;
@group(0) @binding(0) var<storage, read_write> o: array<f32>;
@compute @workgroup_size(1) fn main(){ o[0] = f32(x + y + z + u) + w + cfg.a; }`
	ast, err := Parse(src)
	if err != nil {
		t.Fatal(err)
	}
	m, err := wgsl.Lower(ast)
	if err != nil {
		t.Fatal(err)
	}
	for _, g := range m.GlobalVariables {
		if g.Name != "o" && g.InitExpr == nil && g.Init == nil {
			t.Errorf("the initialiser of %s was dropped: the variable starts at zero", g.Name)
		}
	}
	out, _, err := msl.Compile(m, msl.DefaultOptions())
	if err != nil {
		t.Fatal(err)
	}
	for _, want := range []string{"int x = 3;", "int y = 3;", "int z = 6;", "int u = -3;", "float w = 3.0;", "Config cfg = CFG;"} {
		if !strings.Contains(out, want) {
			t.Errorf("msl: missing %q\n%s", want, out)
		}
	}
	out, _, err = hlsl.Compile(m, hlsl.DefaultOptions())
	if err != nil {
		t.Fatal(err)
	}
	if !strings.Contains(out, "static int y = int(3);") && !strings.Contains(out, "static int y = 3;") {
		t.Errorf("hlsl: y is not initialised with 3:\n%s", out)
	}
	opts := glsl.DefaultOptions()
	opts.EntryPoint = "main"
	out, _, err = glsl.Compile(m, opts)
	if err != nil {
		t.Fatal(err)
	}
	if !strings.Contains(out, "int x = 3;") || !strings.Contains(out, "int z = 6;") {
		t.Errorf("glsl: x / z not initialised:\n%s", out)
	}
}
