package naga

// F54 (C08) / F55 (C11, C09, C10): the validator
//  - rejected the valid `break` inside a switch that is not in a loop, and
//    break / continue in a loop nested in a continuing block (F54);
//  - never validated the bodies of entry-point functions, so invalid control
//    flow in an entry point compiled (and one form made the SPIR-V backend
//    panic) (F55).
// Copy into /repo and run  go test -vet=off -count=1 -run TestF54 .

import "testing"

func TestF54(t *testing.T) {
	valid := []string{
		`@group(0) @binding(0) var<storage,read_write> o: array<i32>;
fn k(x: i32) -> i32 { var r = 0; switch x { case 1: { r = 1; break; } default: { } } return r; }
@compute @workgroup_size(1) fn main(){ o[0] = k(o[1]); }`,
		`@group(0) @binding(0) var<storage,read_write> o: array<i32>;
fn h() -> i32 { var i = 0; loop { if i > 3 { break; } continuing { i++; loop { if i > 1 { break; } i++; continue; } switch i { case 1: { break; } default: { } } } } return i; }
@compute @workgroup_size(1) fn main(){ o[0] = h(); }`,
	}
	invalid := []string{
		`@compute @workgroup_size(1) fn main(){ var i = 0; loop { if i > 3 { break; } continuing { i++; if i > 2 { break; } } } }`,
		`@compute @workgroup_size(1) fn main(){ var i = 0; loop { if i > 3 { break; } continuing { i++; loop { return; } } } }`,
		`@compute @workgroup_size(1) fn main(){ var i = 0; loop { if i > 3 { break; } continuing { switch i { default: { continue; } } } } }`,
	}
	for _, s := range valid {
		if _, err := Compile(s); err != nil {
			t.Errorf("valid program rejected: %v\n%s", err, s)
		}
	}
	for _, s := range invalid {
		func() {
			defer func() {
				if e := recover(); e != nil {
					t.Errorf("panic: %v\n%s", e, s)
				}
			}()
			if _, err := Compile(s); err == nil {
				t.Errorf("invalid program accepted:\n%s", s)
			}
		}()
	}
}
