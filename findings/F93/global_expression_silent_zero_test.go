package naga

// F93 (C04, C05; known finding, not repaired): the GLSL constant-expression
// writer answers every global expression kind it has no arm for with "0", the
// MSL one with "{}". An override-dependent initialiser
// (var<private> gain_x_10: f32 = gain * 10.;) is an ExprBinary in
// GlobalExpressions: GLSL declares the variable without initialiser, MSL
// writes `= {}` - both start at zero, HLSL writes 11.0. The goldens
// glsl/overrides.glsl and msl/overrides.msl contain those lines.
// Copy into /repo and run  go test -vet=off -count=1 -run TestF93 .   (fails)

import (
	"strings"
	"testing"

	"github.com/gogpu/naga/msl"
	"github.com/gogpu/naga/wgsl"
)

func TestF93(t *testing.T) {
	src := `override gain: f32 = 1.1;
var<private> gain_x_10: f32 = gain * 10.;
@group(0) @binding(0) var<storage, read_write> o: array<f32>;
@compute @workgroup_size(1) fn main(){ o[0] = gain_x_10; }`
	ast, err := Parse(src)
	if err != nil {
		t.Fatal(err)
	}
	m, err := wgsl.Lower(ast)
	if err != nil {
		t.Fatal(err)
	}
	out, _, err := msl.Compile(m, msl.DefaultOptions())
	if err != nil {
		t.Fatal(err)
	}
	if strings.Contains(out, "gain_x_10 = {};") {
		t.Errorf("the override-dependent initialiser is written as {} (zero):\n%s", out)
	}
}
