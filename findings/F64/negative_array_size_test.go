package naga

// F64 (C11): a negative array size was accepted (it became 4294967295).
// Copy into /repo and run  go test -vet=off -count=1 -run TestF64 .

import "testing"

func TestF64(t *testing.T) {
	for _, src := range []string{
		`@compute @workgroup_size(1) fn f(){ var a: array<i32, -1>; }`,
		`const N = 2; var<private> a: array<i32, N - 3>; @compute @workgroup_size(1) fn f(){ a[0] = 1; }`,
	} {
		if _, err := Compile(src); err == nil {
			t.Errorf("negative array size accepted: %s", src)
		}
	}
}
