package sroa

import (
	"testing"

	"github.com/gogpu/naga/ir"
)

// F118: sroa split a struct local whose initialiser is a constant (not a
// Compose) into member locals without initialisers: `var s: S = K; return s.a`
// read zero instead of K.a.
func TestF118ConstantInitialiserIsNotLost(t *testing.T) {
	f32 := ir.TypeHandle(0)
	st := ir.TypeHandle(1)
	mod := &ir.Module{
		Types: []ir.Type{
			{Inner: ir.ScalarType{Kind: ir.ScalarFloat, Width: 4}},
			{Name: "S", Inner: ir.StructType{Members: []ir.StructMember{{Name: "a", Type: f32}, {Name: "b", Type: f32, Offset: 4}}, Span: 8}},
		},
		Constants: []ir.Constant{{Name: "K", Type: st}},
	}
	init := ir.ExpressionHandle(0)
	res := ir.ExpressionHandle(3)
	fn := &ir.Function{
		Name:      "f",
		Result:    &ir.FunctionResult{Type: f32},
		LocalVars: []ir.LocalVariable{{Name: "s", Type: st, Init: &init}},
		Expressions: []ir.Expression{
			{Kind: ir.ExprConstant{Constant: 0}},
			{Kind: ir.ExprLocalVariable{Variable: 0}},
			{Kind: ir.ExprAccessIndex{Base: 1, Index: 0}},
			{Kind: ir.ExprLoad{Pointer: 2}},
		},
		Body: ir.Block{
			{Kind: ir.StmtEmit{Range: ir.Range{Start: 2, End: 4}}},
			{Kind: ir.StmtReturn{Value: &res}},
		},
	}
	Run(mod, fn)
	for i, lv := range fn.LocalVars {
		if i > 0 && lv.Init == nil {
			t.Errorf("member local %q was created without an initialiser: the constant initialiser of s is lost", lv.Name)
		}
	}
}
