// Drop into dxil/ (package dxil, in-package: uses unexported prepareModule/runOptPasses).
// Run: go test -vet=off -count=1 -run TestDemoD4 ./dxil/
package dxil

import (
	"testing"

	"github.com/gogpu/naga/ir"
	"github.com/gogpu/naga/wgsl"
)

const demoD4Header = `
@group(0) @binding(0) var t: texture_2d<f32>;
@group(0) @binding(1) var s: sampler;
`

func demoD4Lower(t *testing.T, src string) *ir.Module {
	t.Helper()
	tokens, err := wgsl.NewLexer(src).Tokenize()
	if err != nil {
		t.Fatalf("tokenize: %v", err)
	}
	ast, err := wgsl.NewParser(tokens).Parse()
	if err != nil {
		t.Fatalf("parse: %v", err)
	}
	m, err := wgsl.LowerWithSource(ast, src)
	if err != nil {
		t.Fatalf("lower: %v", err)
	}
	return m
}

// demoD4CountStores counts StmtStore statements anywhere in the block tree.
func demoD4CountStores(b ir.Block) int {
	n := 0
	for _, st := range b {
		switch k := st.Kind.(type) {
		case ir.StmtStore:
			n++
		case ir.StmtIf:
			n += demoD4CountStores(k.Accept) + demoD4CountStores(k.Reject)
		case ir.StmtLoop:
			n += demoD4CountStores(k.Body) + demoD4CountStores(k.Continuing)
		case ir.StmtSwitch:
			for _, c := range k.Cases {
				n += demoD4CountStores(c.Body)
			}
		case ir.StmtBlock:
			n += demoD4CountStores(k.Block)
		}
	}
	return n
}

// demoD4RunPasses runs the exact pre-emission pipeline of dxil.Compile.
func demoD4RunPasses(t *testing.T, src string) *ir.Function {
	t.Helper()
	m, err := prepareModule(demoD4Lower(t, src))
	if err != nil {
		t.Fatalf("prepareModule: %v", err)
	}
	if err := runOptPasses(m); err != nil {
		t.Fatalf("runOptPasses: %v", err)
	}
	return &m.EntryPoints[0].Function
}

func TestDemoD4(t *testing.T) {
	// (1) SampleLevelGradient.X/Y: `g` is a vec2 local (not promoted by
	// mem2reg, which only handles scalars). Its only readers are the two
	// gradient operands of textureSampleGrad. DCE does not see those
	// operands, declares `g` dead and deletes the conditional store AND the
	// whole `if`. dxil.Compile then succeeds and emits a shader that samples
	// with whatever is in the never-written alloca: a silent miscompile.
	t.Run("gradient_store_dropped", func(t *testing.T) {
		src := demoD4Header + `
@fragment fn main(@location(0) uv: vec2<f32>) -> @location(0) vec4<f32> {
  var g: vec2<f32> = vec2<f32>(0.0);
  if (uv.x > 0.5) { g = uv * 2.0; }
  return textureSampleGrad(t, s, uv, g, g);
}`
		before := demoD4CountStores(demoD4Lower(t, src).EntryPoints[0].Function.Body)
		fn := demoD4RunPasses(t, src)
		after := demoD4CountStores(fn.Body)
		if before != 1 {
			t.Fatalf("test premise: expected 1 store before passes, got %d", before)
		}
		if after != 1 {
			t.Errorf("store `g = uv * 2.0` feeding textureSampleGrad ddx/ddy was removed by the DXIL opt passes: stores before=%d after=%d (body now has %d statements)",
				before, after, len(fn.Body))
		}
		sample := fn.Expressions[*fn.Body[len(fn.Body)-1].Kind.(ir.StmtReturn).Value].Kind.(ir.ExprImageSample)
		grad := sample.Level.(ir.SampleLevelGradient)
		if _, isLoad := fn.Expressions[grad.X].Kind.(ir.ExprLoad); isLoad && after == 0 {
			t.Errorf("ImageSample.Level.X is still a Load of local `g`, but every store to `g` is gone")
		}
	})

	// (2) SampleLevelExact.Level: array local indexed dynamically.
	// Both element stores are deleted; Compile succeeds (silent miscompile).
	t.Run("exact_level_array_stores_dropped", func(t *testing.T) {
		src := demoD4Header + `
@fragment fn main(@location(0) uv: vec2<f32>, @location(1) @interpolate(flat) idx: u32) -> @location(0) vec4<f32> {
  var lods: array<f32, 2>;
  lods[0] = 1.0;
  lods[1] = 3.0;
  return textureSampleLevel(t, s, uv, lods[idx]) * f32(idx);
}`
		fn := demoD4RunPasses(t, src)
		if n := demoD4CountStores(fn.Body); n != 2 {
			t.Errorf("stores to `lods` (read only through textureSampleLevel's level operand): want 2 after passes, got %d", n)
		}
	})

	// (3) SampleLevelExact / SampleLevelBias / ImageQuerySize.Level with a
	// scalar local promoted by mem2reg to a phi: DCE leaves the phi (and the
	// `if` it depends on) unmarked, removes the `if`, and the emitter then
	// trips over the orphaned phi. A valid shader is rejected.
	for name, body := range map[string]string{
		"exact_level_phi": `
  var lod: f32 = 0.0;
  if (uv.x > 0.5) { lod = uv.y * 2.0; }
  return textureSampleLevel(t, s, uv, lod);`,
		"bias_phi": `
  var b: f32 = 0.0;
  if (uv.x > 0.5) { b = uv.y * 2.0; }
  return textureSampleBias(t, s, uv, b);`,
		"image_query_level_phi": `
  var l: i32 = 0;
  if (uv.x > 0.5) { l = i32(uv.y * 2.0); }
  let d = textureDimensions(t, l);
  return vec4<f32>(f32(d.x));`,
	} {
		t.Run(name, func(t *testing.T) {
			src := demoD4Header +
				"@fragment fn main(@location(0) uv: vec2<f32>) -> @location(0) vec4<f32> {" + body + "\n}"
			fn := demoD4RunPasses(t, src)
			hasIf := false
			for _, st := range fn.Body {
				if _, ok := st.Kind.(ir.StmtIf); ok {
					hasIf = true
				}
			}
			if !hasIf {
				t.Errorf("the `if` that selects the level/bias value was deleted by DCE")
			}
			blob, err := Compile(demoD4Lower(t, src), DefaultOptions())
			if err != nil {
				t.Fatalf("dxil.Compile rejected a valid shader: %v", err)
			}
			if err := Validate(blob, ValidateBitcode); err != nil {
				t.Errorf("Validate: %v", err)
			}
		})
	}
}
