package naga

// F82 (C02; fixed by 19937a6): var<push_constant> pc: f32 was declared as an
// OpVariable of a bare float pointer in the PushConstant class; such a variable
// must be a Block-decorated struct (globalNeedsWrapper listed Immediate but not
// PushConstant, which has the same storage class).
// Copy into /repo and run  go test -vet=off -count=1 -run TestF82 .

import (
	"encoding/binary"
	"testing"

	"github.com/gogpu/naga/spirv"
	"github.com/gogpu/naga/wgsl"
)

func TestF82(t *testing.T) {
	src := `var<push_constant> pc: f32;
@group(0) @binding(0) var<storage, read_write> o: f32;
@compute @workgroup_size(1) fn main() { o = pc; }`
	ast, err := Parse(src)
	if err != nil {
		t.Fatal(err)
	}
	m, err := wgsl.Lower(ast)
	if err != nil {
		t.Fatal(err)
	}
	bin, err := spirv.NewBackend(spirv.DefaultOptions()).Compile(m)
	if err != nil {
		t.Fatal(err)
	}
	const (
		opTypeStruct  = 30
		opTypePointer = 32
		opVariable    = 59
		scPush        = 9
	)
	structs := map[uint32]bool{}
	pointee := map[uint32]uint32{}
	for i := 5; i < len(bin)/4; {
		w := binary.LittleEndian.Uint32(bin[i*4:])
		op, n := w&0xffff, int(w>>16)
		if n == 0 {
			break
		}
		word := func(k int) uint32 { return binary.LittleEndian.Uint32(bin[(i+k)*4:]) }
		switch op {
		case opTypeStruct:
			structs[word(1)] = true
		case opTypePointer:
			pointee[word(1)] = word(3)
		case opVariable:
			if word(3) == scPush && !structs[pointee[word(1)]] {
				t.Errorf("PushConstant variable whose type is not a (Block) struct")
			}
		}
		i += n
	}
}
