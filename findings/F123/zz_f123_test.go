package naga

import "testing"

// F123: `v *= m` with v a vector and m a matrix (vector times matrix, valid
// WGSL) was lowered with the matrix wrapped into a Splat - the compound
// assignment splatted every right-hand side that is "not a vector". SPIR-V:
// "splat value must be scalar, got ir.MatrixType".
func TestF123VectorTimesMatrixCompoundAssignment(t *testing.T) {
	src := `
@group(0) @binding(0) var<storage, read_write> out: vec2<f32>;
@compute @workgroup_size(1) fn main() {
  var v = vec2<f32>(1.0, 2.0);
  let m = mat2x2<f32>(vec2<f32>(1.0, 0.0), vec2<f32>(0.0, 1.0));
  v *= m;
  v *= 2.0;
  out = v;
}
`
	if _, err := Compile(src); err != nil {
		t.Errorf("valid program rejected: %v", err)
	}
}
