package naga

// F41 (C07): AlignOf(S) ignored the explicit @align attributes of S's members
// when S was nested in another struct or used as an array element: the
// lowerer recomputed the alignment from the member types alone.
// Copy into /repo and run  go test -vet=off -count=1 -run TestF41 .
// Fails before the fix, passes after.

import (
	"testing"

	"github.com/gogpu/naga/ir"
	"github.com/gogpu/naga/wgsl"
)

func TestF41(t *testing.T) {
	src := `struct Inner { @align(16) x: f32 }
struct Outer { a: f32, b: Inner, c: array<Inner,2> }
@group(0) @binding(0) var<storage,read_write> o: Outer;
@compute @workgroup_size(1) fn main(){ o.a = 1.0; }`
	ast, err := Parse(src)
	if err != nil {
		t.Fatal(err)
	}
	m, err := wgsl.Lower(ast)
	if err != nil {
		t.Fatal(err)
	}
	for _, ty := range m.Types {
		if st, ok := ty.Inner.(ir.StructType); ok && ty.Name == "Outer" {
			// WGSL: AlignOf(Inner) = 16, SizeOf(Inner) = 16; b at 16, c at 32 (stride 16), SizeOf(Outer) = 64
			if st.Members[1].Offset != 16 || st.Members[2].Offset != 32 || st.Span != 64 {
				t.Errorf("Outer: b at %d, c at %d, span %d; WGSL requires 16, 32, 64", st.Members[1].Offset, st.Members[2].Offset, st.Span)
			}
		}
	}
}
