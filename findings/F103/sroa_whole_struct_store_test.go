package sroa

// F103 (C13; fixed by c367429): sroa kept 'var s: S; s = S(i, 7u);' eligible and
// rewrote s.a / s.b to new member locals, but left the whole-struct store
// pointing at the old local: the members read 0.
// Copy into /repo/dxil/internal/passes/sroa and run  go test -vet=off -count=1 -run TestF103 ./dxil/internal/passes/sroa

import (
	"testing"

	"github.com/gogpu/naga"
	"github.com/gogpu/naga/ir"
	"github.com/gogpu/naga/wgsl"
)

func TestF103(t *testing.T) {
	src := `struct S { a: u32, b: u32 }
@group(0) @binding(0) var<storage, read_write> out: array<u32>;
@compute @workgroup_size(1) fn main(@builtin(local_invocation_index) i: u32){ var s: S; s = S(i, 7u); out[0] = s.a + s.b; }`
	ast, err := naga.Parse(src)
	if err != nil {
		t.Fatal(err)
	}
	m, err := wgsl.Lower(ast)
	if err != nil {
		t.Fatal(err)
	}
	fn := &m.EntryPoints[0].Function
	nLocals := len(fn.LocalVars)
	Run(m, fn)
	if len(fn.LocalVars) == nLocals {
		t.Skip("the struct local was not decomposed")
	}
	// every store must target a local that is still read: none to the old struct local
	for _, st := range fn.Body {
		if s, ok := st.Kind.(ir.StmtStore); ok {
			if lv, ok := fn.Expressions[s.Pointer].Kind.(ir.ExprLocalVariable); ok && int(lv.Variable) < nLocals {
				if _, isStruct := m.Types[fn.LocalVars[lv.Variable].Type].Inner.(ir.StructType); isStruct {
					t.Errorf("after sroa the whole-struct store still targets the old struct local while s.a / s.b are read from the new member locals (which are never written)")
				}
			}
		}
	}
}
