package naga

// Demonstration for finding F31 (property C10): place in the repository root and run
//   go test -vet=off -count=1 -run TestF31 .
// Before the fix this (invalid) program killed the process with a stack overflow: lowerOverride
// registered the override's name before building its initializer, the initializer became a
// reference to the override itself and buildOverrideGlobalExpr recursed without end.

import "testing"

func TestF31(t *testing.T) {
	_, err := Compile(`override a: f32 = a + 1.0;
@fragment fn main() -> @location(0) vec4<f32> { return vec4<f32>(a); }`)
	if err == nil {
		t.Fatal("self-referential override accepted")
	}
}
