const A = vec2<i32>(7, 9) % vec2<i32>(4, 4);
const B = vec2<u32>(7u, 9u) & vec2<u32>(5u, 5u);
const C = vec2<i32>(1, 5) < vec2<i32>(3, 4);
@group(0) @binding(0) var<storage, read_write> out: array<i32>;
@compute @workgroup_size(1) fn main() { out[0] = A.x; out[1] = A.y; out[2] = i32(B.x); out[3] = select(0, 1, C.x); out[4] = select(0, 1, C.y); }
