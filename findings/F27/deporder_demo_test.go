package naga

// Demonstration for finding F27 (property C08): place in the repository root and run
//   go test -vet=off -count=1 -run TestF27 .
// Before the fix both valid programs were rejected ("unresolved identifier: b", "unknown type: T"):
// the dependency walk of wgsl/internal/parser/deporder.go had no arm for BitcastExpr and
// BindingArrayType, so a module-scope declaration used only through them was ordered after its user.

import "testing"

func TestF27(t *testing.T) {
	for name, src := range map[string]string{
		"bitcast": `fn f() -> u32 { return bitcast<u32>(b); }
const b = 1i;
@compute @workgroup_size(1) fn main() { _ = f(); }`,
		"binding_array": `@group(0) @binding(0) var t: binding_array<T, 4>;
alias T = texture_2d<f32>;
@fragment fn main() -> @location(0) vec4<f32> { return textureLoad(t[0], vec2<i32>(0), 0); }`,
	} {
		ast, err := Parse(src)
		if err != nil {
			t.Fatal(err)
		}
		if _, err := Lower(ast); err != nil {
			t.Errorf("%s: valid program rejected: %v", name, err)
		}
	}
}
