package naga

import (
	"testing"

	"github.com/gogpu/naga/hlsl"
)

// F120: hlsl.Options documents that a resource missing from BindingMap fails
// the compilation with ErrMissingBinding unless FakeMissingBindings is set.
// The writer returned the zero target instead: every unmapped resource was
// declared at register 0 of space 0.
func TestF120HLSLMissingBindingIsReported(t *testing.T) {
	src := `
@group(0) @binding(0) var<uniform> a: vec4<f32>;
@group(1) @binding(3) var<uniform> b: vec4<f32>;
@fragment fn fs() -> @location(0) vec4<f32> { return a + b; }
`
	ast, err := Parse(src)
	if err != nil {
		t.Fatal(err)
	}
	mod, err := Lower(ast)
	if err != nil {
		t.Fatal(err)
	}
	opts := hlsl.DefaultOptions()
	opts.FakeMissingBindings = false
	opts.BindingMap = map[hlsl.ResourceBinding]hlsl.BindTarget{{Group: 0, Binding: 0}: {Space: 0, Register: 0}}
	out, _, err := hlsl.Compile(mod, opts)
	if err == nil {
		t.Errorf("@group(1) @binding(3) has no BindingMap entry and FakeMissingBindings is off, yet the compilation succeeded:\n%s", out)
	}
	opts.BindingMap[hlsl.ResourceBinding{Group: 1, Binding: 3}] = hlsl.BindTarget{Space: 1, Register: 3}
	if _, _, err := hlsl.Compile(mod, opts); err != nil {
		t.Errorf("complete BindingMap rejected: %v", err)
	}
}
