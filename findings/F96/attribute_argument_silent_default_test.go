package naga

// F96 (C11, C17, C07; TestF96Attributes fixed by 630b3b7, TestF96WorkgroupSize known
// finding): attribute arguments were used only when they could be evaluated and
// otherwise silently defaulted. @workgroup_size(wg) with an override wg still
// compiles to local size 1: the IR has no slot for an override size and two MSL
// integration tests compile such programs.
// Copy into /repo and run  go test -vet=off -count=1 -run TestF96 .

import (
	"testing"

	"github.com/gogpu/naga/wgsl"
)

func TestF96Attributes(t *testing.T) {
	for _, src := range []string{
		"override n: u32 = 1u;\n@fragment fn main(@location(n) c: vec4<f32>) -> @location(0) vec4<f32> { return c; }",
		"override n: u32 = 16u;\nstruct S { @align(n) a: f32, b: f32 }\n@group(0) @binding(0) var<uniform> s: S;\n@fragment fn main() -> @location(0) vec4<f32> { return vec4<f32>(s.b); }",
		"override n: u32 = 1u;\n@group(n) @binding(n) var<uniform> s: f32;\n@fragment fn main() -> @location(0) vec4<f32> { return vec4<f32>(s); }",
	} {
		ast, err := Parse(src)
		if err != nil {
			t.Fatal(err)
		}
		if _, err := wgsl.Lower(ast); err == nil {
			t.Errorf("an attribute argument that is not a constant expression was silently ignored:\n%s", src)
		}
	}
}

func TestF96WorkgroupSize(t *testing.T) {
	src := "override wg: u32 = 64u;\n@compute @workgroup_size(wg) fn main() {}"
	ast, err := Parse(src)
	if err != nil {
		t.Fatal(err)
	}
	m, err := wgsl.Lower(ast)
	if err != nil {
		return // rejected: not silently wrong
	}
	if m.EntryPoints[0].Workgroup == [3]uint32{1, 1, 1} {
		t.Errorf("@workgroup_size(wg) with override wg = 64 compiled to local size 1 without a diagnostic")
	}
}
