package dce

// F62 (C13): dce.Run removed the Emit of an expression that a surviving
// StmtSubgroupGather still used through its mode (the lane index of
// subgroupShuffle). Copy into /repo/dxil/internal/passes/dce and run
//   go test -vet=off -count=1 -run TestF62 ./dxil/internal/passes/dce/

import (
	"testing"

	"github.com/gogpu/naga"
	"github.com/gogpu/naga/ir"
	"github.com/gogpu/naga/wgsl"
)

func TestF62(t *testing.T) {
	src := `enable subgroups;
@group(0) @binding(0) var<storage,read_write> out: array<u32>;
@compute @workgroup_size(4) fn main(@builtin(local_invocation_index) i: u32) {
 out[0] = subgroupShuffle(i, i ^ 1u);
}`
	ast, err := naga.Parse(src)
	if err != nil {
		t.Skip("subgroups not parsed: ", err)
	}
	m, err := wgsl.Lower(ast)
	if err != nil {
		t.Skip("not lowered: ", err)
	}
	fn := &m.EntryPoints[0].Function
	Run(m, fn)
	emitted := map[ir.ExpressionHandle]bool{}
	var walk func(b ir.Block)
	walk = func(b ir.Block) {
		for _, st := range b {
			switch k := st.Kind.(type) {
			case ir.StmtEmit:
				for h := k.Range.Start; h < k.Range.End; h++ {
					emitted[h] = true
				}
			case ir.StmtSubgroupGather:
				if sh, ok := k.Mode.(ir.GatherShuffle); ok {
					if _, isBin := fn.Expressions[sh.Index].Kind.(ir.ExprBinary); isBin && !emitted[sh.Index] {
						t.Errorf("the shuffle index expression %d is used but no longer emitted", sh.Index)
					}
				}
			}
		}
	}
	walk(fn.Body)
}
