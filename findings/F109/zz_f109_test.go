package naga

import (
	"strings"
	"testing"

	"github.com/gogpu/naga/hlsl"
	"github.com/gogpu/naga/msl"
)

// F109: @early_depth_test(force) is lowered into EntryPoint.EarlyDepthTest,
// which only the GLSL backend reads. HLSL ([earlydepthstencil]), MSL
// ([[early_fragment_tests]]) and SPIR-V (OpExecutionMode EarlyFragmentTests)
// drop it. Golden files pin the outputs without it.
func TestF109EarlyDepthTestDropped(t *testing.T) {
	src := "@fragment @early_depth_test(force) fn fs_main() -> @location(0) vec4<f32> { return vec4<f32>(1.0); }"
	ast, err := Parse(src)
	if err != nil {
		t.Fatal(err)
	}
	mod, err := Lower(ast)
	if err != nil {
		t.Fatal(err)
	}
	if mod.EntryPoints[0].EarlyDepthTest == nil {
		t.Fatal("not lowered")
	}
	h, _, err := hlsl.Compile(mod, hlsl.DefaultOptions())
	if err != nil {
		t.Fatal(err)
	}
	if !strings.Contains(h, "earlydepthstencil") {
		t.Errorf("HLSL lacks [earlydepthstencil]")
	}
	m, _, err := msl.Compile(mod, msl.DefaultOptions())
	if err != nil {
		t.Fatal(err)
	}
	if !strings.Contains(m, "early_fragment_tests") {
		t.Errorf("MSL lacks [[early_fragment_tests]]")
	}
}
