package naga

// F85 (C03; fixed by f8a75b0): HLSL recognised a single-channel storage texture
// only behind a global variable; textureLoad through a texture *argument*
// assigned the scalar texel to a float4 (x, x, x, x) instead of (x, 0, 0, 1).
// Copy into /repo and run  go test -vet=off -count=1 -run TestF85 .

import (
	"strings"
	"testing"

	"github.com/gogpu/naga/hlsl"
	"github.com/gogpu/naga/wgsl"
)

func TestF85(t *testing.T) {
	src := `@group(0) @binding(0) var img: texture_storage_2d<r32float, read_write>;
@group(0) @binding(1) var<storage, read_write> o: array<vec4<f32>>;
fn ld(t: texture_storage_2d<r32float, read_write>, c: vec2<i32>) -> vec4<f32> { return textureLoad(t, c); }
@compute @workgroup_size(1) fn main(@builtin(global_invocation_id) id: vec3<u32>){ o[0] = ld(img, vec2<i32>(id.xy)); }`
	ast, err := Parse(src)
	if err != nil {
		t.Fatal(err)
	}
	m, err := wgsl.Lower(ast)
	if err != nil {
		t.Fatal(err)
	}
	out, _, err := hlsl.Compile(m, hlsl.DefaultOptions())
	if err != nil {
		t.Fatal(err)
	}
	if !strings.Contains(out, "LoadedStorageValueFromfloat(t.Load(") {
		t.Errorf("r32float texel of a texture argument is splatted to float4 instead of (r, 0, 0, 1):\n%s", out)
	}
}
