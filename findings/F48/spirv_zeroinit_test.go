package naga

// F48 / F49 (C15, C01; known findings, not repaired): the SPIR-V backend
// declares function variables (F48) and private variables (F49) that have no
// WGSL initialiser with a three-word OpVariable - no OpConstantNull initializer
// and no store - so reading them yields an undefined value where WGSL
// prescribes zero. 56 (function) and 6 (private) golden .spvasm snapshots
// contain such declarations, so the repair (add the initializer operand) cannot
// be made without editing the suite. Copy into /repo and run
//   go test -vet=off -count=1 -run TestF48 .       (fails on the pinned tree)

import (
	"encoding/binary"
	"testing"
)

func TestF48(t *testing.T) {
	src := `@group(0) @binding(0) var<storage,read_write> o: array<i32>;
var<private> p: i32;
@compute @workgroup_size(1) fn main(){
 var x: i32;
 var v: vec3<f32>;
 o[0] = x + i32(v.y) + p;
}`
	out, err := Compile(src)
	if err != nil {
		t.Fatal(err)
	}
	for i := 20; i < len(out); {
		w := binary.LittleEndian.Uint32(out[i:])
		op, wc := w&0xffff, int(w>>16)
		if wc == 0 {
			break
		}
		if op == 59 { // OpVariable
			sc := binary.LittleEndian.Uint32(out[i+12:])
			if (sc == 7 || sc == 6) && wc < 5 { // Function, Private
				t.Errorf("OpVariable in storage class %d without initializer (word count %d): the WGSL variable is not zero-initialised", sc, wc)
			}
		}
		i += wc * 4
	}
}
