fn naga_neg(x: i32) -> i32 { return x + 100; }
fn naga_mod(a: i32, b: i32) -> i32 { return 7; }
fn naga_modf(a: f32) -> f32 { return 7.0; }
fn _naga_div(a: i32, b: i32) -> i32 { return 9; }
@group(0) @binding(0) var<storage, read_write> out: array<i32>;
@group(0) @binding(1) var<storage, read_write> outf: array<f32>;
@compute @workgroup_size(1) fn main() { let a = out[1]; let b = out[2]; out[0] = -a + naga_neg(a) + naga_mod(a, b) + (a % b) + (a / b) + _naga_div(a, b); let m = modf(outf[1]); outf[0] = m.fract + naga_modf(outf[1]); }
