// Drop into the repository ROOT directory (package naga) and run:
//   go test -vet=off -count=1 -run TestDemoF2 .
// FAILS on the current tree: a backend that resolves overrides on a shallow
// clone (glsl.Compile with PipelineConstants; dxil.Compile; hlsl via the
// snapshot harness) rewrites statements of the caller's module.
package naga

import (
	"fmt"
	"testing"

	"github.com/gogpu/naga/glsl"
	"github.com/gogpu/naga/ir"
)

const demoF2Src = `
override scale: u32 = 2u;
@group(0) @binding(0) var<storage, read_write> out: array<u32>;
fn helper(v: u32) -> u32 { return v + 1u; }
@compute @workgroup_size(1)
fn main(@builtin(local_invocation_index) i: u32) {
    let k = scale;
    if (i > k) {
        let r = helper(i * k);
        out[0] = r;
    }
}`

func dumpBody(b ir.Block) string {
	s := ""
	for _, st := range b {
		switch k := st.Kind.(type) {
		case ir.StmtIf:
			s += fmt.Sprintf("If(%d){%s}{%s}", k.Condition, dumpBody(k.Accept), dumpBody(k.Reject))
		case ir.StmtCall:
			r := -1
			if k.Result != nil {
				r = int(*k.Result)
			}
			s += fmt.Sprintf("Call(%v->%d)", k.Arguments, r)
		case ir.StmtStore:
			s += fmt.Sprintf("Store(%d,%d)", k.Pointer, k.Value)
		case ir.StmtEmit:
			s += fmt.Sprintf("Emit[%d,%d)", k.Range.Start, k.Range.End)
		default:
			s += fmt.Sprintf("%T", k)
		}
		s += ";"
	}
	return s
}

func TestDemoF2(t *testing.T) {
	ast, err := Parse(demoF2Src)
	if err != nil {
		t.Fatal(err)
	}
	m, err := LowerWithSource(ast, demoF2Src)
	if err != nil {
		t.Fatal(err)
	}
	before := dumpBody(m.EntryPoints[0].Function.Body)
	opts := glsl.DefaultOptions()
	opts.EntryPoint = "main"
	opts.PipelineConstants = map[string]float64{"scale": 3}
	if _, _, err := glsl.Compile(m, opts); err != nil {
		t.Fatal(err)
	}
	after := dumpBody(m.EntryPoints[0].Function.Body)
	if before != after {
		t.Fatalf("glsl.Compile modified the module it was given:\n before: %s\n after:  %s", before, after)
	}
}
