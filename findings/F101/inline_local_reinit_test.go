package naga

// F101 (C13; fixed by fb6b306): ir.InlineUserFunctions copied callee locals (var acc = 0u)
// into the caller without storing their initial value at the call site: in a
// caller loop the second inlined call started with acc left by the first.
// Copy into /repo and run  go test -vet=off -count=1 -run TestF101 .

import (
	"testing"

	"github.com/gogpu/naga/ir"
	"github.com/gogpu/naga/wgsl"
)

func TestF101(t *testing.T) {
	src := `@group(0) @binding(0) var<storage, read_write> out: array<u32>;
fn sum(n: u32) -> u32 { var acc = 0u; for (var k = 0u; k < n; k++) { acc += k; } return acc; }
@compute @workgroup_size(1) fn main(@builtin(local_invocation_index) i: u32){
 for (var j = 0u; j < 4u; j++) { out[j] = sum(j + i); }
}`
	ast, err := Parse(src)
	if err != nil {
		t.Fatal(err)
	}
	m, err := wgsl.Lower(ast)
	if err != nil {
		t.Fatal(err)
	}
	if err := ir.InlineUserFunctions(m, func(*ir.Function) bool { return true }); err != nil {
		t.Fatal(err)
	}
	fn := &m.EntryPoints[0].Function
	acc := -1
	for i, lv := range fn.LocalVars {
		if lv.Name == "acc" {
			acc = i
		}
	}
	if acc < 0 {
		t.Fatal("no inlined local named acc")
	}
	// a store to acc inside the caller's loop (not nested in the inlined inner loop)
	var storesInOuterLoop func(b ir.Block, inLoop bool, depth int) int
	storesInOuterLoop = func(b ir.Block, inLoop bool, depth int) int {
		n := 0
		for _, st := range b {
			switch k := st.Kind.(type) {
			case ir.StmtStore:
				if lv, ok := fn.Expressions[k.Pointer].Kind.(ir.ExprLocalVariable); ok && int(lv.Variable) == acc && inLoop && depth == 1 {
					if _, isLit := fn.Expressions[k.Value].Kind.(ir.Literal); isLit {
						n++
					}
				}
			case ir.StmtBlock:
				n += storesInOuterLoop(k.Block, inLoop, depth)
			case ir.StmtIf:
				n += storesInOuterLoop(k.Accept, inLoop, depth) + storesInOuterLoop(k.Reject, inLoop, depth)
			case ir.StmtLoop:
				n += storesInOuterLoop(k.Body, true, depth+1) + storesInOuterLoop(k.Continuing, true, depth+1)
			}
		}
		return n
	}
	if storesInOuterLoop(fn.Body, false, 0) == 0 {
		t.Errorf("the inlined local acc (var acc = 0u in the callee) is not re-initialised at the call site inside the caller's loop: the second call starts with the first call's result")
	}
}
