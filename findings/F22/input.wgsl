const K = 2.0;
const C: nosuchtype = -K;
const D: alsomissing = ~7u;
@group(0) @binding(0) var<storage, read_write> out: array<f32>;
@compute @workgroup_size(1) fn main() { out[0] = f32(C); }
