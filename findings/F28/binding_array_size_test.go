package naga

// Demonstration for finding F28 (properties C07/C01/C19): place in the repository root and run
//   go test -vet=off -count=1 -run TestF28 .
// Before the fix resolveType only understood an unsuffixed integer literal as binding_array size:
// binding_array<T, N> with a named constant N silently became an UNBOUNDED binding array (Size nil),
// and binding_array<T, 4u> a binding array of size 0.

import (
	"testing"

	"github.com/gogpu/naga/ir"
)

func TestF28(t *testing.T) {
	for name, decl := range map[string]string{
		"literal":  `@group(0) @binding(0) var t: binding_array<texture_2d<f32>, 4>;`,
		"suffixed": `@group(0) @binding(0) var t: binding_array<texture_2d<f32>, 4u>;`,
		"const":    "const N = 4;\n@group(0) @binding(0) var t: binding_array<texture_2d<f32>, N>;",
		"parens":   `@group(0) @binding(0) var t: binding_array<texture_2d<f32>, (4)>;`,
	} {
		ast, err := Parse(decl + "\n@fragment fn main() -> @location(0) vec4<f32> { return textureLoad(t[0], vec2<i32>(0), 0); }")
		if err != nil {
			t.Fatal(name, err)
		}
		m, err := Lower(ast)
		if err != nil {
			t.Fatal(name, err)
		}
		found := false
		for _, ty := range m.Types {
			if ba, ok := ty.Inner.(ir.BindingArrayType); ok {
				found = true
				if ba.Size == nil || *ba.Size != 4 {
					t.Errorf("%s: binding_array size = %v, want 4", name, ba.Size)
				}
			}
		}
		if !found {
			t.Errorf("%s: no binding array type", name)
		}
	}
}
