package naga

import (
	"testing"

	"github.com/gogpu/naga/glsl"
	"github.com/gogpu/naga/hlsl"
)

// F116: work proportional to a number written in the source. The element
// count of an array type costs a few characters; several backend functions
// allocate or loop with it (cost.sourcecount lists them). A 100-byte program
// produces megabytes of output (gigabytes and minutes with two more digits).
func TestF116OutputGrowsWithDeclaredArrayCount(t *testing.T) {
	compile := func(src string) (g, h int) {
		ast, err := Parse(src)
		if err != nil {
			t.Fatal(err)
		}
		mod, err := Lower(ast)
		if err != nil {
			t.Fatal(err)
		}
		o := glsl.DefaultOptions()
		o.LangVersion = glsl.Version{Major: 4, Minor: 50}
		gs, _, err := glsl.Compile(mod, o)
		if err != nil {
			t.Fatal(err)
		}
		hs, _, err := hlsl.Compile(mod, hlsl.DefaultOptions())
		if err != nil {
			t.Fatal(err)
		}
		return len(gs), len(hs)
	}
	src := func(n string) string {
		return "struct S { a: array<u32, " + n + "> }\n@group(0) @binding(0) var<storage, read_write> s: S;\n@compute @workgroup_size(1) fn main() { var a = array<u32, " + n + ">(); a[0] = 1u; let c = s.a; s.a[0] = c[1] + a[0]; }"
	}
	g1, h1 := compile(src("1000"))
	g2, h2 := compile(src("1000000"))
	if g2 > 20*g1 {
		t.Errorf("GLSL output %d bytes for count 1000, %d bytes for count 1000000 (source grew by 6 characters)", g1, g2)
	}
	if h2 > 20*h1 {
		t.Errorf("HLSL output %d bytes for count 1000, %d bytes for count 1000000 (source grew by 6 characters)", h1, h2)
	}
}
