override a: u32 = 7u;
override b: u32 = a % 4u;
override c: u32 = a & 5u;
@group(0) @binding(0) var<storage, read_write> out: array<u32>;
@compute @workgroup_size(1) fn main() { out[0] = b; out[1] = c; }
