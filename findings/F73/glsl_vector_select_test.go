package naga

// F73 (C05; fixed by 7285d6e): the GLSL writer spelt every select as
// (cond ? accept : reject); with a bool-vector condition that is not GLSL
// (?: needs a scalar bool). The component-wise form is mix(reject, accept, cond).
// Copy into /repo and run  go test -vet=off -count=1 -run TestF73 .

import (
	"strings"
	"testing"

	"github.com/gogpu/naga/glsl"
	"github.com/gogpu/naga/wgsl"
)

func TestF73(t *testing.T) {
	src := `@group(0) @binding(0) var<storage, read_write> o: array<vec4<f32>>;
@compute @workgroup_size(1) fn main(){
 let c = o[0] < o[1];
 o[2] = select(o[0], o[1], c);
}`
	ast, err := Parse(src)
	if err != nil {
		t.Fatal(err)
	}
	m, err := wgsl.Lower(ast)
	if err != nil {
		t.Fatal(err)
	}
	opts := glsl.DefaultOptions()
	opts.EntryPoint = "main"
	out, _, err := glsl.Compile(m, opts)
	if err != nil {
		t.Fatal(err)
	}
	if strings.Contains(out, "(c ? ") || !strings.Contains(out, "mix(") {
		t.Errorf("bvec4 condition of ?: \n%s", out)
	}
}
