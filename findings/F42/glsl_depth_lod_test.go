package naga

// F42 (C05 / C15): under BoundsCheckRestrict for image loads the GLSL writer
// used _eN_clamped_lod for a textureLoad on a depth texture without ever
// declaring it (the declaration was emitted for ImageClassSampled only).
// Copy into /repo and run  go test -vet=off -count=1 -run TestF42 .

import (
	"regexp"
	"strings"
	"testing"

	"github.com/gogpu/naga/glsl"
	"github.com/gogpu/naga/wgsl"
)

func TestF42(t *testing.T) {
	src := `@group(0) @binding(0) var t: texture_depth_2d;
@fragment fn main(@builtin(position) p: vec4<f32>) -> @location(0) vec4<f32> {
 let d = textureLoad(t, vec2<i32>(p.xy), i32(p.z));
 return vec4(d); }`
	ast, err := Parse(src)
	if err != nil {
		t.Fatal(err)
	}
	m, err := wgsl.Lower(ast)
	if err != nil {
		t.Fatal(err)
	}
	o := glsl.DefaultOptions()
	o.BoundsCheckPolicies.ImageLoad = glsl.BoundsCheckRestrict
	out, _, err := glsl.Compile(m, o)
	if err != nil {
		t.Fatal(err)
	}
	for _, id := range regexp.MustCompile(`_e\d+_clamped_lod`).FindAllString(out, -1) {
		if !strings.Contains(out, "int "+id+" =") {
			t.Errorf("%s is used but never declared:\n%s", id, out)
			break
		}
	}
}
