package naga

// F65 (C06; known finding, not repaired): a constant index into a constant
// array of vectors, a matrix built from columns, or a struct constructor is
// folded to the index-th SCALAR of the flattened constructor:
//   var v = array<vec2<i32>,2>(vec2(1,2), vec2(3,4))[1];   ->  int v = 2
// The golden hlsl/mesh-shader.hlsl (and its siblings) encodes the wrong fold
// ("vertices_[0].position = 0.0" for positions[0], a vec4), so the repair - fold
// to the index-th component unless the base is a vector - cannot be made with
// the suite unedited. Copy into /repo and run
//   go test -vet=off -count=1 -run TestF65 .      (fails on the pinned tree)

import (
	"strings"
	"testing"

	"github.com/gogpu/naga/msl"
	"github.com/gogpu/naga/wgsl"
)

func TestF65(t *testing.T) {
	src := `@group(0) @binding(0) var<storage,read_write> o: array<f32>;
@compute @workgroup_size(1) fn main(){
 var v = array<vec2<i32>,2>(vec2(1,2), vec2(3,4))[1];
 o[0] = f32(v.x);
}`
	ast, err := Parse(src)
	if err != nil {
		t.Fatal(err)
	}
	m, err := wgsl.Lower(ast)
	if err != nil {
		t.Fatalf("valid program rejected (v is a scalar after the fold, so v.x fails): %v", err)
	}
	o := msl.DefaultOptions()
	o.FakeMissingBindings = true
	out, _, err := msl.Compile(m, o)
	if err != nil {
		t.Fatalf("the folded module is ill-typed: %v", err)
	}
	if strings.Contains(out, "int v = 2") || !strings.Contains(out, "int2 v") {
		t.Errorf("element 1 of an array of vec2 was folded to a scalar:\n%s", out)
	}
}
