@must_use fn g() -> i32 { return 1; }
fn f(x: i32) {}
@group(0) @binding(0) var<storage, read_write> out: array<i32>;
@compute @workgroup_size(1) fn main() { f(g()); out[0] = 1; }
