package naga

// F66 (C14, C04; known finding, not repaired): the numeric default of an
// override is stored as an F32 literal whatever the override's type. With
// override c: i32 = 7; override big: i32 = 2147483647; the MSL pipeline-constant
// path emits `constant int c = 7.0;`, `constant int big = 2147483600.0;` and
// `c % 4` as `metal::fmod(7.0, 4)`. The golden msl/overrides.msl contains
// `constant uint auto_conversion = 0.0;`, so the repair (a typed literal in
// buildOverrideGlobalExpr) changes it. Copy into /repo and run
//   go test -vet=off -count=1 -run TestF66 .     (fails on the pinned tree)

import (
	"strings"
	"testing"

	"github.com/gogpu/naga/msl"
	"github.com/gogpu/naga/wgsl"
)

func TestF66(t *testing.T) {
	src := `override c: i32 = 7; override big: i32 = 2147483647; override other: f32 = 1.0;
@group(0) @binding(0) var<storage,read_write> o: array<i32>;
@compute @workgroup_size(1) fn main(){ if (c > 3) { o[0] = c % 4 + big; } }`
	ast, err := Parse(src)
	if err != nil {
		t.Fatal(err)
	}
	m, err := wgsl.Lower(ast)
	if err != nil {
		t.Fatal(err)
	}
	o := msl.DefaultOptions()
	o.FakeMissingBindings = true
	o.PipelineConstants = map[string]float64{"other": 2.0}
	out, _, err := msl.Compile(m, o)
	if err != nil {
		t.Fatal(err)
	}
	for _, bad := range []string{"constant int c = 7.0", "2147483600.0", "fmod(7.0"} {
		if strings.Contains(out, bad) {
			t.Errorf("integer override default handled as a float (%s):\n%s", bad, out)
			break
		}
	}
}
