package naga

// F90 (C01, C02; known finding, not repaired): the SPIR-V switch emitter marks
// the merge block OpUnreachable when every case "terminated" (left no open
// block) - but a case ending in `break` terminates with a branch to that very
// merge block. `switch x { case 1u: { break; } default: { return 2; } } return 3;`
// compiles to a merge block that is branched to and holds OpUnreachable, and
// `return 3` is dropped. The golden spv/control-flow.spvasm encodes this for
// switch_default_break (`switch i { default: { break; } }`); the repair
// (findings/F90/repair.diff: also require that nothing branches to the merge
// label) changes that golden.
// Copy into /repo and run  go test -vet=off -count=1 -run TestF90 .   (fails)

import (
	"encoding/binary"
	"testing"

	"github.com/gogpu/naga/spirv"
	"github.com/gogpu/naga/wgsl"
)

func TestF90(t *testing.T) {
	src := `@group(0) @binding(0) var<storage, read_write> o: array<i32>;
fn f(x: u32) -> i32 { switch x { case 1u: { break; } default: { return 2; } } return 3; }
@compute @workgroup_size(1) fn main(){ o[0] = f(u32(o[1])); }`
	ast, err := Parse(src)
	if err != nil {
		t.Fatal(err)
	}
	m, err := wgsl.Lower(ast)
	if err != nil {
		t.Fatal(err)
	}
	bin, err := spirv.NewBackend(spirv.DefaultOptions()).Compile(m)
	if err != nil {
		t.Fatal(err)
	}
	const (
		opLabel       = 248
		opBranch      = 249
		opUnreachable = 255
	)
	targets := map[uint32]bool{}
	var cur uint32
	unreachableIn := map[uint32]bool{}
	for i := 5; i < len(bin)/4; {
		w := binary.LittleEndian.Uint32(bin[i*4:])
		op, n := w&0xffff, int(w>>16)
		if n == 0 {
			break
		}
		switch op {
		case opLabel:
			cur = binary.LittleEndian.Uint32(bin[(i+1)*4:])
		case opBranch:
			targets[binary.LittleEndian.Uint32(bin[(i+1)*4:])] = true
		case opUnreachable:
			unreachableIn[cur] = true
		}
		i += n
	}
	for l := range unreachableIn {
		if targets[l] {
			t.Errorf("block %%%d holds OpUnreachable and is the target of an OpBranch", l)
		}
	}
}
