package naga

// F92 (C02, C15; fixed by 79f5203): with ImageLoad = Restrict and unsigned texture
// coordinates the SPIR-V backend wrote OpConstantComposite %v2uint %int_1 %int_1
// (constituents of another type than the vector's component: invalid module).
// Copy into /repo and run  go test -vet=off -count=1 -run TestF92 .

import (
	"encoding/binary"
	"testing"

	"github.com/gogpu/naga/spirv"
	"github.com/gogpu/naga/wgsl"
)

func TestF92(t *testing.T) {
	src := `@group(0) @binding(0) var tx: texture_2d<f32>;
@group(0) @binding(1) var<storage, read_write> o: array<vec4<f32>>;
@compute @workgroup_size(1) fn main(@builtin(global_invocation_id) id: vec3<u32>){ o[0] = textureLoad(tx, id.xy, 0); }`
	ast, err := Parse(src)
	if err != nil {
		t.Fatal(err)
	}
	m, err := wgsl.Lower(ast)
	if err != nil {
		t.Fatal(err)
	}
	opts := spirv.DefaultOptions()
	opts.BoundsCheckPolicies.ImageLoad = spirv.BoundsCheckRestrict
	bin, err := spirv.NewBackend(opts).Compile(m)
	if err != nil {
		t.Fatal(err)
	}
	const (
		opTypeInt           = 21
		opTypeVector        = 23
		opConstant          = 43
		opConstantComposite = 44
	)
	vecComp := map[uint32]uint32{}
	constType := map[uint32]uint32{}
	for i := 5; i < len(bin)/4; {
		w := binary.LittleEndian.Uint32(bin[i*4:])
		op, n := w&0xffff, int(w>>16)
		if n == 0 {
			break
		}
		word := func(k int) uint32 { return binary.LittleEndian.Uint32(bin[(i+k)*4:]) }
		switch op {
		case opTypeVector:
			vecComp[word(1)] = word(2)
		case opConstant:
			constType[word(2)] = word(1)
		case opConstantComposite:
			if comp, ok := vecComp[word(1)]; ok {
				for k := 3; k < n; k++ {
					if ct, ok := constType[word(k)]; ok && ct != comp {
						t.Errorf("OpConstantComposite of vector type %%%d (component %%%d) has a constituent of type %%%d", word(1), comp, ct)
					}
				}
			}
		}
		i += n
	}
}
