package dce

import (
	"testing"

	"github.com/gogpu/naga/ir"
)

// F113: a local whose only reader is a callee that receives its address
// (`x = 5; r = f(&x)`) had no live ExprLoad, was declared dead, and the store
// `x = 5` was swept: the callee read an uninitialised variable.
func TestF113StoreBeforePointerArgumentSurvives(t *testing.T) {
	i32 := ir.TypeHandle(0)
	ptr := ir.TypeHandle(1)
	mod := &ir.Module{
		Types: []ir.Type{
			{Inner: ir.ScalarType{Kind: ir.ScalarSint, Width: 4}},
			{Inner: ir.PointerType{Base: i32, Space: ir.SpaceFunction}},
		},
		GlobalVariables: []ir.GlobalVariable{{Name: "out", Space: ir.SpaceStorage, Type: i32}},
	}
	// callee: out = *p; return *p   (a store to a global: side effects)
	res := ir.ExpressionHandle(2)
	callee := ir.Function{
		Name:      "f",
		Arguments: []ir.FunctionArgument{{Name: "p", Type: ptr}},
		Result:    &ir.FunctionResult{Type: i32},
		Expressions: []ir.Expression{
			{Kind: ir.ExprFunctionArgument{Index: 0}},
			{Kind: ir.ExprGlobalVariable{Variable: 0}},
			{Kind: ir.ExprLoad{Pointer: 0}},
		},
		Body: ir.Block{
			{Kind: ir.StmtEmit{Range: ir.Range{Start: 2, End: 3}}},
			{Kind: ir.StmtStore{Pointer: 1, Value: 2}},
			{Kind: ir.StmtReturn{Value: &res}},
		},
	}
	mod.Functions = []ir.Function{callee}
	// caller: var x: i32; x = 5; let r = f(&x); return r
	r := ir.ExpressionHandle(2)
	fn := &ir.Function{
		Name:      "main",
		Result:    &ir.FunctionResult{Type: i32},
		LocalVars: []ir.LocalVariable{{Name: "x", Type: i32}},
		Expressions: []ir.Expression{
			{Kind: ir.ExprLocalVariable{Variable: 0}},
			{Kind: ir.Literal{Value: ir.LiteralI32(5)}},
			{Kind: ir.ExprCallResult{Function: 0}},
		},
		Body: ir.Block{
			{Kind: ir.StmtStore{Pointer: 0, Value: 1}},
			{Kind: ir.StmtCall{Function: 0, Arguments: []ir.ExpressionHandle{0}, Result: &r}},
			{Kind: ir.StmtReturn{Value: &r}},
		},
	}
	Run(mod, fn)
	for _, st := range fn.Body {
		if _, ok := st.Kind.(ir.StmtStore); ok {
			return
		}
	}
	t.Errorf("the store `x = 5` in front of f(&x) was removed: %#v", fn.Body)
}
