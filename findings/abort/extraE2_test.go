// Drop into the repository root (package naga): go test -vet=off -count=1 -run 'TestAbortExtraE2' .
// EXTRA site (not in abort_sites.txt; it is a slice-bounds abort, a class the
// inventory does not list): wgsl/internal/lower/lower.go:13497
//   suffix := name[8:]   in Lowerer.parseTextureType
// reached from resolveNamedType (lower.go:10373) whose guard is
// len(t.Name) >= 7 && t.Name[:7] == "texture", so the 7-byte name "texture"
// slices [8:7]. Uses recover: FAILS on the unchanged tree, PASSES after the fix.
package naga

import "testing"

func TestAbortExtraE2(t *testing.T) {
	for _, src := range []string{
		"@group(0) @binding(0) var t: texture;\n",
		"fn f(t: texture) {}\n",
	} {
		func() {
			defer func() {
				if r := recover(); r != nil {
					t.Errorf("lowering panicked on %q: %v", src, r)
				}
			}()
			ast, err := Parse(src)
			if err != nil {
				t.Fatalf("parse %q: %v", src, err)
			}
			if _, err := LowerWithSource(ast, src); err == nil {
				t.Errorf("expected an ordinary error for %q, got nil", src)
			}
		}()
	}
}
