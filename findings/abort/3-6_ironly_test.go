// Drop into the repository root (package naga): go test -vet=off -count=1 -run 'TestAbort3to6IROnly' .
// IR-ONLY demonstration for sites 3-6 (dxil/internal/emit/resources.go:2553,2562,2758,2760).
// No WGSL source reaches these: the lowerer only ever builds ScalarType with
// Width in {1,2,4,8}. The module below is lowered from WGSL and then
// hand-mutated to Width=0 (ir.Validate rejects it: ir/validate.go:101/111),
// which dxil.Compile does not check. Uses recover; FAILS on the unchanged tree
// with "integer divide by zero", PASSES with 3-6_ironly_fix.diff.
package naga

import (
	"testing"

	"github.com/gogpu/naga/dxil"
	"github.com/gogpu/naga/ir"
)

func abortLower(t *testing.T, src string) *ir.Module {
	t.Helper()
	ast, err := Parse(src)
	if err != nil {
		t.Fatal(err)
	}
	m, err := LowerWithSource(ast, src)
	if err != nil {
		t.Fatal(err)
	}
	return m
}

func abortCompileDXIL(t *testing.T, name string, m *ir.Module) {
	t.Helper()
	defer func() {
		if r := recover(); r != nil {
			t.Errorf("%s: dxil.Compile panicked: %v", name, r)
		}
	}()
	if _, err := dxil.Compile(m, dxil.DefaultOptions()); err == nil {
		t.Errorf("%s: expected an ordinary error, got nil", name)
	}
}

func TestAbort3to6IROnly(t *testing.T) {
	// Site 3 (static index, resources.go:2553).
	m := abortLower(t, `@group(0) @binding(0) var<uniform> u: f32;
@fragment fn main() -> @location(0) vec4<f32> { return vec4<f32>(u); }`)
	for i, ty := range m.Types {
		if s, ok := ty.Inner.(ir.ScalarType); ok && s.Kind == ir.ScalarFloat {
			s.Width = 0
			m.Types[i].Inner = s
		}
	}
	abortCompileDXIL(t, "site3 scalar width 0", m)

	// Site 5 (multi-register path, resources.go:2758; 2760 is dominated by it):
	// needs a non-matrix field with >4 components whose own scalar has width 0,
	// i.e. a vector with Size>4 AND Width 0.
	m = abortLower(t, `@group(0) @binding(0) var<uniform> u: vec4<f32>;
@fragment fn main() -> @location(0) vec4<f32> { let s = u; return s; }`)
	for i, ty := range m.Types {
		if v, ok := ty.Inner.(ir.VectorType); ok {
			v.Scalar.Width = 0
			v.Size = 8
			m.Types[i].Inner = v
		}
	}
	abortCompileDXIL(t, "site5 vec8 width 0", m)
}
