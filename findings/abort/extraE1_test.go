// Drop into the repository root (package naga): go test -vet=off -count=1 -run 'TestAbortExtraE1' .
// EXTRA site (not in abort_sites.txt): wgsl/internal/lower/lower.go:10412
//   scalar := typ.Inner.(ir.ScalarType)   in Lowerer.resolveParameterizedType (vecN<T> branch)
// The inventory skipped it because the same function has a comma-ok on the
// same expression shape in the matN branch. Uses recover: the test FAILS on
// the unchanged tree (reports the recovered panic) and PASSES once lowering
// returns an ordinary error.
package naga

import "testing"

func TestAbortExtraE1(t *testing.T) {
	for _, src := range []string{
		"var<private> v: vec2<vec2<f32>>;\n",
		"alias A = vec2<f32>;\nvar<private> v: vec3<A>;\n",
		"struct S { a: f32 }\nfn f(p: vec4<S>) {}\n",
	} {
		func() {
			defer func() {
				if r := recover(); r != nil {
					t.Errorf("lowering panicked on %q: %v", src, r)
				}
			}()
			ast, err := Parse(src)
			if err != nil {
				t.Fatalf("parse %q: %v", src, err)
			}
			if _, err := LowerWithSource(ast, src); err == nil {
				t.Errorf("expected an ordinary error for %q, got nil", src)
			}
		}()
	}
}
