package naga

// F107 (C05; known finding, not repaired): the GLSL literal writers
// (writeLiteral, formatLiteral) have no arm for ir.LiteralF16 and answer "0":
// every f16 literal of the program becomes 0 (`var h: f16 = 1.5h; h = h * 2.0h;`
// is written `float16_t h = 0; h = (_e2 * 0);`). The goldens
// glsl/conversion-float-to-int*.glsl and glsl/f16*.glsl contain such zeros
// (test_f16_to_i32_(0) for test_f16_to_i32(1.0h)), so adding the arm changes them.
// Copy into /repo and run  go test -vet=off -count=1 -run TestF107 .   (fails)

import (
	"strings"
	"testing"

	"github.com/gogpu/naga/glsl"
	"github.com/gogpu/naga/wgsl"
)

func TestF107(t *testing.T) {
	src := `enable f16;
@group(0) @binding(0) var<storage, read_write> o: array<f32>;
@compute @workgroup_size(1) fn main(){ var h: f16 = 1.5h; h = h * 2.0h; o[0] = f32(h); }`
	ast, err := Parse(src)
	if err != nil {
		t.Fatal(err)
	}
	m, err := wgsl.Lower(ast)
	if err != nil {
		t.Fatal(err)
	}
	opts := glsl.DefaultOptions()
	opts.EntryPoint = "main"
	opts.LangVersion = glsl.Version{Major: 4, Minor: 50}
	out, _, err := glsl.Compile(m, opts)
	if err != nil {
		t.Fatal(err)
	}
	if strings.Contains(out, "float16_t h = 0;") || strings.Contains(out, "* 0)") {
		t.Errorf("f16 literals are written as 0:\n%s", out)
	}
}
