package naga

// F58 (C08, C19): a template list directly followed by '=' (no blank) was
// rejected except for array<...>: the lexer produces '>=' and only one of the
// parser's closing sites split it. Copy into /repo and run
//   go test -vet=off -count=1 -run TestF58 .

import "testing"

func TestF58(t *testing.T) {
	src := `@compute @workgroup_size(1) fn f(){ var x: vec2<f32>= vec2<f32>(1.0); var y: array<vec2<f32>,2>= array<vec2<f32>,2>(); _ = x; _ = y; }`
	if _, err := Compile(src); err != nil {
		t.Errorf("valid program rejected: %v", err)
	}
}
