package naga

import "testing"

// F114: the lowerer's function-scope name tables kept the bindings of the
// function lowered last. A module-scope const_assert (or constant) evaluated
// after it resolved names in those leftovers first: `const N = 4; fn f() { let
// N = 5; } const_assert N == 5;` compiled although the assertion is false.
func TestF114ModuleScopeDoesNotSeeFunctionLocals(t *testing.T) {
	bad := "const N = 4;\nfn f() { let N = 5; }\nconst_assert N == 5;\n@compute @workgroup_size(1) fn main() { f(); }"
	if _, err := Compile(bad); err == nil {
		t.Errorf("a false module-scope const_assert was accepted")
	}
	good := "const N = 4;\nfn f() { let N = 5; }\nconst_assert N == 4;\n@compute @workgroup_size(1) fn main() { f(); }"
	if _, err := Compile(good); err != nil {
		t.Errorf("a true module-scope const_assert was rejected: %v", err)
	}
}
