package naga

// F79 (C01, C05; known finding, not repaired): textureSampleBaseClampToEdge
// must clamp the coordinate to [half texel, 1 - half texel] before sampling
// level 0. The lowerer records that in ExprImageSample.ClampToEdge; the MSL
// and HLSL writers call a helper that clamps, the GLSL and SPIR-V backends
// never read the field and sample the unclamped coordinate.
// Copy into /repo and run  go test -vet=off -count=1 -run TestF79 .   (fails)

import (
	"strings"
	"testing"

	"github.com/gogpu/naga/glsl"
	"github.com/gogpu/naga/wgsl"
)

func TestF79(t *testing.T) {
	src := `@group(0) @binding(0) var tx: texture_2d<f32>;
@group(0) @binding(1) var sm: sampler;
@fragment fn main(@location(0) uv: vec2<f32>) -> @location(0) vec4<f32> { return textureSampleBaseClampToEdge(tx, sm, uv); }`
	ast, err := Parse(src)
	if err != nil {
		t.Fatal(err)
	}
	m, err := wgsl.Lower(ast)
	if err != nil {
		t.Fatal(err)
	}
	opts := glsl.DefaultOptions()
	opts.EntryPoint = "main"
	out, _, err := glsl.Compile(m, opts)
	if err != nil {
		t.Fatal(err)
	}
	if !strings.Contains(out, "clamp(") {
		t.Errorf("coordinate sampled without the clamp:\n%s", out)
	}
}
