package naga

// F89 (C06, C08, C11; fixed by c42481a): evalConstantIdent looked a name up among the
// module-scope constants before the function-scope ones: a local const did
// not shadow a module const in array sizes, const_assert and case selectors.
// Copy into /repo and run  go test -vet=off -count=1 -run TestF89 .

import (
	"testing"

	"github.com/gogpu/naga/ir"
	"github.com/gogpu/naga/wgsl"
)

func TestF89(t *testing.T) {
	src := `const N = 4;
@group(0) @binding(0) var<storage, read_write> o: array<f32>;
@compute @workgroup_size(1) fn main(){
 const N = 2;
 var arr: array<f32, N>;
 arr[1] = 1.0;
 o[0] = arr[1];
}`
	ast, err := Parse(src)
	if err != nil {
		t.Fatal(err)
	}
	m, err := wgsl.Lower(ast)
	if err != nil {
		t.Fatal(err)
	}
	for _, lv := range m.EntryPoints[0].Function.LocalVars {
		if at, ok := m.Types[lv.Type].Inner.(ir.ArrayType); ok {
			if at.Size.Constant == nil || *at.Size.Constant != 2 {
				t.Errorf("array<f32, N> with the function-scope const N = 2 has size %v (the module-scope N = 4 was taken)", at.Size.Constant)
			}
		}
	}
}
