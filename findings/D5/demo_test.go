// Drop into msl/ (external test package msl_test; public APIs only).
// Run: go test -vet=off -count=1 -run TestDemoD5 ./msl/
package msl_test

import (
	"strings"
	"testing"

	"github.com/gogpu/naga"
	"github.com/gogpu/naga/msl"
)

// textureAtomic* on an ARRAYED atomic storage texture: the layer argument
// (ir.StmtImageAtomic.ArrayIndex) must reach the MSL member call, exactly as
// it does for textureStore on the same kind of texture. MSL's
// texture2d_array<T, access::read_write>::atomic_fetch_*(uint2 coord, uint array, T v)
// takes the slice between the coordinate and the value.
const demoD5Src = `
@group(0) @binding(0) var img: texture_storage_2d_array<r32uint, atomic>;
@group(0) @binding(1) var img_l: texture_storage_2d_array<r64uint, atomic>;
@group(0) @binding(2) var img_w: texture_storage_2d_array<r32uint, write>;

@compute @workgroup_size(4)
fn cs_main(@builtin(local_invocation_id) id: vec3<u32>) {
    let layer = i32(id.z) + 3;
    textureAtomicAdd(img, vec2<i32>(1, 2), layer, 7u);
    textureAtomicMax(img_l, vec2<i32>(1, 2), layer, 9lu);
    textureStore(img_w, vec2<i32>(1, 2), layer, vec4<u32>(7u));
}
`

func TestDemoD5(t *testing.T) {
	ast, err := naga.Parse(demoD5Src)
	if err != nil {
		t.Fatalf("parse: %v", err)
	}
	mod, err := naga.LowerWithSource(ast, demoD5Src)
	if err != nil {
		t.Fatalf("lower: %v", err)
	}
	if errs, err := naga.Validate(mod); err != nil || len(errs) != 0 {
		t.Fatalf("validate: %v %v", errs, err)
	}
	out, _, err := msl.Compile(mod, msl.DefaultOptions())
	if err != nil {
		t.Fatalf("msl.Compile: %v", err)
	}

	line := func(substr string) string {
		for _, l := range strings.Split(out, "\n") {
			if strings.Contains(l, substr) {
				return strings.TrimSpace(l)
			}
		}
		t.Fatalf("no line containing %q in MSL output:\n%s", substr, out)
		return ""
	}

	// Sanity: the sibling textureStore does carry the layer.
	if got := line("img_w.write("); !strings.Contains(got, ", layer)") {
		t.Fatalf("premise: textureStore should emit the layer, got %q", got)
	}

	const want32 = "img.atomic_fetch_add(metal::uint2(metal::int2(1, 2)), layer, 7u);"
	if got := line("img.atomic_fetch_add("); got != want32 {
		t.Errorf("textureAtomicAdd on texture2d_array lost its layer argument:\n got: %s\nwant: %s", got, want32)
	}
	const want64 = "img_l.atomic_max(metal::uint2(metal::int2(1, 2)), layer, 9uL);"
	if got := line("img_l.atomic_max("); got != want64 {
		t.Errorf("64-bit textureAtomicMax on texture2d_array lost its layer argument:\n got: %s\nwant: %s", got, want64)
	}
}
