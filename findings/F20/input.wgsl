@group(0) @binding(0) var<storage, read_write> out: array<u32>;
@compute @workgroup_size(1) fn main() { out[0] = 4294967296u; out[1] = u32(3000000000i); }
