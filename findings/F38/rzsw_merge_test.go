package naga_test

// F38 (C02; the previously "observed, not claimed" emitImageLoadRZSW issue, now reported by rule
// spirv.mergefirst): with BoundsCheckPolicies.ImageLoad = ReadZeroSkipWrite, textureLoad on a
// multisampled or storage texture (no mip level, so no level check) produced a block ending in
// OpBranchConditional without any OpSelectionMerge in the function: not structured control flow.
// Fixed by /repo commit 28afa8a. Copy into /repo (package naga_test): go test -run TestF38 .

import (
	"encoding/binary"
	"testing"

	"github.com/gogpu/naga"
	"github.com/gogpu/naga/spirv"
)

func TestF38RZSWImageLoadDeclaresMerge(t *testing.T) {
	for name, src := range map[string]string{
		"multisampled": "@group(0) @binding(0) var t: texture_multisampled_2d<f32>;\n@group(0) @binding(1) var<storage, read_write> out: vec4<f32>;\n@compute @workgroup_size(1) fn main() { out = textureLoad(t, vec2<i32>(1, 2), 3); }",
		"storage":      "@group(0) @binding(0) var t: texture_storage_2d<rgba8unorm, read>;\n@group(0) @binding(1) var<storage, read_write> out: vec4<f32>;\n@compute @workgroup_size(1) fn main() { out = textureLoad(t, vec2<i32>(1, 2)); }",
	} {
		ast, err := naga.Parse(src)
		if err != nil {
			t.Fatal(err)
		}
		m, err := naga.Lower(ast)
		if err != nil {
			t.Fatal(err)
		}
		opts := spirv.DefaultOptions()
		opts.BoundsCheckPolicies.ImageLoad = spirv.BoundsCheckReadZeroSkipWrite
		bin, err := spirv.NewBackend(opts).Compile(m)
		if err != nil {
			t.Fatal(err)
		}
		merges, firstBranchHasMerge, sawBranch, prev := 0, false, false, uint32(0)
		for i := 20; i+4 <= len(bin); {
			w := binary.LittleEndian.Uint32(bin[i:])
			op, n := w&0xffff, int(w>>16)
			if op == 247 || op == 246 {
				merges++
			}
			if op == 250 && !sawBranch {
				sawBranch = true
				firstBranchHasMerge = prev == 247 || prev == 246
			}
			prev = op
			if n == 0 {
				break
			}
			i += 4 * n
		}
		if sawBranch && (merges == 0 || !firstBranchHasMerge) {
			t.Errorf("%s: the first OpBranchConditional is not preceded by a merge instruction (%d merge instructions in the module)", name, merges)
		}
	}
}
