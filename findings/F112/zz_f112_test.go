package naga

import (
	"strings"
	"testing"

	"github.com/gogpu/naga/glsl"
)

// F112: GLSL has no atomicSub; the writer negated the operand by gluing "-"
// to its text. A negative literal or a negated value gave "--5" / "--(_e7)":
// a decrement operator applied to a non-lvalue, not a double negation.
func TestF112GLSLAtomicSubOfNegative(t *testing.T) {
	src := `
@group(0) @binding(0) var<storage, read_write> a: atomic<i32>;
@compute @workgroup_size(1) fn main(@builtin(local_invocation_index) li: u32) {
  var k: i32 = i32(li);
  atomicSub(&a, -5);
  atomicSub(&a, -k);
}
`
	ast, err := Parse(src)
	if err != nil {
		t.Fatal(err)
	}
	mod, err := Lower(ast)
	if err != nil {
		t.Fatal(err)
	}
	o := glsl.DefaultOptions()
	o.LangVersion = glsl.Version{Major: 4, Minor: 50}
	out, _, err := glsl.Compile(mod, o)
	if err != nil {
		t.Fatal(err)
	}
	if strings.Contains(out, "--") {
		t.Errorf("decrement operator in output:\n%s", out)
	}
}
