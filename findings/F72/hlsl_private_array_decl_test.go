package naga

// F72 (C03; known finding, not repaired): the HLSL writer declares a
// module-scope private array as `static float2[2] pm = ...` - the whole type
// text of getTypeName followed by the name. HLSL, like C, wants the extent
// after the name (`static float2 pm[2]`); constants, workgroup variables,
// locals, struct members and function results are all written through
// getTypeNameWithArraySuffix. The golden hlsl/abstract-types-var.hlsl spells
// the `T[N] name` form, so the two-line repair needs it edited.
// Copy into /repo and run  go test -vet=off -count=1 -run TestF72 .   (fails)

import (
	"regexp"
	"testing"

	"github.com/gogpu/naga/hlsl"
	"github.com/gogpu/naga/wgsl"
)

func TestF72(t *testing.T) {
	src := `@group(0) @binding(0) var<storage, read_write> o: array<vec4<i32>>;
var<private> pm: array<vec2<f32>, 2> = array(vec2(1.0, 2.0), vec2(3.0, 4.0));
@compute @workgroup_size(1) fn main(){ o[3] = vec4<i32>(i32(pm[1].x)); }`
	ast, err := Parse(src)
	if err != nil {
		t.Fatal(err)
	}
	m, err := wgsl.Lower(ast)
	if err != nil {
		t.Fatal(err)
	}
	out, _, err := hlsl.Compile(m, hlsl.DefaultOptions())
	if err != nil {
		t.Fatal(err)
	}
	if regexp.MustCompile(`static float2\[2\] pm\b`).MatchString(out) {
		t.Errorf("array extent written before the declared name:\n%s", out)
	}
}
