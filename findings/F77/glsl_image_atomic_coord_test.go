package naga

// F77 (C05; fixed by aabd47f): writeImageAtomic wrote the coordinate of a storage
// texture as is - imageAtomicMax(img, uvec2, ..) has no overload - instead of
// through buildTextureCoord like imageLoad / imageStore.
// Copy into /repo and run  go test -vet=off -count=1 -run TestF77 .

import (
	"strings"
	"testing"

	"github.com/gogpu/naga/glsl"
	"github.com/gogpu/naga/wgsl"
)

func TestF77(t *testing.T) {
	src := `@group(0) @binding(0) var img: texture_storage_2d<r32uint, atomic>;
@compute @workgroup_size(1) fn main(@builtin(global_invocation_id) id: vec3<u32>){
 textureAtomicMax(img, id.xy, 5u);
}`
	ast, err := Parse(src)
	if err != nil {
		t.Fatal(err)
	}
	m, err := wgsl.Lower(ast)
	if err != nil {
		t.Fatal(err)
	}
	opts := glsl.DefaultOptions()
	opts.EntryPoint = "main"
	opts.LangVersion = glsl.Version{Major: 4, Minor: 50}
	out, _, err := glsl.Compile(m, opts)
	if err != nil {
		t.Fatal(err)
	}
	if !strings.Contains(out, "imageAtomicMax(") || !strings.Contains(out, ", ivec2(") {
		t.Errorf("unsigned coordinate of imageAtomicMax not converted to ivec2:\n%s", out)
	}
}
