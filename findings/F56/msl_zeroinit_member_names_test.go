package naga

// F56 (C16, C04): the MSL workgroup zero-initialisation prologue referred to
// struct members by their raw WGSL names although the struct is declared with
// the namer's spelling (keywords and names ending in a digit get an underscore).
// Copy into /repo and run  go test -vet=off -count=1 -run TestF56 .

import (
	"strings"
	"testing"

	"github.com/gogpu/naga/msl"
	"github.com/gogpu/naga/wgsl"
)

func TestF56(t *testing.T) {
	src := `struct S { kernel: atomic<u32>, x1: u32 }
var<workgroup> s: S;
@group(0) @binding(0) var<storage,read_write> o: array<u32>;
@compute @workgroup_size(2) fn main(@builtin(local_invocation_index) li: u32){
 atomicAdd(&s.kernel, 1u); s.x1 = li; workgroupBarrier(); o[0] = atomicLoad(&s.kernel) + s.x1;
}`
	ast, err := Parse(src)
	if err != nil {
		t.Fatal(err)
	}
	m, err := wgsl.Lower(ast)
	if err != nil {
		t.Fatal(err)
	}
	o := msl.DefaultOptions()
	o.FakeMissingBindings = true
	out, _, err := msl.Compile(m, o)
	if err != nil {
		t.Fatal(err)
	}
	if strings.Contains(out, "s.kernel,") || strings.Contains(out, "s.x1 =") {
		t.Errorf("member referenced under a name the struct does not declare:\n%s", out)
	}
}
