# sourced by every script: offline Go toolchain that can build /repo (go >= 1.25) and x/tools v0.50.0
export PATH=/opt/veriftools/go1.26.8/bin:$PATH
export GOTOOLCHAIN=local GOFLAGS=-mod=mod GOPROXY=off GOSUMDB=off GOWORK=off
unset GOOS GOARCH
