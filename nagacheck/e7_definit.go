package main

// E7 define-after-initializer (go/cfg).
//
// WGSL: the identifier introduced by a declaration is in scope only after the
// declaration; its initializer is resolved in the enclosing scope
// (let x = x + 1; reads the outer x). In the front end a name is *defined* by a
// store into a string-keyed map with the key <d>.Name, where d is a syntax-tree
// declaration node that has both a Name and an Init field (VarDecl, ConstDecl,
// OverrideDecl); its initializer is *consumed* by a call that takes <d>.Init (or
// <d>.Type) as an argument.
//
// Rule scope.defafterinit: in the function's control-flow graph no consumption of
// <d>.Init / <d>.Type is reachable from a definition of <d>.Name.

import (
	"go/ast"
	"go/types"

	"golang.org/x/tools/go/cfg"
)

type declEvent struct {
	Obj   types.Object // the declaration variable d
	Def   bool         // definition (map store keyed by d.Name) or consumption
	What  string
	Block *cfg.Block
	Index int // node index inside the block
	Node  ast.Node
}

func declNodeVar(info *types.Info, e ast.Expr, field string) types.Object {
	se, ok := ast.Unparen(e).(*ast.SelectorExpr)
	if !ok || se.Sel.Name != field {
		return nil
	}
	id, ok := ast.Unparen(se.X).(*ast.Ident)
	if !ok {
		return nil
	}
	o := info.Uses[id]
	if o == nil {
		return nil
	}
	n := namedOf(o.Type())
	if n == nil || n.Obj().Pkg() == nil || relPkg(n.Obj().Pkg().Path()) != parserRel {
		return nil
	}
	st, ok := n.Underlying().(*types.Struct)
	if !ok {
		return nil
	}
	hasName, hasInit := false, false
	for i := 0; i < st.NumFields(); i++ {
		hasName = hasName || st.Field(i).Name() == "Name"
		hasInit = hasInit || st.Field(i).Name() == "Init"
	}
	if !hasName || !hasInit {
		return nil
	}
	return o
}

func (c *Ctx) runDefAfterInit(r *Report, rule string, pkgs func(string) bool) {
	nDefs := 0
	for _, fn := range c.allFuncs() {
		if !pkgs(fn.Pkg.Rel) {
			continue
		}
		info := fn.Pkg.Info
		// cheap pre-filter
		has := false
		ast.Inspect(fn.Decl.Body, func(n ast.Node) bool {
			if as, ok := n.(*ast.AssignStmt); ok {
				for _, l := range as.Lhs {
					if ix, ok := ast.Unparen(l).(*ast.IndexExpr); ok && declNodeVar(info, ix.Index, "Name") != nil {
						has = true
					}
				}
			}
			return !has
		})
		if !has {
			continue
		}
		g := c.cfgOf(fn)
		var events []declEvent
		for _, b := range g.Blocks {
			for i, n := range b.Nodes {
				ast.Inspect(n, func(m ast.Node) bool {
					switch x := m.(type) {
					case *ast.FuncLit:
						return false
					case *ast.AssignStmt:
						for _, l := range x.Lhs {
							if ix, ok := ast.Unparen(l).(*ast.IndexExpr); ok {
								if o := declNodeVar(info, ix.Index, "Name"); o != nil {
									if tv, ok := info.Types[ix.X]; ok {
										if mt, ok := tv.Type.Underlying().(*types.Map); ok {
											if bt, ok := mt.Key().Underlying().(*types.Basic); ok && bt.Kind() == types.String {
												events = append(events, declEvent{Obj: o, Def: true, What: types.ExprString(l), Block: b, Index: i, Node: x})
											}
										}
									}
								}
							}
						}
					case *ast.CallExpr:
						for _, a := range x.Args {
							for _, f := range []string{"Init", "Type"} {
								if o := declNodeVar(info, a, f); o != nil {
									events = append(events, declEvent{Obj: o, Def: false, What: types.ExprString(x.Fun) + "(… " + types.ExprString(a) + " …)", Block: b, Index: i, Node: x})
								}
							}
						}
					}
					return true
				})
			}
		}
		// reachability between blocks
		reachFrom := func(b *cfg.Block) map[*cfg.Block]bool {
			seen := map[*cfg.Block]bool{}
			var st []*cfg.Block
			st = append(st, b.Succs...)
			for len(st) > 0 {
				x := st[len(st)-1]
				st = st[:len(st)-1]
				if seen[x] {
					continue
				}
				seen[x] = true
				st = append(st, x.Succs...)
			}
			return seen
		}
		ord := map[string]int{}
		for _, d := range events {
			if !d.Def {
				continue
			}
			nDefs++
			key := fn.id() + ":" + d.What
			ord[key]++
			construct := key
			if ord[key] > 1 {
				construct += "#" + itoa(ord[key])
			}
			rf := reachFrom(d.Block)
			var bad *declEvent
			for i := range events {
				u := &events[i]
				if u.Def || u.Obj != d.Obj {
					continue
				}
				after := false
				if u.Block == d.Block {
					// same node: the right-hand side of the store is evaluated before the store
					after = u.Index > d.Index || rf[u.Block]
				} else {
					after = rf[u.Block]
				}
				if after {
					bad = u
					break
				}
			}
			if bad != nil {
				r.viol(rule, construct, c.pos(d.Node.Pos()), fn.id()+" defines the name with "+d.What+" and afterwards still consumes the declaration's initializer/type with "+bad.What+" ("+c.pos(bad.Node.Pos())+"): the initializer would see the name it declares")
			} else {
				r.ok(rule, construct, c.pos(d.Node.Pos()), "")
			}
		}
	}
	r.inst("scope.definitions", nDefs)
}

func init() {
	dumpers["definit"] = func(c *Ctx, parts []string) {
		r := newReport("dump")
		c.runDefAfterInit(r, "scope.defafterinit", inPkgs("wgsl/internal/lower", parserRel))
		for _, o := range r.Obs {
			println(o.Verdict, o.Construct, o.Pos, o.Msg)
		}
		for k, v := range r.Instances {
			println(k, v)
		}
	}
}

// ---- scope restore completeness ------------------------------------------------
//
// Rule scope.restore: a *scoped binding map* is a string-keyed map field of the
// lowerer that a declaration function stores into under the very key it hands to
// scopeSet (the function that records what a block-scope exit must undo). Every
// such map must be written (assigned or delete()d) by popScope, otherwise a
// binding made inside a block outlives the block or a shadowed binding is not
// restored.

func (c *Ctx) runScopeRestore(r *Report, rule, pkgRel, recvType, setFn, popFn string, exceptions map[string]string) {
	var pop *funcInfo
	fields := map[string]string{} // field -> first site
	fieldPos := map[string]string{}
	for _, fn := range c.allFuncs() {
		if fn.Pkg.Rel != pkgRel {
			continue
		}
		if fn.Name == recvType+"."+popFn {
			pop = fn
		}
		info := fn.Pkg.Info
		// keys handed to scopeSet in this function
		keys := map[string]bool{}
		ast.Inspect(fn.Decl.Body, func(n ast.Node) bool {
			if call, ok := n.(*ast.CallExpr); ok {
				if se, ok := call.Fun.(*ast.SelectorExpr); ok && se.Sel.Name == setFn && len(call.Args) == 1 {
					keys[types.ExprString(call.Args[0])] = true
				}
			}
			return true
		})
		if len(keys) == 0 || fn.Name == recvType+"."+setFn {
			continue
		}
		ast.Inspect(fn.Decl.Body, func(n ast.Node) bool {
			as, ok := n.(*ast.AssignStmt)
			if !ok {
				return true
			}
			for _, l := range as.Lhs {
				ix, ok := ast.Unparen(l).(*ast.IndexExpr)
				if !ok || !keys[types.ExprString(ix.Index)] {
					continue
				}
				se, ok := ast.Unparen(ix.X).(*ast.SelectorExpr)
				if !ok {
					continue
				}
				if sel, ok := info.Selections[se]; ok && sel.Kind() == types.FieldVal && namedName(sel.Recv()) == recvType {
					if _, seen := fields[se.Sel.Name]; !seen {
						fields[se.Sel.Name] = fn.id()
						fieldPos[se.Sel.Name] = c.pos(as.Pos())
					}
				}
			}
			return true
		})
	}
	if pop == nil {
		r.undecided(rule, pkgRel+"."+recvType+"."+popFn, "", "scope exit function not found")
		return
	}
	written := map[string]bool{}
	ast.Inspect(pop.Decl.Body, func(n ast.Node) bool {
		mark := func(e ast.Expr) {
			if ix, ok := ast.Unparen(e).(*ast.IndexExpr); ok {
				e = ix.X
			}
			if se, ok := ast.Unparen(e).(*ast.SelectorExpr); ok {
				written[se.Sel.Name] = true
			}
		}
		switch x := n.(type) {
		case *ast.AssignStmt:
			for _, l := range x.Lhs {
				mark(l)
			}
		case *ast.CallExpr:
			if id, ok := x.Fun.(*ast.Ident); ok && id.Name == "delete" && len(x.Args) == 2 {
				mark(x.Args[0])
			}
		}
		return true
	})
	n := 0
	for f, site := range fields {
		n++
		construct := pkgRel + "." + recvType + "." + f
		switch {
		case written[f]:
			r.ok(rule, construct, fieldPos[f], "")
		case exceptions[f] != "":
			r.exc(rule, construct, fieldPos[f], exceptions[f])
		default:
			r.viol(rule, construct, fieldPos[f], site+" binds a name in "+recvType+"."+f+" under the key it hands to "+setFn+", but "+popFn+" never writes that map: the binding outlives its block / the shadowed binding is not restored")
		}
	}
	r.inst("scope.bindingmaps", n)

	// scope.shadowclear: the entry function (scopeSet) saves the shadowed binding's
	// attributes; every attribute map it reads for that purpose must also be cleared
	// there for the new binding (delete or assignment under the same key), unless the
	// map is the primary binding map, which every declaration overwrites itself (the
	// one map that is read but listed as primary). An attribute left in place leaks
	// from the shadowed binding to the new one (a pointer-let flag onto a plain var).
	var set *funcInfo
	for _, fn := range c.allFuncs() {
		if fn.Pkg.Rel == pkgRel && fn.Name == recvType+"."+setFn {
			set = fn
		}
	}
	if set == nil {
		return
	}
	info := set.Pkg.Info
	read := map[string]string{}
	cleared := map[string]bool{}
	ast.Inspect(set.Decl.Body, func(m ast.Node) bool {
		switch x := m.(type) {
		case *ast.IndexExpr:
			if se, ok := ast.Unparen(x.X).(*ast.SelectorExpr); ok {
				if sel, ok := info.Selections[se]; ok && sel.Kind() == types.FieldVal && namedName(sel.Recv()) == recvType {
					if _, isMap := sel.Type().Underlying().(*types.Map); isMap {
						if _, seen := read[se.Sel.Name]; !seen {
							read[se.Sel.Name] = c.pos(x.Pos())
						}
					}
				}
			}
		case *ast.CallExpr:
			if id, ok := x.Fun.(*ast.Ident); ok && id.Name == "delete" && len(x.Args) == 2 {
				if se, ok := ast.Unparen(x.Args[0]).(*ast.SelectorExpr); ok {
					cleared[se.Sel.Name] = true
				}
			}
		case *ast.AssignStmt:
			for _, l := range x.Lhs {
				if ix, ok := ast.Unparen(l).(*ast.IndexExpr); ok {
					if se, ok := ast.Unparen(ix.X).(*ast.SelectorExpr); ok {
						cleared[se.Sel.Name] = true
					}
				}
			}
		}
		return true
	})
	m := 0
	for f, pos := range read {
		m++
		construct := pkgRel + "." + recvType + "." + setFn + ":" + f
		switch {
		case cleared[f]:
			r.ok("scope.shadowclear", construct, pos, "")
		case f == "locals":
			r.exc("scope.shadowclear", construct, pos, "primary binding map: every declaration that calls "+setFn+" stores its own expression under the name right afterwards")
		default:
			r.viol("scope.shadowclear", construct, pos, set.id()+" saves the shadowed binding's entry in "+f+" but does not clear it for the new binding: the attribute of the outer declaration leaks onto an inner declaration of the same name")
		}
	}
	r.inst("scope.shadowclear", m)
}

func init() {
	dumpers["scoperestore"] = func(c *Ctx, parts []string) {
		r := newReport("dump")
		c.runScopeRestore(r, "scope.restore", "wgsl/internal/lower", "Lowerer", "scopeSet", "popScope", nil)
		for _, o := range r.Obs {
			println(o.Verdict, o.Construct, o.Pos, o.Msg)
		}
	}
}

// scope.depblock (C08, C19, C11): the parser's dependency collector threads a
// set of local names (a map[string]bool parameter) through its statement
// walker so that a reference to a local is not mistaken for a reference to a
// module-scope declaration. WGSL names are block scoped: a function that
// receives a *BlockStmt together with such a set and walks the block's
// statements must hand the statements a set of its OWN (a map made in that
// function), not the parameter - otherwise a name declared inside the block
// keeps hiding the module-scope name after the block has ended, the reference
// is not recorded, and acceptance depends on declaration order.
func (c *Ctx) runDepBlockScope(r *Report, rule string) {
	n := 0
	for _, fn := range c.allFuncs() {
		if fn.Pkg.Rel != parserRel || fn.Decl.Type.Params == nil {
			continue
		}
		info := fn.Pkg.Info
		var setParam, blockParam types.Object
		for _, fl := range fn.Decl.Type.Params.List {
			for _, nm := range fl.Names {
				o := info.Defs[nm]
				if o == nil {
					continue
				}
				if mt, ok := o.Type().Underlying().(*types.Map); ok {
					if kb, ok := mt.Key().Underlying().(*types.Basic); ok && kb.Kind() == types.String {
						if vb, ok := mt.Elem().Underlying().(*types.Basic); ok && vb.Kind() == types.Bool {
							setParam = o
						}
					}
				}
				if p, ok := o.Type().(*types.Pointer); ok && namedName(p.Elem()) == "BlockStmt" {
					blockParam = o
				}
			}
		}
		if setParam == nil || blockParam == nil {
			continue
		}
		// calls inside a range over <block>.Statements
		ast.Inspect(fn.Decl.Body, func(m ast.Node) bool {
			rs, ok := m.(*ast.RangeStmt)
			if !ok {
				return true
			}
			se, ok := ast.Unparen(rs.X).(*ast.SelectorExpr)
			if !ok || se.Sel.Name != "Statements" {
				return true
			}
			if id, ok := ast.Unparen(se.X).(*ast.Ident); !ok || info.Uses[id] != blockParam {
				return true
			}
			ast.Inspect(rs.Body, func(k ast.Node) bool {
				call, ok := k.(*ast.CallExpr)
				if !ok {
					return true
				}
				for _, a := range call.Args {
					tv, ok := info.Types[a]
					if !ok || !types.Identical(tv.Type, setParam.Type()) {
						continue
					}
					n++
					cons := fn.id() + ":" + calleeDesc(info, call)
					id, isID := ast.Unparen(a).(*ast.Ident)
					if isID && info.Uses[id] == setParam {
						r.viol(rule, cons, c.pos(call.Pos()), fn.id()+" walks the statements of a block with the caller's own set of local names ("+id.Name+"): declarations inside the block stay in the set after the block ends and hide module-scope names of the same name in the rest of the function")
					} else {
						r.ok(rule, cons, c.pos(call.Pos()), "")
					}
				}
				return true
			})
			return true
		})
	}
	r.inst("scope.depblock", n)
}
