package main

import (
	"bufio"
	"encoding/json"
	"fmt"
	"go/ast"
	"go/token"
	"go/types"
	"os"
	"path/filepath"
	"sort"
	"strings"
	"time"

	"golang.org/x/tools/go/packages"
)

const modPath = "github.com/gogpu/naga"

// Verdict of one obligation.
const (
	OK        = "ok"
	Violation = "violation"
	Exception = "exception" // discharged by a reasoned, single-symbol exception
	Undecided = "undecided" // could not be resolved: fails the run (never "held")
)

// Ob is one obligation: one rule applied to one construct.
type Ob struct {
	Rule       string `json:"rule"`
	Construct  string `json:"construct"` // identity: package, function, variant/field/constant — never a line
	Verdict    string `json:"verdict"`
	Msg        string `json:"msg,omitempty"`
	Pos        string `json:"pos,omitempty"` // file:line, message only
	Nontrivial bool   `json:"-"`
}

// Report collects the obligations of one property run.
type Report struct {
	Prop        string
	Obs         []Ob
	Instances   map[string]int // family -> number of rule instances matched (vacuity floors)
	Floors      map[string]int // family -> floor confirmed by hand on the pinned tree
	Notes       []string
	Clauses     []string // clauses decided (for explanation)
	NotDecided  []string
	Assumptions []string
	Extra       map[string]any
}

func newReport(prop string) *Report {
	return &Report{Prop: prop, Instances: map[string]int{}, Floors: map[string]int{}, Extra: map[string]any{}}
}

func (r *Report) add(rule, construct, verdict, pos, msg string, nontrivial bool) {
	construct = noSpace(construct) // identities are matched token-wise in known-findings.txt
	r.Obs = append(r.Obs, Ob{Rule: rule, Construct: construct, Verdict: verdict, Msg: msg, Pos: pos, Nontrivial: nontrivial})
}
func (r *Report) ok(rule, construct, pos, msg string)   { r.add(rule, construct, OK, pos, msg, true) }
func (r *Report) triv(rule, construct, pos, msg string) { r.add(rule, construct, OK, pos, msg, false) }
func (r *Report) viol(rule, construct, pos, msg string) { r.add(rule, construct, Violation, pos, msg, true) }
func (r *Report) exc(rule, construct, pos, reason string) {
	r.add(rule, construct, Exception, pos, reason, true)
}
func (r *Report) undecided(rule, construct, pos, msg string) {
	r.add(rule, construct, Undecided, pos, msg, true)
}
func (r *Report) inst(family string, n int) { r.Instances[family] += n }
func (r *Report) floor(family string, n int) {
	r.Floors[family] = n
	if _, ok := r.Instances[family]; !ok {
		r.Instances[family] = 0
	}
}

// Ctx is the loaded program shared by all engines.
type Ctx struct {
	blockSummaries map[string]int8
	RepoDir string
	Tier    string
	Fset    *token.FileSet
	Roots   []*packages.Package          // library packages analysed
	ByPath  map[string]*packages.Package // every naga package loaded
	Skipped []string                     // tooling packages excluded
	NFuncs  int
	LoadS   float64
	Config  string // GOOS/GOARCH label

	ssaOnce bool
	ssa     *ssaState

	cache map[string]any
}

// packages that are tooling, not part of any property's API surface.
var excludedPkgs = []string{
	modPath + "/cmd/", modPath + "/snapshot", modPath + "/scripts", modPath + "/internal/dxcvalidator", modPath + "/tmp",
}

func isExcluded(path string) bool {
	for _, e := range excludedPkgs {
		if path == strings.TrimSuffix(e, "/") || strings.HasPrefix(path, e) || strings.HasPrefix(path, strings.TrimSuffix(e, "/")+"/") {
			return true
		}
	}
	return false
}

type brokenErr struct{ msg string }

func (b brokenErr) Error() string { return b.msg }

func broken(format string, a ...any) {
	panic(brokenErr{fmt.Sprintf(format, a...)})
}

func loadRepo(repo, tier string, env []string, label string) *Ctx {
	return loadRepoOverlay(repo, tier, env, label, nil)
}

func loadRepoOverlay(repo, tier string, env []string, label string, overlay map[string][]byte) *Ctx {
	t0 := time.Now()
	fset := token.NewFileSet()
	cfg := &packages.Config{
		Mode:  packages.LoadAllSyntax,
		Dir:   repo,
		Fset:  fset,
		Tests:   false,
		Env:     append(os.Environ(), env...),
		Overlay: overlay,
	}
	pkgs, err := packages.Load(cfg, "./...")
	if err != nil {
		broken("packages.Load: %v", err)
	}
	ctx := &Ctx{RepoDir: repo, Tier: tier, Fset: fset, ByPath: map[string]*packages.Package{}, cache: map[string]any{}, Config: label}
	nerr := 0
	packages.Visit(pkgs, nil, func(p *packages.Package) {
		if strings.HasPrefix(p.PkgPath, modPath) {
			for _, e := range p.Errors {
				fmt.Fprintf(os.Stderr, "load error: %s: %v\n", p.PkgPath, e)
				nerr++
			}
			ctx.ByPath[p.PkgPath] = p
		}
	})
	if nerr > 0 {
		broken("%d type-check/load errors in %s (config %s)", nerr, repo, label)
	}
	for _, p := range pkgs {
		if !strings.HasPrefix(p.PkgPath, modPath) {
			continue
		}
		if isExcluded(p.PkgPath) {
			ctx.Skipped = append(ctx.Skipped, p.PkgPath)
			continue
		}
		ctx.Roots = append(ctx.Roots, p)
	}
	sort.Slice(ctx.Roots, func(i, j int) bool { return ctx.Roots[i].PkgPath < ctx.Roots[j].PkgPath })
	if len(ctx.Roots) == 0 {
		broken("no library packages loaded from %s", repo)
	}
	for _, p := range ctx.Roots {
		for _, f := range p.Syntax {
			for _, d := range f.Decls {
				if _, ok := d.(*ast.FuncDecl); ok {
					ctx.NFuncs++
				}
			}
		}
	}
	ctx.LoadS = time.Since(t0).Seconds()
	return ctx
}

func (c *Ctx) pkg(rel string) *packages.Package {
	path := modPath
	if rel != "" {
		path += "/" + rel
	}
	p := c.ByPath[path]
	if p == nil {
		broken("package %s not loaded", path)
	}
	return p
}

func (c *Ctx) pos(p token.Pos) string {
	if !p.IsValid() {
		return ""
	}
	pp := c.Fset.Position(p)
	rel, err := filepath.Rel(c.RepoDir, pp.Filename)
	if err != nil {
		rel = pp.Filename
	}
	return fmt.Sprintf("%s:%d", rel, pp.Line)
}

// relPkg returns the package path relative to the module ("" for root).
func relPkg(path string) string {
	if path == modPath {
		return "naga"
	}
	return strings.TrimPrefix(path, modPath+"/")
}

func shortPkg(p *types.Package) string {
	if p == nil {
		return ""
	}
	return relPkg(p.Path())
}

// ---------------------------------------------------------------------------
// known findings

type knownFinding struct {
	Prop, Rule, Construct, Text string
	matched                     bool
}

func loadKnownFindings(path string) []*knownFinding {
	f, err := os.Open(path)
	if err != nil {
		return nil
	}
	defer f.Close()
	var out []*knownFinding
	sc := bufio.NewScanner(f)
	sc.Buffer(make([]byte, 1<<20), 1<<20)
	for sc.Scan() {
		line := strings.TrimSpace(sc.Text())
		if !strings.HasPrefix(line, "finding:") {
			continue // "fixed:" lines and comments suppress nothing
		}
		rest := strings.TrimSpace(strings.TrimPrefix(line, "finding:"))
		kf := &knownFinding{}
		// fields: property=<id> rule=<rule> construct=<identity> — text
		if i := strings.Index(rest, " — "); i >= 0 {
			kf.Text = strings.TrimSpace(rest[i+len(" — "):])
			rest = rest[:i]
		}
		for _, tok := range strings.Fields(rest) {
			switch {
			case strings.HasPrefix(tok, "property="):
				kf.Prop = strings.TrimPrefix(tok, "property=")
			case strings.HasPrefix(tok, "rule="):
				kf.Rule = strings.TrimPrefix(tok, "rule=")
			case strings.HasPrefix(tok, "construct="):
				kf.Construct = strings.TrimPrefix(tok, "construct=")
			}
		}
		if kf.Prop != "" && kf.Rule != "" && kf.Construct != "" {
			out = append(out, kf)
		}
	}
	return out
}

// ---------------------------------------------------------------------------
// evidence + exit

type replayFile struct {
	Property  string `json:"property"`
	Rule      string `json:"rule"`
	Construct string `json:"construct"`
	Pos       string `json:"pos"`
	Msg       string `json:"msg"`
	Repo      string `json:"repo"`
	Tier      string `json:"tier"`
	Replay    string `json:"replay_cmd"`
}

// finish writes evidence, prints verdict lines and returns the exit code.
func finish(ctx *Ctx, r *Report, verifDir string, seed int, wall float64, known []*knownFinding) int {
	evDir := filepath.Join(verifDir, "evidence")
	os.MkdirAll(filepath.Join(evDir, "replay"), 0o755)
	// remove stale replay files for this property
	if old, _ := filepath.Glob(filepath.Join(evDir, "replay", r.Prop+"-*.json")); old != nil {
		for _, o := range old {
			os.Remove(o)
		}
	}

	sort.SliceStable(r.Obs, func(i, j int) bool {
		if r.Obs[i].Rule != r.Obs[j].Rule {
			return r.Obs[i].Rule < r.Obs[j].Rule
		}
		return r.Obs[i].Construct < r.Obs[j].Construct
	})

	nOK, nExc, nViol, nUnd, nKnown := 0, 0, 0, 0, 0
	distinct := map[string]bool{}
	var newViol []Ob
	var knownLines []string
	byRule := map[string]map[string]int{}
	for i := range r.Obs {
		o := &r.Obs[i]
		if byRule[o.Rule] == nil {
			byRule[o.Rule] = map[string]int{}
		}
		byRule[o.Rule][o.Verdict]++
		switch o.Verdict {
		case OK:
			nOK++
		case Exception:
			nExc++
		case Undecided:
			nUnd++
			newViol = append(newViol, *o)
		case Violation:
			matched := false
			for _, k := range known {
				if k.Prop == r.Prop && k.Rule == o.Rule && k.Construct == o.Construct {
					matched = true
					k.matched = true
					knownLines = append(knownLines, fmt.Sprintf("KNOWN-FINDING: property=%s rule=%s construct=%s %s — %s [%s]", r.Prop, o.Rule, o.Construct, o.Msg, k.Text, o.Pos))
				}
			}
			if matched {
				nKnown++
			} else {
				nViol++
				newViol = append(newViol, *o)
			}
		}
		if o.Nontrivial {
			distinct[o.Rule+"|"+o.Construct] = true
		}
	}

	// vacuity floors
	var shrunk []string
	for fam, fl := range r.Floors {
		n := r.Instances[fam]
		if n == 0 && fl > 0 {
			o := Ob{Rule: "vacuity", Construct: fam, Verdict: Undecided, Msg: fmt.Sprintf("rule family %q matched 0 instances (floor %d): the rule went blind", fam, fl)}
			r.Obs = append(r.Obs, o)
			newViol = append(newViol, o)
			nUnd++
		} else if n < fl {
			shrunk = append(shrunk, fmt.Sprintf("%s: %d < floor %d", fam, n, fl))
		}
	}
	sort.Strings(shrunk)

	// samples: a spread of obligations across rules
	var samples []any
	perRule := map[string]int{}
	for _, o := range r.Obs {
		lim := 3
		if o.Verdict != OK {
			lim = 6
		}
		if perRule[o.Rule+o.Verdict] >= lim || len(samples) >= 60 {
			continue
		}
		perRule[o.Rule+o.Verdict]++
		samples = append(samples, o)
	}
	if len(samples) == 0 {
		samples = append(samples, map[string]string{"note": "no obligations generated"})
	}

	// replay files
	var violLines []string
	for i, o := range newViol {
		rp := filepath.Join(evDir, "replay", fmt.Sprintf("%s-%d.json", r.Prop, i+1))
		rf := replayFile{Property: r.Prop, Rule: o.Rule, Construct: o.Construct, Pos: o.Pos, Msg: o.Msg, Repo: ctx.RepoDir, Tier: ctx.Tier,
			Replay: fmt.Sprintf("./check %s --replay %s", r.Prop, rp)}
		b, _ := json.MarshalIndent(rf, "", " ")
		os.WriteFile(rp, b, 0o644)
		violLines = append(violLines, fmt.Sprintf("VIOLATION property=%s replay=%s", r.Prop, rp))
		fmt.Printf("  [%s] rule=%s construct=%s %s: %s\n", o.Verdict, o.Rule, o.Construct, o.Pos, o.Msg)
	}

	expl := "Static analysis of the type-checked source of " + ctx.RepoDir + " (go/packages+go/types" +
		", go/cfg, go/ssa where stated). Decides structural necessary conditions only. DECIDES: " + strings.Join(r.Clauses, "; ") +
		". DOES NOT DECIDE: " + strings.Join(r.NotDecided, "; ") + "."
	cov := map[string]any{
		"explanation":         expl,
		"obligations":         len(r.Obs),
		"discharged":          nOK + nExc,
		"evaluations":         len(r.Obs),
		"distinct_nontrivial": len(distinct),
		"rule":                "one obligation = one rule applied to one construct (package/function/variant/field/constant identity, never a line). Non-trivial = the construct actually carries the obligation (e.g. a variant with handle fields, an arm with a target constant); trivially empty ones are counted in evaluations only.",
		"samples":             samples,
		"exhaustive":          true,
		"per_rule":            byRule,
		"instances":           r.Instances,
		"floors":              r.Floors,
		"shrunk_families":     shrunk,
		"exceptions_applied":  nExc,
		"known_findings":      nKnown,
		"new_violations":      nViol,
		"undecided":           nUnd,
		"packages_analysed":   len(ctx.Roots),
		"packages_excluded":   ctx.Skipped,
		"functions_analysed":  ctx.NFuncs,
		"configuration":       ctx.Config,
		"load_s":              ctx.LoadS,
		"checker_cmd":         fmt.Sprintf("bin/nagacheck -prop %s -tier %s -repo %s", r.Prop, ctx.Tier, ctx.RepoDir),
		"trusted_base":        []string{"go/types type checker", "golang.org/x/tools v0.50.0 (go/packages, go/cfg, go/ssa)", "reference tables and exception tables in /verif/nagacheck (hand-written from the specifications)"},
		"notes":               r.Notes,
	}
	for k, v := range r.Extra {
		cov[k] = v
	}
	ev := map[string]any{
		"property_id": r.Prop,
		"tier":        ctx.Tier,
		"seed":        seed,
		"level":       "other",
		"coverage":    cov,
		"assumptions": append([]string{
			"The clauses decided are necessary, not sufficient, conditions of the property (see explanation).",
			"go/types resolution of the build configuration " + ctx.Config + " is what is built.",
		}, r.Assumptions...),
		"wall_s":     wall,
		"violations": nViol + nUnd,
	}
	b, _ := json.MarshalIndent(ev, "", " ")
	if err := os.WriteFile(filepath.Join(evDir, r.Prop+".json"), b, 0o644); err != nil {
		fmt.Printf("BROKEN: cannot write evidence: %v\n", err)
		return 2
	}

	for _, l := range knownLines {
		fmt.Println(l)
	}
	fmt.Printf("%s tier=%s config=%s: %d obligations (%d ok, %d exceptions, %d known findings, %d violations, %d undecided), %d distinct non-trivial constructs, %.1fs\n",
		r.Prop, ctx.Tier, ctx.Config, len(r.Obs), nOK, nExc, nKnown, nViol, nUnd, len(distinct), wall)
	if len(shrunk) > 0 {
		fmt.Printf("  shrunk families (not failing): %s\n", strings.Join(shrunk, ", "))
	}
	for _, l := range violLines {
		fmt.Println(l)
	}
	if len(violLines) > 0 {
		return 1
	}
	return 0
}

// noSpace removes blanks so that an expression can be part of a construct identity.
func noSpace(s string) string {
	return strings.Join(strings.Fields(s), "")
}
