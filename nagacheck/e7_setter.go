package main

// partial setter (contradiction rule): a method that assigns receiver field F
// on two or more distinct paths is a *setter* of F for its callers; if some
// path through it returns without assigning F, the callers see the stale value
// of the previous invocation on that path.

import (
	"go/ast"
	"go/constant"
	"go/token"
	"go/types"
	"sort"

	"golang.org/x/tools/go/cfg"
)

type setterSite struct {
	Func   *funcInfo
	Field  string
	NSites int
	Miss   token.Pos // an exit reached without assignment (NoPos if none)
}

func (c *Ctx) partialSetters(pkg func(string) bool) []setterSite {
	var out []setterSite
	for _, fn := range c.allFuncs() {
		if pkg != nil && !pkg(fn.Pkg.Rel) {
			continue
		}
		if fn.Decl.Recv == nil || len(fn.Decl.Recv.List) == 0 || len(fn.Decl.Recv.List[0].Names) == 0 {
			continue
		}
		info := fn.Pkg.Info
		recv := info.Defs[fn.Decl.Recv.List[0].Names[0]]
		if recv == nil {
			continue
		}
		// plain assignments recv.F = rhs (rhs not mentioning recv.F), outside function literals
		sites := map[string][]*ast.AssignStmt{}
		isRecvField := func(e ast.Expr) (string, bool) {
			sel, ok := ast.Unparen(e).(*ast.SelectorExpr)
			if !ok {
				return "", false
			}
			id, ok := ast.Unparen(sel.X).(*ast.Ident)
			if !ok || info.Uses[id] != recv {
				return "", false
			}
			if s := info.Selections[sel]; s == nil || s.Kind() != types.FieldVal {
				return "", false
			}
			return sel.Sel.Name, true
		}
		ast.Inspect(fn.Decl.Body, func(n ast.Node) bool {
			if _, ok := n.(*ast.FuncLit); ok {
				return false
			}
			as, ok := n.(*ast.AssignStmt)
			if !ok || as.Tok != token.ASSIGN || len(as.Lhs) != len(as.Rhs) {
				return true
			}
			for i, l := range as.Lhs {
				f, ok := isRecvField(l)
				if !ok {
					continue
				}
				mentions := false
				ast.Inspect(as.Rhs[i], func(m ast.Node) bool {
					if e, ok := m.(ast.Expr); ok {
						if g, ok := isRecvField(e); ok && g == f {
							mentions = true
						}
					}
					return !mentions
				})
				if !mentions {
					sites[f] = append(sites[f], as)
				}
			}
			return true
		})
		// result-like sites: the assignment is immediately followed by a return
		// (or is the last statement of the function body)
		resultLike := map[*ast.AssignStmt]bool{}
		var scan func(list []ast.Stmt, last bool)
		scan = func(list []ast.Stmt, last bool) {
			for i, st := range list {
				if as, ok := st.(*ast.AssignStmt); ok {
					if i+1 < len(list) {
						if _, isRet := list[i+1].(*ast.ReturnStmt); isRet {
							resultLike[as] = true
						}
					} else if last {
						resultLike[as] = true
					}
				}
			}
		}
		scan(fn.Decl.Body.List, true)
		ast.Inspect(fn.Decl.Body, func(n ast.Node) bool {
			switch x := n.(type) {
			case *ast.FuncLit:
				return false
			case *ast.BlockStmt:
				if x != fn.Decl.Body {
					scan(x.List, false)
				}
			case *ast.CaseClause:
				scan(x.Body, false)
			}
			return true
		})
		var fields []string
		for f, ss := range sites {
			n := 0
			for _, as := range ss {
				if resultLike[as] {
					n++
				}
			}
			// flags that are only ever set to boolean constants are markers, not computed results
			allFlag := true
			for _, as := range ss {
				for i, l := range as.Lhs {
					if g, ok := isRecvField(l); ok && g == f {
						tv := info.Types[as.Rhs[i]]
						if tv.Value == nil || tv.Value.Kind() != constant.Bool {
							allFlag = false
						}
					}
				}
			}
			if len(ss) >= 2 && n >= 2 && !allFlag {
				fields = append(fields, f)
			}
		}
		if len(fields) == 0 {
			continue
		}
		sort.Strings(fields)
		g := c.cfgOf(fn)
		for _, f := range fields {
			// save/restore (v := recv.F ... recv.F = v) is bracket state, not a setter
			if restores(info, fn, recv, f) {
				continue
			}
			set := map[*ast.AssignStmt]bool{}
			for _, as := range sites[f] {
				set[as] = true
			}
			// forward must-analysis: assigned[b] = F definitely assigned at block entry
			assignedIn := make([]int, len(g.Blocks)) // -1 unknown, 0 no, 1 yes
			for i := range assignedIn {
				assignedIn[i] = -1
			}
			assignedIn[0] = 0
			work := []*cfg.Block{g.Blocks[0]}
			var miss token.Pos
			for len(work) > 0 {
				b := work[len(work)-1]
				work = work[:len(work)-1]
				st := assignedIn[b.Index]
				var ret *ast.ReturnStmt
				for _, n := range b.Nodes {
					if as, ok := n.(*ast.AssignStmt); ok && set[as] {
						st = 1
					}
					if rs, ok := n.(*ast.ReturnStmt); ok {
						ret = rs
					}
				}
				if len(b.Succs) == 0 {
					if b.Live && st == 0 && !endsInPanic(info, b) && miss == token.NoPos {
						if ret != nil {
							if isErrorReturn(info, ret) {
								continue // error exits are not judged
							}
							miss = ret.Pos()
						} else {
							miss = fn.Decl.Body.Rbrace
						}
					}
					continue
				}
				for _, s := range b.Succs {
					if assignedIn[s.Index] == -1 {
						assignedIn[s.Index] = st
						work = append(work, s)
					} else if assignedIn[s.Index] == 1 && st == 0 {
						assignedIn[s.Index] = 0
						work = append(work, s)
					}
				}
			}
			out = append(out, setterSite{Func: fn, Field: f, NSites: len(sites[f]), Miss: miss})
		}
	}
	return out
}

func restores(info *types.Info, fn *funcInfo, recv types.Object, field string) bool {
	saved := map[types.Object]bool{}
	found := false
	isField := func(e ast.Expr) bool {
		sel, ok := ast.Unparen(e).(*ast.SelectorExpr)
		if !ok || sel.Sel.Name != field {
			return false
		}
		id, ok := ast.Unparen(sel.X).(*ast.Ident)
		return ok && info.Uses[id] == recv
	}
	ast.Inspect(fn.Decl.Body, func(n ast.Node) bool {
		as, ok := n.(*ast.AssignStmt)
		if !ok || len(as.Lhs) != len(as.Rhs) {
			return true
		}
		for i := range as.Lhs {
			if id, ok := as.Lhs[i].(*ast.Ident); ok && isField(as.Rhs[i]) {
				if obj := info.Defs[id]; obj != nil {
					saved[obj] = true
				}
			}
			if id, ok := ast.Unparen(as.Rhs[i]).(*ast.Ident); ok && isField(as.Lhs[i]) && saved[info.Uses[id]] {
				found = true
			}
		}
		return true
	})
	return found
}

func (c *Ctx) runPartialSetters(r *Report, rule, family string, pkg func(string) bool, exceptions map[string]string) {
	ss := c.partialSetters(pkg)
	for _, s := range ss {
		construct := s.Func.id() + ":" + s.Field
		if s.Miss == token.NoPos {
			r.ok(rule, construct, c.pos(s.Func.Decl.Pos()), "assigned on every non-error path")
			continue
		}
		if reason, ok := exceptions[construct]; ok {
			r.exc(rule, construct, c.pos(s.Miss), reason)
			continue
		}
		r.viol(rule, construct, c.pos(s.Miss), s.Func.id()+" assigns "+s.Field+" on other paths but returns here without assigning it: callers see the value left by the previous invocation")
	}
	r.inst(family, len(ss))
}

func init() {
	dumpers["setters"] = func(c *Ctx, parts []string) {
		r := newReport("dump")
		c.runPartialSetters(r, "setter.total", "setters", nil, nil)
		for _, o := range r.Obs {
			if o.Verdict != OK {
				println(o.Verdict, o.Construct, o.Pos)
			}
		}
		println(r.Instances["setters"])
	}
}
