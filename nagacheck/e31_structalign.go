package main

// layout.structalign (C07): AlignOf(S) of a WGSL struct is the maximum of its
// members' alignments INCLUDING explicit @align attributes. The IR keeps only
// member offsets and the span, so the function that lays a struct declaration
// out - it builds ir.StructType{Span: roundUp(offset, A)} from an alignment A
// into which attribute values flow - is the only place that knows A. A must
// therefore be persisted there (stored through the receiver), and every
// function that answers (alignment, size) for a type must read that store in
// its StructType arm; recomputing the maximum over the members' types loses
// the attributes, and a struct nested in another struct or in an array is then
// placed at too small an alignment.

import (
	"go/ast"
	"go/token"
	"go/types"
)

func (c *Ctx) runStructAlign(r *Report, rule string, pkg string) {
	n := 0
	var persisted []*types.Var // receiver fields that hold a declared struct alignment
	for _, fn := range c.allFuncs() {
		if fn.Pkg.Rel != pkg || fn.Obj == nil {
			continue
		}
		info := fn.Pkg.Info
		// ir.StructType{..., Span: S}
		var spanExpr ast.Expr
		ast.Inspect(fn.Decl.Body, func(m ast.Node) bool {
			cl, ok := m.(*ast.CompositeLit)
			if !ok || irTypeName(info.TypeOf(cl)) != "StructType" {
				return true
			}
			for _, el := range cl.Elts {
				if kv, ok := el.(*ast.KeyValueExpr); ok {
					if id, ok := kv.Key.(*ast.Ident); ok && id.Name == "Span" {
						spanExpr = kv.Value
					}
				}
			}
			return true
		})
		if spanExpr == nil {
			continue
		}
		// resolve S to its defining expression
		def := ast.Unparen(spanExpr)
		if id, ok := def.(*ast.Ident); ok {
			obj := info.Uses[id]
			ast.Inspect(fn.Decl.Body, func(m ast.Node) bool {
				if as, ok := m.(*ast.AssignStmt); ok && len(as.Lhs) == 1 && len(as.Rhs) == 1 {
					if l, ok := as.Lhs[0].(*ast.Ident); ok && info.ObjectOf(l) == obj {
						def = ast.Unparen(as.Rhs[0])
					}
				}
				return true
			})
		}
		// (x + A - 1) &^ (A - 1)
		be, ok := def.(*ast.BinaryExpr)
		if !ok || be.Op != token.AND_NOT {
			continue
		}
		sub, ok := ast.Unparen(be.Y).(*ast.BinaryExpr)
		if !ok || sub.Op != token.SUB {
			continue
		}
		aid, ok := ast.Unparen(sub.X).(*ast.Ident)
		if !ok {
			continue
		}
		A := info.Uses[aid]
		if A == nil {
			continue
		}
		// does an attribute value flow into A?
		taint := map[types.Object]bool{}
		for changed := true; changed; {
			changed = false
			ast.Inspect(fn.Decl.Body, func(m ast.Node) bool {
				as, ok := m.(*ast.AssignStmt)
				if !ok || len(as.Lhs) != len(as.Rhs) {
					return true
				}
				for i := range as.Lhs {
					l, ok := as.Lhs[i].(*ast.Ident)
					if !ok {
						continue
					}
					lo := info.ObjectOf(l)
					if lo == nil || taint[lo] {
						continue
					}
					src := false
					ast.Inspect(as.Rhs[i], func(k ast.Node) bool {
						switch y := k.(type) {
						case *ast.CallExpr:
							for _, a := range y.Args {
								if se, ok := ast.Unparen(a).(*ast.SelectorExpr); ok && se.Sel.Name == "Attributes" {
									src = true
								}
							}
						case *ast.Ident:
							if taint[info.Uses[y]] {
								src = true
							}
						}
						return !src
					})
					if src {
						taint[lo] = true
						changed = true
					}
				}
				return true
			})
		}
		if !taint[A] {
			continue
		}
		n++
		cons := fn.id() + ":" + A.Name()
		// persisted through the receiver?
		var field *types.Var
		ast.Inspect(fn.Decl.Body, func(m ast.Node) bool {
			as, ok := m.(*ast.AssignStmt)
			if !ok {
				return true
			}
			for i, l := range as.Lhs {
				if i >= len(as.Rhs) {
					break
				}
				rid, ok := ast.Unparen(as.Rhs[i]).(*ast.Ident)
				if !ok || info.Uses[rid] != A {
					continue
				}
				e := ast.Unparen(l)
				if ix, ok := e.(*ast.IndexExpr); ok {
					e = ast.Unparen(ix.X)
				}
				if se, ok := e.(*ast.SelectorExpr); ok {
					if v, ok := info.Uses[se.Sel].(*types.Var); ok && v.IsField() {
						field = v
					}
				}
			}
			return true
		})
		if field == nil {
			r.viol(rule, cons, c.pos(aid.Pos()), fn.id()+" rounds the struct's span up to "+A.Name()+", an alignment that includes the members' explicit @align attributes, and then drops it: the IR keeps only offsets, so the alignment of this struct when it is nested in another struct or an array is later recomputed from the member types alone and comes out too small")
			continue
		}
		r.ok(rule, cons, c.pos(aid.Pos()), "persisted in "+field.Name())
		persisted = append(persisted, field)
	}
	// (align, size) functions: the StructType arm reads the persisted alignment
	for _, fn := range c.allFuncs() {
		if fn.Pkg.Rel != pkg || fn.Obj == nil || len(persisted) == 0 {
			continue
		}
		sig := fn.Obj.Type().(*types.Signature)
		if sig.Results().Len() != 2 || sig.Params().Len() != 1 || irTypeName(sig.Params().At(0).Type()) != "TypeHandle" {
			continue
		}
		if b, ok := sig.Results().At(0).Type().Underlying().(*types.Basic); !ok || b.Info()&types.IsInteger == 0 {
			continue
		}
		info := fn.Pkg.Info
		ast.Inspect(fn.Decl.Body, func(m ast.Node) bool {
			cc, ok := m.(*ast.CaseClause)
			if !ok {
				return true
			}
			isStruct := false
			for _, l := range cc.List {
				if tv, ok := info.Types[l]; ok && irTypeName(tv.Type) == "StructType" {
					isStruct = true
				}
			}
			if !isStruct {
				return true
			}
			n++
			reads := false
			ast.Inspect(cc, func(k ast.Node) bool {
				if se, ok := k.(*ast.SelectorExpr); ok {
					for _, f := range persisted {
						if info.Uses[se.Sel] == f {
							reads = true
						}
					}
				}
				return !reads
			})
			cons := fn.id() + ":StructType"
			if reads {
				r.ok(rule, cons, c.pos(cc.Pos()), "")
			} else {
				r.viol(rule, cons, c.pos(cc.Pos()), fn.id()+" answers a struct's alignment without reading the alignment recorded when the struct was declared ("+persisted[0].Name()+"): explicit @align attributes of its members are lost for nested uses")
			}
			return true
		})
	}
	r.inst("layout.structalign", n)
}

func init() {
	dumpers["structalign"] = func(c *Ctx, parts []string) {
		r := newReport("dump")
		c.runStructAlign(r, "layout.structalign", "wgsl/internal/lower")
		for _, o := range r.Obs {
			println(o.Verdict, o.Construct, o.Pos, o.Msg)
		}
	}
}
