package main

import (
	"go/ast"
	"go/types"
)

// imagetype.viaglobal (C03-C05, C15): a texture reaches an image operation either
// as a module-scope variable or as a function argument (WGSL lets textures be
// passed to helper functions). A function that answers "which image type is
// this expression" (ExpressionHandle -> *ir.ImageType) by looking for the
// global variable behind it must also answer for an ir.ExprFunctionArgument -
// by an arm for that kind, by the expression's resolved type (ExpressionTypes /
// a type-resolution helper), or through a callee that does. Otherwise every
// decision taken from the image type (class, dimension, multisampling, the
// clamped-lod declaration) silently takes the "unknown" default inside helper
// functions.
func (c *Ctx) runImageTypeViaGlobal(r *Report, rule string, inPkg func(string) bool) {
	var cands []*funcInfo
	covers := map[*types.Func]bool{}
	mentionsGlobal := map[*types.Func]bool{}
	for _, fn := range c.allFuncs() {
		if !inPkg(fn.Pkg.Rel) || fn.Obj == nil || fn.Decl.Body == nil {
			continue
		}
		info := fn.Pkg.Info
		ast.Inspect(fn.Decl.Body, func(m ast.Node) bool {
			switch x := m.(type) {
			case *ast.SelectorExpr:
				if tn, ok := info.Uses[x.Sel].(*types.TypeName); ok {
					switch tn.Name() {
					case "ExprFunctionArgument":
						covers[fn.Obj] = true
					case "ExprGlobalVariable":
						mentionsGlobal[fn.Obj] = true
					}
				}
				if v, ok := info.Uses[x.Sel].(*types.Var); ok && v.IsField() && v.Name() == "ExpressionTypes" {
					covers[fn.Obj] = true
				}
				if f, ok := info.Uses[x.Sel].(*types.Func); ok && f.Name() == "ResolveExpressionType" {
					covers[fn.Obj] = true
				}
			}
			return true
		})
		sig := fn.Obj.Type().(*types.Signature)
		hasH := false
		for i := 0; i < sig.Params().Len(); i++ {
			if irTypeName(sig.Params().At(i).Type()) == "ExpressionHandle" {
				hasH = true
			}
		}
		if !hasH {
			continue
		}
		// candidates: it answers with the image type (result *ir.ImageType), or it
		// asserts ir.ImageType on the type of the global it found
		isCand := false
		if sig.Results().Len() == 1 {
			if p, ok := sig.Results().At(0).Type().(*types.Pointer); ok && irTypeName(p.Elem()) == "ImageType" {
				isCand = true
			}
		}
		if !isCand && mentionsGlobal[fn.Obj] {
			ast.Inspect(fn.Decl.Body, func(m ast.Node) bool {
				if ta, ok := m.(*ast.TypeAssertExpr); ok && ta.Type != nil {
					if tv, ok := info.Types[ta.Type]; ok && irTypeName(tv.Type) == "ImageType" {
						isCand = true
					}
				}
				return true
			})
		}
		if !isCand {
			continue
		}
		cands = append(cands, fn)
	}
	g := c.graph()
	var reaches func(f *types.Func, depth int, seen map[*types.Func]bool) (cov, glob bool)
	reaches = func(f *types.Func, depth int, seen map[*types.Func]bool) (bool, bool) {
		cov, glob := covers[f], mentionsGlobal[f]
		if depth == 0 || seen[f] {
			return cov, glob
		}
		seen[f] = true
		for _, t := range g.out[f] {
			if fi := c.funcByObj(t); fi == nil || !inPkg(fi.Pkg.Rel) {
				continue
			}
			c2, g2 := reaches(t, depth-1, seen)
			cov, glob = cov || c2, glob || g2
		}
		return cov, glob
	}
	n := 0
	for _, fn := range cands {
		cov, glob := reaches(fn.Obj, 3, map[*types.Func]bool{})
		if !glob {
			continue // does not go through a global at all
		}
		n++
		cons := fn.id() + ":imageType"
		if cov {
			r.ok(rule, cons, c.pos(fn.Decl.Pos()), "")
		} else {
			r.viol(rule, cons, c.pos(fn.Decl.Pos()), fn.id()+" finds the image type of an expression only through the global variable behind it: for a texture passed as a function argument it answers nil, and every caller then takes the unknown-image default")
		}
	}
	r.inst(rule, n)
}

func init() {
	dumpers["imgtype"] = func(c *Ctx, parts []string) {
		r := newReport("dump")
		c.runImageTypeViaGlobal(r, "imagetype.viaglobal", inPkgs("glsl", "hlsl", "msl", "spirv", "dxil"))
		for _, o := range r.Obs {
			println(o.Verdict, o.Construct, o.Pos)
		}
	}
}
