package main

import (
	"go/ast"
	"go/types"
)

// merge.breakreach (C01, C02): an emitter that makes its merge label the target
// of `break` (stores it into the break-target field of the loop / switch
// context) cannot conclude that the merge block is unreachable from "every arm
// ended its block": a `break` ends the arm's block too, with a branch to that
// very merge block. Where such a function writes OpUnreachable, the condition
// guarding it must involve the merge label (a test for branches to it).
// Otherwise `switch i { default: { break; } }` puts OpUnreachable into a block
// that is reached, and the statements after the switch are dropped.
func (c *Ctx) runBreakReach(r *Report, rule string, pkg string) {
	n := 0
	for _, fn := range c.allFuncs() {
		if fn.Pkg.Rel != pkg || fn.Obj == nil || fn.Decl.Body == nil {
			continue
		}
		info := fn.Pkg.Info
		// the merge label: a variable stored into a field named BreakID
		var merge types.Object
		ast.Inspect(fn.Decl.Body, func(m ast.Node) bool {
			switch x := m.(type) {
			case *ast.AssignStmt:
				for i, l := range x.Lhs {
					if se, ok := l.(*ast.SelectorExpr); ok && se.Sel.Name == "BreakID" && i < len(x.Rhs) {
						if id, ok := ast.Unparen(x.Rhs[i]).(*ast.Ident); ok {
							merge = info.ObjectOf(id)
						}
					}
				}
			case *ast.KeyValueExpr:
				if k, ok := x.Key.(*ast.Ident); ok && k.Name == "BreakID" {
					if id, ok := ast.Unparen(x.Value).(*ast.Ident); ok {
						merge = info.ObjectOf(id)
					}
				}
			}
			return true
		})
		if merge == nil {
			continue
		}
		// if statements whose body writes OpUnreachable
		ast.Inspect(fn.Decl.Body, func(m ast.Node) bool {
			is, ok := m.(*ast.IfStmt)
			if !ok {
				return true
			}
			writes := false
			ast.Inspect(is.Body, func(k ast.Node) bool {
				if id, ok := k.(*ast.Ident); ok {
					if cst, ok := info.Uses[id].(*types.Const); ok && cst.Name() == "OpUnreachable" {
						writes = true
					}
				}
				if call, ok := k.(*ast.CallExpr); ok {
					if f := calleeOf(info, call); f != nil && f.Name() == "AddUnreachable" {
						writes = true
					}
				}
				return true
			})
			if !writes {
				return true
			}
			n++
			mentions := false
			ast.Inspect(is.Cond, func(k ast.Node) bool {
				if id, ok := k.(*ast.Ident); ok && info.ObjectOf(id) == merge {
					mentions = true
				}
				return true
			})
			cons := fn.id() + ":unreachable-merge"
			if mentions {
				r.ok(rule, cons, c.pos(is.Pos()), "")
			} else {
				r.viol(rule, cons, c.pos(is.Pos()), fn.id()+" makes "+merge.Name()+" the break target and marks that merge block OpUnreachable under a condition that does not look at branches to it: an arm ending in `break` ends its block with a branch to the merge block, which is then reached although it holds OpUnreachable")
			}
			return true
		})
	}
	r.inst(rule, n)
}

func init() {
	dumpers["breakreach"] = func(c *Ctx, parts []string) {
		r := newReport("dump")
		c.runBreakReach(r, "merge.breakreach", "spirv/internal/codegen")
		for _, o := range r.Obs {
			println(o.Verdict, o.Construct, o.Pos)
		}
	}
}
