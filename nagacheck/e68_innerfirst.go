package main

import (
	"go/ast"
	"go/token"
	"go/types"
	"sort"
)

// lookup.innerfirst (C08, C11, C06): WGSL resolves an identifier to the innermost
// declaration. The lowerer keeps name tables of two lifetimes: function-scope
// ones (string-keyed map fields re-made at the start of every function) and
// module-scope ones. A function that looks one name up in tables of both
// lifetimes must consult a function-scope table first; the other order makes a
// local declaration invisible behind a module-scope one of the same name
// (`const N = 4; fn f() { const N = 2; var a: array<f32, N>; }` got 4 elements).
func (c *Ctx) runInnerFirst(r *Report, rule string, pkg string, exceptions map[string]string) {
	// function-scope tables: string-keyed map fields assigned make(...) / a composite in a function that takes a *parser.FunctionDecl
	funcScope := map[*types.Var]bool{}
	allTables := map[*types.Var]bool{}
	isNameTable := func(v *types.Var) bool {
		m, ok := v.Type().Underlying().(*types.Map)
		if !ok {
			return false
		}
		b, ok := m.Key().Underlying().(*types.Basic)
		return ok && b.Kind() == types.String
	}
	fieldOfSel := func(info *types.Info, e ast.Expr) *types.Var {
		se, ok := ast.Unparen(e).(*ast.SelectorExpr)
		if !ok {
			return nil
		}
		s := info.Selections[se]
		if s == nil || s.Kind() != types.FieldVal {
			return nil
		}
		v, _ := s.Obj().(*types.Var)
		if v == nil || !isNameTable(v) {
			return nil
		}
		return v
	}
	// per-function lowering: a function that takes the function declaration, and
	// the parameterless helpers it calls as statements of its own body (a
	// prologue / epilogue factored out: `l.clearFunctionScope()`, also deferred)
	perFuncSet := map[*types.Func]bool{}
	for _, fn := range c.allFuncs() {
		if fn.Pkg.Rel != pkg || fn.Obj == nil || fn.Decl.Body == nil {
			continue
		}
		sig := fn.Obj.Type().(*types.Signature)
		for i := 0; i < sig.Params().Len(); i++ {
			if p, ok := sig.Params().At(i).Type().(*types.Pointer); ok {
				if nm := namedOf(p.Elem()); nm != nil && nm.Obj().Name() == "FunctionDecl" {
					perFuncSet[fn.Obj] = true
				}
			}
		}
		if !perFuncSet[fn.Obj] {
			continue
		}
		for _, st := range fn.Decl.Body.List {
			var call *ast.CallExpr
			switch x := st.(type) {
			case *ast.ExprStmt:
				call, _ = x.X.(*ast.CallExpr)
			case *ast.DeferStmt:
				call = x.Call
			}
			if call == nil || len(call.Args) != 0 {
				continue
			}
			if callee := calleeOf(fn.Pkg.Info, call); callee != nil {
				if ci := c.funcByObj(callee); ci != nil && ci.Pkg == fn.Pkg {
					perFuncSet[callee] = true
				}
			}
		}
	}
	for _, fn := range c.allFuncs() {
		if fn.Pkg.Rel != pkg || fn.Obj == nil || fn.Decl.Body == nil {
			continue
		}
		perFunc := perFuncSet[fn.Obj]
		info := fn.Pkg.Info
		ast.Inspect(fn.Decl.Body, func(m ast.Node) bool {
			if call, ok := m.(*ast.CallExpr); ok && perFunc {
				if id, ok := call.Fun.(*ast.Ident); ok && (id.Name == "clear" || id.Name == "delete") && len(call.Args) >= 1 {
					if v := fieldOfSel(info, call.Args[0]); v != nil {
						// delete(l.X, k) only counts inside `for k := range l.X`
						funcScope[v] = true
					}
				}
			}
			as, ok := m.(*ast.AssignStmt)
			if !ok {
				return true
			}
			for i, l := range as.Lhs {
				if v := fieldOfSel(info, l); v != nil && i < len(as.Rhs) {
					if call, ok := ast.Unparen(as.Rhs[i]).(*ast.CallExpr); ok {
						if id, ok := call.Fun.(*ast.Ident); ok && id.Name == "make" && perFunc {
							funcScope[v] = true
						}
					}
				}
			}
			return true
		})
	}
	r.inst("lookup.functionScopeTables", len(funcScope))
	n := 0
	for _, fn := range c.allFuncs() {
		if fn.Pkg.Rel != pkg || fn.Obj == nil || fn.Decl.Body == nil {
			continue
		}
		info := fn.Pkg.Info
		sig := fn.Obj.Type().(*types.Signature)
		// string parameters
		for i := 0; i < sig.Params().Len(); i++ {
			p := sig.Params().At(i)
			if b, ok := p.Type().Underlying().(*types.Basic); !ok || b.Kind() != types.String {
				continue
			}
			type use struct {
				v   *types.Var
				pos token.Pos
			}
			var uses []use
			ast.Inspect(fn.Decl.Body, func(m ast.Node) bool {
				ix, ok := m.(*ast.IndexExpr)
				if !ok {
					return true
				}
				v := fieldOfSel(info, ix.X)
				if v == nil {
					return true
				}
				if id, ok := ast.Unparen(ix.Index).(*ast.Ident); ok && info.ObjectOf(id) == p {
					allTables[v] = true
					uses = append(uses, use{v, ix.Pos()})
				}
				return true
			})
			if len(uses) < 2 {
				continue
			}
			sort.Slice(uses, func(a, b int) bool { return uses[a].pos < uses[b].pos })
			firstInner, firstOuter := token.NoPos, token.NoPos
			var outerVar, innerVar *types.Var
			for _, u := range uses {
				if funcScope[u.v] {
					if !firstInner.IsValid() {
						firstInner, innerVar = u.pos, u.v
					}
				} else if !firstOuter.IsValid() {
					firstOuter, outerVar = u.pos, u.v
				}
			}
			if !firstInner.IsValid() || !firstOuter.IsValid() {
				continue
			}
			n++
			cons := fn.id() + ":" + p.Name()
			switch {
			case firstInner < firstOuter:
				r.ok(rule, cons, c.pos(firstInner), "")
			case exceptions[cons] != "":
				r.exc(rule, cons, c.pos(firstOuter), exceptions[cons])
			default:
				r.viol(rule, cons, c.pos(firstOuter), fn.id()+" looks "+p.Name()+" up in the module-scope table "+outerVar.Name()+" before the function-scope table "+innerVar.Name()+": a declaration inside the function does not shadow a module-scope declaration of the same name")
			}
		}
	}
	r.inst(rule, n)
}

func init() {
	dumpers["innerfirst"] = func(c *Ctx, parts []string) {
		r := newReport("dump")
		c.runInnerFirst(r, "lookup.innerfirst", "wgsl/internal/lower", nil)
		for _, o := range r.Obs {
			println(o.Verdict, o.Construct, o.Pos, o.Msg)
		}
	}
}
