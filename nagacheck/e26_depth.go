package main

// recursion.depth (C05, C03, C04, C15, C10): a self-recursive function that
// carries a nesting depth - an int parameter it uses to spell a per-level name
// (fmt.Sprintf("_naga_zi_%d", depth): the loop variable of that nesting level)
// or compares with a constant (a recursion bound) - must pass a CHANGED depth
// (depth + k) at every self-call. Passing the parameter through unchanged makes
// the nested level reuse the enclosing level's name (the inner loop variable
// shadows the outer one: legal in the target language, wrong stores) or makes
// the recursion bound ineffective.

import (
	"go/ast"
	"go/token"
	"go/types"
)

func (c *Ctx) runRecursionDepth(r *Report, rule string, pkgs func(string) bool) {
	n := 0
	for _, fn := range c.allFuncs() {
		if !pkgs(fn.Pkg.Rel) || fn.Obj == nil || fn.Decl.Type.Params == nil {
			continue
		}
		info := fn.Pkg.Info
		// int parameters
		type par struct {
			obj types.Object
			idx int
		}
		var pars []par
		idx := 0
		for _, fl := range fn.Decl.Type.Params.List {
			for _, nm := range fl.Names {
				if o := info.Defs[nm]; o != nil {
					if b, ok := o.Type().Underlying().(*types.Basic); ok && b.Info()&types.IsInteger != 0 {
						pars = append(pars, par{o, idx})
					}
				}
				idx++
			}
			if len(fl.Names) == 0 {
				idx++
			}
		}
		if len(pars) == 0 {
			continue
		}
		// self calls
		var selfCalls []*ast.CallExpr
		ast.Inspect(fn.Decl.Body, func(m ast.Node) bool {
			if call, ok := m.(*ast.CallExpr); ok && calleeOf(info, call) == fn.Obj {
				selfCalls = append(selfCalls, call)
			}
			return true
		})
		if len(selfCalls) == 0 {
			continue
		}
		// parent links for ancestor tests
		parent := map[ast.Node]ast.Node{}
		var stk []ast.Node
		ast.Inspect(fn.Decl.Body, func(m ast.Node) bool {
			if m == nil {
				stk = stk[:len(stk)-1]
				return true
			}
			if len(stk) > 0 {
				parent[m] = stk[len(stk)-1]
			}
			stk = append(stk, m)
			return true
		})
		// region of a node: the nearest enclosing statement list (block or case clause)
		region := func(m ast.Node) ast.Node {
			for x := parent[m]; x != nil; x = parent[x] {
				switch x.(type) {
				case *ast.BlockStmt, *ast.CaseClause:
					return x
				}
			}
			return nil
		}
		isAncestor := func(anc, m ast.Node) bool {
			for x := m; x != nil; x = parent[x] {
				if x == anc {
					return true
				}
			}
			return false
		}
		for _, p := range pars {
			// uses of p as a depth: argument of Sprintf / Fprintf, or compared with a constant
			var uses []ast.Node
			ast.Inspect(fn.Decl.Body, func(m ast.Node) bool {
				switch x := m.(type) {
				case *ast.CallExpr:
					if f := calleeOf(info, x); f != nil && f.Pkg() != nil && f.Pkg().Path() == "fmt" && (f.Name() == "Sprintf" || f.Name() == "Fprintf") {
						for _, a := range x.Args {
							if id, ok := ast.Unparen(a).(*ast.Ident); ok && info.Uses[id] == p.obj {
								uses = append(uses, x)
							}
						}
					}
				case *ast.BinaryExpr:
					switch x.Op {
					case token.GTR, token.GEQ, token.LSS, token.LEQ:
						for _, pair := range [][2]ast.Expr{{x.X, x.Y}, {x.Y, x.X}} {
							if id, ok := ast.Unparen(pair[0]).(*ast.Ident); ok && info.Uses[id] == p.obj {
								if tv, ok := info.Types[pair[1]]; ok && tv.Value != nil {
									uses = append(uses, x)
								}
							}
						}
					}
				}
				return true
			})
			if len(uses) == 0 {
				continue
			}
			for i, call := range selfCalls {
				if p.idx >= len(call.Args) {
					continue
				}
				// the level "consumes" the depth if a use lies in a statement list that encloses the call
				consumed := false
				for _, u := range uses {
					if rg := region(u); rg != nil && isAncestor(rg, call) {
						consumed = true
					}
				}
				if !consumed {
					continue
				}
				n++
				cons := fn.id() + ":" + p.obj.Name()
				if i > 0 {
					cons += "#" + itoa(i+1)
				}
				if id, ok := ast.Unparen(call.Args[p.idx]).(*ast.Ident); ok && info.Uses[id] == p.obj {
					r.viol(rule, cons, c.pos(call.Pos()), fn.id()+" calls itself with its depth parameter "+p.obj.Name()+" unchanged although this level has used it (for a generated name or a bound): the nested level reuses this level's name / the recursion bound never advances")
				} else {
					r.ok(rule, cons, c.pos(call.Pos()), "")
				}
			}
		}
	}
	r.inst("recursion.depth", n)
}

func init() {
	dumpers["recdepth"] = func(c *Ctx, parts []string) {
		r := newReport("dump")
		c.runRecursionDepth(r, "recursion.depth", func(string) bool { return true })
		for _, o := range r.Obs {
			println(o.Verdict, o.Construct, o.Pos)
		}
	}
}
