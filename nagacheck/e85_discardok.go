package main

import (
	"go/ast"
	"go/token"
	"go/types"
)

// abort.discardok (C10): `v, _ := x.(*T)` yields a nil v when x holds another
// type. With the ok result discarded, every use of v other than a nil
// comparison assumes the assertion held; stored into a node (CallExpr{Func: v})
// the nil travels on and is dereferenced later (the parser built a call node
// with a nil callee for `g(1)(2)`, and the lowerer panicked on call.Func.Name).
// A pointer- or interface-typed assertion whose ok is discarded must be
// followed by a nil test of v before any other use in the function.
func (c *Ctx) runDiscardOk(r *Report, rule string, inPkg func(string) bool) {
	n := 0
	for _, fn := range c.allFuncs() {
		if !inPkg(fn.Pkg.Rel) || fn.Obj == nil || fn.Decl.Body == nil {
			continue
		}
		info := fn.Pkg.Info
		ord := 0
		ast.Inspect(fn.Decl.Body, func(m ast.Node) bool {
			as, ok := m.(*ast.AssignStmt)
			if !ok || len(as.Lhs) != 2 || len(as.Rhs) != 1 {
				return true
			}
			ta, ok := ast.Unparen(as.Rhs[0]).(*ast.TypeAssertExpr)
			if !ok || ta.Type == nil {
				return true
			}
			blank, ok := as.Lhs[1].(*ast.Ident)
			if !ok || blank.Name != "_" {
				return true
			}
			vid, ok := as.Lhs[0].(*ast.Ident)
			if !ok || vid.Name == "_" {
				return true
			}
			tv, ok := info.Types[ta.Type]
			if !ok {
				return true
			}
			switch tv.Type.Underlying().(type) {
			case *types.Pointer, *types.Interface, *types.Map, *types.Slice, *types.Signature:
			default:
				return true // a value type: the zero value is a value, not a nil
			}
			v := info.ObjectOf(vid)
			ord++
			n++
			cons := fn.id() + ":" + vid.Name + "#" + itoa(ord)
			// first use after the assignment: must be a comparison with nil
			var firstUse ast.Node
			nilTested := false
			ast.Inspect(fn.Decl.Body, func(k ast.Node) bool {
				if firstUse != nil {
					return false
				}
				if be, ok := k.(*ast.BinaryExpr); ok && be.Pos() > as.End() && (be.Op == token.EQL || be.Op == token.NEQ) {
					for _, pair := range [][2]ast.Expr{{be.X, be.Y}, {be.Y, be.X}} {
						if id, ok := ast.Unparen(pair[0]).(*ast.Ident); ok && info.ObjectOf(id) == v {
							if nid, ok := ast.Unparen(pair[1]).(*ast.Ident); ok && nid.Name == "nil" {
								nilTested = true
								firstUse = be
								return false
							}
						}
					}
				}
				if id, ok := k.(*ast.Ident); ok && id.Pos() > as.End() && info.ObjectOf(id) == v {
					firstUse = id
				}
				return true
			})
			switch {
			case firstUse == nil || nilTested:
				r.ok(rule, cons, c.pos(as.Pos()), "")
			default:
				r.viol(rule, cons, c.pos(firstUse.Pos()), fn.id()+" discards the ok of the type assertion that defines "+vid.Name+" and uses "+vid.Name+" without a nil test: when the assertion fails a nil travels on and is dereferenced later")
			}
			return true
		})
	}
	r.inst(rule, n)
}

func init() {
	dumpers["discardok"] = func(c *Ctx, parts []string) {
		r := newReport("dump")
		c.runDiscardOk(r, "abort.discardok", func(string) bool { return true })
		for _, o := range r.Obs {
			println(o.Verdict, o.Construct, o.Pos)
		}
	}
}
