package main

// E27 globals (inventory)

import (
	"go/ast"
	"go/token"
	"go/types"
)

type globalWrite struct {
	Fn   *funcInfo
	Var  *types.Var
	Pos  token.Pos
	Kind string
}

// globalWrites: writes to package-level variables of the library from function bodies
// (assignment to the variable, to an element / field of it, delete/clear on it, append to it,
// sync.Pool Put/Get and sync.Once are not writes in this sense).
func (c *Ctx) globalWrites() []globalWrite {
	var out []globalWrite
	for _, fn := range c.allFuncs() {
		if fn.Decl.Name.Name == "init" && fn.Decl.Recv == nil {
			continue
		}
		info := fn.Pkg.Info
		rootVar := func(e ast.Expr) *types.Var {
			for {
				switch x := ast.Unparen(e).(type) {
				case *ast.IndexExpr:
					e = x.X
					continue
				case *ast.SelectorExpr:
					if sel := info.Selections[x]; sel != nil && sel.Kind() == types.FieldVal {
						e = x.X
						continue
					}
					if v, ok := info.Uses[x.Sel].(*types.Var); ok {
						return pkgLevel(v)
					}
					return nil
				case *ast.StarExpr:
					e = x.X
					continue
				case *ast.Ident:
					if v, ok := info.Uses[x].(*types.Var); ok {
						return pkgLevel(v)
					}
					return nil
				}
				return nil
			}
		}
		ast.Inspect(fn.Decl.Body, func(m ast.Node) bool {
			switch x := m.(type) {
			case *ast.AssignStmt:
				for _, l := range x.Lhs {
					if v := rootVar(l); v != nil {
						out = append(out, globalWrite{fn, v, x.Pos(), "assign"})
					}
				}
			case *ast.IncDecStmt:
				if v := rootVar(x.X); v != nil {
					out = append(out, globalWrite{fn, v, x.Pos(), "incdec"})
				}
			case *ast.CallExpr:
				if id, ok := ast.Unparen(x.Fun).(*ast.Ident); ok && (id.Name == "delete" || id.Name == "clear") && len(x.Args) > 0 {
					if _, isB := info.Uses[id].(*types.Builtin); isB {
						if v := rootVar(x.Args[0]); v != nil {
							out = append(out, globalWrite{fn, v, x.Pos(), id.Name})
						}
					}
				}
			}
			return true
		})
	}
	return out
}

func pkgLevel(v *types.Var) *types.Var {
	if v == nil || v.Pkg() == nil || v.IsField() || v.Parent() != v.Pkg().Scope() {
		return nil
	}
	return v
}

func init() {
	dumpers["globals"] = func(c *Ctx, parts []string) {
		for _, w := range append(c.globalWrites(), c.globalEscapes()...) {
			println(w.Fn.id(), c.pos(w.Pos), w.Kind, w.Var.Name(), w.Var.Type().String())
		}
	}
}

// globalEscapes: package-level variables whose address is taken or that are receivers of
// pointer-receiver method calls in function bodies (possible mutation through a method).
func (c *Ctx) globalEscapes() []globalWrite {
	var out []globalWrite
	for _, fn := range c.allFuncs() {
		if fn.Decl.Name.Name == "init" && fn.Decl.Recv == nil {
			continue
		}
		info := fn.Pkg.Info
		ast.Inspect(fn.Decl.Body, func(m ast.Node) bool {
			switch x := m.(type) {
			case *ast.UnaryExpr:
				if x.Op == token.AND {
					if id, ok := ast.Unparen(x.X).(*ast.Ident); ok {
						if v, ok := info.Uses[id].(*types.Var); ok && pkgLevel(v) != nil {
							out = append(out, globalWrite{fn, v, x.Pos(), "address-of"})
						}
					}
				}
			case *ast.CallExpr:
				se, ok := ast.Unparen(x.Fun).(*ast.SelectorExpr)
				if !ok {
					return true
				}
				sel := info.Selections[se]
				if sel == nil || sel.Kind() != types.MethodVal {
					return true
				}
				id, ok := ast.Unparen(se.X).(*ast.Ident)
				if !ok {
					return true
				}
				v, ok := info.Uses[id].(*types.Var)
				if !ok || pkgLevel(v) == nil {
					return true
				}
				if f, ok := sel.Obj().(*types.Func); ok {
					if recv := f.Type().(*types.Signature).Recv(); recv != nil {
						if _, isPtr := recv.Type().(*types.Pointer); isPtr {
							out = append(out, globalWrite{fn, v, x.Pos(), "pointer-method:" + f.Name()})
						}
					}
				}
			}
			return true
		})
	}
	return out
}

// globals.nowrite (C12): compilations on different goroutines share nothing but the
// package-level variables of the library. No function other than init assigns a
// package-level variable, an element or field of one, deletes from / clears one, takes its
// address or calls a pointer-receiver method on it - so the package-level tables are
// read-only after initialisation and concurrent compilations cannot race on them or see
// each other's history.
func (c *Ctx) runGlobalsNoWrite(r *Report, rule string) {
	vars := 0
	for _, p := range c.Roots {
		sc := p.Types.Scope()
		for _, nm := range sc.Names() {
			if v, ok := sc.Lookup(nm).(*types.Var); ok {
				switch v.Type().Underlying().(type) {
				case *types.Map, *types.Slice, *types.Pointer, *types.Struct, *types.Array:
					vars++
				}
			}
		}
	}
	ord := map[string]int{}
	for _, w := range append(c.globalWrites(), c.globalEscapes()...) {
		cons := w.Fn.id() + ":" + w.Kind + ":" + w.Var.Name()
		ord[cons]++
		if ord[cons] > 1 {
			cons += "#" + itoa(ord[cons])
		}
		r.viol(rule, cons, c.pos(w.Pos), w.Fn.id()+" mutates the package-level variable "+w.Var.Pkg().Name()+"."+w.Var.Name()+" ("+w.Kind+") at run time: concurrent compilations share it (data race) and later compilations see the history of earlier ones")
	}
	r.ok(rule, "library:package-level-variables", "", "")
	r.inst("globals.tables", vars)
	r.inst("globals.functions", len(c.allFuncs()))
}
