package main

// rebuild completeness: a keyed composite literal of an IR node struct type T
// that takes at least one of its field values from the same-named field of an
// existing value of type T is a *rebuild* of that value; a rebuild must set
// every field of T (a dropped field silently resets to the zero value:
// FallThrough=false, BreakIf=nil, ...).

import (
	"go/ast"
	"go/types"
	"sort"
	"strconv"
)

type rebuildSite struct {
	Func    *funcInfo
	Type    string
	Source  string // expression the node is rebuilt from
	Missing []string
	Pos     string
	NFields int
}

func (c *Ctx) rebuildSites(pkg func(string) bool) []rebuildSite {
	var out []rebuildSite
	for _, fn := range c.allFuncs() {
		if pkg != nil && !pkg(fn.Pkg.Rel) {
			continue
		}
		info := fn.Pkg.Info
		// local := T{...} followed by local.F = ... : fields assigned later count as set
		litVar := map[*ast.CompositeLit]types.Object{}
		laterSet := map[types.Object]map[string]bool{}
		ast.Inspect(fn.Decl.Body, func(n ast.Node) bool {
			as, ok := n.(*ast.AssignStmt)
			if !ok {
				return true
			}
			if len(as.Lhs) == len(as.Rhs) {
				for i, rh := range as.Rhs {
					if u, ok := ast.Unparen(rh).(*ast.UnaryExpr); ok {
						rh = u.X
					}
					if cl, ok := ast.Unparen(rh).(*ast.CompositeLit); ok {
						if id, ok := as.Lhs[i].(*ast.Ident); ok {
							obj := info.Defs[id]
							if obj == nil {
								obj = info.Uses[id]
							}
							if obj != nil {
								litVar[cl] = obj
							}
						}
					}
				}
			}
			for _, l := range as.Lhs {
				if sel, ok := ast.Unparen(l).(*ast.SelectorExpr); ok {
					if id, ok := ast.Unparen(sel.X).(*ast.Ident); ok {
						if obj := info.Uses[id]; obj != nil {
							if laterSet[obj] == nil {
								laterSet[obj] = map[string]bool{}
							}
							laterSet[obj][sel.Sel.Name] = true
						}
					}
				}
			}
			return true
		})
		ast.Inspect(fn.Decl.Body, func(n ast.Node) bool {
			lit, ok := n.(*ast.CompositeLit)
			if !ok {
				return true
			}
			tv, ok := info.Types[lit]
			if !ok {
				return true
			}
			nn := namedOf(tv.Type)
			if nn == nil || nn.Obj().Pkg() == nil || relPkg(nn.Obj().Pkg().Path()) != "ir" {
				return true
			}
			st, ok := nn.Underlying().(*types.Struct)
			if !ok || st.NumFields() < 2 || len(lit.Elts) == 0 {
				return true
			}
			if !c.isNodeStruct(nn) {
				return true // module-level entities (Constant, GlobalVariable, ...) are derived, not rebuilt
			}
			set := map[string]bool{}
			source := ""
			for _, el := range lit.Elts {
				kv, ok := el.(*ast.KeyValueExpr)
				if !ok {
					return true // unkeyed: the compiler requires all fields
				}
				key, ok := kv.Key.(*ast.Ident)
				if !ok {
					return true
				}
				set[key.Name] = true
				// does the value mention <e>.<key> with e of type T ?
				ast.Inspect(kv.Value, func(m ast.Node) bool {
					sel, ok := m.(*ast.SelectorExpr)
					if !ok || sel.Sel.Name != key.Name {
						return true
					}
					if xt, ok := info.Types[sel.X]; ok {
						if xn := namedOf(xt.Type); xn != nil && xn.Obj() == nn.Obj() {
							if source == "" {
								source = types.ExprString(sel.X)
							}
						}
					}
					return true
				})
			}
			if source == "" {
				return true
			}
			if obj := litVar[lit]; obj != nil {
				for f := range laterSet[obj] {
					set[f] = true
				}
			}
			var missing []string
			for i := 0; i < st.NumFields(); i++ {
				if !set[st.Field(i).Name()] {
					missing = append(missing, st.Field(i).Name())
				}
			}
			sort.Strings(missing)
			out = append(out, rebuildSite{Func: fn, Type: nn.Obj().Name(), Source: source, Missing: missing, Pos: c.pos(lit.Pos()), NFields: st.NumFields()})
			return true
		})
	}
	return out
}

type rebuildException struct{ Func, Type, Field, Reason string }

func (c *Ctx) runRebuild(r *Report, rule, family string, pkg func(string) bool, exceptions []rebuildException) {
	exc := map[string]string{}
	for _, e := range exceptions {
		exc[e.Func+"|"+e.Type+"|"+e.Field] = e.Reason
	}
	sites := c.rebuildSites(pkg)
	// identity: function + type (+ ordinal among equal pairs, in source order)
	ord := map[string]int{}
	for _, s := range sites {
		base := s.Func.id() + ":" + s.Type
		ord[base]++
		construct := base
		if ord[base] > 1 {
			construct += "#" + itoa(ord[base])
		}
		if len(s.Missing) == 0 {
			r.ok(rule, construct, s.Pos, "")
			continue
		}
		for _, m := range s.Missing {
			cst := construct + "." + m
			if reason, ok := exc[s.Func.id()+"|"+s.Type+"|"+m]; ok {
				r.exc(rule, cst, s.Pos, reason)
				continue
			}
			r.viol(rule, cst, s.Pos, s.Func.id()+" rebuilds ir."+s.Type+" from "+s.Source+" but drops field "+m+" (reset to its zero value)")
		}
	}
	r.inst(family, len(sites))
}

func itoa(i int) string { return strconv.Itoa(i) }

// isNodeStruct: a variant of one of the IR sum types, or a struct nested by
// value (possibly in a slice) inside such a variant (SwitchCase, PhiIncoming,
// Range, StructMember, ...), or the Statement/Expression wrappers.
func (c *Ctx) isNodeStruct(n *types.Named) bool {
	key := "nodeStructs"
	var set map[*types.TypeName]bool
	if v, ok := c.cache[key]; ok {
		set = v.(map[*types.TypeName]bool)
	} else {
		set = map[*types.TypeName]bool{}
		var add func(t types.Type)
		add = func(t types.Type) {
			t = types.Unalias(t)
			switch x := t.(type) {
			case *types.Slice:
				add(x.Elem())
			case *types.Array:
				add(x.Elem())
			case *types.Pointer:
				add(x.Elem())
			case *types.Named:
				if x.Obj().Pkg() == nil || relPkg(x.Obj().Pkg().Path()) != "ir" || set[x.Obj()] {
					return
				}
				if st, ok := x.Underlying().(*types.Struct); ok {
					set[x.Obj()] = true
					for i := 0; i < st.NumFields(); i++ {
						add(st.Field(i).Type())
					}
				}
			}
		}
		for _, s := range c.sumTypes("ir") {
			for _, v := range s.Variants {
				add(v)
			}
		}
		c.cache[key] = set
	}
	return set[n.Obj()]
}
