package main

var spirvResetScopes = []resetScope{
	{Name: "spirv.Backend/Compile", TypePkg: "spirv/internal/codegen", TypeName: "Backend", Entry: "spirv/internal/codegen.Backend.Compile"},
	{Name: "spirv.ModuleBuilder/Reset", TypePkg: "spirv/internal/codegen", TypeName: "ModuleBuilder", Entry: "spirv/internal/codegen.Backend.Compile", ResetFunc: "spirv/internal/codegen.ModuleBuilder.Reset",
		Exception: map[string]string{
			"arena.buf": "backing storage deliberately retained for reuse; Reset sets arena.pos=0 and words beyond pos are always written by alloc before being read",
		}},
}

var lowerResetScopes = []resetScope{
	{Name: "lower.Lowerer/lowerFunction", TypePkg: "wgsl/internal/lower", TypeName: "Lowerer", Entry: "wgsl/internal/lower.Lowerer.lowerFunction",
		Outer: []string{"wgsl/internal/lower.LowerWithWarnings"},
		Exception: map[string]string{
			"currentEmitTarget": "emitter bracket state: set by emitStart*, cleared to nil by emitFinish; bracket balance is decided by rule pairing (C09)",
			"emitStateStart":    "emitter bracket state: set by emitStart*, cleared to nil by emitFinish; bracket balance is decided by rule pairing (C09)",
			"isStatement":       "set to true and back to false around the lowering of each call statement, on the success and on the error path, in the same arm",
			"currentFuncIdx":    "written once per function and never read (dead field)",
			"warnings":          "module-level accumulator returned to the caller; must persist across functions",
		}},
}

var writerResetScopes = map[string][]resetScope{
	"msl": {
		{Name: "msl.Writer/function", TypePkg: "msl/internal/codegen", TypeName: "Writer",
			Entries: []string{"msl/internal/codegen.Writer.writeFunction", "msl/internal/codegen.Writer.writeEntryPoint"}, Outer: []string{"msl/internal/codegen.Compile"}, OnlyKeyedBy: "ExpressionHandle",
			Exception: map[string]string{
				"entryPointOutputType":       "only read while entryPointOutputTypeActive is true; that flag is reset in the prologue and set together with this field",
				"entryPointOutputStructName": "only read while entryPointOutputTypeActive is true; that flag is reset in the prologue and set together with this field",
			}},
	},
	"glsl": {
		{Name: "glsl.Writer/function", TypePkg: "glsl/internal/codegen", TypeName: "Writer",
			Entries: []string{"glsl/internal/codegen.Writer.writeFunction", "glsl/internal/codegen.Writer.writeEntryPoint"}, Outer: []string{"glsl/internal/codegen.Compile"}, OnlyKeyedBy: "ExpressionHandle"},
	},
	"hlsl": {
		{Name: "hlsl.Writer/function", TypePkg: "hlsl/internal/codegen", TypeName: "Writer",
			Entries: []string{"hlsl/internal/codegen.Writer.writeFunction", "hlsl/internal/codegen.Writer.writeEntryPointWithIO"}, Outer: []string{"hlsl/internal/codegen.Compile"}, OnlyKeyedBy: "ExpressionHandle",
			Exception: map[string]string{
				"tempAccessChain":             "scratch buffer: fillAccessChain re-slices it to [:0] before every use and callers that nest save/restore it",
				"externalTextureFuncArgNames": "module-level table keyed by (function handle, argument index); entries of earlier functions are read while writing their callers",
			}},
	},
}

func (c *Ctx) runResetScopes(r *Report, scopes []resetScope) {
	for _, sc := range scopes {
		c.runResetScope(r, "reset.complete", sc)
		r.floor("reset."+sc.Name, 1)
	}
}

func init() {
	dumpers["reset"] = func(c *Ctx, parts []string) {
		r := newReport("dump")
		for _, sc := range spirvResetScopes {
			c.runResetScope(r, "reset.complete", sc)
		}
		for _, sc := range lowerResetScopes {
			c.runResetScope(r, "reset.complete", sc)
		}
		for _, k := range []string{"msl", "glsl", "hlsl"} {
			for _, sc := range writerResetScopes[k] {
				c.runResetScope(r, "reset.complete", sc)
			}
		}
		for _, o := range r.Obs {
			if o.Verdict != OK || o.Nontrivial {
				println(o.Verdict, o.Construct, o.Pos, o.Msg)
			}
		}
	}
}
