package main

// E13 shape fields (C03, C04, C15; inventory for others).
//
// shape.indexlen  WGSL lets a program index three kinds of value with a
//   dynamic index: arrays (array.Size elements), vectors (vector.Size
//   components) and matrices (matrix.Columns column vectors). A type switch
//   over ir.TypeInner that has an arm for each of ArrayType, VectorType and
//   MatrixType, in which the vector arm and the array arm read nothing but
//   .Size, computes "how many elements can be indexed" - it is what
//   the bounds-check policies clamp against. Its MatrixType arm must read
//   .Columns and must not read .Rows: with Rows, in-range column indices of a
//   CxR matrix with C > R are redirected (restrict) or read as zero, and
//   out-of-range ones pass for C < R.

import (
	"go/ast"
	"go/token"
	"go/types"
	"sort"
	"strings"
)

type shapeSwitch struct {
	Fn   *funcInfo
	Pos  token.Pos
	Arms map[string][]string // ir type name -> fields of the asserted value read in the arm
	Ord  int
}

func fieldsReadOf(info *types.Info, obj types.Object, body []ast.Stmt) []string {
	set := map[string]bool{}
	for _, s := range body {
		ast.Inspect(s, func(n ast.Node) bool {
			if se, ok := n.(*ast.SelectorExpr); ok {
				if id, ok := ast.Unparen(se.X).(*ast.Ident); ok && info.Uses[id] == obj {
					set[se.Sel.Name] = true
				}
			}
			return true
		})
	}
	var fs []string
	for f := range set {
		fs = append(fs, f)
	}
	sort.Strings(fs)
	return fs
}

// shapeSwitches lists every type switch over an ir.TypeInner value with the
// fields each single-type arm reads.
func (c *Ctx) shapeSwitches() []shapeSwitch {
	if v, ok := c.cache["shapeSwitches"]; ok {
		return v.([]shapeSwitch)
	}
	var out []shapeSwitch
	for _, fn := range c.allFuncs() {
		info := fn.Pkg.Info
		ord := 0
		ast.Inspect(fn.Decl.Body, func(n ast.Node) bool {
			x, ok := n.(*ast.TypeSwitchStmt)
			if !ok {
				return true
			}
			sw := shapeSwitch{Fn: fn, Pos: x.Pos(), Arms: map[string][]string{}}
			isInner := false
			for _, cl := range x.Body.List {
				cc := cl.(*ast.CaseClause)
				for _, lab := range cc.List {
					tv, ok := info.Types[lab]
					if !ok {
						continue
					}
					tn := irTypeName(tv.Type)
					if tn == "" {
						continue
					}
					switch tn {
					case "MatrixType", "VectorType", "ArrayType", "ScalarType":
						isInner = true
					}
					if len(cc.List) == 1 {
						if o := info.Implicits[cc]; o != nil {
							sw.Arms[tn] = fieldsReadOf(info, o, cc.Body)
						} else {
							sw.Arms[tn] = nil
						}
					} else {
						sw.Arms[tn] = nil
					}
				}
			}
			if isInner {
				ord++
				sw.Ord = ord
				out = append(out, sw)
			}
			return true
		})
	}
	c.cache["shapeSwitches"] = out
	return out
}

func eqStrs(a []string, b ...string) bool {
	if len(a) != len(b) {
		return false
	}
	for i := range a {
		if a[i] != b[i] {
			return false
		}
	}
	return true
}

func hasStr(a []string, s string) bool {
	for _, x := range a {
		if x == s {
			return true
		}
	}
	return false
}

func (c *Ctx) runIndexLen(r *Report, rule string, pkgs func(string) bool) {
	n := 0
	perFn := map[string]int{}
	for _, sw := range c.shapeSwitches() {
		if !pkgs(sw.Fn.Pkg.Rel) {
			continue
		}
		vec, hasVec := sw.Arms["VectorType"]
		arr, hasArr := sw.Arms["ArrayType"]
		mat, hasMat := sw.Arms["MatrixType"]
		if !hasVec || !hasArr || !hasMat {
			continue
		}
		if !eqStrs(vec, "Size") || !eqStrs(arr, "Size") {
			continue
		}
		n++
		perFn[sw.Fn.id()]++
		cons := sw.Fn.id() + "/MatrixType"
		if perFn[sw.Fn.id()] > 1 {
			cons += "#" + itoa(perFn[sw.Fn.id()])
		}
		pos := c.pos(sw.Pos)
		switch {
		case eqStrs(mat, "Columns"):
			r.ok(rule, cons, pos, "")
		default:
			r.viol(rule, cons, pos, sw.Fn.id()+" computes the number of indexable elements (array -> Size, vector -> Size) but its matrix arm reads ["+strings.Join(mat, ",")+"] instead of Columns: a matrix is indexed by column, so the bound a dynamic index is checked against is wrong for every non-square matrix")
		}
	}
	r.inst("shape.indexlen", n)
}

func init() {
	dumpers["shape"] = func(c *Ctx, parts []string) {
		for _, sw := range c.shapeSwitches() {
			var ks []string
			for k, v := range sw.Arms {
				ks = append(ks, k+"["+strings.Join(v, ",")+"]")
			}
			sort.Strings(ks)
			println(sw.Fn.id(), c.pos(sw.Pos), strings.Join(ks, " "))
		}
		r := newReport("dump")
		c.runIndexLen(r, "shape.indexlen", func(string) bool { return true })
		for _, o := range r.Obs {
			println(o.Verdict, o.Construct, o.Pos)
		}
	}
}

// shape.colvec (C09, C01, C03): a matrix is a sequence of Columns column
// vectors, each with Rows components. A VectorType literal whose Size is taken
// from a field of a MatrixType value describes either a column of that matrix
// (Size: m.Rows - 24 sites: indexing a matrix, constructing / zero-filling /
// converting it column by column, loading it from a buffer) or the result of
// vector * matrix (Size: m.Columns - exactly one site, in the binary-operator
// type resolver). Per function the number of Columns-sized literals is fixed:
// a column typed with Columns is wrong for every non-square matrix.
var colvecColumnsExpected = map[string]struct {
	N      int
	Reason string
}{
	"ir.resolveMulResultType": {1, "vector * matrix yields a vector with one component per matrix column"},
}

func (c *Ctx) runColVec(r *Report, rule string, pkgs func(string) bool) {
	n := 0
	type cnt struct {
		rows, cols int
		pos        string
		colPos     []string
	}
	per := map[string]*cnt{}
	var keys []string
	for _, fn := range c.allFuncs() {
		if !pkgs(fn.Pkg.Rel) {
			continue
		}
		info := fn.Pkg.Info
		ast.Inspect(fn.Decl.Body, func(nd ast.Node) bool {
			lit, ok := nd.(*ast.CompositeLit)
			if !ok {
				return true
			}
			tv, ok := info.Types[lit]
			if !ok || irTypeName(tv.Type) != "VectorType" {
				return true
			}
			for _, el := range lit.Elts {
				kv, ok := el.(*ast.KeyValueExpr)
				if !ok {
					continue
				}
				if id, ok := kv.Key.(*ast.Ident); !ok || id.Name != "Size" {
					continue
				}
				se, ok := ast.Unparen(kv.Value).(*ast.SelectorExpr)
				if !ok {
					continue
				}
				xtv, ok := info.Types[se.X]
				if !ok || irTypeName(xtv.Type) != "MatrixType" {
					continue
				}
				k := per[fn.id()]
				if k == nil {
					k = &cnt{pos: c.pos(lit.Pos())}
					per[fn.id()] = k
					keys = append(keys, fn.id())
				}
				n++
				switch se.Sel.Name {
				case "Rows":
					k.rows++
				case "Columns":
					k.cols++
					k.colPos = append(k.colPos, c.pos(lit.Pos()))
				}
			}
			return true
		})
	}
	sort.Strings(keys)
	for _, id := range keys {
		k := per[id]
		exp := colvecColumnsExpected[id]
		cons := id + ":VectorType{Size}"
		switch {
		case k.cols == exp.N && exp.N == 0:
			r.ok(rule, cons, k.pos, "")
		case k.cols == exp.N:
			r.exc(rule, cons, strings.Join(k.colPos, ","), exp.Reason)
		default:
			r.viol(rule, cons, strings.Join(append(k.colPos, k.pos), ","), id+" builds "+itoa(k.cols)+" vector type(s) sized by a matrix's Columns ("+itoa(exp.N)+" expected) and "+itoa(k.rows)+" sized by Rows: a column vector of a CxR matrix has R components, so every non-square matrix gets wrongly typed columns")
		}
	}
	r.inst("shape.colvec", n)
}
