package main

// E13 shape fields (C03, C04, C15; inventory for others).
//
// shape.indexlen  WGSL lets a program index three kinds of value with a
//   dynamic index: arrays (array.Size elements), vectors (vector.Size
//   components) and matrices (matrix.Columns column vectors). A type switch
//   over ir.TypeInner that has an arm for each of ArrayType, VectorType and
//   MatrixType, in which the vector arm and the array arm read nothing but
//   .Size, computes "how many elements can be indexed" - it is what
//   the bounds-check policies clamp against. Its MatrixType arm must read
//   .Columns and must not read .Rows: with Rows, in-range column indices of a
//   CxR matrix with C > R are redirected (restrict) or read as zero, and
//   out-of-range ones pass for C < R.

import (
	"go/ast"
	"go/token"
	"go/types"
	"sort"
	"strings"
)

type shapeSwitch struct {
	Fn   *funcInfo
	Pos  token.Pos
	Arms map[string][]string // ir type name -> fields of the asserted value read in the arm
	Ord  int
}

func fieldsReadOf(info *types.Info, obj types.Object, body []ast.Stmt) []string {
	set := map[string]bool{}
	for _, s := range body {
		ast.Inspect(s, func(n ast.Node) bool {
			if se, ok := n.(*ast.SelectorExpr); ok {
				if id, ok := ast.Unparen(se.X).(*ast.Ident); ok && info.Uses[id] == obj {
					set[se.Sel.Name] = true
				}
			}
			return true
		})
	}
	var fs []string
	for f := range set {
		fs = append(fs, f)
	}
	sort.Strings(fs)
	return fs
}

// shapeSwitches lists every type switch over an ir.TypeInner value with the
// fields each single-type arm reads.
func (c *Ctx) shapeSwitches() []shapeSwitch {
	if v, ok := c.cache["shapeSwitches"]; ok {
		return v.([]shapeSwitch)
	}
	var out []shapeSwitch
	for _, fn := range c.allFuncs() {
		info := fn.Pkg.Info
		ord := 0
		ast.Inspect(fn.Decl.Body, func(n ast.Node) bool {
			x, ok := n.(*ast.TypeSwitchStmt)
			if !ok {
				return true
			}
			sw := shapeSwitch{Fn: fn, Pos: x.Pos(), Arms: map[string][]string{}}
			isInner := false
			for _, cl := range x.Body.List {
				cc := cl.(*ast.CaseClause)
				for _, lab := range cc.List {
					tv, ok := info.Types[lab]
					if !ok {
						continue
					}
					tn := irTypeName(tv.Type)
					if tn == "" {
						continue
					}
					switch tn {
					case "MatrixType", "VectorType", "ArrayType", "ScalarType":
						isInner = true
					}
					if len(cc.List) == 1 {
						if o := info.Implicits[cc]; o != nil {
							sw.Arms[tn] = fieldsReadOf(info, o, cc.Body)
						} else {
							sw.Arms[tn] = nil
						}
					} else {
						sw.Arms[tn] = nil
					}
				}
			}
			if isInner {
				ord++
				sw.Ord = ord
				out = append(out, sw)
			}
			return true
		})
	}
	c.cache["shapeSwitches"] = out
	return out
}

func eqStrs(a []string, b ...string) bool {
	if len(a) != len(b) {
		return false
	}
	for i := range a {
		if a[i] != b[i] {
			return false
		}
	}
	return true
}

func hasStr(a []string, s string) bool {
	for _, x := range a {
		if x == s {
			return true
		}
	}
	return false
}

func (c *Ctx) runIndexLen(r *Report, rule string, pkgs func(string) bool) {
	n := 0
	perFn := map[string]int{}
	for _, sw := range c.shapeSwitches() {
		if !pkgs(sw.Fn.Pkg.Rel) {
			continue
		}
		vec, hasVec := sw.Arms["VectorType"]
		arr, hasArr := sw.Arms["ArrayType"]
		mat, hasMat := sw.Arms["MatrixType"]
		if !hasVec || !hasArr || !hasMat {
			continue
		}
		if !eqStrs(vec, "Size") || !eqStrs(arr, "Size") {
			continue
		}
		n++
		perFn[sw.Fn.id()]++
		cons := sw.Fn.id() + "/MatrixType"
		if perFn[sw.Fn.id()] > 1 {
			cons += "#" + itoa(perFn[sw.Fn.id()])
		}
		pos := c.pos(sw.Pos)
		switch {
		case eqStrs(mat, "Columns"):
			r.ok(rule, cons, pos, "")
		default:
			r.viol(rule, cons, pos, sw.Fn.id()+" computes the number of indexable elements (array -> Size, vector -> Size) but its matrix arm reads ["+strings.Join(mat, ",")+"] instead of Columns: a matrix is indexed by column, so the bound a dynamic index is checked against is wrong for every non-square matrix")
		}
	}
	r.inst("shape.indexlen", n)
}

func init() {
	dumpers["shape"] = func(c *Ctx, parts []string) {
		for _, sw := range c.shapeSwitches() {
			var ks []string
			for k, v := range sw.Arms {
				ks = append(ks, k+"["+strings.Join(v, ",")+"]")
			}
			sort.Strings(ks)
			println(sw.Fn.id(), c.pos(sw.Pos), strings.Join(ks, " "))
		}
		r := newReport("dump")
		c.runIndexLen(r, "shape.indexlen", func(string) bool { return true })
		for _, o := range r.Obs {
			println(o.Verdict, o.Construct, o.Pos)
		}
	}
}
