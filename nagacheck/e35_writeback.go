package main

// copy.writeback (C13, C14, C09): `switch k := x.Kind.(type)` binds k to a COPY
// of the variant struct. A clause that assigns a field of that copy
// (k.Selector = remap(k.Selector)) changes nothing unless the copy is used as a
// whole afterwards in the clause - stored back (x.Kind = k), returned, passed
// on or appended. A clause that only writes fields of the copy has lost its
// update (the selector of a switch keeps its old handle while the case bodies
// are remapped in place).

import (
	"go/ast"
	"go/types"
)

const writebackClause = "lost updates (E35): a type-switch clause that assigns a field of the variant copy bound by `switch k := x.(type)` also uses k as a whole afterwards (stores it back, returns it, passes it on); a clause that only writes fields of the copy has no effect"

func (c *Ctx) runCopyWriteback(r *Report, rule string, pkgs func(string) bool) {
	n := 0
	for _, fn := range c.allFuncs() {
		if !pkgs(fn.Pkg.Rel) {
			continue
		}
		info := fn.Pkg.Info
		ord := map[string]int{}
		ast.Inspect(fn.Decl.Body, func(m ast.Node) bool {
			ts, ok := m.(*ast.TypeSwitchStmt)
			if !ok {
				return true
			}
			if _, ok := ts.Assign.(*ast.AssignStmt); !ok {
				return true
			}
			for _, cl := range ts.Body.List {
				cc := cl.(*ast.CaseClause)
				obj := info.Implicits[cc]
				if obj == nil {
					continue
				}
				if _, isStruct := types.Unalias(obj.Type()).Underlying().(*types.Struct); !isStruct {
					continue // pointer or interface binding: writes go through
				}
				var writes []*ast.SelectorExpr
				whole := false
				ast.Inspect(cc, func(k ast.Node) bool {
					switch x := k.(type) {
					case *ast.AssignStmt:
						for _, l := range x.Lhs {
							if se, ok := ast.Unparen(l).(*ast.SelectorExpr); ok {
								if id, ok := ast.Unparen(se.X).(*ast.Ident); ok && info.Uses[id] == obj {
									writes = append(writes, se)
								}
							}
						}
					case *ast.IncDecStmt:
						if se, ok := ast.Unparen(x.X).(*ast.SelectorExpr); ok {
							if id, ok := ast.Unparen(se.X).(*ast.Ident); ok && info.Uses[id] == obj {
								writes = append(writes, se)
							}
						}
					}
					return true
				})
				if len(writes) == 0 {
					continue
				}
				// a use of the binding as a whole value (not as the base of a selector / index)
				var stack []ast.Node
				ast.Inspect(cc, func(k ast.Node) bool {
					if k == nil {
						stack = stack[:len(stack)-1]
						return true
					}
					stack = append(stack, k)
					id, ok := k.(*ast.Ident)
					if !ok || info.Uses[id] != obj {
						return true
					}
					if len(stack) >= 2 {
						switch p := stack[len(stack)-2].(type) {
						case *ast.SelectorExpr:
							if p.X == id {
								return true
							}
						}
					}
					whole = true
					return true
				})
				n++
				key := fn.id() + ":" + namedName(obj.Type())
				ord[key]++
				cons := key
				if ord[key] > 1 {
					cons += "#" + itoa(ord[key])
				}
				if whole {
					r.ok(rule, cons, c.pos(cc.Pos()), "")
				} else {
					r.viol(rule, cons, c.pos(writes[0].Pos()), fn.id()+": the clause for "+namedName(obj.Type())+" assigns "+types.ExprString(writes[0])+" on the copy bound by the type switch and never uses the copy as a whole afterwards (no store back, return or call): the update is lost")
				}
			}
			return true
		})
	}
	r.inst("copy.writeback", n)
}

func init() {
	dumpers["writeback"] = func(c *Ctx, parts []string) {
		r := newReport("dump")
		c.runCopyWriteback(r, "copy.writeback", func(string) bool { return true })
		nOK := 0
		for _, o := range r.Obs {
			if o.Verdict == "ok" {
				nOK++
				continue
			}
			println(o.Verdict, o.Construct, o.Pos, o.Msg)
		}
		println("ok:", nOK)
	}
}
