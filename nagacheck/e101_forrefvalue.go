package main

import (
	"go/ast"
	"go/token"
	"go/types"
	"strings"
)

// forref.valueuse (C08): lowering "for reference" keeps a pointer where there
// is one - also a pointer VALUE: `(*p)` with p a ptr<function, T> parameter
// lowers to the argument itself. The load rule loads references (variables and
// accesses into them) and answers "unchanged" for everything else. A function
// that lowers a sub-expression for reference, passes the handle through the
// load rule and makes the result the VALUE operand of an expression (the
// vector of a swizzle, an operand of arithmetic) must deal with the rule
// having left a pointer: compare the result with what it passed in, or ask
// whether the handle is a pointer. Otherwise `(*p).xy` is a swizzle of a
// pointer, which the SPIR-V backend rejects.
func (c *Ctx) runForRefValueUse(r *Report, rule, rel string) {
	n := 0
	for _, fn := range c.allFuncs() {
		if fn.Pkg.Rel != rel || fn.Decl.Body == nil {
			continue
		}
		info := fn.Pkg.Info
		refs := map[types.Object]bool{}
		loaded := map[types.Object]types.Object{} // loaded var -> ref var
		var loadPos = map[types.Object]token.Pos{}
		ast.Inspect(fn.Decl.Body, func(m ast.Node) bool {
			as, ok := m.(*ast.AssignStmt)
			if !ok || len(as.Rhs) != 1 || len(as.Lhs) == 0 {
				return true
			}
			call, ok := ast.Unparen(as.Rhs[0]).(*ast.CallExpr)
			if !ok {
				return true
			}
			f := calleeOf(info, call)
			if f == nil {
				return true
			}
			id, ok := as.Lhs[0].(*ast.Ident)
			if !ok {
				return true
			}
			o := info.ObjectOf(id)
			if o == nil || irTypeName(o.Type()) != "ExpressionHandle" {
				return true
			}
			if strings.HasSuffix(f.Name(), "ForRef") {
				refs[o] = true
			}
			if f.Name() == "applyLoadRule" && len(call.Args) == 1 {
				if aid, ok := ast.Unparen(call.Args[0]).(*ast.Ident); ok {
					loaded[o] = info.ObjectOf(aid)
					loadPos[o] = as.Pos()
				}
			}
			return true
		})
		ord := 0
		for lv, rv := range loaded {
			if !refs[rv] {
				continue
			}
			// is the loaded handle a value operand of an IR expression literal?
			valueUse := ""
			ast.Inspect(fn.Decl.Body, func(m ast.Node) bool {
				cl, ok := m.(*ast.CompositeLit)
				if !ok {
					return true
				}
				kind := irTypeName(info.TypeOf(cl))
				if !strings.HasPrefix(kind, "Expr") {
					return true
				}
				for _, el := range cl.Elts {
					kv, ok := el.(*ast.KeyValueExpr)
					if !ok {
						continue
					}
					k, _ := kv.Key.(*ast.Ident)
					if id, ok := ast.Unparen(kv.Value).(*ast.Ident); ok && info.ObjectOf(id) == lv && k != nil {
						switch kind + "." + k.Name {
						case "ExprAccessIndex.Base", "ExprAccess.Base", "ExprLoad.Pointer":
						default:
							valueUse = kind + "." + k.Name
						}
					}
				}
				return true
			})
			if valueUse == "" {
				continue
			}
			ord++
			n++
			cons := fn.id() + ":" + valueUse
			guarded := false
			ast.Inspect(fn.Decl.Body, func(m ast.Node) bool {
				switch x := m.(type) {
				case *ast.BinaryExpr:
					if x.Op == token.EQL || x.Op == token.NEQ {
						a, aok := ast.Unparen(x.X).(*ast.Ident)
						b, bok := ast.Unparen(x.Y).(*ast.Ident)
						if aok && bok {
							oa, ob := info.ObjectOf(a), info.ObjectOf(b)
							if (oa == lv && ob == rv) || (oa == rv && ob == lv) {
								guarded = true
							}
						}
					}
				case *ast.CallExpr:
					if f := calleeOf(info, x); f != nil && strings.Contains(strings.ToLower(f.Name()), "pointer") && len(x.Args) >= 1 {
						if id, ok := ast.Unparen(x.Args[len(x.Args)-1]).(*ast.Ident); ok && (info.ObjectOf(id) == lv || info.ObjectOf(id) == rv) && x.Pos() > loadPos[lv] {
							guarded = true
						}
					}
				}
				return true
			})
			if guarded {
				r.ok(rule, cons, c.pos(loadPos[lv]), "")
			} else {
				r.viol(rule, cons, c.pos(loadPos[lv]), fn.id()+" lowers a sub-expression for reference, passes it through the load rule and uses the result as "+valueUse+" without asking whether the rule left a pointer: `(*p)` with p a pointer parameter stays a pointer")
			}
		}
	}
	r.inst(rule, n)
}

func init() {
	dumpers["forrefvalue"] = func(c *Ctx, parts []string) {
		r := newReport("dump")
		c.runForRefValueUse(r, "forref.valueuse", "wgsl/internal/lower")
		for _, o := range r.Obs {
			println(o.Verdict, o.Construct, o.Pos)
		}
	}
}
