package main

import (
	"go/ast"
	"go/token"
	"go/types"
	"sort"
	"strings"
)

// space.sameclass (C02, C17): the function that maps IR address spaces to
// target storage classes sends some spaces to the same class (SPIR-V:
// PushConstant and Immediate both become PushConstant). What the target
// requires of a variable depends on its class, so every other switch over
// ir.AddressSpace in the backend must list such spaces together: an arm that
// names one and not the other treats two variables of the same class
// differently (a var<push_constant> scalar got no Block wrapper).
func (c *Ctx) runSpaceSameClass(r *Report, rule string, pkg string, exceptions map[string]string) {
	c.runSpaceSameClassIn(r, rule, pkg, pkg, exceptions)
}

// runSpaceSameClassIn takes the shared classes from classPkg (the SPIR-V
// backend: the two WGSL spellings push_constant / immediate of one thing) and
// checks the switches and comparisons of pkg.
func (c *Ctx) runSpaceSameClassIn(r *Report, rule string, classPkg, pkg string, exceptions map[string]string) {
	// 1. equivalence classes from the mapping function: func(ir.AddressSpace) (<class>, ...)
	classOf := map[string]string{}
	var mapFn *funcInfo
	for _, fn := range c.allFuncs() {
		if fn.Pkg.Rel != classPkg || fn.Obj == nil || fn.Decl.Body == nil {
			continue
		}
		sig := fn.Obj.Type().(*types.Signature)
		if sig.Params().Len() != 1 || irTypeName(sig.Params().At(0).Type()) != "AddressSpace" || sig.Results().Len() == 0 {
			continue
		}
		if n := namedOf(sig.Results().At(0).Type()); n == nil || n.Obj().Name() != "StorageClass" {
			continue
		}
		info := fn.Pkg.Info
		ast.Inspect(fn.Decl.Body, func(m ast.Node) bool {
			cc, ok := m.(*ast.CaseClause)
			if !ok {
				return true
			}
			var class string
			for _, st := range cc.Body {
				if rs, ok := st.(*ast.ReturnStmt); ok && len(rs.Results) > 0 {
					class = irConstNameAny(info, rs.Results[0])
				}
			}
			if class == "" {
				return true
			}
			for _, e := range cc.List {
				if s := irConstNameAny(info, e); s != "" {
					classOf[s] = class
				}
			}
			return true
		})
		mapFn = fn
	}
	if mapFn == nil {
		r.undecided(rule, pkg+":space-to-class", "", "no function from ir.AddressSpace to StorageClass found")
		return
	}
	groups := map[string][]string{}
	for s, cl := range classOf {
		groups[cl] = append(groups[cl], s)
	}
	var shared [][]string
	for _, g := range groups {
		if len(g) > 1 {
			sort.Strings(g)
			shared = append(shared, g)
		}
	}
	r.inst("space.sharedClasses", len(shared))
	n := 0
	for _, fn := range c.allFuncs() {
		if fn.Pkg.Rel != pkg || fn.Obj == nil || fn.Decl.Body == nil || fn == mapFn {
			continue
		}
		// a function from the address space to its target name is the mapping itself
		info := fn.Pkg.Info
		ord := 0
		ast.Inspect(fn.Decl.Body, func(m ast.Node) bool {
			sw, ok := m.(*ast.SwitchStmt)
			if !ok || sw.Tag == nil {
				return true
			}
			if tv, ok := info.Types[sw.Tag]; !ok || irTypeName(tv.Type) != "AddressSpace" {
				return true
			}
			ord++
			armOf := map[string]int{}
			for i, cl := range sw.Body.List {
				for _, e := range cl.(*ast.CaseClause).List {
					if s := irConstNameAny(info, e); s != "" {
						armOf[s] = i + 1
					}
				}
			}
			for _, g := range shared {
				present := 0
				for _, s := range g {
					if armOf[s] != 0 {
						present++
					}
				}
				if present == 0 {
					continue
				}
				n++
				cons := fn.id() + ":switch#" + itoa(ord) + ":" + strings.Join(g, "+")
				same := present == len(g)
				if same {
					first := armOf[g[0]]
					for _, s := range g {
						if armOf[s] != first {
							same = false
						}
					}
				}
				switch {
				case same:
					r.ok(rule, cons, c.pos(sw.Pos()), "")
				case exceptions[cons] != "":
					r.exc(rule, cons, c.pos(sw.Pos()), exceptions[cons])
				default:
					r.viol(rule, cons, c.pos(sw.Pos()), fn.id()+" switches over the address space and does not treat "+strings.Join(g, " and ")+" alike, although "+mapFn.Obj.Name()+" gives both the storage class "+classOf[g[0]]+": variables of one class get different declarations")
				}
			}
			return true
		})
		// comparisons: X == ir.SpaceA somewhere in the function needs X == ir.SpaceB too
		cmp := map[string]ast.Node{}
		ast.Inspect(fn.Decl.Body, func(m ast.Node) bool {
			be, ok := m.(*ast.BinaryExpr)
			if !ok || (be.Op != token.EQL && be.Op != token.NEQ) {
				return true
			}
			for _, e := range []ast.Expr{be.X, be.Y} {
				if tv, ok := info.Types[e]; ok && irTypeName(tv.Type) == "AddressSpace" {
					if s := irConstNameAny(info, e); s != "" && cmp[s] == nil {
						cmp[s] = be
					}
				}
			}
			return true
		})
		for _, g := range shared {
			var present, missing []string
			for _, s := range g {
				if cmp[s] != nil {
					present = append(present, s)
				} else {
					missing = append(missing, s)
				}
			}
			if len(present) == 0 {
				continue
			}
			n++
			cons := fn.id() + ":compare:" + strings.Join(g, "+")
			switch {
			case len(missing) == 0:
				r.ok(rule, cons, c.pos(cmp[present[0]].Pos()), "")
			case exceptions[cons] != "":
				r.exc(rule, cons, c.pos(cmp[present[0]].Pos()), exceptions[cons])
			default:
				r.viol(rule, cons, c.pos(cmp[present[0]].Pos()), fn.id()+" compares the address space with "+strings.Join(present, ", ")+" and never with "+strings.Join(missing, ", ")+", although both are one storage class ("+classOf[g[0]]+"): a variable declared with the other spelling is not handled")
			}
		}
	}
	r.inst(rule, n)
}

func init() {
	dumpers["spaceclass"] = func(c *Ctx, parts []string) {
		r := newReport("dump")
		c.runSpaceSameClass(r, "space.sameclass", "spirv/internal/codegen", nil)
		for _, p := range []string{"msl/internal/codegen", "hlsl/internal/codegen", "glsl/internal/codegen", "dxil/internal/emit"} {
			c.runSpaceSameClassIn(r, "space.sameclass", "spirv/internal/codegen", p, nil)
		}
		for _, o := range r.Obs {
			println(o.Verdict, o.Construct, o.Pos)
		}
	}
}
