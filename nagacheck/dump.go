package main

import (
	"fmt"
	"strings"
)

func runDump(ctx *Ctx, what string) {
	parts := strings.Split(what, ":")
	switch parts[0] {
	case "visitors":
		h := irNamedSpec(parts[1])
		if parts[1] == "Block" {
			h = blockSpec
		}
		ctx.dumpVisitors(h, strings.Split(parts[2], ",")...)
	case "paths":
		sums := ctx.sumTypes("ir")
		h := irNamedSpec(parts[1])
		if parts[1] == "Block" {
			h = blockSpec
		}
		for _, sn := range strings.Split(parts[2], ",") {
			s := sums[sn]
			if s == nil {
				fmt.Println("no sum", sn)
				continue
			}
			n := 0
			for _, v := range s.Variants {
				ps := variantPaths(sums, v, h)
				for _, p := range ps {
					d := ""
					if p.Delegate != nil {
						d = " -> " + p.Delegate.Name
					}
					fmt.Printf("%s.%s%s\n", v.Obj().Name(), p.Path, d)
					n++
				}
			}
			fmt.Printf("== %s: %d variants, %d %s paths\n", sn, len(s.Variants), n, h.Name)
		}
	case "sums":
		for n, s := range ctx.sumTypes(parts[1]) {
			fmt.Printf("%s: %d variants\n", n, len(s.Variants))
		}
	default:
		dumpMore(ctx, parts)
	}
}

var dumpers = map[string]func(ctx *Ctx, parts []string){}

func dumpMore(ctx *Ctx, parts []string) {
	if f := dumpers[parts[0]]; f != nil {
		f(ctx, parts)
		return
	}
	fmt.Println("unknown dump", parts[0])
}
