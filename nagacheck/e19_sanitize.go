package main

// names.sanitize (C16): the namers (Rust-naga style) spell the first entity
// with base B as B, or as B_ when B ends in a digit or is reserved, and later
// ones as B_N. These spellings are pairwise distinct only if no base ends in
// '_': otherwise base "x1_" (spelled x1_) meets base "x1" (spelled x1_).
// The base is what the sanitiser returns - the function whose result keys the
// namer's uniqueness map. The rule proves, with a forward must-analysis over
// go/cfg, that every value the sanitiser returns has no trailing underscore:
//   established by   strings.TrimRight / strings.Trim with '_' in the cutset,
//                    a constant that does not end in '_', string(x) / x + y of
//                    such values, the false edge of `len(x) > 0`, of
//                    `x[len(x)-1] == '_'`, of strings.HasSuffix(x, "_"),
//                    the true edge of `x == ""` / `len(x) == 0`;
//   destroyed by     any other assignment to the variable.

import (
	"go/ast"
	"go/constant"
	"go/token"
	"go/types"
	"strings"

	"golang.org/x/tools/go/cfg"
)

// sanitizers: functions whose result keys a map[string]<integer> inside a string-returning method of a namer type.
func (c *Ctx) sanitizers(pkgs func(string) bool) []*funcInfo {
	var out []*funcInfo
	seen := map[*types.Func]bool{}
	for _, fn := range c.allFuncs() {
		if !pkgs(fn.Pkg.Rel) || fn.Obj == nil || !isNamerMethod(fn.Obj) {
			continue
		}
		info := fn.Pkg.Info
		// variables assigned from a call
		from := map[types.Object]*types.Func{}
		ast.Inspect(fn.Decl.Body, func(n ast.Node) bool {
			as, ok := n.(*ast.AssignStmt)
			if !ok || len(as.Lhs) != 1 || len(as.Rhs) != 1 {
				return true
			}
			call, ok := ast.Unparen(as.Rhs[0]).(*ast.CallExpr)
			if !ok {
				return true
			}
			if id, ok := ast.Unparen(as.Lhs[0]).(*ast.Ident); ok {
				o := info.Defs[id]
				if o == nil {
					o = info.Uses[id]
				}
				if f := calleeOf(info, call); f != nil && o != nil {
					from[o] = f
				}
			}
			return true
		})
		ast.Inspect(fn.Decl.Body, func(n ast.Node) bool {
			ix, ok := n.(*ast.IndexExpr)
			if !ok {
				return true
			}
			tv, ok := info.Types[ix.X]
			if !ok {
				return true
			}
			mt, ok := tv.Type.Underlying().(*types.Map)
			if !ok {
				return true
			}
			if b, ok := mt.Elem().Underlying().(*types.Basic); !ok || b.Info()&types.IsInteger == 0 {
				return true
			}
			if id, ok := ast.Unparen(ix.Index).(*ast.Ident); ok {
				if f := from[info.Uses[id]]; f != nil && !seen[f] {
					if fi := c.funcByObj(f); fi != nil {
						seen[f] = true
						out = append(out, fi)
					}
				}
			}
			return true
		})
	}
	return out
}

type pstate map[types.Object]uint8 // bit 1: no trailing underscore, bit 2: not empty

func (p pstate) clone() pstate {
	n := pstate{}
	for k, v := range p {
		n[k] = v
	}
	return n
}

func cutsetHasUnderscore(info *types.Info, e ast.Expr) bool {
	tv, ok := info.Types[e]
	return ok && tv.Value != nil && tv.Value.Kind() == constant.String && strings.Contains(constant.StringVal(tv.Value), "_")
}

func nonEmpty(info *types.Info, st pstate, e ast.Expr) bool {
	e = ast.Unparen(e)
	if tv, ok := info.Types[e]; ok && tv.Value != nil && tv.Value.Kind() == constant.String {
		return constant.StringVal(tv.Value) != ""
	}
	switch x := e.(type) {
	case *ast.Ident:
		return st[info.Uses[x]]&2 != 0
	case *ast.BinaryExpr:
		if x.Op == token.ADD {
			return nonEmpty(info, st, x.X) || nonEmpty(info, st, x.Y)
		}
	case *ast.CallExpr:
		if tv, ok := info.Types[x.Fun]; ok && tv.IsType() && len(x.Args) == 1 {
			return nonEmpty(info, st, x.Args[0])
		}
	}
	return false
}

func noTrail(info *types.Info, st pstate, e ast.Expr) bool {
	e = ast.Unparen(e)
	if tv, ok := info.Types[e]; ok && tv.Value != nil && tv.Value.Kind() == constant.String {
		return !strings.HasSuffix(constant.StringVal(tv.Value), "_")
	}
	switch x := e.(type) {
	case *ast.Ident:
		return st[info.Uses[x]]&1 != 0
	case *ast.CallExpr:
		if tv, ok := info.Types[x.Fun]; ok && tv.IsType() && len(x.Args) == 1 {
			return noTrail(info, st, x.Args[0])
		}
		if f := calleeOf(info, x); f != nil && f.Pkg() != nil && f.Pkg().Path() == "strings" && len(x.Args) == 2 {
			if (f.Name() == "TrimRight" || f.Name() == "Trim") && cutsetHasUnderscore(info, x.Args[1]) {
				return true
			}
		}
	case *ast.BinaryExpr:
		if x.Op == token.ADD {
			// the end of a+b is the end of b unless b is empty
			return noTrail(info, st, x.Y) && (noTrail(info, st, x.X) || nonEmpty(info, st, x.Y))
		}
	}
	return false
}

// emptyTest: cond tests emptiness of a variable; returns the variable and on which edge it is known non-empty.
func emptyTest(info *types.Info, cond ast.Expr) (obj types.Object, trueNonEmpty, falseNonEmpty bool) {
	o, tClean, fClean := trailTest(info, cond)
	_ = tClean
	_ = fClean
	cond = ast.Unparen(cond)
	be, ok := cond.(*ast.BinaryExpr)
	if !ok || o == nil {
		return nil, false, false
	}
	isEmptyLit := func(e ast.Expr) bool {
		tv, ok := info.Types[e]
		return ok && tv.Value != nil && (tv.Value.ExactString() == `""` || tv.Value.ExactString() == "0")
	}
	if !isEmptyLit(be.Y) {
		return nil, false, false
	}
	switch be.Op {
	case token.EQL:
		return o, false, true
	case token.NEQ, token.GTR:
		return o, true, false
	}
	return nil, false, false
}

// subject of a "trailing underscore" test: returns the variable and whether cond==true means "has trailing underscore".
func trailTest(info *types.Info, cond ast.Expr) (obj types.Object, trueMeansClean bool, falseMeansClean bool) {
	cond = ast.Unparen(cond)
	isLenOf := func(e ast.Expr) types.Object {
		call, ok := ast.Unparen(e).(*ast.CallExpr)
		if !ok || len(call.Args) != 1 {
			return nil
		}
		if id, ok := ast.Unparen(call.Fun).(*ast.Ident); !ok || id.Name != "len" {
			return nil
		}
		if id, ok := ast.Unparen(call.Args[0]).(*ast.Ident); ok {
			return info.Uses[id]
		}
		return nil
	}
	isZero := func(e ast.Expr) bool {
		tv, ok := info.Types[e]
		return ok && tv.Value != nil && tv.Value.ExactString() == "0"
	}
	isUnderscore := func(e ast.Expr) bool {
		tv, ok := info.Types[e]
		return ok && tv.Value != nil && (tv.Value.ExactString() == "95" || tv.Value.ExactString() == `"_"`)
	}
	switch x := cond.(type) {
	case *ast.BinaryExpr:
		switch x.Op {
		case token.LAND:
			// (A && B) false: A false or B false - clean if both tests are about the same variable and clean when false
			oa, _, fa := trailTest(info, x.X)
			ob, _, fb := trailTest(info, x.Y)
			if oa != nil && oa == ob && fa && fb {
				return oa, false, true
			}
			return nil, false, false
		case token.LOR:
			oa, ta, _ := trailTest(info, x.X)
			ob, tb, _ := trailTest(info, x.Y)
			if oa != nil && oa == ob && ta && tb {
				return oa, true, false
			}
			return nil, false, false
		case token.GTR, token.NEQ: // len(x) > 0 ; len(x) != 0 ; x != ""
			if o := isLenOf(x.X); o != nil && isZero(x.Y) {
				return o, false, true
			}
			if id, ok := ast.Unparen(x.X).(*ast.Ident); ok && x.Op == token.NEQ {
				if tv, ok := info.Types[x.Y]; ok && tv.Value != nil && tv.Value.ExactString() == `""` {
					return info.Uses[id], false, true
				}
			}
			// x[len(x)-1] != '_'
			if ix, ok := ast.Unparen(x.X).(*ast.IndexExpr); ok && x.Op == token.NEQ && isUnderscore(x.Y) {
				if id, ok := ast.Unparen(ix.X).(*ast.Ident); ok && lastIndexOf(info, ix) {
					return info.Uses[id], true, false
				}
			}
		case token.EQL:
			if o := isLenOf(x.X); o != nil && isZero(x.Y) {
				return o, true, false
			}
			if id, ok := ast.Unparen(x.X).(*ast.Ident); ok {
				if tv, ok := info.Types[x.Y]; ok && tv.Value != nil && tv.Value.ExactString() == `""` {
					return info.Uses[id], true, false
				}
			}
			if ix, ok := ast.Unparen(x.X).(*ast.IndexExpr); ok && isUnderscore(x.Y) {
				if id, ok := ast.Unparen(ix.X).(*ast.Ident); ok && lastIndexOf(info, ix) {
					return info.Uses[id], false, true
				}
			}
		}
	case *ast.CallExpr:
		if f := calleeOf(info, x); f != nil && f.Pkg() != nil && f.Pkg().Path() == "strings" && f.Name() == "HasSuffix" && len(x.Args) == 2 {
			if id, ok := ast.Unparen(x.Args[0]).(*ast.Ident); ok {
				if tv, ok := info.Types[x.Args[1]]; ok && tv.Value != nil && tv.Value.ExactString() == `"_"` {
					return info.Uses[id], false, true
				}
			}
		}
	case *ast.UnaryExpr:
		if x.Op == token.NOT {
			o, t, f := trailTest(info, x.X)
			return o, f, t
		}
	}
	return nil, false, false
}

// lastIndexOf: ix is x[len(x)-1]
func lastIndexOf(info *types.Info, ix *ast.IndexExpr) bool {
	be, ok := ast.Unparen(ix.Index).(*ast.BinaryExpr)
	if !ok || be.Op != token.SUB {
		return false
	}
	if tv, ok := info.Types[be.Y]; !ok || tv.Value == nil || tv.Value.ExactString() != "1" {
		return false
	}
	call, ok := ast.Unparen(be.X).(*ast.CallExpr)
	if !ok || len(call.Args) != 1 {
		return false
	}
	id, ok := ast.Unparen(call.Fun).(*ast.Ident)
	return ok && id.Name == "len" && types.ExprString(call.Args[0]) == types.ExprString(ix.X)
}

func (c *Ctx) runSanitizeNoTrail(r *Report, rule string, pkgs func(string) bool) {
	n := 0
	for _, fn := range c.sanitizers(pkgs) {
		info := fn.Pkg.Info
		g := cfg.New(fn.Decl.Body, func(*ast.CallExpr) bool { return true })
		in := make([]pstate, len(g.Blocks))
		visited := make([]bool, len(g.Blocks))
		in[0] = pstate{}
		work := []int32{0}
		type retSite struct {
			ret *ast.ReturnStmt
			ok  bool
		}
		rets := map[*ast.ReturnStmt]bool{}
		var order []*ast.ReturnStmt
		for len(work) > 0 {
			bi := work[0]
			work = work[1:]
			b := g.Blocks[bi]
			visited[bi] = true
			st := in[bi].clone()
			var cond ast.Expr
			for i, nd := range b.Nodes {
				if i == len(b.Nodes)-1 && len(b.Succs) == 2 {
					if e, ok := nd.(ast.Expr); ok {
						cond = e
						continue
					}
				}
				switch x := nd.(type) {
				case *ast.AssignStmt:
					if len(x.Lhs) == len(x.Rhs) {
						vals := make([]uint8, len(x.Rhs))
						for i := range x.Rhs {
							var clean, ne bool
							if x.Tok == token.ADD_ASSIGN {
								clean = noTrail(info, st, x.Rhs[i]) && (noTrail(info, st, x.Lhs[i]) || nonEmpty(info, st, x.Rhs[i]))
								ne = nonEmpty(info, st, x.Lhs[i]) || nonEmpty(info, st, x.Rhs[i])
							} else {
								clean = noTrail(info, st, x.Rhs[i])
								ne = nonEmpty(info, st, x.Rhs[i])
							}
							if clean {
								vals[i] |= 1
							}
							if ne {
								vals[i] |= 2
							}
						}
						for i, l := range x.Lhs {
							if id, ok := ast.Unparen(l).(*ast.Ident); ok {
								o := info.Defs[id]
								if o == nil {
									o = info.Uses[id]
								}
								if o != nil {
									st[o] = vals[i]
								}
							}
						}
					} else {
						for _, l := range x.Lhs {
							if id, ok := ast.Unparen(l).(*ast.Ident); ok {
								o := info.Defs[id]
								if o == nil {
									o = info.Uses[id]
								}
								if o != nil {
									st[o] = 0
								}
							}
						}
					}
				case *ast.ReturnStmt:
					ok := len(x.Results) == 1 && noTrail(info, st, x.Results[0])
					if prev, had := rets[x]; !had {
						rets[x] = ok
						order = append(order, x)
					} else {
						rets[x] = prev && ok
					}
				}
			}
			for si, s := range b.Succs {
				ns := st.clone()
				if cond != nil {
					if o, tClean, fClean := trailTest(info, cond); o != nil {
						if (si == 0 && tClean) || (si == 1 && fClean) {
							ns[o] |= 1
						}
					}
					if o, tNE, fNE := emptyTest(info, cond); o != nil {
						if (si == 0 && tNE) || (si == 1 && fNE) {
							ns[o] |= 2
						}
					}
				}
				if !visited[s.Index] && in[s.Index] == nil {
					in[s.Index] = ns
					work = append(work, s.Index)
					continue
				}
				// must-join: intersection
				changed := false
				for k, v := range in[s.Index] {
					if v&ns[k] != v {
						in[s.Index][k] = v & ns[k]
						changed = true
					}
				}
				if changed {
					work = append(work, s.Index)
				}
			}
		}
		for i, ret := range order {
			n++
			cons := fn.id() + ":return#" + itoa(i+1)
			if rets[ret] {
				r.ok(rule, cons, c.pos(ret.Pos()), "")
			} else {
				e := ""
				if len(ret.Results) == 1 {
					e = types.ExprString(ret.Results[0])
				}
				r.viol(rule, cons, c.pos(ret.Pos()), fn.id()+" (the sanitiser whose result keys the namer's uniqueness map) can return `"+e+"` with a trailing underscore: the namer spells base X_ as X_ and base X<digit> as X<digit>_, so two different entities can receive the same spelling")
			}
		}
	}
	r.inst("names.sanitize.returns", n)
}

func init() {
	dumpers["sanitize"] = func(c *Ctx, parts []string) {
		r := newReport("dump")
		c.runSanitizeNoTrail(r, "names.sanitize", inPkgs("hlsl", "msl", "glsl", "internal"))
		c.runNameFresh(r, "names.fresh", inPkgs("hlsl", "msl", "glsl"))
		for _, o := range r.Obs {
			if o.Verdict != OK || o.Rule == "names.sanitize" {
				println(o.Verdict, o.Rule, o.Construct, o.Pos, o.Msg)
			}
		}
		println(r.Instances["names.sanitize.returns"], r.Instances["names.stores"])
	}
}
