package main

import (
	"go/ast"
	"go/token"
	"go/types"
)

// cost.sourcecount (C10): the element count of an array type is a number
// written in the source (`array<u32, 100000000>` is 26 characters). A backend
// that allocates `make([]T, count)` or runs a Go loop `for i < count` with that
// number does work proportional to the value, not to the size of the input: a
// 90-byte program keeps the compiler busy for minutes and gigabytes. Work
// bounded by the declared count must be preceded, in the same function, by a
// comparison of the count with a limit (any relational test of the count
// other than with 0 or 1), or be replaced by emitted loop text.
func (c *Ctx) runSourceCount(r *Report, rule string, inPkg func(string) bool, exceptions map[string]string) {
	n := 0
	for _, fn := range c.allFuncs() {
		if !inPkg(fn.Pkg.Rel) || fn.Decl.Body == nil {
			continue
		}
		info := fn.Pkg.Info
		// variables holding a declared array count: x := *T.Size.Constant (possibly converted)
		counts := map[types.Object]bool{}
		isCountExpr := func(e ast.Expr) bool {
			found := false
			ast.Inspect(e, func(m ast.Node) bool {
				switch x := m.(type) {
				case *ast.StarExpr:
					if sel, ok := ast.Unparen(x.X).(*ast.SelectorExpr); ok && sel.Sel.Name == "Constant" {
						if in, ok := ast.Unparen(sel.X).(*ast.SelectorExpr); ok && in.Sel.Name == "Size" {
							found = true
						}
					}
				case *ast.Ident:
					if counts[info.ObjectOf(x)] {
						found = true
					}
				}
				return true
			})
			return found
		}
		for changed := true; changed; {
			changed = false
			ast.Inspect(fn.Decl.Body, func(m ast.Node) bool {
				as, ok := m.(*ast.AssignStmt)
				if !ok || len(as.Lhs) != len(as.Rhs) {
					return true
				}
				for i, l := range as.Lhs {
					id, ok := l.(*ast.Ident)
					if !ok {
						continue
					}
					o := info.ObjectOf(id)
					if o == nil || counts[o] {
						continue
					}
					// only plain copies / conversions of the count, not arithmetic results used as sizes of something else
					rhs := ast.Unparen(as.Rhs[i])
					for {
						call, ok := rhs.(*ast.CallExpr)
						if !ok || len(call.Args) != 1 {
							break
						}
						if tv, ok := info.Types[call.Fun]; !ok || !tv.IsType() {
							break
						}
						rhs = ast.Unparen(call.Args[0])
					}
					switch rhs.(type) {
					case *ast.StarExpr, *ast.Ident:
						if isCountExpr(rhs) {
							counts[o] = true
							changed = true
						}
					}
				}
				return true
			})
		}
		bounded := func() bool {
			ok := false
			ast.Inspect(fn.Decl.Body, func(m ast.Node) bool {
				be, isBin := m.(*ast.BinaryExpr)
				if !isBin {
					return true
				}
				switch be.Op {
				case token.GTR, token.GEQ, token.LSS, token.LEQ:
				default:
					return true
				}
				for _, pair := range [][2]ast.Expr{{be.X, be.Y}, {be.Y, be.X}} {
					if !isCountExpr(pair[0]) {
						continue
					}
					tv, has := info.Types[pair[1]]
					if !has || tv.Value == nil {
						continue
					}
					if s := tv.Value.ExactString(); s != "0" && s != "1" {
						ok = true
					}
				}
				return true
			})
			return ok
		}
		ord := 0
		report := func(pos token.Pos, what string) {
			ord++
			n++
			cons := fn.id() + ":" + what + "#" + itoa(ord)
			switch {
			case bounded():
				r.ok(rule, cons, c.pos(pos), "")
			case exceptions[cons] != "":
				r.exc(rule, cons, c.pos(pos), exceptions[cons])
			default:
				r.viol(rule, cons, c.pos(pos), fn.id()+" does work ("+what+") proportional to the declared element count of an array type without comparing that count with a limit: the count is a number in the source, so time and memory grow with its value, not with the size of the input")
			}
		}
		ast.Inspect(fn.Decl.Body, func(m ast.Node) bool {
			switch x := m.(type) {
			case *ast.CallExpr:
				if id, ok := x.Fun.(*ast.Ident); ok && id.Name == "make" && len(x.Args) >= 2 {
					if _, isB := info.ObjectOf(id).(*types.Builtin); isB {
						for _, a := range x.Args[1:] {
							if isCountExpr(a) {
								report(x.Pos(), "make")
								break
							}
						}
					}
				}
			case *ast.ForStmt:
				if x.Cond != nil {
					if be, ok := ast.Unparen(x.Cond).(*ast.BinaryExpr); ok && (be.Op == token.LSS || be.Op == token.LEQ) && isCountExpr(be.Y) {
						report(x.Pos(), "loop")
					}
				}
			case *ast.RangeStmt:
				if tv, ok := info.Types[x.X]; ok && tv.Type != nil {
					if b, ok := tv.Type.Underlying().(*types.Basic); ok && b.Info()&types.IsInteger != 0 && isCountExpr(x.X) {
						report(x.Pos(), "loop")
					}
				}
			}
			return true
		})
	}
	r.inst(rule, n)
}

func init() {
	dumpers["sourcecount"] = func(c *Ctx, parts []string) {
		r := newReport("dump")
		c.runSourceCount(r, "cost.sourcecount", func(string) bool { return true }, nil)
		for _, o := range r.Obs {
			println(o.Verdict, o.Construct, o.Pos)
		}
	}
}
