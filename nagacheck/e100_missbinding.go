package main

import (
	"go/ast"
	"go/types"
	"strings"
)

// bindmap.missreported (C17): the HLSL options document that a resource
// without an entry in the binding map fails the compilation with
// ErrMissingBinding unless FakeMissingBindings asks for invented targets.
// Every function that consults FakeMissingBindings while it determines a
// BindTarget (its result, or a local of that type) therefore has a path on
// which the option is off and nothing was found; on that path the error kind
// must be raised (the function, or one it calls, mentions ErrMissingBinding).
// Otherwise all unmapped resources land on register 0 of space 0 and collide.
func (c *Ctx) runMissReported(r *Report, rule, rel string) {
	n := 0
	g := c.graph()
	mentionsKind := func(fi *funcInfo) bool {
		found := false
		ast.Inspect(fi.Decl.Body, func(m ast.Node) bool {
			if id, ok := m.(*ast.Ident); ok && id.Name == "ErrMissingBinding" {
				if _, ok := fi.Pkg.Info.ObjectOf(id).(*types.Const); ok {
					found = true
				}
			}
			return true
		})
		return found
	}
	for _, fn := range c.allFuncs() {
		if fn.Pkg.Rel != rel || fn.Obj == nil || fn.Decl.Body == nil {
			continue
		}
		info := fn.Pkg.Info
		readsFake := false
		var pos ast.Node
		ast.Inspect(fn.Decl.Body, func(m ast.Node) bool {
			if sel, ok := m.(*ast.SelectorExpr); ok && strings.HasPrefix(sel.Sel.Name, "FakeMissing") {
				if v, ok := info.ObjectOf(sel.Sel).(*types.Var); ok && v.IsField() && isBoolType(v.Type()) {
					readsFake = true
					if pos == nil {
						pos = sel
					}
				}
			}
			return true
		})
		if !readsFake {
			continue
		}
		// determines a BindTarget: result type or a declared local
		isBT := func(t types.Type) bool {
			nm := namedOf(t)
			return nm != nil && nm.Obj().Name() == "BindTarget"
		}
		determines := false
		sig := fn.Obj.Type().(*types.Signature)
		for i := 0; i < sig.Results().Len(); i++ {
			if isBT(sig.Results().At(i).Type()) {
				determines = true
			}
		}
		ast.Inspect(fn.Decl.Body, func(m ast.Node) bool {
			if id, ok := m.(*ast.Ident); ok {
				if v, ok := info.Defs[id].(*types.Var); ok && isBT(v.Type()) {
					determines = true
				}
			}
			return true
		})
		if !determines {
			continue
		}
		n++
		cons := fn.id() + ":FakeMissingBindings"
		ok := mentionsKind(fn)
		for _, callee := range g.out[fn.Obj] {
			if ci := c.funcByObj(callee); ci != nil && ci.Pkg == fn.Pkg && ci.Decl.Body != nil && mentionsKind(ci) {
				ok = true
			}
		}
		if ok {
			r.ok(rule, cons, c.pos(pos.Pos()), "")
		} else {
			r.viol(rule, cons, c.pos(pos.Pos()), fn.id()+" determines a BindTarget, consults FakeMissingBindings, and never raises ErrMissingBinding: with the option off an unmapped resource silently gets the zero target (register 0, space 0)")
		}
	}
	r.inst(rule, n)
}

func init() {
	dumpers["missbinding"] = func(c *Ctx, parts []string) {
		r := newReport("dump")
		c.runMissReported(r, "bindmap.missreported", "hlsl/internal/codegen")
		for _, o := range r.Obs {
			println(o.Verdict, o.Construct, o.Pos)
		}
	}
}
