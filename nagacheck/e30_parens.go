package main

// parens.siblings (C03, C04, C05): text backends render some expression kinds
// as bare infix text ("a + b", "c ? x : y") and decide at each operand /
// postfix position whether the child must be parenthesised, through predicate
// methods (handle -> bool) that switch over the child's expression kind. A
// predicate is recognised by its use: its result guards the emission of "(".
// All such predicates of one backend answer the same question - "is the
// inline rendering of this kind loose?" - so a kind that one of them declares
// loose (an arm that can return true) must have an arm in every other one; a
// predicate in which that kind falls through to `false` leaves
// "x + c ? a : b" unparenthesised, which the target language parses as
// "(x + c) ? a : b".

import (
	"go/ast"
	"go/token"
	"strconv"
	"go/types"
	"sort"
	"strings"
)

type parenPred struct {
	fn    *funcInfo
	loose map[string]bool // kinds with an arm that may return true
	arms  map[string]bool // kinds with any arm
}

func (c *Ctx) parenPredicates(pkgs func(string) bool) map[string][]*parenPred {
	// 1. functions whose result guards the emission of "("
	guards := map[*types.Func]bool{}
	isOpenParenWrite := func(info *types.Info, st ast.Stmt) bool {
		es, ok := st.(*ast.ExprStmt)
		if !ok {
			return false
		}
		call, ok := es.X.(*ast.CallExpr)
		if !ok || len(call.Args) == 0 {
			return false
		}
		if lit, ok := call.Args[0].(*ast.BasicLit); ok && (lit.Value == `"("` || lit.Value == "'('") {
			return true
		}
		return false
	}
	for _, fn := range c.allFuncs() {
		if !pkgs(fn.Pkg.Rel) {
			continue
		}
		info := fn.Pkg.Info
		fromCall := map[types.Object]*types.Func{}
		ast.Inspect(fn.Decl.Body, func(m ast.Node) bool {
			switch x := m.(type) {
			case *ast.AssignStmt:
				if len(x.Lhs) == 1 && len(x.Rhs) == 1 {
					if call, ok := ast.Unparen(x.Rhs[0]).(*ast.CallExpr); ok {
						if f := calleeOf(info, call); f != nil {
							if id, ok := x.Lhs[0].(*ast.Ident); ok {
								if o := info.ObjectOf(id); o != nil {
									fromCall[o] = f.Origin()
								}
							}
						}
					}
				}
			case *ast.IfStmt:
				if len(x.Body.List) == 0 || !isOpenParenWrite(info, x.Body.List[0]) {
					return true
				}
				cond := ast.Unparen(x.Cond)
				if call, ok := cond.(*ast.CallExpr); ok {
					if f := calleeOf(info, call); f != nil {
						guards[f.Origin()] = true
					}
				}
				if id, ok := cond.(*ast.Ident); ok {
					if f := fromCall[info.Uses[id]]; f != nil {
						guards[f] = true
					}
				}
			}
			return true
		})
	}
	// 2. their kind switches
	out := map[string][]*parenPred{}
	for _, fn := range c.allFuncs() {
		if fn.Obj == nil || !guards[fn.Obj] {
			continue
		}
		sig := fn.Obj.Type().(*types.Signature)
		if sig.Params().Len() != 1 || sig.Results().Len() != 1 || irTypeName(sig.Params().At(0).Type()) != "ExpressionHandle" {
			continue
		}
		info := fn.Pkg.Info
		p := &parenPred{fn: fn, loose: map[string]bool{}, arms: map[string]bool{}}
		ast.Inspect(fn.Decl.Body, func(m ast.Node) bool {
			ts, ok := m.(*ast.TypeSwitchStmt)
			if !ok {
				return true
			}
			for _, cl := range ts.Body.List {
				cc := cl.(*ast.CaseClause)
				var kinds []string
				for _, l := range cc.List {
					if tv, ok := info.Types[l]; ok {
						if nm := irTypeName(tv.Type); strings.HasPrefix(nm, "Expr") {
							kinds = append(kinds, nm)
						}
					}
				}
				if len(kinds) == 0 {
					continue
				}
				mayTrue := false
				ast.Inspect(cc, func(k ast.Node) bool {
					if rs, ok := k.(*ast.ReturnStmt); ok && len(rs.Results) == 1 {
						if id, ok := ast.Unparen(rs.Results[0]).(*ast.Ident); ok && id.Name == "false" {
							return true
						}
						mayTrue = true
					}
					return true
				})
				for _, k := range kinds {
					p.arms[k] = true
					if mayTrue {
						p.loose[k] = true
					}
				}
			}
			return false
		})
		if len(p.arms) > 0 {
			out[fn.Pkg.Rel] = append(out[fn.Pkg.Rel], p)
		}
	}
	return out
}

func (c *Ctx) runParenSiblings(r *Report, rule string, pkgs func(string) bool) {
	n := 0
	preds := c.parenPredicates(pkgs)
	var rels []string
	for rel := range preds {
		rels = append(rels, rel)
	}
	sort.Strings(rels)
	for _, rel := range rels {
		ps := preds[rel]
		union := map[string][]string{}
		for _, p := range ps {
			for k := range p.loose {
				union[k] = append(union[k], p.fn.Name)
			}
		}
		var kinds []string
		for k := range union {
			kinds = append(kinds, k)
		}
		sort.Strings(kinds)
		for _, p := range ps {
			for _, k := range kinds {
				n++
				cons := p.fn.id() + ":" + k
				if p.arms[k] {
					r.ok(rule, cons, c.pos(p.fn.Decl.Pos()), "")
				} else {
					sort.Strings(union[k])
					r.viol(rule, cons, c.pos(p.fn.Decl.Pos()), p.fn.id()+" decides whether a child expression is parenthesised but has no arm for ir."+k+", which "+strings.Join(union[k], ", ")+" of the same backend treats as needing parentheses: a bare "+k+" rendering placed at the positions this predicate guards is re-associated by the target language's precedence rules")
				}
			}
		}
	}
	r.inst("parens.siblings", n)
}

// parens.bakedonly (C04): a paren predicate may answer "the child is written as
// a name, no parentheses needed" only from the writer's own record of names it
// has already emitted (a field of the writer). The IR's table of named
// expressions says that the expression gets a name at its Emit statement, not
// that it is a name where it is being written now: an expression used before
// its Emit has been written (the continuing block of a loop is written before
// the body) is re-expanded inline and needs its parentheses.
func (c *Ctx) runParenBakedOnly(r *Report, rule string, pkgs func(string) bool) {
	n := 0
	preds := c.parenPredicates(pkgs)
	var rels []string
	for rel := range preds {
		rels = append(rels, rel)
	}
	sort.Strings(rels)
	for _, rel := range rels {
		for _, p := range preds[rel] {
			info := p.fn.Pkg.Info
			ord := map[string]int{}
			ast.Inspect(p.fn.Decl.Body, func(m ast.Node) bool {
				ifs, ok := m.(*ast.IfStmt)
				if !ok {
					return true
				}
				as, ok := ifs.Init.(*ast.AssignStmt)
				if !ok || len(as.Rhs) != 1 {
					return true
				}
				ix, ok := ast.Unparen(as.Rhs[0]).(*ast.IndexExpr)
				if !ok {
					return true
				}
				se, ok := ast.Unparen(ix.X).(*ast.SelectorExpr)
				if !ok {
					return true
				}
				fld, ok := info.Uses[se.Sel].(*types.Var)
				if !ok || !fld.IsField() || fld.Pkg() == nil {
					return true
				}
				if _, isMap := fld.Type().Underlying().(*types.Map); !isMap {
					return true
				}
				retFalse := false
				for _, st := range ifs.Body.List {
					if rs, ok := st.(*ast.ReturnStmt); ok && len(rs.Results) == 1 {
						if id, ok := rs.Results[0].(*ast.Ident); ok && id.Name == "false" {
							retFalse = true
						}
					}
				}
				if !retFalse {
					return true
				}
				n++
				key := p.fn.id() + ":" + noSpace(types.ExprString(ix.X))
				ord[key]++
				cons := key
				if ord[key] > 1 {
					cons += "#" + itoa(ord[key])
				}
				if strings.HasSuffix(fld.Pkg().Path(), "/ir") {
					r.viol(rule, cons, c.pos(ifs.Pos()), p.fn.id()+" concludes from the IR table "+types.ExprString(ix.X)+" that the child is written as a name and needs no parentheses; the IR only says the expression is named at its Emit - where it is used before that Emit has been written (the continuing block precedes the loop body) it is expanded inline: acc * sum with let sum = a + b becomes acc * a + b")
				} else {
					r.ok(rule, cons, c.pos(ifs.Pos()), "")
				}
				return true
			})
		}
	}
	r.inst("parens.bakedonly", n)
}

func init() {
	dumpers["parens"] = func(c *Ctx, parts []string) {
		for rel, ps := range c.parenPredicates(func(string) bool { return true }) {
			for _, p := range ps {
				var l, a []string
				for k := range p.loose {
					l = append(l, k)
				}
				for k := range p.arms {
					a = append(a, k)
				}
				sort.Strings(l)
				sort.Strings(a)
				println(rel, p.fn.Name, "loose:", strings.Join(l, ","), "arms:", strings.Join(a, ","))
			}
		}
		r := newReport("dump")
		c.runParenBakedOnly(r, "parens.bakedonly", func(string) bool { return true })
		c.runParenSiblings(r, "parens.siblings", func(string) bool { return true })
		for _, o := range r.Obs {
			println(o.Verdict, o.Construct, o.Pos, o.Msg)
		}
	}
}

// parens.postfix (C04): in a backend that renders loose (bare infix) expression
// text - one that has paren predicates - every position where a child
// expression is written and the next emitted text is a postfix operator
// (".member", ".xy", "[index]") must be guarded by a paren predicate applied to
// that child, or lie on a path on which the child is known to be a pointer
// (pointer-typed expressions are never Binary / Select / ArrayLength). Found
// over go/cfg: from each expression-write call, the first literal emitted on
// every continuing path.
var postfixOperand = map[string]bool{"ExprAccess.Base": true, "ExprAccessIndex.Base": true, "ExprSwizzle.Vector": true}

type postfixSite struct {
	fn      *funcInfo
	call    *ast.CallExpr
	arg     string
	guarded string // "", "predicate", "pointer"
	next    string
}

func (c *Ctx) postfixSites(rel string, preds []*parenPred) []postfixSite {
	isPred := map[*types.Func]bool{}
	for _, p := range preds {
		isPred[p.fn.Obj] = true
	}
	var out []postfixSite
	for _, fn := range c.allFuncs() {
		if fn.Pkg.Rel != rel || fn.Obj == nil {
			continue
		}
		info := fn.Pkg.Info
		sig := fn.Obj.Type().(*types.Signature)
		if sig.Recv() == nil {
			continue
		}
		recvName := namedName(sig.Recv().Type())
		isExprWrite := func(call *ast.CallExpr) bool {
			f := calleeOf(info, call)
			if f == nil {
				return false
			}
			s := f.Type().(*types.Signature)
			return s.Recv() != nil && namedName(s.Recv().Type()) == recvName && s.Params().Len() == 1 && irTypeName(s.Params().At(0).Type()) == "ExpressionHandle" && s.Results().Len() == 1 && s.Results().At(0).Type().String() == "error"
		}
		literalOf := func(call *ast.CallExpr) (string, bool) {
			f := calleeOf(info, call)
			if f == nil || len(call.Args) == 0 {
				return "", false
			}
			s := f.Type().(*types.Signature)
			if s.Recv() == nil || namedName(s.Recv().Type()) != recvName {
				return "", false
			}
			if lit, ok := call.Args[0].(*ast.BasicLit); ok && len(lit.Value) >= 2 {
				return lit.Value[1 : len(lit.Value)-1], true
			}
			return "", false
		}
		// statement -> previous sibling statement
		prevStmt := map[ast.Stmt]ast.Stmt{}
		enclosing := map[*ast.CallExpr]ast.Stmt{}
		var lists func(list []ast.Stmt)
		lists = func(list []ast.Stmt) {
			for i, st := range list {
				if i > 0 {
					prevStmt[st] = list[i-1]
				}
				ast.Inspect(st, func(m ast.Node) bool {
					switch x := m.(type) {
					case *ast.BlockStmt:
						lists(x.List)
						return false
					case *ast.CaseClause:
						lists(x.Body)
						return false
					case *ast.CommClause:
						lists(x.Body)
						return false
					case *ast.FuncLit:
						return false
					case *ast.CallExpr:
						if _, has := enclosing[x]; !has {
							enclosing[x] = st
						}
					}
					return true
				})
			}
		}
		lists(fn.Decl.Body.List)
		predVar := map[types.Object]string{} // v := w.pred(X) -> X text
		// the statement right before `st` is `if <pred on arg> { w.write("(") ... }`
		guardedByPrev := func(call *ast.CallExpr, arg string) bool {
			st := enclosing[call]
			if st == nil {
				return false
			}
			ifs, ok := prevStmt[st].(*ast.IfStmt)
			if !ok || len(ifs.Body.List) == 0 {
				return false
			}
			es, ok := ifs.Body.List[0].(*ast.ExprStmt)
			if !ok {
				return false
			}
			wc, ok := es.X.(*ast.CallExpr)
			if !ok {
				return false
			}
			if lit, ok := literalOf(wc); !ok || lit != "(" {
				return false
			}
			switch cnd := ast.Unparen(ifs.Cond).(type) {
			case *ast.Ident:
				return predVar[info.Uses[cnd]] == arg
			case *ast.CallExpr:
				if f := calleeOf(info, cnd); f != nil && isPred[f.Origin()] && len(cnd.Args) == 1 {
					return types.ExprString(cnd.Args[0]) == arg
				}
			}
			return false
		}
		type span struct{ lo, hi int }
		ptrSpans := map[string][]span{}
		typeOfVar := map[types.Object]string{} // v := w.getExpressionType(X) -> X text
		ast.Inspect(fn.Decl.Body, func(m ast.Node) bool {
			switch x := m.(type) {
			case *ast.CallExpr:
			case *ast.AssignStmt:
				if len(x.Lhs) == 1 && len(x.Rhs) == 1 {
					// v := [... &&] w.pred(X): a conjunction only narrows when parentheses are written
					if id, ok := x.Lhs[0].(*ast.Ident); ok {
						conj := []ast.Expr{x.Rhs[0]}
						for len(conj) > 0 {
							e := ast.Unparen(conj[0])
							conj = conj[1:]
							if be, ok := e.(*ast.BinaryExpr); ok && be.Op == token.LAND {
								conj = append(conj, be.X, be.Y)
								continue
							}
							if call, ok := e.(*ast.CallExpr); ok && len(call.Args) == 1 {
								if f := calleeOf(info, call); f != nil && isPred[f.Origin()] {
									if o := info.ObjectOf(id); o != nil {
										predVar[o] = types.ExprString(call.Args[0])
									}
								}
							}
						}
					}
					if call, ok := ast.Unparen(x.Rhs[0]).(*ast.CallExpr); ok && len(call.Args) == 1 {
						if tv, ok := info.Types[call.Args[0]]; ok && irTypeName(tv.Type) == "ExpressionHandle" {
							if id, ok := x.Lhs[0].(*ast.Ident); ok {
								if o := info.ObjectOf(id); o != nil && irTypeName(o.Type()) == "TypeInner" {
									typeOfVar[o] = types.ExprString(call.Args[0])
								}
							}
						}
					}
				}
			case *ast.IfStmt:
				// if pt, ok := v.(ir.PointerType); ok { ... }
				if as, ok := x.Init.(*ast.AssignStmt); ok && len(as.Rhs) == 1 {
					if ta, ok := ast.Unparen(as.Rhs[0]).(*ast.TypeAssertExpr); ok && ta.Type != nil {
						if tv, ok := info.Types[ta.Type]; ok && irTypeName(tv.Type) == "PointerType" {
							if id, ok := ast.Unparen(ta.X).(*ast.Ident); ok {
								if xt, ok := typeOfVar[info.Uses[id]]; ok {
									ptrSpans[xt] = append(ptrSpans[xt], span{int(x.Body.Pos()), int(x.Body.End())})
								}
							}
						}
					}
				}
			}
			return true
		})
		g := c.cfgOf(fn)
		if g == nil {
			continue
		}
		for _, blk := range g.Blocks {
			for ni, nd := range blk.Nodes {
				for _, call := range callsIn(nd) {
					if !isExprWrite(call) {
						continue
					}
					// next literals
					next := map[string]bool{}
					nextLits := map[string]bool{}
					seen := map[int32]bool{}
					var walk func(b int32, from int)
					walk = func(b int32, from int) {
						bb := g.Blocks[b]
						for i := from; i < len(bb.Nodes); i++ {
							stop := false
							for _, c2 := range callsIn(bb.Nodes[i]) {
								if c2 == call {
									continue
								}
								if lit, ok := literalOf(c2); ok {
									if lit != "" {
										next[lit[:1]] = true
										if lit[:1] == "." || lit[:1] == "[" {
											nextLits[lit] = true
										}
									}
									stop = true
									break
								}
								if f := calleeOf(info, c2); f != nil {
									if s := f.Type().(*types.Signature); s.Recv() != nil && namedName(s.Recv().Type()) == recvName {
										stop = true // another writer method: unknown emission
										break
									}
								}
							}
							if stop {
								return
							}
							if _, isRet := bb.Nodes[i].(*ast.ReturnStmt); isRet {
								return
							}
						}
						for _, s := range bb.Succs {
							if !seen[s.Index] {
								seen[s.Index] = true
								walk(s.Index, 0)
							}
						}
					}
					// the node itself may be `if err := w.writeExpression(X); err != nil`: continue after it
					walk(blk.Index, ni+1)
					if !next["."] && !next["["] {
						continue
					}
					arg := types.ExprString(call.Args[0])
					// only operands of the IR's own postfix kinds: the base of an access / access-index, the vector of a swizzle
					// (image, sampler, ray-query and descriptor operands are never numeric values, so never loose)
					if se, ok := ast.Unparen(call.Args[0]).(*ast.SelectorExpr); !ok || !postfixOperand[irTypeName(info.TypeOf(se.X))+"."+se.Sel.Name] {
						continue
					}
					s := postfixSite{fn: fn, call: call, arg: arg}
					var nl []string
					for k := range nextLits {
						nl = append(nl, k)
					}
					sort.Strings(nl)
					s.next = strings.Join(nl, "|")
					if guardedByPrev(call, arg) {
						s.guarded = "predicate"
					}
					for _, sp := range ptrSpans[arg] {
						if int(call.Pos()) >= sp.lo && int(call.Pos()) < sp.hi {
							s.guarded = "pointer"
						}
					}
					out = append(out, s)
				}
			}
		}
	}
	return out
}

func (c *Ctx) runParenPostfix(r *Report, rule string, pkgs func(string) bool, exceptions map[string]string) {
	n := 0
	preds := c.parenPredicates(pkgs)
	var rels []string
	for rel := range preds {
		rels = append(rels, rel)
	}
	sort.Strings(rels)
	for _, rel := range rels {
		ord := map[string]int{}
		for _, s := range c.postfixSites(rel, preds[rel]) {
			n++
			key := s.fn.id() + ":" + noSpace(s.arg) + "->" + noSpace(s.next)
			ord[key]++
			cons := key + "#" + itoa(ord[key])
			pos := c.pos(s.call.Pos())
			switch {
			case s.guarded != "":
				r.ok(rule, cons, pos, s.guarded)
			case exceptions[cons] != "":
				r.exc(rule, cons, pos, exceptions[cons])
			default:
				r.viol(rule, cons, pos, s.fn.id()+" writes the child expression "+s.arg+" and then a postfix operator (next text: "+s.next+") without asking a paren predicate about the child: a child rendered as bare infix text (a + b, c ? x : y) gets the postfix applied to its last operand only")
			}
		}
	}
	r.inst("parens.postfix", n)
}

func init() {
	dumpers["postfix"] = func(c *Ctx, parts []string) {
		r := newReport("dump")
		c.runParenPostfix(r, "parens.postfix", func(string) bool { return true }, nil)
		for _, o := range r.Obs {
			println(o.Verdict, o.Construct, o.Pos, o.Msg)
		}
	}
}

// parens.looseformat (C05): the GLSL writer builds expression text as strings and
// composes them by substitution, so every piece must be self-delimiting. A
// format literal returned (through fmt.Sprintf) by a function that writes an
// expression kind - result (string, error) - must not contain a binary operator
// at parenthesis depth 0: `%s | (%s << 8)` substituted into `X * 2u` multiplies
// only the last term.
func (c *Ctx) runLooseFormat(r *Report, rule string, pkg string, exceptions map[string]string) {
	n := 0
	ops := []string{" | ", " & ", " ^ ", " + ", " - ", " * ", " / ", " % ", " << ", " >> ", " ? ", " < ", " > ", " <= ", " >= ", " == ", " != ", " && ", " || "}
	looseOp := func(s string) string {
		depth := 0
		for i := 0; i < len(s); i++ {
			switch s[i] {
			case '(', '[':
				depth++
			case ')', ']':
				depth--
			}
			if depth == 0 {
				for _, op := range ops {
					if strings.HasPrefix(s[i:], op) {
						return strings.TrimSpace(op)
					}
				}
			}
		}
		return ""
	}
	for _, fn := range c.allFuncs() {
		if fn.Pkg.Rel != pkg || fn.Obj == nil {
			continue
		}
		sig := fn.Obj.Type().(*types.Signature)
		if sig.Results().Len() != 2 || sig.Results().At(1).Type().String() != "error" {
			continue
		}
		if b, ok := sig.Results().At(0).Type().Underlying().(*types.Basic); !ok || b.Kind() != types.String {
			continue
		}
		// expression writers only: a parameter whose type is an ir expression kind / handle
		isExprWriter := false
		for i := 0; i < sig.Params().Len(); i++ {
			tn := irTypeName(sig.Params().At(i).Type())
			if strings.HasPrefix(tn, "Expr") || tn == "ExpressionHandle" {
				isExprWriter = true
			}
		}
		if !isExprWriter {
			continue
		}
		info := fn.Pkg.Info
		ord := 0
		caseOrd := map[string]int{}
		ast.Inspect(fn.Decl.Body, func(m ast.Node) bool {
			rs, ok := m.(*ast.ReturnStmt)
			if !ok || len(rs.Results) != 2 {
				return true
			}
			call, ok := ast.Unparen(rs.Results[0]).(*ast.CallExpr)
			if !ok || len(call.Args) == 0 {
				return true
			}
			f := calleeOf(info, call)
			if f == nil || f.Name() != "Sprintf" {
				return true
			}
			lit, ok := ast.Unparen(call.Args[0]).(*ast.BasicLit)
			if !ok {
				return true
			}
			s, err := strconv.Unquote(lit.Value)
			if err != nil {
				return true
			}
			n++
			ord++
			cons := fn.id() + ":return#" + itoa(ord)
			// keyed by the innermost enclosing case label when there is one
			var best *ast.CaseClause
			ast.Inspect(fn.Decl.Body, func(k ast.Node) bool {
				if cc, ok := k.(*ast.CaseClause); ok && cc.Pos() <= rs.Pos() && rs.End() <= cc.End() && len(cc.List) > 0 {
					best = cc
				}
				return true
			})
			if best != nil {
				lab := types.ExprString(best.List[0])
				if i := strings.LastIndex(lab, "."); i >= 0 {
					lab = lab[i+1:]
				}
				caseOrd[lab]++
				cons = fn.id() + ":case:" + strings.ReplaceAll(lab, " ", "") + "#" + itoa(caseOrd[lab])
			}
			if op := looseOp(s); op != "" {
				if why := exceptions[cons]; why != "" {
					r.exc(rule, cons, c.pos(rs.Pos()), why)
				} else {
					r.viol(rule, cons, c.pos(rs.Pos()), fn.id()+" returns the expression text "+lit.Value+" with the operator "+op+" outside any parentheses: substituted as an operand of a tighter-binding operator it is re-associated")
				}
			} else {
				r.ok(rule, cons, c.pos(rs.Pos()), "")
			}
			return true
		})
	}
	r.inst("parens.looseformat", n)
}

func init() {
	dumpers["looseformat"] = func(c *Ctx, parts []string) {
		r := newReport("dump")
		c.runLooseFormat(r, "parens.looseformat", "glsl/internal/codegen", nil)
		nOK := 0
		for _, o := range r.Obs {
			if o.Verdict == "ok" {
				nOK++
				continue
			}
			println(o.Verdict, o.Construct, o.Pos, o.Msg)
		}
		println("ok:", nOK)
	}
}
