package main

import "go/types"

var scopeBracket = bracketSpec{Name: "pushScope/popScope", OnlyOK: true, Pkg: inPkgs("wgsl/internal/lower"),
	Open: methodNamed("wgsl/internal/lower", "Lowerer", "pushScope"), Close: methodNamed("wgsl/internal/lower", "Lowerer", "popScope")}

var bitcodeBracket = bracketSpec{Name: "EnterBlock/ExitBlock", Pkg: inPkgs("dxil"),
	Open: methodNamed("dxil/internal/bitcode", "Writer", "EnterBlock"), Close: methodNamed("dxil/internal/bitcode", "Writer", "ExitBlock")}

func isLowerBlockBody(f *types.Func) bool {
	if f.Pkg() == nil || relPkg(f.Pkg().Path()) != "wgsl/internal/lower" {
		return false
	}
	sig := f.Type().(*types.Signature)
	if sig.Recv() == nil || sig.Params().Len() == 0 {
		return false
	}
	// the function that lowers a compound statement: first parameter *parser.BlockStmt
	return namedName(sig.Params().At(0).Type()) == "BlockStmt"
}

var lowerScopeSpec = scopeSpec{
	Push: scopeBracket.Open, Pop: scopeBracket.Close, Body: isLowerBlockBody, Pkg: inPkgs("wgsl/internal/lower"),
	Exception: map[string]string{
		"wgsl/internal/lower.Lowerer.lowerFunction": "the function body shares the function scope with the parameters (WGSL: a body-level declaration may not redeclare a parameter); that scope is the per-function state reset by lowerFunction's prologue",
	},
}

func init() {
	dumpers["pairing"] = func(c *Ctx, parts []string) {
		r := newReport("dump")
		c.runBalance(r, "pairing.scope", scopeBracket)
		c.runBalance(r, "pairing.bitcode", bitcodeBracket)
		c.runScopePerBlock(r, "scope.perblock", lowerScopeSpec)
		for _, o := range r.Obs {
			println(o.Verdict, o.Rule, o.Construct, o.Pos, o.Msg)
		}
	}
}
