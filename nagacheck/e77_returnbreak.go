package main

import (
	"go/ast"
	"go/types"
)

// return.breakdepth (C13): a rewriter that turns `return` into `break` (so that
// the rewritten body can sit inside one wrapping loop) and applies itself to
// the bodies of the loops and switches it meets produces, for a return inside
// such a construct, a break of THAT construct. The package must therefore
// contain a guard: a predicate over blocks that looks for StmtReturn while
// remembering that it is inside a StmtLoop / StmtSwitch (it passes a boolean /
// depth argument that differs when it recurses into those bodies), used where
// the rewriting is decided.
func (c *Ctx) runReturnBreakDepth(r *Report, rule string, inPkg func(string) bool) {
	n := 0
	for _, fn := range c.allFuncs() {
		if !inPkg(fn.Pkg.Rel) || fn.Obj == nil || fn.Decl.Body == nil {
			continue
		}
		info := fn.Pkg.Info
		// a type switch with an arm for StmtReturn that builds StmtBreak, and an arm for StmtLoop that recurses
		found := false
		var at ast.Node
		ast.Inspect(fn.Decl.Body, func(m ast.Node) bool {
			ts, ok := m.(*ast.TypeSwitchStmt)
			if !ok || !typeSwitchOnKind(ts) {
				return true
			}
			retBreak, loopRecurse := false, false
			for _, cl := range ts.Body.List {
				cc := cl.(*ast.CaseClause)
				arm := ""
				for _, e := range cc.List {
					if t, ok := info.Types[e]; ok {
						arm = irTypeName(derefType(t.Type))
					}
				}
				switch arm {
				case "StmtReturn":
					ast.Inspect(cc, func(k ast.Node) bool {
						if cl, ok := k.(*ast.CompositeLit); ok {
							if tv, ok := info.Types[cl]; ok && irTypeName(tv.Type) == "StmtBreak" {
								retBreak = true
							}
						}
						return true
					})
				case "StmtLoop", "StmtSwitch":
					ast.Inspect(cc, func(k ast.Node) bool {
						if call, ok := k.(*ast.CallExpr); ok {
							for _, a := range call.Args {
								if se, ok := ast.Unparen(a).(*ast.SelectorExpr); ok && (se.Sel.Name == "Body" || se.Sel.Name == "Continuing") {
									loopRecurse = true
								}
							}
						}
						return true
					})
				}
			}
			if retBreak && loopRecurse {
				found = true
				at = ts
			}
			return true
		})
		if !found {
			continue
		}
		n++
		// the guard: a function of the package with a Block parameter and a bool / int parameter,
		// that mentions StmtReturn and recurses into loop / switch bodies with a constant for that parameter
		guard := false
		for _, g := range c.allFuncs() {
			if g.Pkg.Rel != fn.Pkg.Rel || g.Obj == nil || g.Decl.Body == nil {
				continue
			}
			sig := g.Obj.Type().(*types.Signature)
			hasBlock, hasFlag := false, false
			for i := 0; i < sig.Params().Len(); i++ {
				t := sig.Params().At(i).Type()
				if irTypeName(t) == "Block" {
					hasBlock = true
				}
				if b, ok := t.Underlying().(*types.Basic); ok && (b.Kind() == types.Bool || b.Info()&types.IsInteger != 0) {
					hasFlag = true
				}
			}
			if !hasBlock || !hasFlag {
				continue
			}
			ginfo := g.Pkg.Info
			mentionsReturn, recursesWithConst := false, false
			ast.Inspect(g.Decl.Body, func(k ast.Node) bool {
				if se, ok := k.(*ast.Ident); ok {
					if tn, ok := ginfo.Uses[se].(*types.TypeName); ok && tn.Name() == "StmtReturn" {
						mentionsReturn = true
					}
				}
				if call, ok := k.(*ast.CallExpr); ok && calleeOf(ginfo, call) == g.Obj {
					for _, a := range call.Args {
						if tv, ok := ginfo.Types[a]; ok && tv.Value != nil {
							recursesWithConst = true
						}
					}
				}
				return true
			})
			if mentionsReturn && recursesWithConst {
				// and it is consulted somewhere in the package outside itself
				for _, h := range c.allFuncs() {
					if h.Pkg.Rel != fn.Pkg.Rel || h == g || h.Decl.Body == nil {
						continue
					}
					ast.Inspect(h.Decl.Body, func(k ast.Node) bool {
						if call, ok := k.(*ast.CallExpr); ok && calleeOf(h.Pkg.Info, call) == g.Obj {
							guard = true
						}
						return true
					})
				}
			}
		}
		cons := fn.id() + ":return->break"
		if guard {
			r.ok(rule, cons, c.pos(at.Pos()), "")
		} else {
			r.viol(rule, cons, c.pos(at.Pos()), fn.id()+" rewrites return to break and applies itself to the bodies of loops and switches; nothing in the package tells a return inside such a construct apart: there the break leaves only the inner construct and the code after it still runs")
		}
	}
	r.inst(rule, n)
}

func init() {
	dumpers["returnbreak"] = func(c *Ctx, parts []string) {
		r := newReport("dump")
		c.runReturnBreakDepth(r, "return.breakdepth", inPkgs("ir", "dxil"))
		for _, o := range r.Obs {
			println(o.Verdict, o.Construct, o.Pos)
		}
	}
}
