package main

import (
	"go/ast"
	"go/token"
	"go/types"
	"strconv"
)

// dispatch.silentliteral (C03-C05, C09): a backend function that renders an IR
// expression kind as text by a type switch must not answer the kinds it has no
// arm for with a fixed literal ("0", "{}"): the program's value is silently
// replaced by that literal (`var<private> x: i32 = 1 + 2` was written
// `int x = 0;` in GLSL because the constant-expression writer had no arm for
// ExprBinary). The default arm must report an error, or the switch must cover
// every kind the front end can place there.
func (c *Ctx) runSilentLiteralArm(r *Report, rule string, inPkg func(string) bool, exceptions map[string]string) {
	n := 0
	for _, fn := range c.allFuncs() {
		if !inPkg(fn.Pkg.Rel) || fn.Obj == nil || fn.Decl.Body == nil {
			continue
		}
		info := fn.Pkg.Info
		ord := 0
		ast.Inspect(fn.Decl.Body, func(m ast.Node) bool {
			ts, ok := m.(*ast.TypeSwitchStmt)
			if !ok || !(typeSwitchOnKind(ts) || typeSwitchOnField(ts, "Value")) {
				return true
			}
			// arms over expression kinds (or, for a switch on a literal's Value, over literal kinds)
			exprArms := 0
			var def *ast.CaseClause
			for _, cl := range ts.Body.List {
				cc := cl.(*ast.CaseClause)
				if cc.List == nil {
					def = cc
				}
				for _, e := range cc.List {
					if t, ok := info.Types[e]; ok {
						nm := irTypeName(derefType(t.Type))
						if len(nm) > 4 && nm[:4] == "Expr" || nm == "Literal" || (len(nm) > 7 && nm[:7] == "Literal") {
							exprArms++
						}
					}
				}
			}
			if exprArms < 2 || def == nil {
				return true
			}
			// default arm returns a string literal (possibly with nil error)
			var lit *ast.BasicLit
			for _, st := range def.Body {
				rs, ok := st.(*ast.ReturnStmt)
				if !ok || len(rs.Results) == 0 {
					continue
				}
				if bl, ok := ast.Unparen(rs.Results[0]).(*ast.BasicLit); ok && bl.Kind == token.STRING {
					// an accompanying non-nil error makes it a report, not a silent default
					if len(rs.Results) == 2 {
						if id, ok := ast.Unparen(rs.Results[1]).(*ast.Ident); !ok || id.Name != "nil" {
							continue
						}
					}
					lit = bl
				}
			}
			if lit == nil {
				// streaming writers: the default arm only writes a fixed literal and reports nothing
				reports := false
				var wlit *ast.BasicLit
				for _, st := range def.Body {
					switch x := st.(type) {
					case *ast.ReturnStmt:
						for _, res := range x.Results {
							if id, ok := ast.Unparen(res).(*ast.Ident); !ok || id.Name != "nil" {
								reports = true
							}
						}
					case *ast.ExprStmt:
						if call, ok := x.X.(*ast.CallExpr); ok && len(call.Args) >= 1 {
							all := true
							var first *ast.BasicLit
							for _, a := range call.Args {
								bl, ok := ast.Unparen(a).(*ast.BasicLit)
								if !ok || bl.Kind != token.STRING {
									// the writer itself (&w.Out) may be the first argument
									if _, isUnary := ast.Unparen(a).(*ast.UnaryExpr); isUnary {
										continue
									}
									all = false
								} else if first == nil {
									first = bl
								}
							}
							if all && first != nil {
								wlit = first
							}
						}
					default:
						reports = true
					}
				}
				if wlit != nil && !reports {
					lit = wlit
				}
			}
			if lit == nil {
				return true
			}
			s, _ := strconv.Unquote(lit.Value)
			if len(s) > 1 && s[:2] == "/*" {
				return true // a comment placeholder is visible in the output, not a value
			}
			if s == "" {
				return true // "no answer" for the caller to handle, not a value
			}
			ord++
			n++
			cons := fn.id() + ":default#" + itoa(ord)
			if why := exceptions[cons]; why != "" {
				r.exc(rule, cons, c.pos(def.Pos()), why)
			} else {
				r.viol(rule, cons, c.pos(def.Pos()), fn.id()+" answers every expression kind it has no arm for with the literal "+lit.Value+": a value the program computes is silently replaced")
			}
			return true
		})
	}
	r.inst(rule, n)
}

var _ = types.Typ

func init() {
	dumpers["silentarm"] = func(c *Ctx, parts []string) {
		r := newReport("dump")
		c.runSilentLiteralArm(r, "dispatch.silentliteral", inPkgs("glsl", "hlsl", "msl", "spirv", "dxil"), nil)
		for _, o := range r.Obs {
			println(o.Verdict, o.Construct, o.Pos, o.Msg)
		}
	}
}

func typeSwitchOnField(ts *ast.TypeSwitchStmt, field string) bool {
	var x ast.Expr
	switch a := ts.Assign.(type) {
	case *ast.AssignStmt:
		if len(a.Rhs) == 1 {
			if ta, ok := a.Rhs[0].(*ast.TypeAssertExpr); ok {
				x = ta.X
			}
		}
	case *ast.ExprStmt:
		if ta, ok := a.X.(*ast.TypeAssertExpr); ok {
			x = ta.X
		}
	}
	sel, ok := x.(*ast.SelectorExpr)
	return ok && sel.Sel.Name == field
}
