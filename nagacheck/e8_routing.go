package main

// E8 routing: a guarded operand is routed consistently.
//
// The dynamic index of ir.ExprAccess is the operand every bounds-check policy
// is about. In a backend function that hands `access.Index` to a
// *policy-aware* callee (one that, within two static calls, consults a
// BoundsCheck* policy value or the RestrictIndexing option) at some site,
// every site of that function that emits the operand must do so through a
// policy-aware callee: a raw hand-off to the generic expression writer next to
// guarded ones is an unguarded access path (contradiction rule).

import (
	"go/ast"
	"go/types"
	"strings"
)

// isExprDispatcher: f is the generic expression emitter (a type switch over
// >= 2/3 of ir.ExpressionKind) or a thin wrapper that calls it directly.
func (c *Ctx) isExprDispatcher(f *types.Func, depth int) bool {
	key := "exprDispatcher:" + f.FullName()
	if v, ok := c.cache[key]; ok {
		return v.(bool)
	}
	c.cache[key] = false
	res := false
	for _, d := range c.dispatchSwitches() {
		if d.Func.Obj == f && d.TagType == "ExpressionKind" && len(d.Covered)*3 >= len(d.Universe)*2 {
			res = true
		}
	}
	if !res && depth < 1 {
		if fi := c.funcByObj(f); fi != nil {
			ast.Inspect(fi.Decl.Body, func(n ast.Node) bool {
				if call, ok := n.(*ast.CallExpr); ok {
					if callee := calleeOf(fi.Pkg.Info, call); callee != nil && callee.Pkg() == f.Pkg() && callee.Origin() != f {
						if c.isExprDispatcher(callee.Origin(), depth+1) {
							res = true
						}
					}
				}
				return !res
			})
		}
	}
	c.cache[key] = res
	return res
}

// policyAware: the function itself (or a non-dispatcher helper it calls
// directly) consults a bounds-check policy value or the RestrictIndexing option.
func (c *Ctx) policyAware(f *types.Func, depth int, seen map[*types.Func]bool) bool {
	if f == nil || seen[f] || depth > 1 {
		return false
	}
	seen[f] = true
	if c.isExprDispatcher(f, 0) {
		return false
	}
	fi := c.funcByObj(f)
	if fi == nil {
		return false
	}
	info := fi.Pkg.Info
	aware := false
	ast.Inspect(fi.Decl.Body, func(n ast.Node) bool {
		if aware {
			return false
		}
		switch x := n.(type) {
		case *ast.Ident:
			obj := info.Uses[x]
			if obj == nil {
				return true
			}
			if tn := namedName(obj.Type()); strings.Contains(tn, "BoundsCheck") {
				aware = true
			}
			if strings.Contains(obj.Name(), "RestrictIndexing") || strings.Contains(obj.Name(), "BoundsCheck") {
				aware = true
			}
		case *ast.SelectorExpr:
			if strings.Contains(x.Sel.Name, "RestrictIndexing") || strings.Contains(x.Sel.Name, "BoundsCheck") || strings.Contains(x.Sel.Name, "boundsCheck") {
				aware = true
			}
		case *ast.CallExpr:
			if callee := calleeOf(info, x); callee != nil && callee.Pkg() == f.Pkg() {
				if c.policyAware(callee.Origin(), depth+1, seen) {
					aware = true
				}
			}
		}
		return !aware
	})
	return aware
}

func (c *Ctx) runIndexRouting(r *Report, rule string, pkg func(string) bool) {
	n := 0
	for _, fn := range c.allFuncs() {
		if pkg != nil && !pkg(fn.Pkg.Rel) {
			continue
		}
		info := fn.Pkg.Info
		type site struct {
			call   *ast.CallExpr
			callee *types.Func
			aware  bool
		}
		var sites []site
		ast.Inspect(fn.Decl.Body, func(nd ast.Node) bool {
			call, ok := nd.(*ast.CallExpr)
			if !ok {
				return true
			}
			for _, a := range call.Args {
				sel, ok := ast.Unparen(a).(*ast.SelectorExpr)
				if !ok || sel.Sel.Name != "Index" {
					continue
				}
				if tv, ok := info.Types[sel.X]; !ok || !isNamed(types.Unalias(tv.Type), "ir", "ExprAccess") {
					if tv, ok := info.Types[sel.X]; !ok || namedName(tv.Type) != "ExprAccess" {
						continue
					}
				}
				callee := calleeOf(info, call)
				if callee == nil {
					continue
				}
				// predicates (bool-only results) do not emit the operand
				if sig, ok := callee.Type().(*types.Signature); ok && sig.Results().Len() == 1 {
					if b, ok := types.Unalias(sig.Results().At(0).Type()).Underlying().(*types.Basic); ok && b.Info()&types.IsBoolean != 0 {
						continue
					}
				}
				sites = append(sites, site{call, callee.Origin(), c.policyAware(callee.Origin(), 0, map[*types.Func]bool{})})
			}
			return true
		})
		if len(sites) == 0 {
			continue
		}
		anyAware := false
		for _, s := range sites {
			if s.aware {
				anyAware = true
			}
		}
		if !anyAware {
			continue // this function never routes the index through a policy-aware writer: not a guarded emitter
		}
		ord := map[string]int{}
		for _, s := range sites {
			n++
			k := fn.id() + ":ExprAccess.Index->" + s.callee.Name()
			ord[k]++
			construct := k
			if ord[k] > 1 {
				construct += "#" + itoa(ord[k])
			}
			if s.aware {
				r.ok(rule, construct, c.pos(s.call.Pos()), "")
			} else {
				r.viol(rule, construct, c.pos(s.call.Pos()), fn.id()+" hands the dynamic index of an ExprAccess to "+s.callee.Name()+", which consults no bounds-check policy, while its other access paths route the same operand through a policy-aware writer: this path emits an unguarded index")
			}
		}
	}
	r.inst("routing.index-sites", n)
}

func init() {
	dumpers["routing"] = func(c *Ctx, parts []string) {
		r := newReport("dump")
		c.runIndexRouting(r, "routing.index", nil)
		for _, o := range r.Obs {
			println(o.Verdict, o.Construct, o.Pos)
		}
	}
}
