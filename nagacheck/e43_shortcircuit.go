package main

// shortcircuit.const (C06): `a && b` may be decided from a constant left operand
// only when a is false, `a || b` only when a is true. A condition over the
// operator (op == BinaryLogicalAnd / BinaryLogicalOr) and one boolean value that
// guards an early return (the right operand is not lowered) is evaluated over
// the four assignments (op in {&&, ||}) x (value in {true, false}): it may hold
// only for (&&, false) and (||, true). The complement - true && X folded to
// true, false || X to false - passes every test in which X agrees with the
// constant.

import (
	"go/ast"
	"go/token"
	"go/types"
)

func (c *Ctx) runShortCircuitConst(r *Report, rule string, pkgs func(string) bool) {
	n := 0
	for _, fn := range c.allFuncs() {
		if !pkgs(fn.Pkg.Rel) || fn.Decl.Type.Params == nil {
			continue
		}
		info := fn.Pkg.Info
		var opObj types.Object
		for _, f := range fn.Decl.Type.Params.List {
			for _, nm := range f.Names {
				if o := info.Defs[nm]; o != nil && namedName(o.Type()) == "BinaryOperator" {
					opObj = o
				}
			}
		}
		if opObj == nil {
			continue
		}
		opAtom := func(e ast.Expr) (isAnd bool, neg bool, ok bool) {
			be, isB := ast.Unparen(e).(*ast.BinaryExpr)
			if !isB || (be.Op != token.EQL && be.Op != token.NEQ) {
				return false, false, false
			}
			id, isI := ast.Unparen(be.X).(*ast.Ident)
			if !isI || info.Uses[id] != opObj {
				return false, false, false
			}
			switch irConstName(info, be.Y) {
			case "BinaryLogicalAnd":
				return true, be.Op == token.NEQ, true
			case "BinaryLogicalOr":
				return false, be.Op == token.NEQ, true
			}
			return false, false, false
		}
		ord := 0
		ast.Inspect(fn.Decl.Body, func(m ast.Node) bool {
			ifs, ok := m.(*ast.IfStmt)
			if !ok {
				return true
			}
			hasOp := false
			ast.Inspect(ifs.Cond, func(k ast.Node) bool {
				if e, ok := k.(ast.Expr); ok {
					if _, _, isOp := opAtom(e); isOp {
						hasOp = true
					}
				}
				return !hasOp
			})
			if !hasOp {
				return true
			}
			// early return in the body
			returns := false
			for _, st := range ifs.Body.List {
				if _, ok := st.(*ast.ReturnStmt); ok {
					returns = true
				}
			}
			if !returns {
				return true
			}
			// the single boolean value atom
			valText := ""
			multi := false
			var findVal func(e ast.Expr)
			findVal = func(e ast.Expr) {
				e = ast.Unparen(e)
				if _, _, isOp := opAtom(e); isOp {
					return
				}
				switch x := e.(type) {
				case *ast.UnaryExpr:
					if x.Op == token.NOT {
						findVal(x.X)
						return
					}
				case *ast.BinaryExpr:
					if x.Op == token.LAND || x.Op == token.LOR || ((x.Op == token.EQL || x.Op == token.NEQ) && isBoolType(info.TypeOf(x.X))) {
						findVal(x.X)
						findVal(x.Y)
						return
					}
				case *ast.CallExpr:
					if tv, ok := info.Types[x.Fun]; ok && tv.IsType() && len(x.Args) == 1 {
						findVal(x.Args[0])
						return
					}
				}
				t := types.ExprString(e)
				if valText == "" {
					valText = t
				} else if valText != t {
					multi = true
				}
			}
			findVal(ifs.Cond)
			if valText == "" || multi {
				return true
			}
			n++
			ord++
			cons := fn.id() + ":shortcircuit#" + itoa(ord)
			bad := ""
			for _, isAnd := range []bool{true, false} {
				for _, val := range []bool{false, true} {
					var atom func(e ast.Expr) (bool, bool)
					atom = func(e ast.Expr) (bool, bool) {
						e = ast.Unparen(e)
						if a, neg, ok := opAtom(e); ok {
							return (a == isAnd) != neg, true
						}
						if call, ok := e.(*ast.CallExpr); ok {
							if tv, ok := info.Types[call.Fun]; ok && tv.IsType() && len(call.Args) == 1 {
								return atom(call.Args[0])
							}
						}
						if types.ExprString(e) == valText {
							return val, true
						}
						return false, false
					}
					v, ok := evalBoolExpr(ifs.Cond, atom)
					if !ok {
						bad = "?"
						continue
					}
					want := (isAnd && !val) || (!isAnd && val)
					if v && !want {
						o := "||"
						if isAnd {
							o = "&&"
						}
						bad = boolStr(val) + " " + o + " X is decided without evaluating X"
					}
				}
			}
			switch bad {
			case "":
				r.ok(rule, cons, c.pos(ifs.Pos()), "")
			case "?":
				r.triv(rule, cons, c.pos(ifs.Pos()), "condition has atoms besides the operator tests and one boolean value")
			default:
				r.viol(rule, cons, c.pos(ifs.Pos()), fn.id()+": under "+types.ExprString(ifs.Cond)+" the function returns early, and "+bad+" (only false && X and true || X are decided by the left operand)")
			}
			return true
		})
	}
	r.inst("shortcircuit.const", n)
}

func isBoolType(t types.Type) bool {
	if t == nil {
		return false
	}
	b, ok := t.Underlying().(*types.Basic)
	return ok && b.Info()&types.IsBoolean != 0
}

func init() {
	dumpers["shortcircuit"] = func(c *Ctx, parts []string) {
		r := newReport("dump")
		c.runShortCircuitConst(r, "shortcircuit.const", func(string) bool { return true })
		for _, o := range r.Obs {
			println(o.Verdict, o.Construct, o.Pos, o.Msg)
		}
	}
}
