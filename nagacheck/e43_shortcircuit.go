package main

// shortcircuit.const (C06): `a && b` may be decided from a constant left operand
// only when a is false, `a || b` only when a is true. A condition over the
// operator (op == BinaryLogicalAnd / BinaryLogicalOr) and one boolean value that
// guards an early return (the right operand is not lowered) is evaluated over
// the four assignments (op in {&&, ||}) x (value in {true, false}): it may hold
// only for (&&, false) and (||, true). The complement - true && X folded to
// true, false || X to false - passes every test in which X agrees with the
// constant.

import (
	"go/ast"
	"go/token"
	"go/types"
	"strconv"
	"strings"
)

func (c *Ctx) runShortCircuitConst(r *Report, rule string, pkgs func(string) bool) {
	n := 0
	for _, fn := range c.allFuncs() {
		if !pkgs(fn.Pkg.Rel) || fn.Decl.Type.Params == nil {
			continue
		}
		info := fn.Pkg.Info
		var opObj types.Object
		for _, f := range fn.Decl.Type.Params.List {
			for _, nm := range f.Names {
				if o := info.Defs[nm]; o != nil && namedName(o.Type()) == "BinaryOperator" {
					opObj = o
				}
			}
		}
		if opObj == nil {
			continue
		}
		opAtom := func(e ast.Expr) (isAnd bool, neg bool, ok bool) {
			be, isB := ast.Unparen(e).(*ast.BinaryExpr)
			if !isB || (be.Op != token.EQL && be.Op != token.NEQ) {
				return false, false, false
			}
			id, isI := ast.Unparen(be.X).(*ast.Ident)
			if !isI || info.Uses[id] != opObj {
				return false, false, false
			}
			switch irConstName(info, be.Y) {
			case "BinaryLogicalAnd":
				return true, be.Op == token.NEQ, true
			case "BinaryLogicalOr":
				return false, be.Op == token.NEQ, true
			}
			return false, false, false
		}
		ord := 0
		ast.Inspect(fn.Decl.Body, func(m ast.Node) bool {
			ifs, ok := m.(*ast.IfStmt)
			if !ok {
				return true
			}
			hasOp := false
			ast.Inspect(ifs.Cond, func(k ast.Node) bool {
				if e, ok := k.(ast.Expr); ok {
					if _, _, isOp := opAtom(e); isOp {
						hasOp = true
					}
				}
				return !hasOp
			})
			if !hasOp {
				return true
			}
			// early return in the body
			returns := false
			for _, st := range ifs.Body.List {
				if _, ok := st.(*ast.ReturnStmt); ok {
					returns = true
				}
			}
			if !returns {
				return true
			}
			// the single boolean value atom
			valText := ""
			multi := false
			var findVal func(e ast.Expr)
			findVal = func(e ast.Expr) {
				e = ast.Unparen(e)
				if _, _, isOp := opAtom(e); isOp {
					return
				}
				switch x := e.(type) {
				case *ast.UnaryExpr:
					if x.Op == token.NOT {
						findVal(x.X)
						return
					}
				case *ast.BinaryExpr:
					if x.Op == token.LAND || x.Op == token.LOR || ((x.Op == token.EQL || x.Op == token.NEQ) && isBoolType(info.TypeOf(x.X))) {
						findVal(x.X)
						findVal(x.Y)
						return
					}
				case *ast.CallExpr:
					if tv, ok := info.Types[x.Fun]; ok && tv.IsType() && len(x.Args) == 1 {
						findVal(x.Args[0])
						return
					}
				}
				t := types.ExprString(e)
				if valText == "" {
					valText = t
				} else if valText != t {
					multi = true
				}
			}
			findVal(ifs.Cond)
			if valText == "" || multi {
				return true
			}
			n++
			ord++
			cons := fn.id() + ":shortcircuit#" + itoa(ord)
			bad := ""
			for _, isAnd := range []bool{true, false} {
				for _, val := range []bool{false, true} {
					var atom func(e ast.Expr) (bool, bool)
					atom = func(e ast.Expr) (bool, bool) {
						e = ast.Unparen(e)
						if a, neg, ok := opAtom(e); ok {
							return (a == isAnd) != neg, true
						}
						if call, ok := e.(*ast.CallExpr); ok {
							if tv, ok := info.Types[call.Fun]; ok && tv.IsType() && len(call.Args) == 1 {
								return atom(call.Args[0])
							}
						}
						if types.ExprString(e) == valText {
							return val, true
						}
						return false, false
					}
					v, ok := evalBoolExpr(ifs.Cond, atom)
					if !ok {
						bad = "?"
						continue
					}
					want := (isAnd && !val) || (!isAnd && val)
					if v && !want {
						o := "||"
						if isAnd {
							o = "&&"
						}
						bad = boolStr(val) + " " + o + " X is decided without evaluating X"
					}
				}
			}
			switch bad {
			case "":
				r.ok(rule, cons, c.pos(ifs.Pos()), "")
			case "?":
				r.triv(rule, cons, c.pos(ifs.Pos()), "condition has atoms besides the operator tests and one boolean value")
			default:
				r.viol(rule, cons, c.pos(ifs.Pos()), fn.id()+": under "+types.ExprString(ifs.Cond)+" the function returns early, and "+bad+" (only false && X and true || X are decided by the left operand)")
			}
			return true
		})
	}
	r.inst("shortcircuit.const", n)
}

func isBoolType(t types.Type) bool {
	if t == nil {
		return false
	}
	b, ok := t.Underlying().(*types.Basic)
	return ok && b.Info()&types.IsBoolean != 0
}

func init() {
	dumpers["shortcircuit"] = func(c *Ctx, parts []string) {
		r := newReport("dump")
		c.runShortCircuitConst(r, "shortcircuit.const", func(string) bool { return true })
		for _, o := range r.Obs {
			println(o.Verdict, o.Construct, o.Pos, o.Msg)
		}
	}
}

// fold.step (C06): WGSL step(edge, x) is 1.0 when edge <= x, so at x == edge the
// answer is 1.0. In a case clause for ir.MathStep of a constant folder, the
// function literal that compares its two float parameters is evaluated at
// equality: the comparison's truth value there selects the then- or the
// fall-through return, and the selected literal must be 1.0.
func (c *Ctx) runFoldStep(r *Report, rule string, pkgs func(string) bool) {
	n := 0
	for _, fn := range c.allFuncs() {
		if !pkgs(fn.Pkg.Rel) {
			continue
		}
		info := fn.Pkg.Info
		ast.Inspect(fn.Decl.Body, func(m ast.Node) bool {
			cc, ok := m.(*ast.CaseClause)
			if !ok {
				return true
			}
			isStep := false
			for _, l := range cc.List {
				if irConstName(info, l) == "MathStep" && len(cc.List) == 1 {
					isStep = true
				}
			}
			if !isStep {
				return true
			}
			ast.Inspect(cc, func(k ast.Node) bool {
				lit, ok := k.(*ast.FuncLit)
				if !ok || lit.Type.Params == nil {
					return true
				}
				var params []types.Object
				for _, f := range lit.Type.Params.List {
					for _, nm := range f.Names {
						params = append(params, info.Defs[nm])
					}
				}
				if len(params) != 2 {
					return true
				}
				// if <cmp(p0,p1)> { return A }; return B
				for i, st := range lit.Body.List {
					ifs, ok := st.(*ast.IfStmt)
					if !ok || ifs.Else != nil || len(ifs.Body.List) != 1 || i+1 >= len(lit.Body.List) {
						continue
					}
					be, ok := ast.Unparen(ifs.Cond).(*ast.BinaryExpr)
					if !ok {
						continue
					}
					xi, ok1 := ast.Unparen(be.X).(*ast.Ident)
					yi, ok2 := ast.Unparen(be.Y).(*ast.Ident)
					if !ok1 || !ok2 {
						continue
					}
					xo, yo := info.Uses[xi], info.Uses[yi]
					if !((xo == params[0] && yo == params[1]) || (xo == params[1] && yo == params[0])) {
						continue
					}
					var atEq bool
					switch be.Op {
					case token.LEQ, token.GEQ, token.EQL:
						atEq = true
					case token.LSS, token.GTR, token.NEQ:
						atEq = false
					default:
						continue
					}
					retVal := func(s ast.Stmt) (float64, bool) {
						rs, ok := s.(*ast.ReturnStmt)
						if !ok || len(rs.Results) != 1 {
							return 0, false
						}
						tv, ok := info.Types[rs.Results[0]]
						if !ok || tv.Value == nil {
							return 0, false
						}
						f, _ := strconvParseFloat(tv.Value.ExactString())
						return f, true
					}
					thenV, okT := retVal(ifs.Body.List[0])
					elseV, okE := retVal(lit.Body.List[i+1])
					if !okT || !okE {
						continue
					}
					n++
					cons := fn.id() + ":MathStep"
					got := elseV
					if atEq {
						got = thenV
					}
					if got == 1 {
						r.ok(rule, cons, c.pos(ifs.Pos()), "")
					} else {
						r.viol(rule, cons, c.pos(ifs.Pos()), fn.id()+" folds step(edge, x) so that x == edge yields "+types.ExprString(ifs.Cond)+" -> "+strconvFormat(got)+"; WGSL defines step(edge, x) = 1.0 for edge <= x, i.e. 1.0 at equality")
					}
				}
				return true
			})
			return true
		})
	}
	r.inst("fold.step", n)
}

func strconvParseFloat(s string) (float64, error) {
	// exact strings of constants may be fractions "1/2"
	if i := strings.Index(s, "/"); i > 0 {
		a, err1 := strconv.ParseFloat(s[:i], 64)
		b, err2 := strconv.ParseFloat(s[i+1:], 64)
		if err1 != nil || err2 != nil || b == 0 {
			return 0, err1
		}
		return a / b, nil
	}
	return strconv.ParseFloat(s, 64)
}

func strconvFormat(f float64) string { return strconv.FormatFloat(f, 'g', -1, 64) }

// fold.flatindex (C06): a flattening function (self-recursive over .Components,
// returning the scalar handles of a nested constructor) gives the elements of a
// VECTOR. A folder of ExprAccessIndex that indexes the flattened list with the
// access index must first establish that the base IS a vector (a type assertion
// to ir.VectorType): element 1 of array<vec2<i32>, 2>(vec2(1, 2), vec2(3, 4)) is
// vec2(3, 4), not the scalar 2, and column 1 of a matrix is a vector.
func (c *Ctx) runFoldFlatIndex(r *Report, rule string, pkg string) {
	n := 0
	flatteners := map[*types.Func]bool{}
	for _, fn := range c.allFuncs() {
		if fn.Pkg.Rel != pkg || fn.Obj == nil {
			continue
		}
		sig := fn.Obj.Type().(*types.Signature)
		if sig.Results().Len() < 1 {
			continue
		}
		sl, ok := sig.Results().At(0).Type().(*types.Slice)
		if !ok || irTypeName(sl.Elem()) != "ExpressionHandle" {
			continue
		}
		selfRec, overComponents := false, false
		ast.Inspect(fn.Decl.Body, func(m ast.Node) bool {
			switch x := m.(type) {
			case *ast.CallExpr:
				if f := calleeOf(fn.Pkg.Info, x); f != nil && f.Origin() == fn.Obj {
					selfRec = true
				}
			case *ast.RangeStmt:
				if se, ok := ast.Unparen(x.X).(*ast.SelectorExpr); ok && se.Sel.Name == "Components" {
					overComponents = true
				}
			}
			return true
		})
		if selfRec && overComponents {
			flatteners[fn.Obj] = true
		}
	}
	r.inst("fold.flatteners", len(flatteners))
	for _, fn := range c.allFuncs() {
		if fn.Pkg.Rel != pkg || fn.Obj == nil || flatteners[fn.Obj] {
			continue
		}
		info := fn.Pkg.Info
		sig := fn.Obj.Type().(*types.Signature)
		takesAccessIndex := false
		for i := 0; i < sig.Params().Len(); i++ {
			if irTypeName(sig.Params().At(i).Type()) == "ExprAccessIndex" {
				takesAccessIndex = true
			}
		}
		if !takesAccessIndex {
			continue
		}
		flatVars := map[types.Object]bool{}
		ast.Inspect(fn.Decl.Body, func(m ast.Node) bool {
			if as, ok := m.(*ast.AssignStmt); ok && len(as.Rhs) == 1 {
				if call, ok := ast.Unparen(as.Rhs[0]).(*ast.CallExpr); ok {
					if f := calleeOf(info, call); f != nil && flatteners[f.Origin()] {
						if id, ok := as.Lhs[0].(*ast.Ident); ok {
							flatVars[info.ObjectOf(id)] = true
						}
					}
				}
			}
			return true
		})
		indexed := false
		ast.Inspect(fn.Decl.Body, func(m ast.Node) bool {
			if ix, ok := m.(*ast.IndexExpr); ok {
				if id, ok := ast.Unparen(ix.X).(*ast.Ident); ok && flatVars[info.Uses[id]] {
					indexed = true
				}
			}
			return true
		})
		if !indexed {
			continue
		}
		n++
		vecTest := false
		ast.Inspect(fn.Decl.Body, func(m ast.Node) bool {
			if ta, ok := m.(*ast.TypeAssertExpr); ok && ta.Type != nil && irTypeName(info.TypeOf(ta.Type)) == "VectorType" {
				vecTest = true
			}
			return !vecTest
		})
		cons := fn.id() + ":flat[index]"
		if vecTest {
			r.ok(rule, cons, c.pos(fn.Decl.Pos()), "")
		} else {
			r.viol(rule, cons, c.pos(fn.Decl.Pos()), fn.id()+" folds a constant index by flattening the base constructor down to scalars and taking the index-th one, without establishing that the base is a vector: for an array of vectors, a matrix or a struct the element is the index-th COMPONENT, so the fold yields a scalar of the wrong value and type")
		}
	}
	r.inst("fold.flatindex", n)
}
