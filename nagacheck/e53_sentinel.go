package main

import (
	"go/ast"
	"go/token"
	"go/types"
)

// handle.zerosentinel (C09): handles index arenas from 0, so 0 is a valid handle.
// A function whose only result is an ir handle and which has both a computed
// return and a literal `return 0` uses 0 as "not found"; a caller that passes
// the result on as a type / expression without comparing it to 0 first treats
// arena slot 0 as the answer (findScalarType -> coerceScalarToType made
// var<private> v: vec3<u32> = vec3(3u) a float splat when type 0 was vec4<f32>).
func (c *Ctx) sentinelFuncs(inPkg func(string) bool) map[*types.Func]*funcInfo {
	out := map[*types.Func]*funcInfo{}
	for _, fn := range c.allFuncs() {
		if !inPkg(fn.Pkg.Rel) || fn.Obj == nil || fn.Decl.Body == nil {
			continue
		}
		sig := fn.Obj.Type().(*types.Signature)
		if sig.Results().Len() != 1 {
			continue
		}
		tn := irTypeName(sig.Results().At(0).Type())
		// the type arena is filled on demand and compacted, so "not found" is a
		// feasible answer there; searches of the other arenas look for something
		// the caller has just seen in them
		if tn != "TypeHandle" {
			continue
		}
		zero, computed := false, false
		ast.Inspect(fn.Decl.Body, func(n ast.Node) bool {
			if _, ok := n.(*ast.FuncLit); ok {
				return false
			}
			rs, ok := n.(*ast.ReturnStmt)
			if !ok || len(rs.Results) != 1 {
				return true
			}
			if tv, ok := fn.Pkg.Info.Types[rs.Results[0]]; ok && tv.Value != nil {
				if tv.Value.ExactString() == "0" {
					zero = true
				}
			} else {
				computed = true
			}
			return true
		})
		if zero && computed {
			out[fn.Obj] = fn
		}
	}
	return out
}

func (c *Ctx) runZeroSentinel(r *Report, rule string, inPkg func(string) bool, exceptions map[string]string) {
	sent := c.sentinelFuncs(inPkg)
	r.inst("handle.sentinelFuncs", len(sent))
	n := 0
	for _, fn := range c.allFuncs() {
		if !inPkg(fn.Pkg.Rel) || fn.Decl.Body == nil {
			continue
		}
		info := fn.Pkg.Info
		// variables assigned from a sentinel call, and whether they are compared with 0 anywhere in the function
		type site struct {
			call   *ast.CallExpr
			callee *types.Func
			v      types.Object
		}
		var sites []site
		ast.Inspect(fn.Decl.Body, func(m ast.Node) bool {
			call, ok := m.(*ast.CallExpr)
			if !ok {
				return true
			}
			f := calleeOf(info, call)
			if f == nil || sent[f] == nil {
				return true
			}
			sites = append(sites, site{call: call, callee: f})
			return true
		})
		if len(sites) == 0 {
			continue
		}
		// bind: v := call / v = call
		ast.Inspect(fn.Decl.Body, func(m ast.Node) bool {
			as, ok := m.(*ast.AssignStmt)
			if !ok || len(as.Lhs) != len(as.Rhs) {
				return true
			}
			for i, rhs := range as.Rhs {
				for k := range sites {
					if ast.Unparen(rhs) == ast.Expr(sites[k].call) {
						if id, ok := as.Lhs[i].(*ast.Ident); ok {
							if o := info.ObjectOf(id); o != nil {
								sites[k].v = o
							}
						}
					}
				}
			}
			return true
		})
		comparedZero := map[types.Object]bool{}
		directCompared := map[*ast.CallExpr]bool{}
		ast.Inspect(fn.Decl.Body, func(m ast.Node) bool {
			be, ok := m.(*ast.BinaryExpr)
			if !ok || (be.Op != token.EQL && be.Op != token.NEQ) {
				return true
			}
			for _, pair := range [][2]ast.Expr{{be.X, be.Y}, {be.Y, be.X}} {
				tv, ok := info.Types[pair[1]]
				if !ok || tv.Value == nil || tv.Value.ExactString() != "0" {
					continue
				}
				if id, ok := ast.Unparen(pair[0]).(*ast.Ident); ok {
					if o := info.ObjectOf(id); o != nil {
						comparedZero[o] = true
					}
				}
				if call, ok := ast.Unparen(pair[0]).(*ast.CallExpr); ok {
					directCompared[call] = true
				}
			}
			return true
		})
		ord := map[string]int{}
		for _, s := range sites {
			// a sentinel function forwarding another's result keeps the convention
			if sent[fn.Obj] != nil {
				continue
			}
			n++
			ord[s.callee.Name()]++
			cons := fn.id() + ":" + s.callee.Name() + "#" + itoa(ord[s.callee.Name()])
			switch {
			case directCompared[s.call] || (s.v != nil && comparedZero[s.v]):
				r.ok(rule, cons, c.pos(s.call.Pos()), "")
			case exceptions[cons] != "":
				r.exc(rule, cons, c.pos(s.call.Pos()), exceptions[cons])
			default:
				r.viol(rule, cons, c.pos(s.call.Pos()), fn.id()+" uses the result of "+s.callee.Name()+" without comparing it to 0; "+s.callee.Name()+" returns 0 for \"not found\" and 0 is a valid handle, so arena slot 0 is taken as the answer")
			}
		}
	}
	r.inst(rule, n)
}

func init() {
	dumpers["sentinel"] = func(c *Ctx, parts []string) {
		r := newReport("dump")
		c.runZeroSentinel(r, "handle.zerosentinel", func(string) bool { return true }, nil)
		for _, o := range r.Obs {
			println(o.Verdict, o.Construct, o.Pos)
		}
		for f := range c.sentinelFuncs(func(string) bool { return true }) {
			println("sentinel:", f.FullName())
		}
	}
}
