package main

// E19 names (C16).

import (
	"go/ast"
	"go/constant"
	"go/token"
	"go/types"
	"regexp"
	"sort"
	"strings"
)

// isNamerCall: call of a string-returning method whose receiver type is a backend's namer.
func isNamerMethod(f *types.Func) bool {
	if f == nil {
		return false
	}
	sig := f.Type().(*types.Signature)
	if sig.Recv() == nil || sig.Results().Len() != 1 {
		return false
	}
	if b, ok := sig.Results().At(0).Type().Underlying().(*types.Basic); !ok || b.Kind() != types.String {
		return false
	}
	return strings.EqualFold(namedName(sig.Recv().Type()), "namer")
}

type nameProv struct {
	Kinds []string // sorted distinct provenance kinds
}

// provenance of a string expression inside fn: a set of kinds.
func (c *Ctx) stringProvenance(fn *funcInfo, e ast.Expr, depth int, seen map[types.Object]bool) map[string]bool {
	info := fn.Pkg.Info
	out := map[string]bool{}
	e = ast.Unparen(e)
	if tv, ok := info.Types[e]; ok && tv.Value != nil && tv.Value.Kind() == constant.String {
		out["const:"+constant.StringVal(tv.Value)] = true
		return out
	}
	switch x := e.(type) {
	case *ast.CallExpr:
		f := calleeOf(info, x)
		switch {
		case isNamerMethod(f):
			out["namer"] = true
		case f != nil && f.Pkg() != nil && f.Pkg().Path() == "fmt" && f.Name() == "Sprintf" && len(x.Args) > 0:
			if tv, ok := info.Types[x.Args[0]]; ok && tv.Value != nil {
				out["sprintf:"+constant.StringVal(tv.Value)] = true
				// arguments that are themselves names keep their provenance
				for _, a := range x.Args[1:] {
					if atv, ok := info.Types[a]; ok {
						if b, ok := atv.Type.Underlying().(*types.Basic); ok && b.Kind() == types.String {
							for k := range c.stringProvenance(fn, a, depth, seen) {
								out["arg:"+k] = true
							}
						}
					}
				}
			} else {
				out["sprintf:?"] = true
			}
		case f != nil:
			out["call:"+f.Name()] = true
		default:
			out["call:?"] = true
		}
	case *ast.BinaryExpr:
		if x.Op == token.ADD {
			for k := range c.stringProvenance(fn, x.X, depth, seen) {
				out["cat:"+k] = true
			}
			for k := range c.stringProvenance(fn, x.Y, depth, seen) {
				out["cat:"+k] = true
			}
		}
	case *ast.IndexExpr:
		// lookup in another table
		if se, ok := ast.Unparen(x.X).(*ast.SelectorExpr); ok {
			out["lookup:"+se.Sel.Name] = true
		} else {
			out["index"] = true
		}
	case *ast.SelectorExpr:
		if sel := info.Selections[x]; sel != nil && sel.Kind() == types.FieldVal {
			out["field:"+namedName(sel.Recv())+"."+x.Sel.Name] = true
		} else {
			out["sel"] = true
		}
	case *ast.Ident:
		o := info.Uses[x]
		if o == nil {
			o = info.Defs[x]
		}
		v, ok := o.(*types.Var)
		if !ok {
			out["ident"] = true
			break
		}
		if seen[o] || depth > 6 {
			break
		}
		seen[o] = true
		if v.Pkg() != nil && v.Parent() == v.Pkg().Scope() {
			out["global:"+v.Name()] = true
			break
		}
		// parameter?
		isParam := false
		if fn.Decl.Type.Params != nil {
			for _, fl := range fn.Decl.Type.Params.List {
				for _, nm := range fl.Names {
					if info.Defs[nm] == o {
						isParam = true
					}
				}
			}
		}
		if isParam {
			out["param:"+v.Name()] = true
		}
		// all definitions
		nd := 0
		ast.Inspect(fn.Decl.Body, func(n ast.Node) bool {
			switch y := n.(type) {
			case *ast.AssignStmt:
				for i, l := range y.Lhs {
					id, ok := ast.Unparen(l).(*ast.Ident)
					if !ok {
						continue
					}
					lo := info.Defs[id]
					if lo == nil {
						lo = info.Uses[id]
					}
					if lo != o {
						continue
					}
					nd++
					if y.Tok == token.ADD_ASSIGN {
						for k := range c.stringProvenance(fn, y.Rhs[0], depth+1, seen) {
							out["cat:"+k] = true
						}
						continue
					}
					if len(y.Lhs) == len(y.Rhs) {
						for k := range c.stringProvenance(fn, y.Rhs[i], depth+1, seen) {
							out[k] = true
						}
					} else if len(y.Rhs) == 1 {
						for k := range c.stringProvenance(fn, y.Rhs[0], depth+1, seen) {
							out["multi:"+k] = true
						}
					}
				}
			case *ast.ValueSpec:
				for i, nm := range y.Names {
					if info.Defs[nm] == o {
						nd++
						if i < len(y.Values) {
							for k := range c.stringProvenance(fn, y.Values[i], depth+1, seen) {
								out[k] = true
							}
						} else {
							out["zero"] = true
						}
					}
				}
			case *ast.RangeStmt:
				for _, kv := range []ast.Expr{y.Key, y.Value} {
					if id, ok := kv.(*ast.Ident); ok && info.Defs[id] == o {
						nd++
						out["range:"+types.ExprString(y.X)] = true
					}
				}
			}
			return true
		})
		if nd == 0 && !isParam {
			out["nodef"] = true
		}
	default:
		out["expr"] = true
	}
	return out
}

type nameStore struct {
	Fn    *funcInfo
	Field string
	Pos   token.Pos
	Prov  []string
}

func (c *Ctx) nameStores(pkgs func(string) bool) []nameStore {
	var outS []nameStore
	for _, fn := range c.allFuncs() {
		if !pkgs(fn.Pkg.Rel) {
			continue
		}
		info := fn.Pkg.Info
		ast.Inspect(fn.Decl.Body, func(n ast.Node) bool {
			as, ok := n.(*ast.AssignStmt)
			if !ok {
				return true
			}
			for i, l := range as.Lhs {
				ix, ok := ast.Unparen(l).(*ast.IndexExpr)
				if !ok || i >= len(as.Rhs) {
					continue
				}
				se, ok := ast.Unparen(ix.X).(*ast.SelectorExpr)
				if !ok {
					continue
				}
				sel := info.Selections[se]
				if sel == nil || sel.Kind() != types.FieldVal || namedName(sel.Recv()) != "Writer" {
					continue
				}
				mt, ok := sel.Type().Underlying().(*types.Map)
				if !ok {
					continue
				}
				if b, ok := mt.Elem().Underlying().(*types.Basic); !ok || b.Kind() != types.String {
					continue
				}
				pv := c.stringProvenance(fn, as.Rhs[i], 0, map[types.Object]bool{})
				var ks []string
				for k := range pv {
					ks = append(ks, k)
				}
				sort.Strings(ks)
				outS = append(outS, nameStore{Fn: fn, Field: se.Sel.Name, Pos: as.Pos(), Prov: ks})
			}
			return true
		})
	}
	return outS
}

func init() {
	dumpers["namestores"] = func(c *Ctx, parts []string) {
		for _, s := range c.nameStores(inPkgs("hlsl", "msl", "glsl")) {
			println(s.Fn.id(), c.pos(s.Pos), s.Field, "<-", strings.Join(s.Prov, " | "))
		}
	}
}

// names.fresh (C16): every spelling stored into one of the writers' entity-name
// tables (Writer fields of type map[...]string that hold the emitted spelling of
// a type, member, function, argument, local, global, entry point, baked
// expression, flattened entry-point parameter ...) comes from the namer (which
// makes it unique and non-reserved), from another such table, or from one of
// the fixed generated spellings frozen below per table. A spelling taken from
// the IR (a member or variable name) or from a table of ANOTHER scope without
// passing through the namer can collide with any other entity of the target
// scope.
var nameTableAccepted = map[string][]string{
	"*":                     {"namer", "zero", "const:", "lookup:names", "lookup:typeNames", "lookup:namedExpressions", "lookup:localNames", "multi:lookup:namedExpressions"},
	"names":                 {"const:main", "sprintf:_group_%d_binding_%d_%s", "arg:const:cs", "arg:const:fs", "arg:const:vs", "sprintf:_immediates_binding_%s"},
	"entryPointNames":       {"const:main"},
	"typeNames":             {},
	"namedExpressions":      {"call:allocateUnnamedVar", "param:name"},
	"localNames":            {"call:getName"},
	"flattenedMemberNames":  {},
	"oobLocals":             {},
	"samplerIndexBuffers":   {},
	"arrayWrappers":         {"call:getTypeName"},
	"varyingNameMap":        {"call:varyingName"},
	"globalInstanceName":    {"sprintf:_group_%d_binding_%d_%s", "arg:const:cs", "arg:const:fs", "arg:const:vs"},
}

// digitTerminatedFormat: a generated spelling "<prefix>%d" whose literal prefix is an identifier
// not ending in '_' can never equal a spelling of the namer: those that end in a digit have the
// form base_N with a sanitised base (no trailing underscore, rule names.sanitize), so they carry
// an underscore directly before the final digits.
var digitFmtRe = regexp.MustCompile(`^sprintf:[A-Za-z_][A-Za-z0-9_]*[A-Za-z0-9]%d$`)

func digitTerminatedFormat(kind string) bool {
	if !digitFmtRe.MatchString(kind) {
		return false
	}
	pre := strings.TrimSuffix(strings.TrimPrefix(kind, "sprintf:"), "%d")
	return !strings.HasSuffix(pre, "_") && !(len(pre) > 0 && pre[len(pre)-1] >= '0' && pre[len(pre)-1] <= '9')
}

func (c *Ctx) runNameFresh(r *Report, rule string, pkgs func(string) bool) {
	n := 0
	ord := map[string]int{}
	for _, s := range c.nameStores(pkgs) {
		extra, known := nameTableAccepted[s.Field]
		if !known {
			continue
		}
		n++
		var bad []string
		for _, k := range s.Prov {
			if hasStr(nameTableAccepted["*"], k) || hasStr(extra, k) || digitTerminatedFormat(k) {
				continue
			}
			bad = append(bad, k)
		}
		cons := s.Fn.id() + ":" + s.Field
		ord[cons]++
		if ord[cons] > 1 {
			cons += "#" + itoa(ord[cons])
		}
		if len(bad) == 0 {
			r.ok(rule, cons, c.pos(s.Pos), "")
		} else {
			r.viol(rule, cons, c.pos(s.Pos), s.Fn.id()+" stores into the name table "+s.Field+" a spelling that does not come from the namer or an accepted generated name ("+strings.Join(bad, ", ")+"): it is not made unique against the other entities of the scope it is emitted in")
		}
	}
	r.inst("names.stores", n)
}
