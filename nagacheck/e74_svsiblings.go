package main

import (
	"go/ast"
	"go/token"
	"go/types"
	"sort"
	"strconv"
	"strings"
)

// semantic.siblings (C18): the DXIL backend names the system-value semantic of a
// built-in in several tables (the signature parts ISG1 / OSG1, the PSV0
// element table, the bitcode metadata). The parts describe the same elements,
// so the tables must agree: a built-in has the same SV_ name in every table
// that has an arm for it, and a built-in that two of the tables name must have
// an arm in a third one too - its default arm would otherwise describe the
// element under a made-up name or as an arbitrary (user) semantic
// (sample_mask output: SV_Coverage in PSV0, "SV_Unknown6" in OSG1).
func (c *Ctx) runSemanticSiblings(r *Report, rule string, inPkg func(string) bool, exceptions map[string]string) {
	type table struct {
		fn    *funcInfo
		names map[string]string // builtin const -> SV_ name
		pos   map[string]token.Pos
		sw    *ast.SwitchStmt
	}
	var tables []*table
	for _, fn := range c.allFuncs() {
		if !inPkg(fn.Pkg.Rel) || fn.Obj == nil || fn.Decl.Body == nil {
			continue
		}
		info := fn.Pkg.Info
		ast.Inspect(fn.Decl.Body, func(m ast.Node) bool {
			sw, ok := m.(*ast.SwitchStmt)
			if !ok || sw.Tag == nil {
				return true
			}
			if tv, ok := info.Types[sw.Tag]; !ok || irTypeName(tv.Type) != "BuiltinValue" {
				return true
			}
			t := &table{fn: fn, names: map[string]string{}, pos: map[string]token.Pos{}, sw: sw}
			for _, cl := range sw.Body.List {
				cc := cl.(*ast.CaseClause)
				name := ""
				ast.Inspect(cc, func(k ast.Node) bool {
					if bl, ok := k.(*ast.BasicLit); ok && bl.Kind == token.STRING && name == "" {
						if s, err := strconv.Unquote(bl.Value); err == nil && strings.HasPrefix(s, "SV_") && !strings.Contains(s, "%") {
							name = s
						}
					}
					if id, ok := k.(*ast.Ident); ok && name == "" {
						if cst, ok := info.Uses[id].(*types.Const); ok && cst.Val() != nil && cst.Val().Kind().String() == "String" {
							if s, err := strconv.Unquote(cst.Val().ExactString()); err == nil && strings.HasPrefix(s, "SV_") {
								name = s
							}
						}
					}
					return true
				})
				if name == "" {
					continue
				}
				for _, e := range cc.List {
					if b := irConstNameAny(info, e); b != "" {
						t.names[b] = name
						t.pos[b] = cc.Pos()
					}
				}
			}
			if len(t.names) >= 3 {
				tables = append(tables, t)
			}
			return true
		})
	}
	r.inst("semantic.tables", len(tables))
	n := 0
	// agreement on common built-ins
	count := map[string]int{}
	for _, t := range tables {
		for b := range t.names {
			count[b]++
		}
	}
	for i, a := range tables {
		for _, b := range tables[i+1:] {
			var common []string
			for k := range a.names {
				if _, ok := b.names[k]; ok {
					common = append(common, k)
				}
			}
			sort.Strings(common)
			for _, k := range common {
				n++
				cons := a.fn.id() + "~" + b.fn.id() + ":" + k
				if a.names[k] == b.names[k] {
					r.ok(rule, cons, c.pos(a.pos[k]), "")
				} else {
					r.viol(rule, cons, c.pos(a.pos[k]), a.fn.id()+" names "+k+" "+a.names[k]+" and "+b.fn.id()+" names it "+b.names[k])
				}
			}
		}
	}
	// a built-in named by two tables has an arm in the others
	for _, t := range tables {
		var missing []string
		for b, k := range count {
			if k >= 2 {
				if _, ok := t.names[b]; !ok && !caseMentions(t.fn.Pkg.Info, t.sw, b) {
					missing = append(missing, b)
				}
			}
		}
		sort.Strings(missing)
		for _, b := range missing {
			n++
			cons := t.fn.id() + ":missing:" + b
			if why := exceptions[cons]; why != "" {
				r.exc(rule, cons, c.pos(t.sw.Pos()), why)
			} else {
				r.viol(rule, cons, c.pos(t.sw.Pos()), t.fn.id()+" has no arm for "+b+", which the sibling tables name as a system value: its default arm describes the same element under another semantic, so the container parts disagree")
			}
		}
	}
	r.inst(rule, n)
}

func caseMentions(info *types.Info, sw *ast.SwitchStmt, builtin string) bool {
	for _, cl := range sw.Body.List {
		for _, e := range cl.(*ast.CaseClause).List {
			if irConstNameAny(info, e) == builtin {
				return true
			}
		}
	}
	return false
}

func init() {
	dumpers["svsiblings"] = func(c *Ctx, parts []string) {
		r := newReport("dump")
		c.runSemanticSiblings(r, "semantic.siblings", inPkgs("dxil"), nil)
		nOK := 0
		for _, o := range r.Obs {
			if o.Verdict == "ok" {
				nOK++
				continue
			}
			println(o.Verdict, o.Construct, o.Pos)
		}
		println("ok", nOK)
	}
}
