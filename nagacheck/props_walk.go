package main

import (
	"go/types"
	"strings"
)

// handle specs walked by E3
var (
	hExpr     = irNamedSpec("ExpressionHandle")
	hType     = irNamedSpec("TypeHandle")
	hConst    = irNamedSpec("ConstantHandle")
	hGlobal   = irNamedSpec("GlobalVariableHandle")
	hFunc     = irNamedSpec("FunctionHandle")
	hOverride = irNamedSpec("OverrideHandle")
)

var exprSums = []string{"ExpressionKind", "StatementKind", "SampleLevel", "AtomicFunction", "RayQueryFunction", "GatherMode", "ImageQuery"}

// walkExceptions: one construct + one line of reason each (confirmed by reading).
var walkExceptions = []walkException{
	// --- compaction tracer that deliberately ignores Emit ranges
	{"ir.markStmtExprRefsForCompact/StatementKind", "StmtEmit", "by design: an Emit range does not keep its expressions alive during compaction (documented in the function comment); ranges are re-derived by remapStmtExprHandlesCompact"},
	// --- image atomics never carry a compare operand
	{"ir.markStmtExprRefs/StatementKind", "StmtImageAtomic.Fun", "image atomics: the lowerer never builds AtomicExchange{Compare} for StmtImageAtomic (checked by rule imageatomic.nocompare)"},
	{"ir.markStmtExprRefsForCompact/StatementKind", "StmtImageAtomic.Fun", "image atomics carry no Compare handle (rule imageatomic.nocompare)"},
	{"ir.remapStmtExprHandlesCompact/StatementKind", "StmtImageAtomic.Fun", "image atomics carry no Compare handle (rule imageatomic.nocompare)"},
	{"ir.remapStmtExprHandles/StatementKind", "StmtImageAtomic.Fun", "image atomics carry no Compare handle (rule imageatomic.nocompare)"},
	// --- mem2reg use classification only looks for direct ExprLocalVariable pointer operands
	{"dxil/internal/passes/mem2reg.collectExpressionHandles/ExpressionKind", "ExprImageSample.Level", "level/bias/gradient operands are values, never pointers to locals; the collector only classifies direct uses of ExprLocalVariable pointers (triaged: omission harmless, findings/D4/notes.md)"},
	{"dxil/internal/passes/mem2reg.collectExpressionHandles/ExpressionKind", "ExprImageQuery.Query", "the image-query level operand is a value, never a pointer to a local (findings/D4/notes.md)"},
	{"dxil/internal/passes/mem2reg.collectExpressionHandles/ExpressionKind", "ExprPhi", "phi incomings are values created by mem2reg itself, never local-variable pointers (findings/D4/notes.md)"},
	{"dxil/internal/passes/mem2reg.collectExpressionHandles/ExpressionKind", "ExprRayQueryGetIntersection", "the operand points at a ray_query local, whose type is never promotable (findings/D4/notes.md)"},
	{"msl/internal/codegen.Writer.countStmtExprRefs/StatementKind", "*", "reference-count / bake heuristic only: Load, ImageSample, ImageLoad and Derivative are always baked and every other expression is pure, so an under-counted reference merely leaves a pure expression inlined"},
	// --- "does this block end in a return / contain a loop-level break" predicates: a loop body is not a fall-through path
	{"wgsl/internal/lower.ensureBlockReturns/StatementKind", "StmtLoop", "return-path analysis: a value returned inside a loop does not make the enclosing block return on all paths; loops are deliberately not descended"},
	{"hlsl/internal/codegen.hlslBlockEndsWithReturn/StatementKind", "StmtLoop", "ends-with-return predicate: loops are deliberately not descended"},
	{"msl/internal/codegen.blockEndsWithReturn/StatementKind", "StmtLoop", "ends-with-return predicate: loops are deliberately not descended"},
	{"dxil.blockHasBreakContinue/StatementKind", "StmtLoop", "break/continue inside a nested loop bind to that loop, so nested loops are deliberately not descended"},
	{"msl/internal/codegen.adjustBlockHandles/StatementKind", "StmtImageAtomic.Fun", "image atomics carry no Compare handle (rule imageatomic.nocompare)"},
	{"dxil/internal/passes/dce.markStmtRoots/StatementKind", "StmtImageAtomic.Fun", "image atomics carry no Compare handle (rule imageatomic.nocompare)"},
	{"dxil/internal/passes/dce.remarkSurvivors/StatementKind", "StmtImageAtomic.Fun", "delegates every non-control-flow statement to markStmtRoots: same reason (rule imageatomic.nocompare)"},
	{"dxil/internal/passes/dce.remarkSurvivors/StatementKind", "StmtEmit", "delegates every non-control-flow statement to markStmtRoots: an Emit range is what the pass decides about, not a root"},
	{"dxil/internal/passes/dce.markStmtRoots/StatementKind", "StmtEmit", "dead-code elimination: an Emit range is what the pass decides about, not a root; emitted expressions are kept only through the statements and expressions that use them"},
}

func inPkgs(prefixes ...string) func(string) bool {
	return func(rel string) bool {
		for _, p := range prefixes {
			if rel == p || strings.HasPrefix(rel, p+"/") {
				return true
			}
		}
		return false
	}
}

func reachFilter(reach map[*types.Func]bool) func(v *visitor) bool {
	return func(v *visitor) bool { return v.Func.Obj != nil && reach[v.Func.Obj] }
}

// runWalkAll applies the handlewalk judgement for every handle family.
func (c *Ctx) runWalkAll(r *Report, rulePrefix, family string, pkg func(string) bool, fn func(v *visitor) bool, remappers, walkers bool, extra []walkException) {
	exc := append(append([]walkException{}, walkExceptions...), extra...)
	specs := []struct {
		h    handleSpec
		sums []string
	}{
		{hExpr, exprSums},
		{hType, []string{"ExpressionKind", "TypeInner"}},
		{hConst, []string{"ExpressionKind"}},
		{hGlobal, []string{"ExpressionKind"}},
		{hFunc, []string{"StatementKind"}},
		{hOverride, []string{"ExpressionKind", "OverrideInitExpr"}},
		{blockSpec, []string{"StatementKind"}},
	}
	remapFuncs := map[*types.Func]bool{}
	for _, s := range specs {
		cfg := handlewalkConfig{
			Rule: rulePrefix + "." + s.h.Name, Handle: s.h, Sums: s.sums, PkgFilter: pkg, FuncFilter: fn,
			Remappers: remappers, Walkers: walkers, Exceptions: exc, Family: family + "." + s.h.Name,
		}
		if s.h.Name == "Block" {
			// block recursion: a statement walker that descends into 3 of the 4
			// block-bearing kinds must descend into all of them; there is no
			// "renumbering" of blocks, so no remapper role. When only remappers
			// are judged, only functions that renumber some handle family are.
			cfg.Remappers = false
			cfg.Walkers = true
			cfg.MinCarrying = 4
			if !walkers {
				cfg.FuncFilter = func(v *visitor) bool {
					return (fn == nil || fn(v)) && v.Func.Obj != nil && remapFuncs[v.Func.Obj]
				}
			}
		}
		for f, role := range c.runHandlewalk(r, cfg) {
			if role == "remapper" {
				remapFuncs[f] = true
			}
		}
	}
}

// runBlockWalkers judges only block recursion of the statement walkers of a package.
func (c *Ctx) runBlockWalkers(r *Report, rulePrefix, family string, pkg func(string) bool, fn func(v *visitor) bool) {
	cfg := handlewalkConfig{Rule: rulePrefix + ".Block", Handle: blockSpec, Sums: []string{"StatementKind"}, PkgFilter: pkg, FuncFilter: fn,
		Remappers: false, Walkers: true, Exceptions: walkExceptions, Family: family + ".Block", MinCarrying: 4}
	c.runHandlewalk(r, cfg)
}

func init() {
	register("C13", propC13)
	register("C09", propC09)
	register("C14", propC14)
}

const colVecClause = "column vectors (E13): every vector type whose size is read from a matrix type is sized by Rows (a column of a CxR matrix has R components); only the vector*matrix result in the binary-operator type resolver is sized by Columns"

func propC09(c *Ctx, r *Report) {
	r.Clauses = append(r.Clauses,
		"E3 handlewalk over the compaction/reordering/dedup passes that wgsl.LowerWithWarnings runs on every module (functions of package ir reachable from it): every remapper rewrites and every reachability tracer reads every handle field of every node kind, blocks are recursed into completely, rebuilt nodes keep all fields; producer-side fact that image atomics never carry a compare handle")
	r.NotDecided = append(r.NotDecided,
		"typing correctness, deduplication of structurally equal types, 'exactly one emit range precedes all uses', return-on-all-paths, binding completeness; anything about the values of the remap tables")
	ents := c.entries(r, "wgsl.LowerWithWarnings", "wgsl.LowerWithSource", "wgsl.Lower")
	reach := c.reach(ents...)
	r.Extra["functions_reachable_from_lowering"] = len(reach)
	c.runWalkAll(r, "handlewalk", "lowering", inPkgs("ir", "wgsl/internal/lower", "internal/registry"), reachFilter(reach), true, true, nil)
	c.runRebuild(r, "rebuild.complete", "lowering.rebuilds", func(rel string) bool { return rel == "ir" || rel == "wgsl/internal/lower" }, lowerRebuildExceptions)
	c.ruleImageAtomicNoCompare(r)
	c.runBalance(r, "pairing.scope", scopeBracket)
	c.runScopePerBlock(r, "scope.perblock", lowerScopeSpec)
	r.Clauses = append(r.Clauses, resolutionClause)
	c.runResolutionSiblings(r, "resolution.siblings", inPkgs("wgsl", "ir"), nil)
	r.floor("resolution.siblings", 2)
	r.Clauses = append(r.Clauses, colVecClause)
	c.runColVec(r, "shape.colvec", inPkgs("wgsl", "ir"))
	r.floor("shape.colvec", 10)
	r.Clauses = append(r.Clauses, "shadowing hygiene (E7): the scope-entry function that saves a shadowed binding's per-name attributes (constant, var, pointer-let, abstract initialiser ...) also clears each of them for the new binding, so no attribute of an outer declaration leaks onto an inner declaration of the same name")
	c.runScopeRestore(r, "scope.restore", "wgsl/internal/lower", "Lowerer", "scopeSet", "popScope", map[string]string{"localDecls": "unused-variable warning bookkeeping (declaration spans): read only by the warning pass, never by name resolution"})
	r.floor("scope.shadowclear", 4)
	r.Clauses = append(r.Clauses, "sampling offsets (E49): every lowering function that builds ExprImageSample from a call's arguments sets Offset (except the ClampToEdge builtin, which has none)")
	c.runSampleOffsetKept(r, "sample.offsetkept", "wgsl/internal/lower")
	r.floor("sample.offsetkept", 3)
	r.Clauses = append(r.Clauses, staleHandlesClause)
	c.runStaleHandles(r, "phase.stalehandles", "wgsl/internal/lower", nil)
	r.floor("phase.renumberingTails", 1)
	r.floor("phase.afterRenumbering", 8)
	r.Clauses = append(r.Clauses, silentDefaultClause)
	c.runSilentDefault(r, "eval.silentdefault", "wgsl/internal/lower", nil)
	r.floor("eval.silentdefault", 6)
	r.Clauses = append(r.Clauses, zeroSentinelClause)
	c.runZeroSentinel(r, "handle.zerosentinel", func(string) bool { return true }, zeroSentinelExceptions)
	r.floor("handle.sentinelFuncs", 1)
	r.Clauses = append(r.Clauses, emitFlushClause)
	c.runEmitFlushFirst(r, "emit.flushfirst", "wgsl/internal/lower", emitFlushExceptions)
	r.floor("emit.flushfirst", 10)
	r.Clauses = append(r.Clauses, epCoverClause)
	c.runEPFunctionsCovered(r, "epfunctions.covered", inPkgs("ir"), nil)
	r.floor("epfunctions.covered", 4)
	r.Clauses = append(r.Clauses, accumClause)
	c.runAccumLazyInit(r, "accum.lazyinit", inPkgs("wgsl", "ir"))
	r.floor("accum.lazyinit", 4)
	r.floor("pairing.pushScope/popScope", 5)
	r.floor("scope.bodies", 8)
	r.Clauses = append(r.Clauses, "scope discipline (E7, go/cfg): pushScope/popScope are balanced on every successful path of every lowering function, and every compound-statement body is lowered in a scope opened for it alone (no two sibling bodies share a scope)")
	r.floor("lowering.ExpressionHandle.remappers", 4)
	r.floor("lowering.ExpressionHandle.walkers", 2)
	r.floor("lowering.TypeHandle.remappers", 2)
	r.floor("lowering.Block.walkers", 5)
	r.floor("lowering.rebuilds", 10)
}

var lowerRebuildExceptions = []rebuildException{}

func propC14(c *Ctx, r *Report) {
	r.Clauses = append(r.Clauses,
		"E3 handlewalk over override resolution: every function reachable from ir.ProcessOverrides and every handle remapper of the MSL pipeline-constant path (package msl/internal/codegen) rewrites every handle field of every node kind it renumbers, never cross-wires fields, recurses into all blocks, and rebuilt nodes keep all fields")
	r.NotDecided = append(r.NotDecided,
		"numeric conversion of supplied values, evaluation semantics of initialisers, which overrides are substituted; that resolution leaves the caller's module untouched is decided under C12's ownership clause")
	ents := c.entries(r, "ir.ProcessOverrides", "ir.CloneModuleForOverrides", "msl.Compile", "glsl.Compile")
	reach := c.reach(ents...)
	c.runWalkAll(r, "handlewalk", "overrides", inPkgs("ir", "msl/internal/codegen", "glsl/internal/codegen", "hlsl/internal/codegen"), func(v *visitor) bool {
		return v.Func.Obj != nil && reach[v.Func.Obj]
	}, true, false, nil)
	c.runRebuild(r, "rebuild.complete", "overrides.rebuilds", inPkgs("ir", "msl/internal/codegen"), nil)
	c.runEvaluators(r, "eval.default", "overrides.evaluators", inPkgs("ir", "msl/internal/codegen", "glsl/internal/codegen"), nil)
	r.Clauses = append(r.Clauses, silentDefaultClause)
	c.runSilentDefault(r, "eval.silentdefault", "wgsl/internal/lower", nil)
	r.floor("eval.silentdefault", 6)
	r.Clauses = append(r.Clauses, "no loop abandoned on an item error (E89): inside a loop of package ir, `if err != nil { ...; break }` is followed by a read of that error (in the branch or after the loop) - otherwise the first item that cannot be folded silently leaves every later global initialiser / override unresolved")
	c.runErrBreakLoop(r, "error.breakloop", inPkgs("ir"))
	r.floor("error.breakloop", 5)
	r.floor("overrides.evaluators", 2)
	for _, sp := range cloneSpecs[:2] {
		c.runClone(r, "clone.fresh", sp)
		r.floor("clone."+sp.Name, 3)
	}
	r.Clauses = append(r.Clauses, "clone freshness (E4): override resolution never writes through memory shared with the caller's module", "evaluator default discipline for the override-initialiser evaluators")
	r.Clauses = append(r.Clauses, orderClause+" - here: the override evaluators and remappers of package ir and the MSL pipeline-constant path")
	c.runOperandOrder(r, "order.ir", inPkgs("ir"))
	c.runOperandOrder(r, "order.msl", inPkgs("msl"))
	r.floor("order.ir", orderFloors["ir"])
	r.Clauses = append(r.Clauses, "literal text (E10): no strconv.Parse* / Atoi / fmt.Sscan* call in the frontend receives the raw Value text of a parser.Literal (which keeps the WGSL suffix and may be hexadecimal); numeric text goes through the lowerer's literal parsers, so @workgroup_size(64u), @align(0x10), @id(3u) and suffixed override defaults are not silently replaced by defaults")
	c.runLiteralRawParse(r, "literal.rawparse", inPkgs("wgsl"), literalRawParseExceptions)
	r.floor("literal.parses", 25)
	r.Clauses = append(r.Clauses, "converted override values (E17): every store into the table of resolved override values ([]float64 sized by the module's overrides) takes its value from a call that receives the override's declared type, so overrides and initialisers that depend on an override see its value converted to its type")
	c.runOverrideConverted(r, "override.converted")
	r.floor("override.converted", 1)
	r.Clauses = append(r.Clauses, "typed override defaults (E17): the function that turns an override's numeric default (OverrideInitLiteral, a float64) into an IR literal chooses the literal's kind from the override's type")
	c.runOverrideLiteralKind(r, "override.literalkind")
	r.floor("override.literalkind", 1)
	r.Clauses = append(r.Clauses, sharedCellClause)
	c.runPtrSharedCell(r, "ptr.sharedcell", inPkgs("ir", "msl", "glsl", "hlsl", "spirv"))
	r.floor("ptr.closures", 2)
	r.Clauses = append(r.Clauses, writebackClause)
	c.runCopyWriteback(r, "copy.writeback", inPkgs("ir", "msl", "glsl", "hlsl", "spirv"))
	r.floor("copy.writeback", 30)
	r.Clauses = append(r.Clauses, signExtClause+" - here: conversion of supplied pipeline-constant values and literals into ScalarValues")
	c.runSignExt(r, "conv.signext", inPkgs("msl", "ir", "glsl", "hlsl", "spirv"))
	r.floor("conv.signext", 3)
	r.Clauses = append(r.Clauses, kindLimitClause)
	c.runKindLimits(r, "range.kindlimit", inPkgs("msl", "ir", "glsl", "hlsl", "spirv"))
	r.floor("range.kindlimit", 5)
	r.floor("overrides.ExpressionHandle.remappers", 8)
	r.floor("overrides.rebuilds", 20)
}

func propC13(c *Ctx, r *Report) {
	r.Clauses = append(r.Clauses,
		"E3 handlewalk: every IR-to-IR pass (functions reachable from ir.CompactUnused/Compact{Types,Constants,Expressions}/ReorderTypes/DeduplicateEmits/InlineUserFunctions/ProcessOverrides and from the DXIL sroa/mem2reg/dce Run entry points) that renumbers a handle family rewrites EVERY field of that family in EVERY node kind (expressions, statements, sample levels, atomic/ray-query/gather operands, type inners), never cross-wires two handle fields of one node, recurses into every nested block, and every reachability tracer of those passes reads every such field")
	r.NotDecided = append(r.NotDecided,
		"semantic preservation of any pass (that the rewritten module computes the same results), idempotence, correctness of the remap tables themselves, mem2reg phi placement, anything data-dependent")
	ents := c.entries(r,
		"ir.CompactUnused", "ir.CompactTypes", "ir.CompactConstants", "ir.CompactExpressions", "ir.ReorderTypes", "ir.DeduplicateEmits",
		"ir.InlineUserFunctions", "ir.ProcessOverrides",
		"dxil/internal/passes/sroa.Run", "dxil/internal/passes/mem2reg.Run", "dxil/internal/passes/dce.Run")
	reach := c.reach(ents...)
	r.Extra["functions_reachable_from_pass_entries"] = len(reach)
	c.runWalkAll(r, "handlewalk", "passes", inPkgs("ir", "dxil/internal/passes"), reachFilter(reach), true, true, nil)
	c.runRebuild(r, "rebuild.complete", "passes.rebuilds", inPkgs("ir", "dxil/internal/passes", "msl/internal/codegen"), nil)
	r.Clauses = append(r.Clauses, "per-arm state (E16): inside a loop over the arms of a branching statement a pass never assigns a loop-invariant map itself to its map-typed state field (only a copy, nil, make or a literal), so arms do not share one map")
	r.Clauses = append(r.Clauses, "moved locals are re-initialised (E76): a pass that appends the local variables of one function to another builds, in a loop over the source function's locals, a store of each local's initial value for the place where the body is put")
	c.runInlineLocalReinit(r, "inline.localreinit", inPkgs("ir", "dxil"))
	r.floor("inline.localreinit", 1)
	r.Clauses = append(r.Clauses, "return rewritten to break (E77): where a pass rewrites return to break and applies itself to loop and switch bodies, the package has (and consults) a predicate that finds a return inside such a construct")
	c.runReturnBreakDepth(r, "return.breakdepth", inPkgs("ir", "dxil"))
	r.floor("return.breakdepth", 1)
	r.Clauses = append(r.Clauses, "classified uses are rewritten (E78): where a pass's classifier keeps a candidate eligible on some statement kind that touches it, the rewriting functions of the package have code for that statement kind")
	c.runClassifyRewritten(r, "classify.rewritten", inPkgs("dxil/internal/passes", "ir"), nil)
	r.floor("classify.rewritten", 1)
	r.Clauses = append(r.Clauses, "loop-aware drivers (E79): a driver that applies a per-block transformation and recurses into loop bodies passes a constant argument in the StmtLoop arm that tells the transformation it is inside a loop")
	c.runLoopAware(r, "promote.loopaware", inPkgs("dxil/internal/passes", "ir"))
	r.floor("promote.loopaware", 1)
	r.Clauses = append(r.Clauses, "no withdrawal during the walk (E80): a walk that drops statements on behalf of the members of a candidate set reaches no function that deletes members from that set")
	c.runCommitRevoke(r, "commit.revoke", inPkgs("dxil/internal/passes", "ir"))
	r.floor("commit.revoke", 2)
	r.Clauses = append(r.Clauses, "marks cleared, marks restored (E81): a pass driver that runs a phase clearing liveness marks runs afterwards a marking from the statements that stay (a function reaching the statement-root marker)")
	c.runUnmarkRemarked(r, "unmark.remarked", inPkgs("dxil/internal/passes", "ir"))
	r.floor("unmark.remarked", 1)
	r.Clauses = append(r.Clauses, "uses other than loads (E94): a pass function that judges each local by a census of its loads only (a loop over the expressions that skips everything but ExprLoad) also looks at the other users of the local's address - a second, unfiltered loop that resolves expressions to locals, or the call statements; otherwise the stores in front of f(&x) are removed")
	c.runLoadOnlyCensus(r, "census.loadonly", inPkgs("dxil/internal/passes", "ir"))
	r.Clauses = append(r.Clauses, "propagation repeated after unmarking (E81b): every propagation step over the liveness marks that a pass driver runs before it clears marks (values stored into live locals, arguments of calls with a live result) runs again after the clearing - a store into a live local stays but is not a root the statement re-marker looks at")
	c.runUnmarkPropagatedAgain(r, "unmark.propagatedagain", inPkgs("dxil/internal/passes", "ir"))
	r.floor("unmark.propagatedagain", 1)
	r.Clauses = append(r.Clauses, "initialisers survive a split (E99): a pass that builds new local variables and takes their initialiser from the original's only when that has one expression kind either handles the other kinds (else branch) or the package looks at LocalVariable.Init where it selects its candidates")
	c.runInitKept(r, "split.initkept", inPkgs("dxil/internal/passes", "ir"))
	r.Clauses = append(r.Clauses, sharedAddrClause)
	c.runSharedAddr(r, "ptr.sharedaddr", inPkgs("ir", "dxil"))
	r.Clauses = append(r.Clauses, shallowWalkerClause)
	c.runShallowWalker(r, "walker.shallow", inPkgs("ir", "dxil"), shallowWalkerExceptions)
	r.floor("walker.shallow", 10)
	c.runLoopStateAlias(r, "alias.loopstate", inPkgs("ir", "dxil/internal/passes"))
	r.floor("alias.loopstate.copysites", 1)
	r.Clauses = append(r.Clauses, sharedCellClause, argsRoleClause)
	c.runPtrSharedCell(r, "ptr.sharedcell", inPkgs("ir", "dxil", "wgsl"))
	r.floor("ptr.closures", 2)
	c.runArgsNameRole(r, "args.namerole", inPkgs("ir", "dxil/internal/passes"))
	r.floor("args.namerole", 5)
	r.Clauses = append(r.Clauses, writebackClause)
	c.runCopyWriteback(r, "copy.writeback", inPkgs("ir", "dxil/internal/passes", "wgsl"))
	r.floor("copy.writeback", 30)
	r.Clauses = append(r.Clauses, "block predicates (E36): a self-recursive boolean predicate over blocks that ends with `return true` (universal) answers false for an if statement unless both arms satisfy it, one that ends with `return false` (existential) answers true if either arm does - decided by evaluating the clause's combination of the two recursive calls over the four truth assignments")
	c.runBlockPredQuantifier(r, "blockpred.quantifier", inPkgs("ir", "dxil"))
	r.floor("blockpred.quantifier", 4)
	r.Clauses = append(r.Clauses, orderClause+" - here: the passes of package ir and dxil/internal/passes")
	c.runOperandOrder(r, "order.ir", inPkgs("ir", "dxil/internal/passes"))
	r.floor("order.ir", orderFloors["ir"])
	r.floor("passes.rebuilds", 20)
	r.floor("passes.ExpressionHandle.remappers", 8)
	r.floor("passes.ExpressionHandle.walkers", 4)
	r.floor("passes.TypeHandle.remappers", 2)
	r.floor("passes.Block.walkers", 10)
}

const staleHandlesClause = "renumbered arenas (E54): whatever the lowerer runs after ir.CompactTypes / ir.ReorderTypes / ir.CompactConstants (in the function that calls them) does not read the lowerer's own tables of type or constant handles filled before the renumbering - a map to ir.TypeHandle / ir.ConstantHandle or the type registry"

const zeroSentinelClause = "zero is a handle (E53): where a function whose only result is an ir.TypeHandle answers a failed search of the type arena with the constant 0, each caller compares the result with 0 before using it as a type"

var zeroSentinelExceptions = map[string]string{
	"msl/internal/codegen.Writer.tryFoldConstantCast:findOrRegisterScalarType#1": "the handle travels with a folded Uint scalar to writeScalarValue, which consults the type only for the width of a Float",
	"msl/internal/codegen.Writer.tryFoldConstantCast:findOrRegisterScalarType#2": "the handle travels with a folded Sint scalar to writeScalarValue, which consults the type only for the width of a Float",
}

const shallowWalkerClause = "nested statements (E58): a loop over the statements of a block that type-switches on the statement kind has arms for the four kinds that carry blocks of their own (If, Switch, Loop, Block) or a default - otherwise it sees the top level only"

var shallowWalkerExceptions = map[string]string{
	"dxil/internal/passes/mem2reg.countLocalUses:range#1": "shallow on purpose: it counts the stores and loads that sit directly in this block so that a variable is promoted only when all of its uses are colocated in one block (the doc comment says so; rewriteBlock handles the same block only)",
	"dxil/internal/passes/mem2reg.storedBeforeLoaded:range#1": "shallow on purpose, like countLocalUses: it is asked only about candidates, all of whose loads and stores sit directly in this block (selectBlockCandidates compares the in-block counts with the function-wide ones)",
	"msl/internal/codegen.Writer.countStmtExprRefs:range#1": "reference-count / bake heuristic only (see the handlewalk exception for the same function): an under-counted reference leaves a pure expression inline",
}
