package main

// Two repository-wide structural rules (armed after reading their inventories).
//
// args.namerole (C11, C08, C09): a call f(x, y) to a function of this module whose
// parameters p, q have the same type and names of at least three letters, where
// the argument expressions are identifiers (or selectors) whose names contain
// the OTHER parameter's name and not their own - typeShapeMatches(paramInner,
// argInner) for func typeShapeMatches(arg, param ir.TypeInner) - passes the
// operands in swapped roles. Every asymmetric arm of the callee (a default that
// looks at one side only) then answers for the wrong operand.
//
// ptr.sharedcell (C13, C14): a function literal that returns the ADDRESS of a
// variable declared outside it hands every caller the same cell: after the
// second call the first result has changed too (all optional handles of one
// statement remapped through such a closure end up equal to the last one).

import (
	"go/ast"
	"go/token"
	"go/types"
	"strings"
)

const argsRoleClause = "argument roles (E46): in a call to a function of this module with two same-typed parameters named p and q, arguments whose names speak about p and q are not passed in each other's place (the two deliberate mirrorings of scalar * matrix / scalar * vector in the SPIR-V emitter are named exceptions)"
const sharedCellClause = "fresh cells (E46): no function literal returns the address of a variable declared outside it (every caller would share one cell)"

var argsRoleExceptions = map[string]string{
	"spirv/internal/codegen.ExpressionEmitter.emitBinary:AddBinaryOp(left,right)#5": "scalar * matrix is emitted as OpMatrixTimesScalar matrix scalar: the instruction takes the matrix first (same site as the order.pair mirrored table)",
	"spirv/internal/codegen.ExpressionEmitter.emitBinary:AddBinaryOp(left,right)#7": "scalar * vector is emitted as OpVectorTimesScalar vector scalar: the instruction takes the vector first",
}

func (c *Ctx) runArgsNameRole(r *Report, rule string, pkgs func(string) bool) {
	n := 0
	nameOf := func(e ast.Expr) string {
		switch x := ast.Unparen(e).(type) {
		case *ast.Ident:
			return x.Name
		case *ast.SelectorExpr:
			return x.Sel.Name
		case *ast.UnaryExpr:
			if x.Op == token.AND {
				if id, ok := ast.Unparen(x.X).(*ast.Ident); ok {
					return id.Name
				}
			}
		}
		return ""
	}
	for _, fn := range c.allFuncs() {
		if !pkgs(fn.Pkg.Rel) {
			continue
		}
		info := fn.Pkg.Info
		ord := map[string]int{}
		ast.Inspect(fn.Decl.Body, func(m ast.Node) bool {
			call, ok := m.(*ast.CallExpr)
			if !ok {
				return true
			}
			f := calleeOf(info, call)
			if f == nil || f.Pkg() == nil || !strings.HasPrefix(f.Pkg().Path(), modPath) {
				return true
			}
			sig := f.Type().(*types.Signature)
			if sig.Variadic() || sig.Params().Len() != len(call.Args) {
				return true
			}
			for i := 0; i < sig.Params().Len(); i++ {
				for j := i + 1; j < sig.Params().Len(); j++ {
					pi, pj := sig.Params().At(i), sig.Params().At(j)
					if len(pi.Name()) < 3 || len(pj.Name()) < 3 || !types.Identical(pi.Type(), pj.Type()) {
						continue
					}
					ni, nj := strings.ToLower(pi.Name()), strings.ToLower(pj.Name())
					if strings.Contains(ni, nj) || strings.Contains(nj, ni) {
						continue
					}
					ai, aj := strings.ToLower(nameOf(call.Args[i])), strings.ToLower(nameOf(call.Args[j]))
					if ai == "" || aj == "" {
						continue
					}
					// only pairs in which the argument names speak about the parameter roles at all
					mentions := strings.Contains(ai, ni) || strings.Contains(ai, nj) || strings.Contains(aj, ni) || strings.Contains(aj, nj)
					if !mentions {
						continue
					}
					n++
					key := fn.id() + ":" + f.Name() + "(" + pi.Name() + "," + pj.Name() + ")"
					ord[key]++
					cons := key + "#" + itoa(ord[key])
					swapped := strings.Contains(ai, nj) && !strings.Contains(ai, ni) && strings.Contains(aj, ni) && !strings.Contains(aj, nj)
					if swapped && argsRoleExceptions[cons] != "" {
						r.exc(rule, cons, c.pos(call.Pos()), argsRoleExceptions[cons])
					} else if swapped {
						r.viol(rule, cons, c.pos(call.Pos()), fn.id()+" calls "+f.Name()+"("+types.ExprString(call.Args[i])+", "+types.ExprString(call.Args[j])+") but the parameters are ("+pi.Name()+", "+pj.Name()+"): the two same-typed operands are passed in each other's role")
					} else {
						r.ok(rule, cons, c.pos(call.Pos()), "")
					}
				}
			}
			return true
		})
	}
	r.inst("args.namerole", n)
}

func (c *Ctx) runPtrSharedCell(r *Report, rule string, pkgs func(string) bool) {
	n, lits := 0, 0
	for _, fn := range c.allFuncs() {
		if !pkgs(fn.Pkg.Rel) {
			continue
		}
		info := fn.Pkg.Info
		ord := 0
		ast.Inspect(fn.Decl.Body, func(m ast.Node) bool {
			lit, ok := m.(*ast.FuncLit)
			if !ok {
				return true
			}
			// only closures with a pointer result
			hasPtr := false
			if lit.Type.Results != nil {
				for _, f := range lit.Type.Results.List {
					if _, ok := info.TypeOf(f.Type).(*types.Pointer); ok {
						hasPtr = true
					}
				}
			}
			if !hasPtr {
				return true
			}
			lits++
			ast.Inspect(lit.Body, func(k ast.Node) bool {
				if inner, ok := k.(*ast.FuncLit); ok && inner != lit {
					return false
				}
				rs, ok := k.(*ast.ReturnStmt)
				if !ok {
					return true
				}
				for _, e := range rs.Results {
					u, ok := ast.Unparen(e).(*ast.UnaryExpr)
					if !ok || u.Op != token.AND {
						continue
					}
					id, ok := ast.Unparen(u.X).(*ast.Ident)
					if !ok {
						continue
					}
					v, ok := info.Uses[id].(*types.Var)
					if !ok || v.IsField() {
						continue
					}
					n++
					ord++
					cons := fn.id() + ":func-literal:&" + id.Name + "#" + itoa(ord)
					if v.Pos() >= lit.Pos() && v.Pos() < lit.End() {
						r.ok(rule, cons, c.pos(rs.Pos()), "")
					} else {
						r.viol(rule, cons, c.pos(rs.Pos()), fn.id()+": the closure returns &"+id.Name+", a variable declared outside it: every call hands out the same cell, so earlier results change when it is called again")
					}
				}
				return true
			})
			return true
		})
	}
	r.inst("ptr.closures", lits)
	r.inst("ptr.sharedcell", n)
}

func init() {
	dumpers["generic46"] = func(c *Ctx, parts []string) {
		r := newReport("dump")
		all := func(string) bool { return true }
		c.runArgsNameRole(r, "args.namerole", all)
		c.runPtrSharedCell(r, "ptr.sharedcell", all)
		nOK := map[string]int{}
		for _, o := range r.Obs {
			if o.Verdict == "ok" {
				nOK[o.Rule]++
				continue
			}
			println(o.Verdict, o.Rule, o.Construct, o.Pos, o.Msg)
		}
		for k, v := range nOK {
			println("ok", k, v)
		}
		println("closures with pointer results:", r.Instances["ptr.closures"])
	}
}
