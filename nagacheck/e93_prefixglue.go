package main

import (
	"go/ast"
	"go/constant"
	"go/token"
	"go/types"
	"strings"
)

// parens.prefixglue (C05): a writer that composes expression text by
// substitution and puts a sign in front of a piece (`"-%s"`, `"-" + text`)
// glues two signs into another token when the piece starts with one: "-" and
// "-5" make "--5", a decrement. A sign character directly before a
// substituted string variable needs the variable to be parenthesised in the
// format, or a test of how the text starts (strings.HasPrefix on it) in the
// same function.
func (c *Ctx) runPrefixGlue(r *Report, rule, rel string) {
	n := 0
	for _, fn := range c.allFuncs() {
		if fn.Pkg.Rel != rel || fn.Decl.Body == nil {
			continue
		}
		info := fn.Pkg.Info
		strVar := func(e ast.Expr) *types.Var {
			id, ok := ast.Unparen(e).(*ast.Ident)
			if !ok {
				return nil
			}
			v, ok := info.ObjectOf(id).(*types.Var)
			if !ok || !isStringType(v.Type()) {
				return nil
			}
			return v
		}
		constStr := func(e ast.Expr) (string, bool) {
			tv, ok := info.Types[e]
			if !ok || tv.Value == nil || tv.Value.Kind() != constant.String {
				return "", false
			}
			return constant.StringVal(tv.Value), true
		}
		prefixTested := func(v *types.Var) bool {
			found := false
			ast.Inspect(fn.Decl.Body, func(m ast.Node) bool {
				call, ok := m.(*ast.CallExpr)
				if !ok || len(call.Args) != 2 {
					return true
				}
				if f := calleeOf(info, call); f != nil && f.Pkg() != nil && f.Pkg().Path() == "strings" && f.Name() == "HasPrefix" {
					if id, ok := ast.Unparen(call.Args[0]).(*ast.Ident); ok && info.ObjectOf(id) == v {
						found = true
					}
				}
				return true
			})
			return found
		}
		ord := 0
		report := func(pos token.Pos, v *types.Var, how string) {
			ord++
			n++
			cons := fn.id() + ":" + how + "(" + v.Name() + ")#" + itoa(ord)
			if prefixTested(v) {
				r.ok(rule, cons, c.pos(pos), "")
				return
			}
			r.viol(rule, cons, c.pos(pos), fn.id()+" puts a sign directly before the substituted text "+v.Name()+" without looking at how that text starts: a text that begins with the same sign makes `--` / `++`, a decrement / increment operator")
		}
		ast.Inspect(fn.Decl.Body, func(m ast.Node) bool {
			switch x := m.(type) {
			case *ast.BinaryExpr:
				if x.Op != token.ADD {
					return true
				}
				if s, ok := constStr(x.X); ok && (strings.HasSuffix(s, "-") || strings.HasSuffix(s, "+")) {
					if v := strVar(x.Y); v != nil {
						report(x.Pos(), v, "concat")
					}
				}
			case *ast.CallExpr:
				// a printf-like call: first string-constant argument with verbs, the rest substituted
				for i, a := range x.Args {
					f, ok := constStr(a)
					if !ok || !strings.Contains(f, "%") {
						continue
					}
					verb := 0
					for j := 0; j < len(f); j++ {
						if f[j] != '%' {
							continue
						}
						if j+1 < len(f) && f[j+1] == '%' {
							j++
							continue
						}
						arg := i + 1 + verb
						verb++
						if j+1 < len(f) && f[j+1] == 's' && j > 0 && (f[j-1] == '-' || f[j-1] == '+') && arg < len(x.Args) {
							// "e-%s" style exponents do not occur in shader text; a sign after a letter/digit is still a sign
							if v := strVar(x.Args[arg]); v != nil {
								report(x.Pos(), v, "format")
							}
						}
					}
					break
				}
			}
			return true
		})
	}
	r.inst(rule, n)
}

func init() {
	dumpers["prefixglue"] = func(c *Ctx, parts []string) {
		for _, rel := range []string{"glsl/internal/codegen", "hlsl/internal/codegen", "msl/internal/codegen"} {
			r := newReport("dump")
			c.runPrefixGlue(r, "parens.prefixglue", rel)
			for _, o := range r.Obs {
				println(o.Verdict, o.Construct, o.Pos)
			}
		}
	}
}
