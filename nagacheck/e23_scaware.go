package main

// ptrtype.scaware (C02): pointer types for access chains.
//
// Vulkan forbids explicit layout decorations in the Workgroup storage class, so
// the backend keeps two SPIR-V types for every array/struct type (decorated and
// layout-free) and must pick the one that matches the storage class of the
// pointer it is building. Where a function takes the storage class from the
// expression being accessed (a variable assigned from a call that receives an
// expression handle and returns a StorageClass - the class is not known
// statically) and builds `emitPointerType(sc, T)`, the pointee type id T must
// itself have been computed by a call that receives the same sc: a resolver
// that does not know the storage class returns the decorated type, and the
// OpAccessChain result type then differs from the type reached through the
// base pointer for every workgroup array of arrays / structs.

import (
	"go/ast"
	"go/types"
)

func (c *Ctx) runStorageClassAware(r *Report, rule string) {
	n := 0
	for _, fn := range c.allFuncs() {
		if fn.Pkg.Rel != "spirv/internal/codegen" {
			continue
		}
		info := fn.Pkg.Info
		// variables holding a storage class obtained from an expression handle
		dyn := map[types.Object]bool{}
		defCall := map[types.Object][]*ast.CallExpr{}
		ast.Inspect(fn.Decl.Body, func(m ast.Node) bool {
			as, ok := m.(*ast.AssignStmt)
			if !ok || len(as.Rhs) != 1 {
				return true
			}
			call, ok := ast.Unparen(as.Rhs[0]).(*ast.CallExpr)
			if !ok {
				return true
			}
			for _, l := range as.Lhs {
				id, ok := ast.Unparen(l).(*ast.Ident)
				if !ok || id.Name == "_" {
					continue
				}
				o := info.Defs[id]
				if o == nil {
					o = info.Uses[id]
				}
				if o == nil {
					continue
				}
				defCall[o] = append(defCall[o], call)
				if namedName(o.Type()) == "StorageClass" {
					for _, a := range call.Args {
						if tv, ok := info.Types[a]; ok && irTypeName(tv.Type) == "ExpressionHandle" {
							dyn[o] = true
						}
					}
				}
			}
			return true
		})
		if len(dyn) == 0 {
			continue
		}
		ord := 0
		ast.Inspect(fn.Decl.Body, func(m ast.Node) bool {
			call, ok := m.(*ast.CallExpr)
			if !ok || len(call.Args) != 2 {
				return true
			}
			f := calleeOf(info, call)
			if f == nil {
				return true
			}
			sig := f.Type().(*types.Signature)
			if sig.Params().Len() != 2 || namedName(sig.Params().At(0).Type()) != "StorageClass" || sig.Results().Len() != 1 {
				return true
			}
			if b, ok := sig.Results().At(0).Type().Underlying().(*types.Basic); !ok || b.Kind() != types.Uint32 {
				return true
			}
			scID, ok := ast.Unparen(call.Args[0]).(*ast.Ident)
			if !ok || !dyn[info.Uses[scID]] {
				return true
			}
			sc := info.Uses[scID]
			n++
			ord++
			cons := fn.id() + ":" + f.Name()
			if ord > 1 {
				cons += "#" + itoa(ord)
			}
			pos := c.pos(call.Pos())
			tID, ok := ast.Unparen(call.Args[1]).(*ast.Ident)
			aware := false
			if ok {
				for _, dc := range defCall[info.Uses[tID]] {
					for _, a := range dc.Args {
						if id, ok := ast.Unparen(a).(*ast.Ident); ok && info.Uses[id] == sc {
							aware = true
						}
					}
				}
			}
			if aware {
				r.ok(rule, cons, pos, "")
			} else {
				r.viol(rule, cons, pos, fn.id()+" builds a pointer type for the storage class "+scID.Name+" of the accessed expression, but the pointee type id "+types.ExprString(call.Args[1])+" was not computed by a call that receives "+scID.Name+": for Workgroup pointers the decorated type is used where the layout-free one is required, so the access chain's result type does not match its base")
			}
			return true
		})
	}
	r.inst("ptrtype.scaware", n)
}

// version.bump14 (C02): from SPIR-V 1.4 on, OpEntryPoint must list every global
// variable the entry point uses; the backend decides that from options.Version
// when it emits the entry points, after the function bodies. A function body
// that needs a 1.4 instruction (OpCopyLogical ...) raises the header version;
// every call that passes a Version constant >= 1.4 to a Version parameter must
// therefore sit in a function that also assigns the Version field of the
// options (the wrapper that keeps header and interface rule in step). A bare
// header bump yields a 1.4 module with a 1.3-style interface list.
func (c *Ctx) runVersionBump(r *Report, rule string) {
	n := 0
	for _, fn := range c.allFuncs() {
		if fn.Pkg.Rel != "spirv/internal/codegen" {
			continue
		}
		info := fn.Pkg.Info
		assignsVersionField := false
		ast.Inspect(fn.Decl.Body, func(m ast.Node) bool {
			if as, ok := m.(*ast.AssignStmt); ok {
				for _, l := range as.Lhs {
					if se, ok := ast.Unparen(l).(*ast.SelectorExpr); ok {
						if sel := info.Selections[se]; sel != nil && sel.Kind() == types.FieldVal && namedName(sel.Type()) == "Version" {
							assignsVersionField = true
						}
					}
				}
			}
			return true
		})
		ord := 0
		ast.Inspect(fn.Decl.Body, func(m ast.Node) bool {
			call, ok := m.(*ast.CallExpr)
			if !ok {
				return true
			}
			f := calleeOf(info, call)
			if f == nil {
				return true
			}
			sig := f.Type().(*types.Signature)
			for i, a := range call.Args {
				if i >= sig.Params().Len() || namedName(sig.Params().At(i).Type()) != "Version" {
					continue
				}
				id, ok := ast.Unparen(a).(*ast.Ident)
				if !ok {
					continue
				}
				k := info.Uses[id]
				if k == nil || k.Pkg() == nil || k.Parent() != k.Pkg().Scope() || namedName(k.Type()) != "Version" {
					continue
				}
				// Version1_4 and later: package-level Version values are named Version1_N
				name := k.Name()
				if len(name) < 10 || name[:9] != "Version1_" || name[9] < '4' {
					continue
				}
				n++
				ord++
				cons := fn.id() + ":" + f.Name() + "(" + name + ")"
				if ord > 1 {
					cons += "#" + itoa(ord)
				}
				if assignsVersionField {
					r.ok(rule, cons, c.pos(call.Pos()), "")
				} else {
					r.viol(rule, cons, c.pos(call.Pos()), fn.id()+" raises the module's SPIR-V version to "+name+" without updating the options' Version, which decides whether OpEntryPoint lists all used global variables: the module header says 1.4+ but the interface list follows the pre-1.4 rule")
				}
			}
			return true
		})
	}
	r.inst("version.bump14", n)
}
