package main

// emit.flushfirst (C09): expressions are made visible by Emit statements that
// must precede every use. A lowering function in EXPRESSION position - it
// returns (ir.ExpressionHandle, error) and receives the statement list it may
// append to - runs while its caller's emit range is still open: the expressions
// lowered so far have not been emitted yet. Before such a function appends a
// statement of its own (a Store, Call, Atomic, ImageStore, barrier ...) it must
// close the pending range (emitFinish, or interruptEmitter which does so);
// otherwise the Emit that covers the statement's operands is written after the
// statement. Must-analysis over go/cfg: every append to the statement parameter
// is preceded on all paths by a flush (or by a call of another function of this
// kind, which leaves the range flushed).

import (
	"go/ast"
	"go/types"

	"golang.org/x/tools/go/cfg"
)

const emitFlushClause = "emit before use (E52, go/cfg must-analysis): a lowering function in expression position (it returns an expression handle and receives the statement list) closes the pending emit range - emitFinish, interruptEmitter or a wrapper - on every path before it appends a statement of its own, so the Emit covering the statement's operands precedes the statement"

var emitFlushExceptions = map[string]string{
	"wgsl/internal/lower.Lowerer.lowerCall:append#1": "the appended statement is a StmtBarrier, which has no operands: nothing this call lowered can be pending",
}

func (c *Ctx) runEmitFlushFirst(r *Report, rule string, pkg string, exceptions map[string]string) {
	n := 0
	isFlush := func(f *types.Func) bool {
		if f == nil {
			return false
		}
		switch f.Name() {
		case "emitFinish", "interruptEmitter":
			return true
		}
		// one-level wrappers: a small function whose body calls emitFinish
		if fi := c.funcByObj(f.Origin()); fi != nil && fi.Decl.Body != nil && len(fi.Decl.Body.List) <= 3 {
			wraps := false
			ast.Inspect(fi.Decl.Body, func(k ast.Node) bool {
				if call, ok := k.(*ast.CallExpr); ok {
					if g := calleeOf(fi.Pkg.Info, call); g != nil && g.Name() == "emitFinish" {
						wraps = true
					}
				}
				return !wraps
			})
			return wraps
		}
		return false
	}
	// expression-position lowerers
	exprPos := map[*types.Func]*funcInfo{}
	for _, fn := range c.allFuncs() {
		if fn.Pkg.Rel != pkg || fn.Obj == nil {
			continue
		}
		sig := fn.Obj.Type().(*types.Signature)
		if sig.Results().Len() != 2 || irTypeName(sig.Results().At(0).Type()) != "ExpressionHandle" {
			continue
		}
		hasTarget := false
		for i := 0; i < sig.Params().Len(); i++ {
			if p, ok := sig.Params().At(i).Type().(*types.Pointer); ok {
				if sl, ok := p.Elem().(*types.Slice); ok && irTypeName(sl.Elem()) == "Statement" {
					hasTarget = true
				}
			}
		}
		if hasTarget {
			exprPos[fn.Obj] = fn
		}
	}
	for _, fn := range exprPos {
		info := fn.Pkg.Info
		// the statement-list parameter
		var target types.Object
		for _, f := range fn.Decl.Type.Params.List {
			for _, nm := range f.Names {
				if o := info.Defs[nm]; o != nil {
					if p, ok := o.Type().(*types.Pointer); ok {
						if sl, ok := p.Elem().(*types.Slice); ok && irTypeName(sl.Elem()) == "Statement" {
							target = o
						}
					}
				}
			}
		}
		if target == nil {
			continue
		}
		isAppend := func(nd ast.Node) bool {
			as, ok := nd.(*ast.AssignStmt)
			if !ok || len(as.Lhs) != 1 {
				return false
			}
			st, ok := ast.Unparen(as.Lhs[0]).(*ast.StarExpr)
			if !ok {
				return false
			}
			id, ok := ast.Unparen(st.X).(*ast.Ident)
			if !ok || info.Uses[id] != target {
				return false
			}
			// appended statement is not itself an Emit
			isEmit := false
			ast.Inspect(as.Rhs[0], func(k ast.Node) bool {
				if cl, ok := k.(*ast.CompositeLit); ok && irTypeName(info.TypeOf(cl)) == "StmtEmit" {
					isEmit = true
				}
				return true
			})
			return !isEmit
		}
		hasAppend := false
		ast.Inspect(fn.Decl.Body, func(k ast.Node) bool {
			if isAppend(k) {
				hasAppend = true
			}
			return true
		})
		if !hasAppend {
			continue
		}
		g := cfg.New(fn.Decl.Body, func(*ast.CallExpr) bool { return true })
		// must: flushed[b] at block entry
		in := make([]int8, len(g.Blocks)) // -1 unvisited, 0 no, 1 yes
		for i := range in {
			in[i] = -1
		}
		in[0] = 0
		work := []int32{0}
		type site struct {
			pos ast.Node
			ok  bool
		}
		sites := map[ast.Node]*site{}
		var order []ast.Node
		for len(work) > 0 {
			bi := work[0]
			work = work[1:]
			st := in[bi]
			for _, nd := range g.Blocks[bi].Nodes {
				if isAppend(nd) {
					s := sites[nd]
					if s == nil {
						s = &site{nd, true}
						sites[nd] = s
						order = append(order, nd)
					}
					if st != 1 {
						s.ok = false
					}
					// the statement just appended: anything lowered afterwards starts a new range; stay as is
					continue
				}
				// `if l.emitStateStart != nil { l.emitFinish(...) }`: when the field is nil nothing is pending, otherwise the body flushes
				if e, ok := nd.(ast.Expr); ok {
					mentions := false
					ast.Inspect(e, func(k ast.Node) bool {
						if se, ok := k.(*ast.SelectorExpr); ok && se.Sel.Name == "emitStateStart" {
							mentions = true
						}
						return !mentions
					})
					if mentions {
						st = 1
					}
				}
				for _, call := range callsIn(nd) {
					f := calleeOf(info, call)
					if f == nil {
						continue
					}
					if isFlush(f) {
						st = 1
					} else if _, isEP := exprPos[f.Origin()]; isEP || f.Name() == "lowerExpression" || f.Name() == "addExpression" {
						// lowering more expressions re-opens the range
						if f.Name() != "addExpression" {
							st = 0
						}
					}
				}
			}
			for _, s := range g.Blocks[bi].Succs {
				if in[s.Index] == -1 {
					in[s.Index] = st
					work = append(work, s.Index)
				} else if st < in[s.Index] {
					in[s.Index] = st
					work = append(work, s.Index)
				}
			}
		}
		for i, nd := range order {
			n++
			cons := fn.id() + ":append#" + itoa(i+1)
			switch {
			case sites[nd].ok:
				r.ok(rule, cons, c.pos(nd.Pos()), "")
			case exceptions[cons] != "":
				r.exc(rule, cons, c.pos(nd.Pos()), exceptions[cons])
			default:
				r.viol(rule, cons, c.pos(nd.Pos()), fn.id()+" appends a statement while its caller's emit range may still be open (no emitFinish / interruptEmitter on some path since the last lowered expression): the Emit covering the statement's operands is written after the statement")
			}
		}
	}
	r.inst("emit.flushfirst", n)
}

func init() {
	dumpers["emitflush"] = func(c *Ctx, parts []string) {
		r := newReport("dump")
		c.runEmitFlushFirst(r, "emit.flushfirst", "wgsl/internal/lower", nil)
		for _, o := range r.Obs {
			println(o.Verdict, o.Construct, o.Pos)
		}
	}
}
