package main

// global expressions are constant expressions: image operations cannot occur in
// them, so the pointer fields of image kinds below GlobalExpressions are never populated
var globalExprImageExc = func() map[string]string {
	m := map[string]string{}
	for _, p := range []string{"{ExprImageLoad}.ArrayIndex", "{ExprImageLoad}.Sample", "{ExprImageLoad}.Level", "{ExprImageQuery}.Query{ImageQuerySize}.Level",
		"{ExprImageSample}.ArrayIndex", "{ExprImageSample}.Offset", "{ExprImageSample}.DepthRef"} {
		m["GlobalExpressions[].Kind"+p] = "module-scope (constant) expressions cannot contain image operations; this pointer field is never populated below GlobalExpressions"
	}
	return m
}()

var cloneSpecs = []cloneSpec{
	{Name: "ir.CloneModuleForOverrides+ProcessOverrides", CloneFn: "ir.CloneModuleForOverrides", Mutators: []string{"ir.ProcessOverrides"}, MutPkgs: inPkgs("ir"), Exc: globalExprImageExc},
	{Name: "msl.applyPipelineConstants", CloneFn: "msl/internal/codegen.applyPipelineConstants", Mutators: []string{"msl/internal/codegen.applyPipelineConstants"}, MutPkgs: inPkgs("msl/internal/codegen", "ir")},
	{Name: "dxil.prepareModule+passes", CloneFn: "ir.CloneModuleForOverrides", Mutators: []string{"ir.InlineUserFunctions", "dxil/internal/passes/sroa.Run", "dxil/internal/passes/mem2reg.Run", "dxil/internal/passes/dce.Run", "dxil/internal/emit.EmitWithFlags"}, MutPkgs: inPkgs("ir", "dxil/internal/passes", "dxil/internal/emit")},
}

func init() {
	dumpers["clone"] = func(c *Ctx, parts []string) {
		r := newReport("dump")
		for _, sp := range cloneSpecs {
			c.runClone(r, "clone.fresh", sp)
		}
		for _, o := range r.Obs {
			println(o.Verdict, o.Construct, o.Msg)
		}
		for k, v := range r.Extra {
			println(k)
			for _, s := range v.([]string) {
				println("   ", s)
			}
		}
	}
}
