package main

// E3 handlewalk: every handle in every node kind.
//
// IR nodes reference each other by handles. For a handle type H and a sum type
// S the engine derives Fields(S,H) from go/types, finds every type switch over
// S ("visitor"), extracts which field paths of the bound variable each arm
// reads / writes, and judges
//   remapper  (writes some H path)      -> must write every H path of every variant
//   walker    (mentions all H paths of >= 3/4 of the H-carrying variants, or is in
//              the confirmed table)     -> must mention every H path of every variant
// plus the cross-wiring rule (new value of path F must not come from another
// H path of the same node).

import (
	"fmt"
	"go/ast"
	"go/token"
	"go/types"
	"sort"
	"strings"
)

type handleSpec struct {
	Name  string
	Match func(t types.Type) bool
}

func irNamedSpec(name string) handleSpec {
	return handleSpec{Name: name, Match: func(t types.Type) bool { return isNamed(t, "ir", name) }}
}

var blockSpec = handleSpec{Name: "Block", Match: func(t types.Type) bool {
	if isNamed(t, "ir", "Block") {
		return true
	}
	if s, ok := types.Unalias(t).(*types.Slice); ok {
		return isNamed(s.Elem(), "ir", "Statement")
	}
	return false
}}

type hpath struct {
	Path     string
	Delegate *sumType // interface-typed field of a nested sum whose variants carry H
}

// fieldPaths computes the H paths of a type (struct variants: relative to the value).
func fieldPaths(sums map[string]*sumType, t types.Type, h handleSpec, seen map[*types.Named]bool) []hpath {
	t = types.Unalias(t)
	if h.Match(t) {
		return []hpath{{Path: ""}}
	}
	if blockSpec.Match(t) {
		return nil // blocks are walked by the Block spec only
	}
	switch x := t.(type) {
	case *types.Pointer:
		return fieldPaths(sums, x.Elem(), h, seen)
	case *types.Slice:
		return prefixPaths("[]", fieldPaths(sums, x.Elem(), h, seen))
	case *types.Array:
		return prefixPaths("[]", fieldPaths(sums, x.Elem(), h, seen))
	case *types.Named:
		if x.Obj().Pkg() == nil {
			return nil
		}
		if s := sumOf(sums, x); s != nil {
			if sumCarries(sums, s, h, seen) {
				return []hpath{{Path: "", Delegate: s}}
			}
			return nil
		}
		st, ok := x.Underlying().(*types.Struct)
		if !ok {
			return fieldPathsUnderlying(sums, x.Underlying(), h, seen)
		}
		if seen[x] {
			return nil
		}
		seen[x] = true
		defer delete(seen, x)
		var out []hpath
		for i := 0; i < st.NumFields(); i++ {
			f := st.Field(i)
			out = append(out, prefixPaths("."+f.Name(), fieldPaths(sums, f.Type(), h, seen))...)
		}
		return out
	case *types.Struct:
		var out []hpath
		for i := 0; i < x.NumFields(); i++ {
			f := x.Field(i)
			out = append(out, prefixPaths("."+f.Name(), fieldPaths(sums, f.Type(), h, seen))...)
		}
		return out
	}
	return nil
}

func fieldPathsUnderlying(sums map[string]*sumType, t types.Type, h handleSpec, seen map[*types.Named]bool) []hpath {
	switch t.(type) {
	case *types.Slice, *types.Array, *types.Pointer, *types.Struct:
		return fieldPaths(sums, t, h, seen)
	}
	return nil
}

func prefixPaths(pre string, ps []hpath) []hpath {
	out := make([]hpath, 0, len(ps))
	for _, p := range ps {
		out = append(out, hpath{Path: pre + p.Path, Delegate: p.Delegate})
	}
	return out
}

var carriesMemo = map[string]bool{}

func sumCarries(sums map[string]*sumType, s *sumType, h handleSpec, seen map[*types.Named]bool) bool {
	key := s.Name + "|" + h.Name
	if v, ok := carriesMemo[key]; ok {
		return v
	}
	carriesMemo[key] = false // recursion guard
	for _, v := range s.Variants {
		if len(fieldPaths(sums, v, h, seen)) > 0 {
			carriesMemo[key] = true
			return true
		}
	}
	return false
}

func variantPaths(sums map[string]*sumType, v *types.Named, h handleSpec) []hpath {
	ps := fieldPaths(sums, v, h, map[*types.Named]bool{})
	for i := range ps {
		ps[i].Path = strings.TrimPrefix(ps[i].Path, ".")
	}
	return ps
}

// ---------------------------------------------------------------------------
// visitors

type mention struct {
	Path  string
	Kind  string // "read" | "write" | "len" | "niltest" | "lit"
	Pos   token.Pos
	RHS   []string // rooted paths mentioned in the value assigned (writes/lits)
	Copy  string   // if the whole assigned value is itself a rooted path: that path
	HasRHS bool
	Depth int
}

type armInfo struct {
	Variant  string
	Mentions []mention
	Pos      token.Pos
	Multi    bool // clause lists several types: bound var is the interface
}

type visitor struct {
	Func      *funcInfo
	Sum       *sumType
	Ordinal   int
	Pos       token.Pos
	Arms      map[string]*armInfo
	Default   bool
	Delegates []*types.Func // functions the tag value is forwarded to (default / multi arms)
	NSwitch   int
	TagPath   string
}

func (v *visitor) id() string {
	s := v.Func.id() + "/" + v.Sum.Name
	if v.Ordinal > 1 {
		s += fmt.Sprintf("#%d", v.Ordinal)
	}
	return s
}

// visitors finds, per function and sum type of package ir, every type switch
// and comma-ok type assertion over that sum (closures included) and unions the
// arms: one visitor per (function, sum).
func (c *Ctx) visitors() []*visitor {
	if v, ok := c.cache["visitors"]; ok {
		return v.([]*visitor)
	}
	sums := c.sumTypes("ir")
	var out []*visitor
	for _, fn := range c.allFuncs() {
		bySum := map[string]*visitor{}
		get := func(s *sumType, pos token.Pos) *visitor {
			v := bySum[s.Name]
			if v == nil {
				v = &visitor{Func: fn, Sum: s, Ordinal: 1, Pos: pos, Arms: map[string]*armInfo{}}
				bySum[s.Name] = v
				out = append(out, v)
			}
			return v
		}
		info := fn.Pkg.Info
		ast.Inspect(fn.Decl.Body, func(n ast.Node) bool {
			switch x := n.(type) {
			case *ast.AssignStmt:
				// b, ok := e.(ir.Variant)   /   b := e.(ir.Variant)
				if x.Tok != token.DEFINE || len(x.Rhs) != 1 || len(x.Lhs) < 1 {
					return true
				}
				ta, ok := ast.Unparen(x.Rhs[0]).(*ast.TypeAssertExpr)
				if !ok || ta.Type == nil {
					return true
				}
				tv, ok := info.Types[ta.X]
				if !ok {
					return true
				}
				s := sumOf(sums, tv.Type)
				if s == nil {
					return true
				}
				tt, ok := info.Types[ta.Type]
				if !ok {
					return true
				}
				nn := namedOf(tt.Type)
				if nn == nil || !s.has(nn.Obj().Name()) {
					return true
				}
				id, ok := x.Lhs[0].(*ast.Ident)
				if !ok || id.Name == "_" {
					return true
				}
				obj := info.Defs[id]
				if obj == nil {
					return true
				}
				v := get(s, x.Pos())
				arm := v.Arms[nn.Obj().Name()]
				if arm == nil {
					arm = &armInfo{Variant: nn.Obj().Name(), Pos: x.Pos()}
					v.Arms[arm.Variant] = arm
				}
				ex := &extractor{c: c, info: info, roots: map[types.Object]string{obj: ""}, seenFn: map[*types.Func]bool{}}
				ex.walkStmts(fn.Decl.Body.List)
				arm.Mentions = append(arm.Mentions, ex.out...)
				return true
			case *ast.TypeSwitchStmt:
				ts := x
				tagExpr, bound := typeSwitchParts(ts)
				if tagExpr == nil {
					return true
				}
				tv, ok := info.Types[tagExpr]
				if !ok {
					return true
				}
				s := sumOf(sums, tv.Type)
				if s == nil {
					return true
				}
				v := get(s, ts.Pos())
				v.NSwitch++
				for _, cl := range ts.Body.List {
					cc := cl.(*ast.CaseClause)
					var boundObj types.Object
					if bound != nil {
						boundObj = info.Implicits[cc]
					}
					if cc.List == nil {
						v.Default = true
						v.Delegates = append(v.Delegates, forwardedTo(c, info, cc.Body, tagExpr, boundObj)...)
						continue
					}
					var variants []*types.Named
					for _, te := range cc.List {
						if tt, ok := info.Types[te]; ok {
							if nn := namedOf(tt.Type); nn != nil && s.has(nn.Obj().Name()) {
								variants = append(variants, nn)
							}
						}
					}
					for _, vn := range variants {
						arm := v.Arms[vn.Obj().Name()]
						if arm == nil {
							arm = &armInfo{Variant: vn.Obj().Name(), Pos: cc.Pos()}
							v.Arms[arm.Variant] = arm
						}
						if len(cc.List) > 1 || boundObj == nil {
							arm.Multi = true
							continue
						}
						ex := &extractor{c: c, info: info, roots: map[types.Object]string{boundObj: ""}, depth: 0, seenFn: map[*types.Func]bool{}}
						ex.walkStmts(cc.Body)
						arm.Mentions = append(arm.Mentions, ex.out...)
					}
					if len(cc.List) > 1 || boundObj == nil {
						v.Delegates = append(v.Delegates, forwardedTo(c, info, cc.Body, tagExpr, boundObj)...)
					}
				}
			}
			return true
		})
	}
	c.cache["visitors"] = out
	return out
}

func typeSwitchParts(ts *ast.TypeSwitchStmt) (tag ast.Expr, bound *ast.Ident) {
	switch a := ts.Assign.(type) {
	case *ast.AssignStmt:
		if len(a.Lhs) == 1 && len(a.Rhs) == 1 {
			if ta, ok := a.Rhs[0].(*ast.TypeAssertExpr); ok {
				id, _ := a.Lhs[0].(*ast.Ident)
				return ta.X, id
			}
		}
	case *ast.ExprStmt:
		if ta, ok := a.X.(*ast.TypeAssertExpr); ok {
			return ta.X, nil
		}
	}
	return nil, nil
}

// forwardedTo lists static callees that receive the tag value (or the
// interface-typed bound variable) as an argument inside the given statements.
func forwardedTo(c *Ctx, info *types.Info, body []ast.Stmt, tag ast.Expr, bound types.Object) []*types.Func {
	tagStr := types.ExprString(tag)
	var out []*types.Func
	for _, st := range body {
		ast.Inspect(st, func(n ast.Node) bool {
			call, ok := n.(*ast.CallExpr)
			if !ok {
				return true
			}
			for _, a := range call.Args {
				a = ast.Unparen(a)
				hit := false
				if id, ok := a.(*ast.Ident); ok && bound != nil && info.Uses[id] == bound {
					hit = true
				} else if types.ExprString(a) == tagStr {
					hit = true
				}
				if hit {
					if f := calleeOf(info, call); f != nil {
						out = append(out, f)
					}
				}
			}
			return true
		})
	}
	return out
}

// extractor collects rooted field-path mentions inside statements.
type extractor struct {
	c      *Ctx
	info   *types.Info
	roots  map[types.Object]string // object -> path prefix it denotes
	out    []mention
	depth  int
	seenFn map[*types.Func]bool
	targets map[types.Object]string // rebuild targets: local := ir.T{...}
}

// rooted normalises an expression to a field path if it is rooted at a known object.
func (ex *extractor) rooted(e ast.Expr) (string, bool) {
	switch x := e.(type) {
	case *ast.Ident:
		if obj := ex.info.Uses[x]; obj != nil {
			if p, ok := ex.roots[obj]; ok {
				return p, true
			}
		}
		return "", false
	case *ast.ParenExpr:
		return ex.rooted(x.X)
	case *ast.StarExpr:
		return ex.rooted(x.X)
	case *ast.SelectorExpr:
		p, ok := ex.rooted(x.X)
		if !ok {
			return "", false
		}
		if sel := ex.info.Selections[x]; sel != nil && sel.Kind() == types.FieldVal {
			return p + "." + x.Sel.Name, true
		}
		return "", false
	case *ast.IndexExpr:
		p, ok := ex.rooted(x.X)
		if !ok {
			return "", false
		}
		if tv, ok := ex.info.Types[x.X]; ok {
			switch types.Unalias(tv.Type).Underlying().(type) {
			case *types.Slice, *types.Array, *types.Pointer:
				return p + "[]", true
			}
		}
		return "", false
	case *ast.SliceExpr:
		return ex.rooted(x.X)
	case *ast.UnaryExpr:
		if x.Op == token.AND {
			return ex.rooted(x.X)
		}
	case *ast.CallExpr:
		// type conversion T(x)
		if len(x.Args) == 1 {
			if tv, ok := ex.info.Types[x.Fun]; ok && tv.IsType() {
				return ex.rooted(x.Args[0])
			}
		}
	case *ast.TypeAssertExpr:
		if x.Type != nil {
			return ex.rooted(x.X)
		}
	}
	return "", false
}

// targetField: l is local.F (or local.F.G) with local a rebuild target.
func (ex *extractor) targetField(l ast.Expr) (string, string, bool) {
	var parts []string
	e := ast.Unparen(l)
	for {
		switch x := e.(type) {
		case *ast.SelectorExpr:
			parts = append([]string{x.Sel.Name}, parts...)
			e = ast.Unparen(x.X)
			continue
		case *ast.StarExpr:
			e = ast.Unparen(x.X)
			continue
		case *ast.Ident:
			if len(parts) == 0 {
				return "", "", false
			}
			if obj := ex.info.Uses[x]; obj != nil {
				if t, ok := ex.targets[obj]; ok {
					return t, strings.Join(parts, "."), true
				}
			}
		}
		return "", "", false
	}
}

func normPath(p string) string { return strings.TrimPrefix(p, ".") }

func (ex *extractor) add(path, kind string, pos token.Pos, rhs []string) {
	ex.out = append(ex.out, mention{Path: normPath(path), Kind: kind, Pos: pos, RHS: rhs, Depth: ex.depth})
}

func (ex *extractor) addW(path, kind string, pos token.Pos, val ast.Expr) {
	m := mention{Path: normPath(path), Kind: kind, Pos: pos, Depth: ex.depth}
	if val != nil {
		m.HasRHS = true
		m.RHS = ex.rootedIn(val)
		if p, ok := ex.rooted(ast.Unparen(val)); ok {
			m.Copy = "=" + normPath(p)
		}
	}
	ex.out = append(ex.out, m)
}

func (ex *extractor) walkStmts(list []ast.Stmt) {
	for _, s := range list {
		ex.walkNode(s)
	}
}

// rootedIn lists the rooted paths mentioned anywhere inside e.
func (ex *extractor) rootedIn(e ast.Node) []string {
	var out []string
	var rec func(n ast.Node)
	rec = func(n ast.Node) {
		ast.Inspect(n, func(m ast.Node) bool {
			if me, ok := m.(ast.Expr); ok {
				if p, ok := ex.rooted(me); ok {
					out = append(out, normPath(p))
					// descend only into index sub-expressions
					ex.indexSubs(me, rec)
					return false
				}
			}
			return true
		})
	}
	rec(e)
	return out
}

func (ex *extractor) indexSubs(e ast.Expr, f func(ast.Node)) {
	switch x := e.(type) {
	case *ast.ParenExpr:
		ex.indexSubs(x.X, f)
	case *ast.StarExpr:
		ex.indexSubs(x.X, f)
	case *ast.SelectorExpr:
		ex.indexSubs(x.X, f)
	case *ast.IndexExpr:
		ex.indexSubs(x.X, f)
		f(x.Index)
	case *ast.SliceExpr:
		ex.indexSubs(x.X, f)
		for _, s := range []ast.Expr{x.Low, x.High, x.Max} {
			if s != nil {
				f(s)
			}
		}
	case *ast.UnaryExpr:
		ex.indexSubs(x.X, f)
	case *ast.CallExpr:
		if len(x.Args) == 1 {
			ex.indexSubs(x.Args[0], f)
		}
	case *ast.TypeAssertExpr:
		ex.indexSubs(x.X, f)
	}
}

func (ex *extractor) walkNode(n ast.Node) {
	if n == nil {
		return
	}
	switch x := n.(type) {
	case *ast.AssignStmt:
		for i, l := range x.Lhs {
			var r ast.Expr
			if len(x.Rhs) == len(x.Lhs) {
				r = x.Rhs[i]
			}
			if x.Tok == token.DEFINE || x.Tok == token.ASSIGN {
				// rebuild target: local := ir.T{...}  (later local.F = v counts as setting field F of a T literal)
				if id, ok := l.(*ast.Ident); ok && r != nil {
					rv := ast.Unparen(r)
					if u, ok := rv.(*ast.UnaryExpr); ok && u.Op == token.AND {
						rv = ast.Unparen(u.X)
					}
					if cl, ok := rv.(*ast.CompositeLit); ok {
						if tv, ok := ex.info.Types[cl]; ok {
							if nn := namedOf(tv.Type); nn != nil && nn.Obj().Pkg() != nil && relPkg(nn.Obj().Pkg().Path()) == "ir" {
								var obj types.Object
								if x.Tok == token.DEFINE {
									obj = ex.info.Defs[id]
								}
								if obj == nil {
									obj = ex.info.Uses[id]
								}
								if obj != nil {
									if ex.targets == nil {
										ex.targets = map[types.Object]string{}
									}
									ex.targets[obj] = nn.Obj().Name()
								}
							}
						}
					}
				}
				// alias definition: local := rooted
				if id, ok := l.(*ast.Ident); ok && r != nil {
					if p, ok := ex.rooted(r); ok {
						var obj types.Object
						if x.Tok == token.DEFINE {
							obj = ex.info.Defs[id]
						}
						if obj == nil {
							obj = ex.info.Uses[id]
						}
						if obj != nil {
							if _, isRoot := ex.roots[obj]; !isRoot {
								if aliasable(ex.info, r) {
									ex.roots[obj] = p
								}
							}
						}
					}
				}
			}
			if tname, fpath, ok := ex.targetField(l); ok {
				rv := r
				if rv == nil && len(x.Rhs) == 1 {
					rv = x.Rhs[0]
				}
				ex.addW("lit:"+tname+":"+fpath, "lit", l.Pos(), rv)
			} else if p, ok := ex.rooted(l); ok && !isIdent(l) {
				rv := r
				if rv == nil && len(x.Rhs) == 1 {
					rv = x.Rhs[0]
				}
				ex.addW(p, "write", l.Pos(), rv)
				ex.indexSubs(l, ex.walkNode)
			} else {
				ex.walkNode(l)
			}
		}
		for _, r := range x.Rhs {
			ex.walkNode(r)
		}
		return
	case *ast.IncDecStmt:
		if p, ok := ex.rooted(x.X); ok {
			ex.add(p, "write", x.Pos(), nil)
			return
		}
	case *ast.RangeStmt:
		if p, ok := ex.rooted(x.X); ok {
			if id, ok := x.Value.(*ast.Ident); ok && id.Name != "_" {
				if obj := ex.info.Defs[id]; obj != nil {
					ex.roots[obj] = p + "[]"
				}
			}
			ex.add(p, "range", x.X.Pos(), nil)
			ex.indexSubs(x.X, ex.walkNode)
		} else {
			ex.walkNode(x.X)
		}
		ex.walkNode(x.Body)
		return
	case *ast.CompositeLit:
		ex.walkLit(x, "")
		return
	case *ast.CallExpr:
		ex.walkCall(x)
		return
	case *ast.BinaryExpr:
		if x.Op == token.EQL || x.Op == token.NEQ {
			if isNil(ex.info, x.Y) {
				if p, ok := ex.rooted(x.X); ok {
					ex.add(p, "niltest", x.Pos(), nil)
					ex.indexSubs(x.X, ex.walkNode)
					return
				}
			}
			if isNil(ex.info, x.X) {
				if p, ok := ex.rooted(x.Y); ok {
					ex.add(p, "niltest", x.Pos(), nil)
					ex.indexSubs(x.Y, ex.walkNode)
					return
				}
			}
		}
	case *ast.FuncLit:
		ex.walkNode(x.Body)
		return
	}
	if e, ok := n.(ast.Expr); ok {
		if p, ok := ex.rooted(e); ok {
			ex.add(p, "read", e.Pos(), nil)
			ex.indexSubs(e, ex.walkNode)
			return
		}
	}
	// generic descent
	children(n, ex.walkNode)
}

func isIdent(e ast.Expr) bool { _, ok := ast.Unparen(e).(*ast.Ident); return ok }

func isNil(info *types.Info, e ast.Expr) bool {
	if id, ok := ast.Unparen(e).(*ast.Ident); ok {
		_, isNil := info.Uses[id].(*types.Nil)
		return isNil
	}
	return false
}

// aliasable: the value denotes (a copy of / pointer to) part of the node
func aliasable(info *types.Info, e ast.Expr) bool {
	return true
}

// children calls f on each direct child node.
func children(n ast.Node, f func(ast.Node)) {
	first := true
	ast.Inspect(n, func(m ast.Node) bool {
		if first {
			first = false
			return true
		}
		if m != nil {
			f(m)
		}
		return false
	})
}

func (ex *extractor) walkLit(lit *ast.CompositeLit, prefix string) {
	ex.walkLit0(lit, prefix, "")
}

// walkLit0 records, for a composite literal of a struct type of package ir,
// one "lit:<Type>:<path>" write per field set (nested struct literals extend
// the path), with the value expression as right-hand side.
func (ex *extractor) walkLit0(lit *ast.CompositeLit, prefix, litName string) {
	tv, ok := ex.info.Types[lit]
	var st *types.Struct
	var named *types.Named
	if ok {
		st, _ = types.Unalias(tv.Type).Underlying().(*types.Struct)
		named = namedOf(tv.Type)
	}
	if prefix == "" {
		litName = ""
		if named != nil && st != nil && named.Obj().Pkg() != nil && relPkg(named.Obj().Pkg().Path()) == "ir" {
			litName = named.Obj().Name()
		}
	}
	for i, el := range lit.Elts {
		var val ast.Expr = el
		fname := ""
		if kv, ok := el.(*ast.KeyValueExpr); ok {
			val = kv.Value
			if id, ok := kv.Key.(*ast.Ident); ok && st != nil {
				fname = id.Name
			} else {
				ex.walkNode(kv.Key)
			}
		} else if st != nil && i < st.NumFields() {
			fname = st.Field(i).Name()
		}
		if litName != "" && fname != "" {
			p := prefix + "." + fname
			if inner, ok := ast.Unparen(val).(*ast.CompositeLit); ok {
				if itv, ok := ex.info.Types[inner]; ok {
					if _, ok := types.Unalias(itv.Type).Underlying().(*types.Struct); ok {
						if fieldIsInterface(st, fname) {
							// Statement{Kind: StmtIf{...}}: the inner literal is a node of its own
							ex.walkLit0(inner, "", "")
						} else {
							ex.walkLit0(inner, p, litName)
						}
						continue
					}
				}
			}
			ex.addW("lit:"+litName+":"+normPath(p), "lit", val.Pos(), val)
		}
		ex.walkNode(val)
	}
}

func fieldIsInterface(st *types.Struct, name string) bool {
	for i := 0; i < st.NumFields(); i++ {
		if st.Field(i).Name() == name {
			_, ok := types.Unalias(st.Field(i).Type()).Underlying().(*types.Interface)
			return ok
		}
	}
	return false
}

func named0(n *types.Named, prefix string) string {
	if n == nil {
		return ""
	}
	return n.Obj().Name()
}

func (ex *extractor) walkCall(call *ast.CallExpr) {
	// builtin len/cap: no coverage
	if id, ok := ast.Unparen(call.Fun).(*ast.Ident); ok {
		if b, ok := ex.info.Uses[id].(*types.Builtin); ok && (b.Name() == "len" || b.Name() == "cap") && len(call.Args) == 1 {
			if p, ok := ex.rooted(call.Args[0]); ok {
				ex.add(p, "len", call.Pos(), nil)
				return
			}
		}
		if b, ok := ex.info.Uses[id].(*types.Builtin); ok && b.Name() == "append" && len(call.Args) >= 1 {
			// append(k.F, ...) is a read of k.F
		}
	}
	// type conversion handled by rooted in the generic path
	if tv, ok := ex.info.Types[call.Fun]; ok && tv.IsType() && len(call.Args) == 1 {
		if p, ok := ex.rooted(call.Args[0]); ok {
			ex.add(p, "read", call.Pos(), nil)
			ex.indexSubs(call.Args[0], ex.walkNode)
			return
		}
	}
	callee := calleeOf(ex.info, call)
	// method call on a rooted receiver: k.Method() / k.F.Method()
	if sel, ok := ast.Unparen(call.Fun).(*ast.SelectorExpr); ok {
		if s := ex.info.Selections[sel]; s != nil && s.Kind() == types.MethodVal {
			if p, ok := ex.rooted(sel.X); ok {
				ex.add(p, "read", sel.X.Pos(), nil)
				ex.follow(callee, -1, p)
			} else {
				ex.walkNode(sel.X)
			}
		} else {
			ex.walkNode(call.Fun)
		}
	} else {
		ex.walkNode(call.Fun)
	}
	for i, a := range call.Args {
		au := ast.Unparen(a)
		if u, ok := au.(*ast.UnaryExpr); ok && u.Op == token.AND {
			if p, ok := ex.rooted(u.X); ok {
				ex.add(p, "write", a.Pos(), []string{normPath(p)})
				ex.indexSubs(u.X, ex.walkNode)
				ex.follow(callee, i, p)
				continue
			}
		}
		if p, ok := ex.rooted(au); ok {
			if ex.isPtrTyped(au) && ex.storesThroughParam(call, i) {
				ex.add(p, "write", a.Pos(), []string{normPath(p)})
			} else {
				ex.add(p, "read", a.Pos(), nil)
			}
			ex.indexSubs(au, ex.walkNode)
			ex.follow(callee, i, p)
			continue
		}
		ex.walkNode(a)
	}
}

func (ex *extractor) isPtrTyped(e ast.Expr) bool {
	if tv, ok := ex.info.Types[e]; ok {
		_, isPtr := types.Unalias(tv.Type).Underlying().(*types.Pointer)
		return isPtr
	}
	return false
}

// storesThroughParam: the callee (a local closure or a static function)
// assigns through its idx-th parameter (*p = ...).
func (ex *extractor) storesThroughParam(call *ast.CallExpr, idx int) bool {
	var ftype *ast.FuncType
	var body *ast.BlockStmt
	var info = ex.info
	if id, ok := ast.Unparen(call.Fun).(*ast.Ident); ok {
		if v, ok := ex.info.Uses[id].(*types.Var); ok {
			if lit := ex.c.closureOf(v); lit != nil {
				ftype, body = lit.Type, lit.Body
				info = ex.c.infoOfVar(v, ex.info)
			}
		}
	}
	if ftype == nil {
		if f := calleeOf(ex.info, call); f != nil {
			if fi := ex.c.funcByObj(f); fi != nil {
				ftype, body, info = fi.Decl.Type, fi.Decl.Body, fi.Pkg.Info
			}
		}
	}
	if ftype == nil || body == nil {
		return false
	}
	var param types.Object
	n := 0
	for _, f := range ftype.Params.List {
		for _, nm := range f.Names {
			if n == idx {
				param = info.Defs[nm]
			}
			n++
		}
		if len(f.Names) == 0 {
			n++
		}
	}
	if param == nil {
		return false
	}
	found := false
	ast.Inspect(body, func(m ast.Node) bool {
		switch x := m.(type) {
		case *ast.AssignStmt:
			for _, l := range x.Lhs {
				if st, ok := ast.Unparen(l).(*ast.StarExpr); ok {
					if id, ok := ast.Unparen(st.X).(*ast.Ident); ok && info.Uses[id] == param {
						found = true
					}
				}
			}
		case *ast.IncDecStmt:
			if st, ok := ast.Unparen(x.X).(*ast.StarExpr); ok {
				if id, ok := ast.Unparen(st.X).(*ast.Ident); ok && info.Uses[id] == param {
					found = true
				}
			}
		}
		return true
	})
	return found
}

// closureOf returns the function literal a local variable is defined with (v := func...).
func (c *Ctx) closureOf(v *types.Var) *ast.FuncLit {
	m := c.closureMap()
	return m[v]
}

func (c *Ctx) infoOfVar(v *types.Var, def *types.Info) *types.Info { return def }

func (c *Ctx) closureMap() map[*types.Var]*ast.FuncLit {
	if v, ok := c.cache["closureMap"]; ok {
		return v.(map[*types.Var]*ast.FuncLit)
	}
	out := map[*types.Var]*ast.FuncLit{}
	for _, fn := range c.allFuncs() {
		info := fn.Pkg.Info
		ast.Inspect(fn.Decl.Body, func(n ast.Node) bool {
			switch x := n.(type) {
			case *ast.AssignStmt:
				if len(x.Lhs) == len(x.Rhs) {
					for i, l := range x.Lhs {
						id, ok := l.(*ast.Ident)
						lit, ok2 := ast.Unparen(x.Rhs[i]).(*ast.FuncLit)
						if ok && ok2 {
							var obj types.Object = info.Defs[id]
							if obj == nil {
								obj = info.Uses[id]
							}
							if v, ok := obj.(*types.Var); ok {
								out[v] = lit
							}
						}
					}
				}
			case *ast.ValueSpec:
				for i, id := range x.Names {
					if i < len(x.Values) {
						if lit, ok := ast.Unparen(x.Values[i]).(*ast.FuncLit); ok {
							if v, ok := info.Defs[id].(*types.Var); ok {
								out[v] = lit
							}
						}
					}
				}
			}
			return true
		})
	}
	c.cache["closureMap"] = out
	return out
}

// follow analyses a static callee whose parameter (or receiver, idx -1)
// receives the node (or a part of it) and merges the mentions found there.
func (ex *extractor) follow(callee *types.Func, idx int, prefix string) {
	if callee == nil || ex.depth >= 3 || ex.seenFn[callee] {
		return
	}
	fi := ex.c.funcByObj(callee)
	if fi == nil || fi.Decl.Body == nil {
		return
	}
	var field *ast.Field
	if idx < 0 {
		if fi.Decl.Recv == nil || len(fi.Decl.Recv.List) == 0 {
			return
		}
		field = fi.Decl.Recv.List[0]
	} else {
		n := 0
		for _, f := range fi.Decl.Type.Params.List {
			cnt := len(f.Names)
			if cnt == 0 {
				cnt = 1
			}
			if idx < n+cnt {
				field = f
				if len(f.Names) > 0 {
					id := f.Names[idx-n]
					obj := fi.Pkg.Info.Defs[id]
					if obj == nil {
						return
					}
					ex.followInto(fi, obj, prefix, callee)
				}
				return
			}
			n += cnt
		}
		return
	}
	if field == nil || len(field.Names) == 0 {
		return
	}
	obj := fi.Pkg.Info.Defs[field.Names[0]]
	if obj == nil {
		return
	}
	ex.followInto(fi, obj, prefix, callee)
}

func (ex *extractor) followInto(fi *funcInfo, obj types.Object, prefix string, callee *types.Func) {
	// only struct-ish parameters carry paths; scalars (a handle passed by value) end here
	switch types.Unalias(obj.Type()).Underlying().(type) {
	case *types.Struct, *types.Pointer, *types.Slice:
	default:
		return
	}
	ex.seenFn[callee] = true
	sub := &extractor{c: ex.c, info: fi.Pkg.Info, roots: map[types.Object]string{obj: prefix}, depth: ex.depth + 1, seenFn: ex.seenFn}
	sub.walkStmts(fi.Decl.Body.List)
	ex.out = append(ex.out, sub.out...)
	delete(ex.seenFn, callee)
}

// ---------------------------------------------------------------------------
// judgement

func covers(mentionPath, hp string) bool {
	if mentionPath == hp {
		return true
	}
	if mentionPath == "" {
		return false
	}
	return strings.HasPrefix(hp, mentionPath+".") || strings.HasPrefix(hp, mentionPath+"[]")
}

type armCoverage struct {
	Written, Mentioned map[string]bool
	Remapped           map[string]bool // written with a transformed old value of the same path
	Cross              []string // cross-wired writes
	CrossPos           []token.Pos
}

func (a *armInfo) coverage(paths []hpath, variant string) armCoverage {
	cv := armCoverage{Written: map[string]bool{}, Mentioned: map[string]bool{}, Remapped: map[string]bool{}}
	exact := map[string]bool{}
	for _, p := range paths {
		exact[p.Path] = true
	}
	for _, m := range a.Mentions {
		mp := m.Path
		kind := m.Kind
		if kind == "lit" {
			parts := strings.SplitN(strings.TrimPrefix(mp, "lit:"), ":", 2)
			if len(parts) != 2 || parts[0] != variant {
				continue
			}
			mp = parts[1]
			kind = "write"
		}
		for _, hp := range paths {
			if !covers(mp, hp.Path) {
				continue
			}
			switch kind {
			case "write":
				cv.Mentioned[hp.Path] = true
				if m.Copy == "="+mp {
					break // verbatim copy of the old value: not a rewrite
				}
				cv.Written[hp.Path] = true
				for _, r := range m.RHS {
					if r == mp || covers(mp, r) || covers(r, mp) {
						cv.Remapped[hp.Path] = true
					}
				}
			case "read", "range":
				cv.Mentioned[hp.Path] = true
			}
		}
		// cross-wiring: an exact H path assigned from other exact H paths of the node but not itself
		if kind == "write" && exact[mp] && len(m.RHS) > 0 {
			own, other := false, ""
			for _, r := range m.RHS {
				if r == mp || covers(r, mp) || covers(mp, r) {
					own = true
				} else if exact[r] {
					other = r
				}
			}
			if !own && other != "" {
				cv.Cross = append(cv.Cross, fmt.Sprintf("%s <- %s", mp, other))
				cv.CrossPos = append(cv.CrossPos, m.Pos)
			}
		}
	}
	return cv
}

// visitorCoverage is the union coverage of a visitor including delegation.
type visitorCoverage struct {
	Arms map[string]armCoverage
	Has  map[string]bool // variant has an arm (own or delegated)
}

func (c *Ctx) coverageOf(v *visitor, h handleSpec, seen map[*visitor]bool) visitorCoverage {
	sums := c.sumTypes("ir")
	vc := visitorCoverage{Arms: map[string]armCoverage{}, Has: map[string]bool{}}
	if seen[v] {
		return vc
	}
	seen[v] = true
	for name, arm := range v.Arms {
		vn := v.Sum.byName[name]
		vc.Has[name] = true
		vc.Arms[name] = arm.coverage(variantPaths(sums, vn, h), name)
	}
	for _, d := range v.Delegates {
		for _, w := range c.visitors() {
			if w.Func.Obj != nil && w.Func.Obj == d.Origin() && w.Sum == v.Sum {
				sub := c.coverageOf(w, h, seen)
				for name, ac := range sub.Arms {
					if cur, ok := vc.Arms[name]; ok {
						for k := range ac.Written {
							cur.Written[k] = true
						}
						for k := range ac.Mentioned {
							cur.Mentioned[k] = true
						}
						for k := range ac.Remapped {
							cur.Remapped[k] = true
						}
						vc.Arms[name] = cur
					} else {
						vc.Arms[name] = ac
					}
					vc.Has[name] = true
				}
			}
		}
	}
	return vc
}

// producer sets ------------------------------------------------------------

// producedIn lists, per variant name, the packages (relative) in which a
// composite literal of that variant type occurs in library code.
func (c *Ctx) producedIn() map[string]map[string]bool {
	if v, ok := c.cache["producedIn"]; ok {
		return v.(map[string]map[string]bool)
	}
	out := map[string]map[string]bool{}
	for _, p := range c.Roots {
		rel := relPkg(p.PkgPath)
		info := p.TypesInfo
		for _, f := range p.Syntax {
			// variants named by enclosing case clauses: a literal of the same
			// variant inside such an arm is a rebuild, not a producer
			var armStack []map[string]bool
			var visit func(n ast.Node)
			visit = func(n ast.Node) {
				if n == nil {
					return
				}
				switch x := n.(type) {
				case *ast.CaseClause:
					names := map[string]bool{}
					for _, te := range x.List {
						if tv, ok := info.Types[te]; ok && tv.IsType() {
							if nn := namedOf(tv.Type); nn != nil {
								names[nn.Obj().Name()] = true
							}
						}
					}
					armStack = append(armStack, names)
					children(n, visit)
					armStack = armStack[:len(armStack)-1]
					return
				case *ast.CompositeLit:
					if tv, ok := info.Types[x]; ok {
						nn := namedOf(tv.Type)
						if nn != nil && nn.Obj().Pkg() != nil && relPkg(nn.Obj().Pkg().Path()) == "ir" {
							name := nn.Obj().Name()
							rebuild := false
							for _, a := range armStack {
								if a[name] {
									rebuild = true
								}
							}
							if !rebuild {
								if out[name] == nil {
									out[name] = map[string]bool{}
								}
								out[name][rel] = true
							}
						}
					}
				}
				children(n, visit)
			}
			visit(f)
		}
	}
	c.cache["producedIn"] = out
	return out
}

// mem2regOnly reports whether a variant is constructed only under dxil/.
func (c *Ctx) dxilOnly(variant string) bool {
	pk := c.producedIn()[variant]
	if len(pk) == 0 {
		return false
	}
	for rel := range pk {
		if !strings.HasPrefix(rel, "dxil") {
			return false
		}
	}
	return true
}

// neverProduced: no composite literal of the variant anywhere in library code.
func (c *Ctx) neverProduced(variant string) bool { return len(c.producedIn()[variant]) == 0 }

// ---------------------------------------------------------------------------

type walkException struct {
	Visitor string // pkg.Func/Sum
	Variant string // variant or variant.path ; "*" not allowed
	Reason  string
}

type handlewalkConfig struct {
	Rule       string
	Handle     handleSpec
	Sums       []string // sum types judged
	PkgFilter  func(rel string) bool
	FuncFilter func(v *visitor) bool
	Remappers  bool
	Walkers    bool
	Confirmed  map[string]bool // visitor ids confirmed as complete walkers (checked even below threshold)
	MinCarrying int            // walkers: smallest number of H-carrying variants for the 3/4 majority rule (default 6)
	Exceptions []walkException
	Family     string
}

func (c *Ctx) runHandlewalk(r *Report, cfg handlewalkConfig) map[*types.Func]string {
	roles := map[*types.Func]string{}
	sums := c.sumTypes("ir")
	exc := map[string]string{}
	for _, e := range cfg.Exceptions {
		exc[e.Visitor+"|"+e.Variant] = e.Reason
	}
	want := map[string]bool{}
	for _, s := range cfg.Sums {
		want[s] = true
	}
	minCarrying := cfg.MinCarrying
	if minCarrying == 0 {
		minCarrying = 6
	}
	var vs []*visitor
	for _, v := range c.visitors() {
		if !want[v.Sum.Name] {
			continue
		}
		if cfg.PkgFilter != nil && !cfg.PkgFilter(v.Func.Pkg.Rel) {
			continue
		}
		if cfg.FuncFilter != nil && !cfg.FuncFilter(v) {
			continue
		}
		vs = append(vs, v)
	}
	sort.Slice(vs, func(i, j int) bool { return vs[i].id() < vs[j].id() })
	nRem, nWalk := 0, 0
	for _, v := range vs {
		// H-carrying variants of this sum
		type vp struct {
			name  string
			paths []hpath
		}
		var carrying []vp
		for _, vn := range v.Sum.Variants {
			ps := variantPaths(sums, vn, cfg.Handle)
			if len(ps) > 0 {
				carrying = append(carrying, vp{vn.Obj().Name(), ps})
			}
		}
		if len(carrying) == 0 {
			continue
		}
		cov := c.coverageOf(v, cfg.Handle, map[*visitor]bool{})
		// role
		nRemapArms := 0
		full, touched := 0, 0
		for _, cp := range carrying {
			ac, ok := cov.Arms[cp.name]
			if !ok {
				continue
			}
			if len(ac.Remapped) > 0 {
				nRemapArms++
			}
			all := true
			for _, p := range cp.paths {
				if !ac.Mentioned[p.Path] {
					all = false
				}
			}
			if all {
				full++
			}
			if len(ac.Mentioned) > 0 {
				touched++
			}
		}
		isRemapper := cfg.Remappers && (nRemapArms >= 2 || (nRemapArms >= 1 && len(carrying) <= 4))
		role := ""
		switch {
		case isRemapper && cfg.Remappers:
			role = "remapper"
		case !isRemapper && cfg.Walkers && (cfg.Confirmed[v.id()] || (len(carrying) >= minCarrying && (full*4 >= len(carrying)*3 || (touched*10 >= len(carrying)*9 && full*2 >= len(carrying))))):
			role = "walker"
		}
		if role == "" {
			continue
		}
		if role == "remapper" {
			nRem++
		} else {
			nWalk++
		}
		if v.Func.Obj != nil {
			roles[v.Func.Obj] = role
		}
		rule := cfg.Rule + "." + role
		for _, cp := range carrying {
			ac := cov.Arms[cp.name]
			var pos token.Pos = v.Pos
			if a := v.Arms[cp.name]; a != nil {
				pos = a.Pos
			}
			for _, p := range cp.paths {
				construct := v.id() + ":" + cp.name + "." + p.Path
				okp := ac.Mentioned[p.Path]
				if role == "remapper" {
					okp = ac.Written[p.Path]
				}
				if okp {
					r.ok(rule, construct, c.pos(pos), "")
					continue
				}
				// discharge through exceptions / producer set
				if reason, ok := exc[v.id()+"|"+cp.name+"."+p.Path]; ok {
					r.exc(rule, construct, c.pos(pos), reason)
					continue
				}
				if reason, ok := exc[v.id()+"|"+cp.name]; ok {
					r.exc(rule, construct, c.pos(pos), reason)
					continue
				}
				if reason, ok := exc[v.id()+"|*"]; ok { // the whole (single, named) visitor function is exempt
					r.exc(rule, construct, c.pos(pos), reason)
					continue
				}
				if c.neverProduced(cp.name) {
					r.exc(rule, construct, c.pos(pos), "variant "+cp.name+" is never constructed in library code (producer set empty)")
					continue
				}
				if c.dxilOnly(cp.name) && !strings.HasPrefix(v.Func.Pkg.Rel, "dxil") {
					r.exc(rule, construct, c.pos(pos), "variant "+cp.name+" is constructed only by the DXIL pre-emission passes; this visitor is outside dxil/ (assumption: no non-DXIL pass runs on a module after mem2reg)")
					continue
				}
				verb := "never reads"
				if role == "remapper" {
					verb = "renumbers other handles but never rewrites"
				}
				arm := "has no arm for the variant"
				if cov.Has[cp.name] {
					arm = "its arm skips the field"
				}
				r.viol(rule, construct, c.pos(pos), fmt.Sprintf("%s %s %s %s.%s (%s)", v.Func.id(), verb, cfg.Handle.Name, cp.name, p.Path, arm))
			}
			for i, x := range ac.Cross {
				construct := v.id() + ":" + cp.name + "." + x
				if reason, ok := exc[v.id()+"|"+cp.name+"."+x]; ok {
					r.exc(cfg.Rule+".crosswire", construct, c.pos(ac.CrossPos[i]), reason)
					continue
				}
				r.viol(cfg.Rule+".crosswire", construct, c.pos(ac.CrossPos[i]), fmt.Sprintf("%s assigns %s.%s from a different handle field of the same node", v.Func.id(), cp.name, x))
			}
		}
	}
	r.inst(cfg.Family+".remappers", nRem)
	r.inst(cfg.Family+".walkers", nWalk)
	return roles
}

// dumpVisitors prints the measured inventory (used while arming rules).
func (c *Ctx) dumpVisitors(h handleSpec, sumNames ...string) {
	sums := c.sumTypes("ir")
	want := map[string]bool{}
	for _, s := range sumNames {
		want[s] = true
	}
	for _, v := range c.visitors() {
		if !want[v.Sum.Name] {
			continue
		}
		cov := c.coverageOf(v, h, map[*visitor]bool{})
		carrying, full, written, touched := 0, 0, 0, 0
		var missing []string
		for _, vn := range v.Sum.Variants {
			ps := variantPaths(sums, vn, h)
			if len(ps) == 0 {
				continue
			}
			carrying++
			ac := cov.Arms[vn.Obj().Name()]
			all := true
			for _, p := range ps {
				if !ac.Mentioned[p.Path] {
					all = false
					missing = append(missing, vn.Obj().Name()+"."+p.Path)
				}
			}
			if all {
				full++
			}
			if len(ac.Remapped) > 0 {
				written++
			}
			if len(ac.Mentioned) > 0 {
				touched++
			}
		}
		if touched == 0 {
			continue
		}
		if len(missing) > 8 {
			missing = append(missing[:8], "...")
		}
		fmt.Printf("%-70s %s carrying=%d full=%d touched=%d written=%d deleg=%d missing=%v\n", v.id(), c.pos(v.Pos), carrying, full, touched, written, len(v.Delegates), missing)
	}
}
