package main

import (
	"go/ast"
	"go/types"
	"strings"
)

// continue.forwardnest (C03, C05): a backend that renders some `continue` as
// "flag = true; break;" (it has a continue-forwarding context: a type with
// methods exitSwitch and continueEncountered) must let every construct that a
// `break` leaves take part: each function that writes the case bodies of an
// ir.StmtSwitch (a call that receives <case>.Body of an ir.SwitchCase) enters
// the context (a method named enter*) and leaves it with exitSwitch, so that
// the break is repeated after a nested switch. Otherwise a continue inside a
// switch nested in a forwarding switch only leaves the inner switch.
func (c *Ctx) runContinueForwardNest(r *Report, rule string, inPkg func(string) bool) {
	n := 0
	for _, fn := range c.allFuncs() {
		if !inPkg(fn.Pkg.Rel) || fn.Obj == nil || fn.Decl.Body == nil {
			continue
		}
		// the package has a forwarding context
		var ctxType *types.Named
		scope := fn.Pkg.Types.Scope()
		for _, name := range scope.Names() {
			tn, ok := scope.Lookup(name).(*types.TypeName)
			if !ok {
				continue
			}
			nm, ok := tn.Type().(*types.Named)
			if !ok {
				continue
			}
			has := map[string]bool{}
			ms := types.NewMethodSet(types.NewPointer(nm))
			for i := 0; i < ms.Len(); i++ {
				has[ms.At(i).Obj().Name()] = true
			}
			if has["exitSwitch"] && has["continueEncountered"] {
				ctxType = nm
			}
		}
		if ctxType == nil {
			continue
		}
		info := fn.Pkg.Info
		sig := fn.Obj.Type().(*types.Signature)
		hasSwitchParam := false
		for i := 0; i < sig.Params().Len(); i++ {
			if irTypeName(derefType(sig.Params().At(i).Type())) == "StmtSwitch" {
				hasSwitchParam = true
			}
		}
		if !hasSwitchParam {
			continue
		}
		writesBodies, enters, exits := false, false, false
		ast.Inspect(fn.Decl.Body, func(m ast.Node) bool {
			call, ok := m.(*ast.CallExpr)
			if !ok {
				return true
			}
			writer := false
			if f := calleeOf(info, call); f != nil {
				res := f.Type().(*types.Signature).Results()
				writer = res.Len() == 1 && res.At(0).Type().String() == "error"
			}
			for _, a := range call.Args {
				if !writer {
					break
				}
				if sel, ok := ast.Unparen(a).(*ast.SelectorExpr); ok && sel.Sel.Name == "Body" {
					if tv, ok := info.Types[sel.X]; ok && irTypeName(derefType(tv.Type)) == "SwitchCase" {
						writesBodies = true
					}
				}
			}
			if f := calleeOf(info, call); f != nil {
				if rs := f.Type().(*types.Signature).Recv(); rs != nil && namedOf(rs.Type()) == ctxType {
					if strings.HasPrefix(f.Name(), "enter") && f.Name() != "enterLoop" {
						enters = true
					}
					if f.Name() == "exitSwitch" {
						exits = true
					}
				}
			}
			return true
		})
		if !writesBodies {
			continue
		}
		n++
		cons := fn.id() + ":caseBodies"
		if enters && exits {
			r.ok(rule, cons, c.pos(fn.Decl.Pos()), "")
		} else {
			r.viol(rule, cons, c.pos(fn.Decl.Pos()), fn.id()+" writes the case bodies of a switch without entering the continue-forwarding context ("+ctxType.Obj().Name()+"): a continue rendered as `flag = true; break;` inside this switch, itself nested in a forwarding switch, leaves only this switch and the statements after it still run")
		}
	}
	r.inst(rule, n)
}

func init() {
	dumpers["continuefwd"] = func(c *Ctx, parts []string) {
		r := newReport("dump")
		c.runContinueForwardNest(r, "continue.forwardnest", func(string) bool { return true })
		for _, o := range r.Obs {
			println(o.Verdict, o.Construct, o.Pos)
		}
	}
}
