package main

// checked = emitted: a reserved-word test in a function that produces a
// spelling must be applied to the spelling that is produced. For every
// `if P(x)` (P: a func(string) bool that consults a package-level string-keyed
// table) inside a string-returning function, x must be the value that is
// returned or the one the guarded branch modifies; testing the raw input while
// emitting a sanitised variant lets a name whose sanitised form is a keyword
// through unescaped.

import (
	"go/ast"
	"go/types"
)

func (c *Ctx) keywordPredicates() map[*types.Func]bool {
	if v, ok := c.cache["kwpreds"]; ok {
		return v.(map[*types.Func]bool)
	}
	out := map[*types.Func]bool{}
	isTable := func(obj types.Object) bool {
		v, ok := obj.(*types.Var)
		if !ok || v.Parent() == nil || v.Pkg() == nil || v.Parent() != v.Pkg().Scope() {
			return false
		}
		m, ok := types.Unalias(v.Type()).Underlying().(*types.Map)
		if !ok {
			return false
		}
		b, ok := types.Unalias(m.Key()).Underlying().(*types.Basic)
		return ok && b.Kind() == types.String
	}
	for round := 0; round < 2; round++ {
		for _, fn := range c.allFuncs() {
			if fn.Obj == nil || out[fn.Obj] {
				continue
			}
			sig := fn.Obj.Type().(*types.Signature)
			if sig.Params().Len() != 1 || sig.Results().Len() != 1 {
				continue
			}
			pb, ok := types.Unalias(sig.Params().At(0).Type()).Underlying().(*types.Basic)
			rb, ok2 := types.Unalias(sig.Results().At(0).Type()).Underlying().(*types.Basic)
			if !ok || !ok2 || pb.Kind() != types.String || rb.Kind() != types.Bool {
				continue
			}
			info := fn.Pkg.Info
			hit := false
			ast.Inspect(fn.Decl.Body, func(n ast.Node) bool {
				switch x := n.(type) {
				case *ast.Ident:
					if isTable(info.Uses[x]) {
						hit = true
					}
				case *ast.SelectorExpr:
					if isTable(info.Uses[x.Sel]) {
						hit = true
					}
				case *ast.CallExpr:
					if callee := calleeOf(info, x); callee != nil && out[callee.Origin()] {
						hit = true
					}
				}
				return !hit
			})
			if hit {
				out[fn.Obj] = true
			}
		}
	}
	c.cache["kwpreds"] = out
	return out
}

func (c *Ctx) runCheckedEmitted(r *Report, rule string, pkg func(string) bool) {
	preds := c.keywordPredicates()
	n := 0
	for _, fn := range c.allFuncs() {
		if pkg != nil && !pkg(fn.Pkg.Rel) {
			continue
		}
		if fn.Obj == nil {
			continue
		}
		sig := fn.Obj.Type().(*types.Signature)
		if sig.Results().Len() == 0 {
			continue
		}
		if b, ok := types.Unalias(sig.Results().At(0).Type()).Underlying().(*types.Basic); !ok || b.Kind() != types.String {
			continue
		}
		info := fn.Pkg.Info
		// variables appearing in return statements
		returned := map[types.Object]bool{}
		ast.Inspect(fn.Decl.Body, func(m ast.Node) bool {
			if rs, ok := m.(*ast.ReturnStmt); ok {
				for _, e := range rs.Results {
					ast.Inspect(e, func(k ast.Node) bool {
						if id, ok := k.(*ast.Ident); ok {
							if o := info.Uses[id]; o != nil {
								returned[o] = true
							}
						}
						return true
					})
				}
			}
			return true
		})
		ord := 0
		ast.Inspect(fn.Decl.Body, func(m ast.Node) bool {
			ifs, ok := m.(*ast.IfStmt)
			if !ok {
				return true
			}
			ast.Inspect(ifs.Cond, func(k ast.Node) bool {
				call, ok := k.(*ast.CallExpr)
				if !ok || len(call.Args) != 1 {
					return true
				}
				callee := calleeOf(info, call)
				if callee == nil || !preds[callee.Origin()] {
					return true
				}
				id, ok := ast.Unparen(call.Args[0]).(*ast.Ident)
				if !ok {
					return true
				}
				obj := info.Uses[id]
				n++
				ord++
				construct := fn.id() + ":" + callee.Name() + "(" + id.Name + ")#" + itoa(ord)
				// modified in the guarded body?
				modified := false
				ast.Inspect(ifs.Body, func(b ast.Node) bool {
					if as, ok := b.(*ast.AssignStmt); ok {
						for _, l := range as.Lhs {
							if lid, ok := ast.Unparen(l).(*ast.Ident); ok && info.Uses[lid] == obj {
								modified = true
							}
						}
					}
					return !modified
				})
				// the guarded body returns an expression built from it?
				if returned[obj] || modified {
					r.ok(rule, construct, c.pos(call.Pos()), "the tested spelling is the one returned / adjusted")
				} else {
					r.viol(rule, construct, c.pos(call.Pos()), fn.id()+" tests "+id.Name+" with the reserved-word predicate "+callee.Name()+" but returns a different value: the spelling that is emitted is not the one that was checked")
				}
				return true
			})
			return true
		})
	}
	r.inst("namecheck.sites", n)
}

func init() {
	dumpers["namecheck"] = func(c *Ctx, parts []string) {
		r := newReport("dump")
		c.runCheckedEmitted(r, "names.checked-emitted", nil)
		for _, o := range r.Obs {
			println(o.Verdict, o.Construct, o.Pos)
		}
	}
}
