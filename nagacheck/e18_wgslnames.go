package main

// names.wgsltable (C17, C08, C06): the frontend turns WGSL keywords into IR
// enum members through package-level map literals map[string]ir.<Enum>
// (builtin values, address spaces, texel formats, math builtins). The IR
// constants are named after the WGSL words, so for every entry the key and the
// constant must be the same word once case, underscores and the enum's common
// prefix are removed ("vertex_index" / BuiltinVertexIndex). An entry that maps
// a keyword to a sibling constant gives the attribute another meaning in
// every backend at once; aliases that differ on purpose are listed.

import (
	"go/ast"
	"go/constant"
	"go/types"
	"strings"
)

var wgslNameAliases = map[string]string{
	"clip_distances": "ClipDistance",  // WGSL spells the builtin in the plural
	"quantizeToF16":  "QuantizeF16",   // IR name drops the "To"
	"outerProduct":   "Outer",         // not a WGSL builtin; IR name abbreviated
	"rg11b10float":   "Rg11b10Ufloat", // older spelling of rg11b10ufloat kept as an alias
}

func normWord(s string) string {
	return strings.ToLower(strings.ReplaceAll(s, "_", ""))
}

func commonPrefix(names []string) string {
	if len(names) == 0 {
		return ""
	}
	p := names[0]
	for _, n := range names[1:] {
		for !strings.HasPrefix(n, p) {
			p = p[:len(p)-1]
		}
	}
	return p
}

func (c *Ctx) runWGSLNameTables(r *Report, rule string, pkgRel string) {
	n := 0
	p := c.pkg(pkgRel)
	info := p.TypesInfo
	for _, f := range p.Syntax {
		for _, d := range f.Decls {
			gd, ok := d.(*ast.GenDecl)
			if !ok {
				continue
			}
			for _, sp := range gd.Specs {
				vs, ok := sp.(*ast.ValueSpec)
				if !ok || len(vs.Values) != 1 || len(vs.Names) != 1 {
					continue
				}
				lit, ok := vs.Values[0].(*ast.CompositeLit)
				if !ok {
					continue
				}
				tv, ok := info.Types[lit]
				if !ok {
					continue
				}
				mt, ok := tv.Type.Underlying().(*types.Map)
				if !ok {
					continue
				}
				if b, ok := mt.Key().Underlying().(*types.Basic); !ok || b.Kind() != types.String {
					continue
				}
				enum := irTypeName(mt.Elem())
				if enum == "" {
					continue
				}
				if _, isBasic := mt.Elem().Underlying().(*types.Basic); !isBasic {
					continue
				}
				var consts []string
				for _, k := range c.enumConsts("ir", enum) {
					consts = append(consts, k.Name())
				}
				prefix := commonPrefix(consts)
				for _, el := range lit.Elts {
					kv, ok := el.(*ast.KeyValueExpr)
					if !ok {
						continue
					}
					ktv, ok := info.Types[kv.Key]
					if !ok || ktv.Value == nil || ktv.Value.Kind() != constant.String {
						continue
					}
					key := constant.StringVal(ktv.Value)
					cname := irConstName(info, kv.Value)
					if cname == "" {
						continue
					}
					n++
					cons := vs.Names[0].Name + ":" + key
					want := strings.TrimPrefix(cname, prefix)
					ok2 := normWord(key) == normWord(want) || wgslNameAliases[key] == want
					if ok2 {
						r.ok(rule, cons, c.pos(kv.Pos()), "")
					} else {
						r.viol(rule, cons, c.pos(kv.Pos()), "table "+vs.Names[0].Name+" maps the WGSL word \""+key+"\" to ir."+cname+", whose name is a different word: the keyword gets the meaning of a sibling member of "+enum)
					}
				}
			}
		}
	}
	r.inst("names.wgsltable", n)
}

func init() {
	dumpers["wgslnames"] = func(c *Ctx, parts []string) {
		r := newReport("dump")
		c.runWGSLNameTables(r, "names.wgsltable", "wgsl/internal/lower")
		for _, o := range r.Obs {
			if o.Verdict != OK {
				println(o.Verdict, o.Construct, o.Pos, o.Msg)
			}
		}
		println(r.Instances["names.wgsltable"])
	}
}
