package main

import (
	"go/ast"
	"go/types"
)

func init() {
	register("C19", propC19)
	register("C07", propC07)
}

func propC19(c *Ctx, r *Report) {
	r.Clauses = append(r.Clauses,
		"positions are inert (E11): every read of a source position (parser.Span / parser.Position values and the Line/Column/Offset fields of positions and tokens) in the lowerer flows directly into a diagnostic or a position-typed variable; none is compared, computed with, branched on or stored into an IR value - so whitespace, comment and line-break edits cannot reach the lowered module through positions")
	r.NotDecided = append(r.NotDecided,
		"acceptance equivalence under the edits; the body of the comment skipper (nesting depth) and of the number / identifier scanners; '>>' / '>=' splitting in the parser; redundant parentheses in the parser, trailing commas in lists parsed without a loop (array<T, N,>); renaming invariance (declaration ordering by dependency, name-keyed maps)")
	c.runPositionSinks(r, "pos.sink", "wgsl/internal/lower")
	r.floor("positions.reads", 5)
	r.Clauses = append(r.Clauses, userShadowClause+" - renaming a function to a name shaped like a built-in (vecs, step, min) must not change what a call means")
	c.runUserShadow(r, "call.usershadow", "wgsl/internal/lower")
	r.floor("call.usershadow", 1)
	r.Clauses = append(r.Clauses, splitRemainderClause)
	c.runSplitRemainder(r, "lex.splitremainder", "wgsl/internal/parser")
	r.floor("lex.splitremainder", 4)
	r.floor("lex.tokenSpellings", 60)
	r.Clauses = append(r.Clauses, "syntax-tree walkers (E3): every function reachable from the parser / lowerer entry points that walks the parser's tree (a type switch over Expr, Stmt, Type or Decl nodes using every child in >= 3/4 of its arms) uses every child node of every variant it has an arm for and, when it has no default arm, has an arm for every variant that has children (dependency ordering that misses a reference makes acceptance depend on declaration order)")
	c.runFrontendASTWalkers(r, "frontend")
	r.Clauses = append(r.Clauses, "token characters (E20): in the lexer's punctuation scanner the characters consumed on the path to every addToken(K) - case label, successful match() tests, advance() calls - spell exactly the WGSL token K, and the block-comment skipper is entered with exactly \"/*\" consumed (so a comment or operator never shifts the position from which the following text is lexed)")
	c.runLexerTokenChars(r, "lex.tokenchars")
	r.floor("lex.tokenchars", 40)
	r.Clauses = append(r.Clauses, "nested comment delimiters (E20): in the lexer method that tracks block-comment nesting, every branch that increments or decrements the nesting counter consumes exactly two characters (advance() in the branch or in the enclosing switch's init statement, successful match() in the condition)")
	c.runNestDelim(r, "lex.nestdelim")
	r.floor("lex.nestdelim", 2)
	r.Clauses = append(r.Clauses, "template list ends (E49): every expectation of the '>' that closes a template list goes through the one helper that also splits '>>', '>=' and '>>='")
	c.runTemplateClose(r, "template.close", "wgsl/internal/parser")
	r.floor("template.close", 5)
	r.Clauses = append(r.Clauses, headerSemiClause)
	c.runHeaderSemicolon(r, "parse.headersemi", "wgsl/internal/parser")
	r.floor("parse.headersemi", 8)
	r.Clauses = append(r.Clauses, "block-scoped local names in dependency ordering (E7): the function of the parser's dependency collector that walks the statements of a block gives them a set of local names of its own, so a name declared inside a block does not hide a module-scope declaration after the block (acceptance must not depend on declaration order)")
	c.runDepBlockScope(r, "scope.depblock")
	r.floor("scope.depblock", 1)
	r.Clauses = append(r.Clauses, "trailing commas (E9): every parser loop over a comma-separated list (it goes round again after match(TokenComma)) tests the closing token again before the next element - in the loop condition or at the top of the body - so `f(a, b,)` is accepted whenever `f(a, b)` is")
	c.runListLoops(r, "parse.listloop")
	r.floor("parser.listloops", 5)
	r.floor("frontend.astwalkers", 8)
}

// fieldReads counts reads of ir.<T>.<field> per package.
func (c *Ctx) fieldReads(typeName, field string) map[string]int {
	out := map[string]int{}
	for _, fn := range c.allFuncs() {
		info := fn.Pkg.Info
		ast.Inspect(fn.Decl.Body, func(n ast.Node) bool {
			sel, ok := n.(*ast.SelectorExpr)
			if !ok || sel.Sel.Name != field {
				return true
			}
			if s := info.Selections[sel]; s == nil || s.Kind() != types.FieldVal {
				return true
			}
			if tv, ok := info.Types[sel.X]; ok && irTypeName(tv.Type) == typeName {
				out[fn.Pkg.Rel]++
			}
			return true
		})
	}
	return out
}

func propC07(c *Ctx, r *Report) {
	r.Clauses = append(r.Clauses,
		"layout consumption (E8): the IR keeps the WGSL layout only as StructMember.Offset, StructType.Span and ArrayType.Stride (there is no @align/@size in the IR); each backend that emits host-shareable structs and arrays reads each of these fields somewhere in its code generator - a backend that never reads a field cannot place data at the offsets it prescribes")
	r.NotDecided = append(r.NotDecided,
		"the offset/size/stride arithmetic of lowering, that each read is used on every emission path, the padding arithmetic of the MSL/HLSL writers, std140/std430 coincidence in GLSL")
	fields := [][2]string{{"StructMember", "Offset"}, {"StructType", "Span"}, {"ArrayType", "Stride"}}
	backends := []string{"spirv/internal/codegen", "hlsl/internal/codegen", "msl/internal/codegen", "glsl/internal/codegen"}
	n := 0
	for _, f := range fields {
		reads := c.fieldReads(f[0], f[1])
		for _, b := range backends {
			n++
			construct := b + ":ir." + f[0] + "." + f[1]
			if reads[b] > 0 {
				r.ok("layout.consumed", construct, "", "")
			} else if reason, ok := layoutExceptions[construct]; ok {
				r.exc("layout.consumed", construct, "", reason)
			} else {
				r.viol("layout.consumed", construct, "", "backend "+b+" never reads ir."+f[0]+"."+f[1]+": it cannot place buffer data at the layout the IR prescribes")
			}
		}
	}
	r.Clauses = append(r.Clauses, "matrix layout through arrays (E13): every site of the SPIR-V backend that emits a MatrixStride member decoration found its matrix by unwrapping array types in a loop (all nesting levels), not once")
	c.runSeeThrough(r, "layout.seethrough")
	r.floor("layout.seethrough", 2)
	r.Clauses = append(r.Clauses, "literal text (E10): no strconv.Parse* / Atoi / fmt.Sscan* call in the frontend receives the raw Value text of a parser.Literal (which keeps the WGSL suffix and may be hexadecimal); numeric text goes through the lowerer's literal parsers, so @workgroup_size(64u), @align(0x10), @id(3u) and suffixed override defaults are not silently replaced by defaults")
	c.runLiteralRawParse(r, "literal.rawparse", inPkgs("wgsl"), literalRawParseExceptions)
	r.floor("literal.parses", 25)
	r.Clauses = append(r.Clauses, "vector alignment factors (E25): every switch over an ir.VectorSize value whose arms only assign or return an integer constant (the alignment / column-stride factor tables of the IR layouter, the size helpers and the SPIR-V MatrixStride decorations) maps Vec2 -> 2 and Vec3, Vec4 -> 4")
	c.runVecFactor(r, "layout.vecfactor", func(string) bool { return true })
	r.floor("layout.vecfactor", 5)
	r.Clauses = append(r.Clauses, "struct alignment (E31): the alignment a struct declaration's span is rounded up to - into which the members' @align attributes flow - is persisted by the lowerer and read by the StructType arm of every (alignment, size) function, so a struct nested in another struct or in an array is aligned by AlignOf(S) including @align")
	c.runStructAlign(r, "layout.structalign", "wgsl/internal/lower")
	r.floor("layout.structalign", 2)
	r.Clauses = append(r.Clauses, "declarator extents (E50): a self-recursive function that prints one [extent] per array level prints its own extent before recursing into the element type (HLSL, GLSL)")
	c.runExtentOrder(r, "array.extentorder", inPkgs("hlsl", "glsl", "msl"))
	r.floor("array.extentorder", 2)
	r.Clauses = append(r.Clauses, attrsIndepClause)
	c.runAttrsIndependent(r, "attrs.independent", inPkgs("wgsl"))
	r.floor("attrs.independent", 2)
	r.Clauses = append(r.Clauses, "column stride (E25): every call of a vector alignment factor table function that passes a field of a matrix type passes Rows (the stride between columns is the alignment of a column vector)")
	c.runColStride(r, "layout.colstride", func(string) bool { return true })
	r.floor("layout.colstride", 3)
	r.Clauses = append(r.Clauses, roundUpClause+" - here: member offsets, struct spans and array strides in the lowerer and the alignment helpers of the backends")
	r.Clauses = append(r.Clauses, "per-element padding (E87): in the ir.ArrayType arm of a layout function the round-up idiom is applied to the element size, never to a value that already contains the element count")
	c.runArrayRound(r, "layout.arrayround", inPkgs("wgsl/internal/lower", "ir"))
	r.floor("layout.arrayround", 1)
	c.runRoundUp(r, "arith.roundup", inPkgs("wgsl/internal/lower", "ir", "hlsl", "msl", "glsl", "spirv"), "arith.roundup")
	r.floor("arith.roundup", 8)
	r.inst("layout.fields", n)
	r.floor("layout.fields", 12)
}

var layoutExceptions = map[string]string{
	"spirv/internal/codegen:ir.StructType.Span": "SPIR-V has no struct-size decoration: member Offset decorations and ArrayStride carry the whole layout, so Span is not needed by this backend",
}

const splitRemainderClause = "template close splitting (E82): where the parser answers a token kind X by a helper that consumes one '>' and rewrites the current token to kind K with lexeme L, spelling(X) = \">\" + L and spelling(K) = L in the package's token-name table"
