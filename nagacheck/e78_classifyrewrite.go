package main

import (
	"go/ast"
	"go/types"
)

// classify.rewritten (C13): a transformation pass first classifies its
// candidates (a walk over the statements that clears an `eligible` flag on
// uses it cannot handle) and then rewrites the survivors. Where the classifier
// has an arm for a statement kind in which a candidate may stay eligible (a
// path through the arm that does not clear the flag), the rewriting side of
// the package (the functions that assign expression kinds or rebuild
// statements) must have code for that statement kind too: sroa kept a struct
// eligible under a whole-struct store "we'll decompose it" and never rewrote
// the store.
func (c *Ctx) runClassifyRewritten(r *Report, rule string, inPkg func(string) bool, exceptions map[string]string) {
	n := 0
	byPkg := map[string][]*funcInfo{}
	for _, fn := range c.allFuncs() {
		if inPkg(fn.Pkg.Rel) && fn.Obj != nil && fn.Decl.Body != nil {
			byPkg[fn.Pkg.Rel] = append(byPkg[fn.Pkg.Rel], fn)
		}
	}
	for pkg, fns := range byPkg {
		// rewriters: functions assigning to `.Kind` of an expression / building statements of kind K
		handled := map[string]bool{}
		for _, fn := range fns {
			info := fn.Pkg.Info
			isRewriter := false
			ast.Inspect(fn.Decl.Body, func(m ast.Node) bool {
				if as, ok := m.(*ast.AssignStmt); ok {
					for _, l := range as.Lhs {
						if se, ok := l.(*ast.SelectorExpr); ok && se.Sel.Name == "Kind" {
							isRewriter = true
						}
					}
				}
				return true
			})
			if !isRewriter && !buildsStatements(info, fn) {
				continue
			}
			ast.Inspect(fn.Decl.Body, func(m ast.Node) bool {
				if id, ok := m.(*ast.Ident); ok {
					if tn, ok := info.Uses[id].(*types.TypeName); ok && len(tn.Name()) > 4 && tn.Name()[:4] == "Stmt" {
						handled[tn.Name()] = true
					}
				}
				return true
			})
		}
		// classifiers: type switch over statement kinds with an arm that assigns `.eligible = false`
		for _, fn := range fns {
			info := fn.Pkg.Info
			ast.Inspect(fn.Decl.Body, func(m ast.Node) bool {
				ts, ok := m.(*ast.TypeSwitchStmt)
				if !ok || !typeSwitchOnKind(ts) {
					return true
				}
				for _, cl := range ts.Body.List {
					cc := cl.(*ast.CaseClause)
					kind := ""
					for _, e := range cc.List {
						if t, ok := info.Types[e]; ok {
							kind = irTypeName(derefType(t.Type))
						}
					}
					if len(kind) < 5 || kind[:4] != "Stmt" {
						continue
					}
					if kind == "" || kind == "StmtIf" || kind == "StmtLoop" || kind == "StmtSwitch" || kind == "StmtBlock" {
						continue
					}
					clears, keeps := false, false
					ast.Inspect(cc, func(k ast.Node) bool {
						if as, ok := k.(*ast.AssignStmt); ok {
							for i, l := range as.Lhs {
								if se, ok := l.(*ast.SelectorExpr); ok && se.Sel.Name == "eligible" && i < len(as.Rhs) {
									if id, ok := as.Rhs[i].(*ast.Ident); ok && id.Name == "false" {
										clears = true
									}
								}
							}
						}
						// a `continue` nested under a condition inside the arm keeps the candidate eligible
						if is, ok := k.(*ast.IfStmt); ok {
							ast.Inspect(is.Body, func(q ast.Node) bool {
								if bs, ok := q.(*ast.BranchStmt); ok && bs.Tok.String() == "continue" {
									// not the "already ineligible" early continue: `if !info.eligible { continue }`
									if ue, ok := is.Cond.(*ast.UnaryExpr); ok {
										if se, ok := ue.X.(*ast.SelectorExpr); ok && se.Sel.Name == "eligible" {
											return true
										}
									}
									keeps = true
								}
								return true
							})
						}
						return true
					})
					if !clears || !keeps {
						continue
					}
					n++
					cons := fn.id() + ":" + kind
					switch {
					case handled[kind]:
						r.ok(rule, cons, c.pos(cc.Pos()), "")
					case exceptions[cons] != "":
						r.exc(rule, cons, c.pos(cc.Pos()), exceptions[cons])
					default:
						r.viol(rule, cons, c.pos(cc.Pos()), fn.id()+" keeps a candidate eligible on some "+kind+" that touches it, but no rewriting function of "+pkg+" has code for "+kind+": the statement is left as it was while the candidate's other uses are rewritten")
					}
				}
				return true
			})
		}
	}
	r.inst(rule, n)
}

func buildsStatements(info *types.Info, fn *funcInfo) bool {
	found := false
	ast.Inspect(fn.Decl.Body, func(m ast.Node) bool {
		if cl, ok := m.(*ast.CompositeLit); ok {
			if tv, ok := info.Types[cl]; ok && irTypeName(tv.Type) == "Statement" {
				found = true
			}
		}
		return true
	})
	return found
}

func init() {
	dumpers["classifyrewrite"] = func(c *Ctx, parts []string) {
		r := newReport("dump")
		c.runClassifyRewritten(r, "classify.rewritten", inPkgs("dxil/internal/passes", "ir"), nil)
		for _, o := range r.Obs {
			println(o.Verdict, o.Construct, o.Pos)
		}
	}
}
