package main

// blockpred.quantifier (C13, C03-C05): a self-recursive boolean predicate over a
// block of statements is either universal ("every statement is ...": it ends
// with `return true` and answers false at the first statement that fails) or
// existential ("some statement ...": it ends with `return false`). For an `if`
// statement the universal kind must hold for BOTH arms, the existential kind
// for EITHER arm. The way the clause for ir.StmtIf combines the recursive
// answers for Accept and Reject is evaluated over the four truth assignments:
// a universal predicate must answer false unless both are true, an existential
// one true unless both are false. (De Morgan slips - !(a || b) for !a || !b -
// leave every test with symmetric arms green.)

import (
	"go/ast"
	"go/token"
	"go/types"
)

// evalBool evaluates e under an assignment of the two recursive calls; ok=false if e has other atoms.
func evalBoolExpr(e ast.Expr, atom func(ast.Expr) (bool, bool)) (bool, bool) {
	e = ast.Unparen(e)
	if v, ok := atom(e); ok {
		return v, true
	}
	switch x := e.(type) {
	case *ast.UnaryExpr:
		if x.Op == token.NOT {
			v, ok := evalBoolExpr(x.X, atom)
			return !v, ok
		}
	case *ast.BinaryExpr:
		a, ok1 := evalBoolExpr(x.X, atom)
		b, ok2 := evalBoolExpr(x.Y, atom)
		if !ok1 || !ok2 {
			return false, false
		}
		switch x.Op {
		case token.LAND:
			return a && b, true
		case token.LOR:
			return a || b, true
		case token.EQL:
			return a == b, true
		case token.NEQ:
			return a != b, true
		}
	case *ast.Ident:
		if x.Name == "true" {
			return true, true
		}
		if x.Name == "false" {
			return false, true
		}
	}
	return false, false
}

func (c *Ctx) runBlockPredQuantifier(r *Report, rule string, pkgs func(string) bool) {
	n := 0
	for _, fn := range c.allFuncs() {
		if !pkgs(fn.Pkg.Rel) || fn.Obj == nil {
			continue
		}
		sig := fn.Obj.Type().(*types.Signature)
		if sig.Results().Len() != 1 {
			continue
		}
		if b, ok := sig.Results().At(0).Type().Underlying().(*types.Basic); !ok || b.Kind() != types.Bool {
			continue
		}
		info := fn.Pkg.Info
		// last statement: return <const>
		if len(fn.Decl.Body.List) == 0 {
			continue
		}
		last, ok := fn.Decl.Body.List[len(fn.Decl.Body.List)-1].(*ast.ReturnStmt)
		if !ok || len(last.Results) != 1 {
			continue
		}
		lid, ok := last.Results[0].(*ast.Ident)
		if !ok || (lid.Name != "true" && lid.Name != "false") {
			continue
		}
		universal := lid.Name == "true"
		// StmtIf clauses with recursive calls on .Accept and .Reject
		ast.Inspect(fn.Decl.Body, func(m ast.Node) bool {
			cc, ok := m.(*ast.CaseClause)
			if !ok {
				return true
			}
			isIf := false
			for _, l := range cc.List {
				if tv, ok := info.Types[l]; ok && irTypeName(tv.Type) == "StmtIf" {
					isIf = true
				}
			}
			if !isIf {
				return true
			}
			arm := func(e ast.Expr) string {
				call, ok := ast.Unparen(e).(*ast.CallExpr)
				if !ok {
					return ""
				}
				if f := calleeOf(info, call); f == nil || f.Origin() != fn.Obj {
					return ""
				}
				for _, a := range call.Args {
					if se, ok := ast.Unparen(a).(*ast.SelectorExpr); ok && (se.Sel.Name == "Accept" || se.Sel.Name == "Reject") {
						return se.Sel.Name
					}
				}
				return ""
			}
			// expressions that mention both arms
			var exprs []ast.Expr
			var ctx []string // "if-return-false", "if-return-true", "return"
			ast.Inspect(cc, func(k ast.Node) bool {
				var e ast.Expr
				kind := ""
				switch x := k.(type) {
				case *ast.IfStmt:
					if len(x.Body.List) == 1 {
						if rs, ok := x.Body.List[0].(*ast.ReturnStmt); ok && len(rs.Results) == 1 {
							if id, ok := rs.Results[0].(*ast.Ident); ok && (id.Name == "true" || id.Name == "false") {
								e, kind = x.Cond, "if-return-"+id.Name
							}
						}
					}
				case *ast.ReturnStmt:
					if len(x.Results) == 1 {
						e, kind = x.Results[0], "return"
					}
				}
				if e == nil {
					return true
				}
				hasA, hasR := false, false
				ast.Inspect(e, func(q ast.Node) bool {
					if qe, ok := q.(ast.Expr); ok {
						switch arm(qe) {
						case "Accept":
							hasA = true
						case "Reject":
							hasR = true
						}
					}
					return true
				})
				if hasA && hasR {
					exprs = append(exprs, e)
					ctx = append(ctx, kind)
				}
				return true
			})
			for i, e := range exprs {
				n++
				cons := fn.id() + ":StmtIf"
				if i > 0 {
					cons += "#" + itoa(i+1)
				}
				bad := ""
				decided := true
				for _, av := range []bool{false, true} {
					for _, rv := range []bool{false, true} {
						v, ok := evalBoolExpr(e, func(x ast.Expr) (bool, bool) {
							switch arm(x) {
							case "Accept":
								return av, true
							case "Reject":
								return rv, true
							}
							return false, false
						})
						if !ok {
							decided = false
							continue
						}
						// the answer of the clause for this assignment, when the expression decides it
						var answer, answers bool
						switch ctx[i] {
						case "return":
							answer, answers = v, true
						case "if-return-false":
							if v {
								answer, answers = false, true
							}
						case "if-return-true":
							if v {
								answer, answers = true, true
							}
						}
						want := av && rv
						if !universal {
							want = av || rv
						}
						if answers && answer != want {
							bad = "Accept=" + boolStr(av) + ", Reject=" + boolStr(rv) + " answers " + boolStr(answer)
						}
						// a universal predicate must answer false here when an arm fails: an if-return-false that does not fire lets it fall through to true
						if !answers && ctx[i] == "if-return-false" && universal && !want {
							bad = "Accept=" + boolStr(av) + ", Reject=" + boolStr(rv) + " is not rejected"
						}
						if !answers && ctx[i] == "if-return-true" && !universal && want {
							bad = "Accept=" + boolStr(av) + ", Reject=" + boolStr(rv) + " is not accepted"
						}
					}
				}
				q := "universal (ends with return true)"
				if !universal {
					q = "existential (ends with return false)"
				}
				switch {
				case !decided:
					r.triv(rule, cons, c.pos(e.Pos()), "the combination has atoms other than the two recursive calls")
				case bad != "":
					r.viol(rule, cons, c.pos(e.Pos()), fn.id()+" is a "+q+" predicate over blocks, but its clause for StmtIf combines the answers for the two arms so that "+bad+": "+types.ExprString(e))
				default:
					r.ok(rule, cons, c.pos(e.Pos()), q)
				}
			}
			return true
		})
	}
	r.inst("blockpred.quantifier", n)
}

func boolStr(b bool) string {
	if b {
		return "true"
	}
	return "false"
}

func init() {
	dumpers["blockpred"] = func(c *Ctx, parts []string) {
		r := newReport("dump")
		c.runBlockPredQuantifier(r, "blockpred.quantifier", func(string) bool { return true })
		for _, o := range r.Obs {
			println(o.Verdict, o.Construct, o.Pos, o.Msg)
		}
	}
}
