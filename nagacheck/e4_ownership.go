package main

// E4 ownership: clone freshness vs write-through.
//
// A backend / override pass that must not modify the caller's module works on
// a *clone*: a function K that copies the module struct (dst := *src) and then
// re-allocates some of its containers. Code that afterwards mutates the clone
// may *write through* a slice, pointer or map (x.f[i] = v, *x.f = v, x.f[k] = v):
// if that container was not re-allocated by K it is still the caller's memory.
//
//   W  = container keys (ir struct type, field) — or bare ir slice types — that
//        the mutators reachable from the entry write through;
//   F  = access paths from the module root that K re-allocates (fresh), some of
//        them deeply (through a deep cloner function);
//   obligation: every access path from the module root whose container key is
//   in W is fresh in K (exactly, or below a deep-fresh prefix).

import (
	"fmt"
	"go/ast"
	"go/token"
	"go/types"
	"sort"
	"strings"
)

type wtSite struct {
	Key  string // "Type.field" or "type:Block"
	Pos  token.Pos
	Func *funcInfo
}

func irTypeName(t types.Type) string {
	n := namedOf(t)
	if n == nil || n.Obj().Pkg() == nil || relPkg(n.Obj().Pkg().Path()) != "ir" {
		return ""
	}
	return n.Obj().Name()
}

func isContainer(t types.Type) bool {
	switch types.Unalias(t).Underlying().(type) {
	case *types.Slice, *types.Pointer, *types.Map:
		return true
	}
	return false
}

// throughKeys: the containers an lvalue expression writes through.
// elemPtrKeys: locals defined as p := &S.F[i] (a pointer to an element of an ir slice field): a write through p
// writes the storage of S.F.
var elemPtrKeys = map[types.Object]string{}

func noteElemPtrs(info *types.Info, body ast.Node) {
	ast.Inspect(body, func(n ast.Node) bool {
		as, ok := n.(*ast.AssignStmt)
		if !ok || len(as.Lhs) != len(as.Rhs) {
			return true
		}
		for i := range as.Lhs {
			id, ok := as.Lhs[i].(*ast.Ident)
			if !ok {
				continue
			}
			u, ok := ast.Unparen(as.Rhs[i]).(*ast.UnaryExpr)
			if !ok || u.Op != token.AND {
				continue
			}
			ix, ok := ast.Unparen(u.X).(*ast.IndexExpr)
			if !ok {
				continue
			}
			sel, ok := ast.Unparen(ix.X).(*ast.SelectorExpr)
			if !ok {
				continue
			}
			if tv, ok := info.Types[sel.X]; ok {
				if tn := irTypeName(tv.Type); tn != "" {
					if o := info.ObjectOf(id); o != nil {
						elemPtrKeys[o] = tn + "." + sel.Sel.Name
					}
				}
			}
		}
		return true
	})
}

func throughKeys(info *types.Info, lhs ast.Expr) []string {
	var keys []string
	var walk func(e ast.Expr)
	containerKey := func(x ast.Expr) string {
		// x is the expression denoting the container (slice/pointer/map)
		switch y := ast.Unparen(x).(type) {
		case *ast.Ident:
			if k, ok := elemPtrKeys[info.Uses[y]]; ok {
				return k
			}
		case *ast.SelectorExpr:
			if sel := info.Selections[y]; sel != nil && sel.Kind() == types.FieldVal {
				if tv, ok := info.Types[y.X]; ok {
					if tn := irTypeName(tv.Type); tn != "" {
						return tn + "." + y.Sel.Name
					}
				}
			}
		case *ast.CallExpr:
			// conversion: []Statement(s.Block)
			if len(y.Args) == 1 {
				if tv, ok := info.Types[y.Fun]; ok && tv.IsType() {
					return ""
				}
			}
		}
		// bare container value of a named ir slice type (param / local): type-level key
		if tv, ok := info.Types[x]; ok {
			if n, ok := types.Unalias(tv.Type).(*types.Named); ok && n.Obj().Pkg() != nil && relPkg(n.Obj().Pkg().Path()) == "ir" {
				if _, isSlice := n.Underlying().(*types.Slice); isSlice {
					return "type:" + n.Obj().Name()
				}
			}
			if s, ok := types.Unalias(tv.Type).(*types.Slice); ok {
				if en := irTypeName(s.Elem()); en == "Statement" {
					return "type:Block"
				}
			}
		}
		return ""
	}
	walk = func(e ast.Expr) {
		switch x := ast.Unparen(e).(type) {
		case *ast.IndexExpr:
			if tv, ok := info.Types[x.X]; ok && isContainer(tv.Type) {
				if k := containerKey(x.X); k != "" {
					keys = append(keys, k)
				}
			}
			walk(x.X)
		case *ast.StarExpr:
			if k := containerKey(x.X); k != "" {
				keys = append(keys, k)
			}
			walk(x.X)
		case *ast.SelectorExpr:
			// x.f.g = v where x.f is a pointer: implicit dereference
			if tv, ok := info.Types[x.X]; ok {
				if _, isPtr := types.Unalias(tv.Type).Underlying().(*types.Pointer); isPtr {
					if k := containerKey(x.X); k != "" {
						keys = append(keys, k)
					}
				}
			}
			walk(x.X)
		case *ast.SliceExpr:
			walk(x.X)
		}
	}
	walk(lhs)
	return keys
}

// writeThroughSites of one function.
func (c *Ctx) writeThroughSites(fn *funcInfo) []wtSite {
	key := "wt:" + fn.id()
	if v, ok := c.cache[key]; ok {
		return v.([]wtSite)
	}
	info := fn.Pkg.Info
	noteElemPtrs(info, fn.Decl.Body)
	var out []wtSite
	add := func(keys []string, pos token.Pos) {
		for _, k := range keys {
			out = append(out, wtSite{Key: k, Pos: pos, Func: fn})
		}
	}
	// locals that hold a fresh container (make / literal / append(nil...)): writes through them are fine
	ast.Inspect(fn.Decl.Body, func(n ast.Node) bool {
		switch x := n.(type) {
		case *ast.AssignStmt:
			for _, l := range x.Lhs {
				if isIdent(l) {
					continue
				}
				add(throughKeys(info, l), l.Pos())
			}
		case *ast.IncDecStmt:
			add(throughKeys(info, x.X), x.Pos())
		case *ast.CallExpr:
			if id, ok := ast.Unparen(x.Fun).(*ast.Ident); ok {
				if b, ok := info.Uses[id].(*types.Builtin); ok && len(x.Args) > 0 {
					switch b.Name() {
					case "delete", "clear", "copy":
						// writes the container's storage itself
						if sel, ok := ast.Unparen(x.Args[0]).(*ast.SelectorExpr); ok {
							if tv, ok := info.Types[sel.X]; ok {
								if tn := irTypeName(tv.Type); tn != "" {
									out = append(out, wtSite{Key: tn + "." + sel.Sel.Name, Pos: x.Pos(), Func: fn})
								}
							}
						}
					}
				}
			}
			// pointer-typed ir field passed to a function that stores through its parameter
			ex := &extractor{c: c, info: info}
			for i, a := range x.Args {
				au := ast.Unparen(a)
				if tv, ok := info.Types[au]; ok {
					if _, isPtr := types.Unalias(tv.Type).Underlying().(*types.Pointer); isPtr {
						if sel, ok := au.(*ast.SelectorExpr); ok && ex.storesThroughParam(x, i) {
							if xt, ok := info.Types[sel.X]; ok {
								if tn := irTypeName(xt.Type); tn != "" {
									out = append(out, wtSite{Key: tn + "." + sel.Sel.Name, Pos: a.Pos(), Func: fn})
								}
							}
						}
					}
				}
			}
		}
		return true
	})
	c.cache[key] = out
	return out
}

// ---------------------------------------------------------------------------
// type-level access paths from ir.Module

type accessPath struct {
	Path string
	Key  string // container key "Type.field"
	Elem types.Type
	Type types.Type
}

func (c *Ctx) modulePaths() []accessPath {
	if v, ok := c.cache["modulePaths"]; ok {
		return v.([]accessPath)
	}
	sums := c.sumTypes("ir")
	p := c.pkg("ir")
	mod := p.Types.Scope().Lookup("Module").Type()
	var out []accessPath
	var walkStruct func(t *types.Named, prefix string, stack map[*types.TypeName]bool)
	var walkValue func(t types.Type, path string, stack map[*types.TypeName]bool)
	walkValue = func(t types.Type, path string, stack map[*types.TypeName]bool) {
		t = types.Unalias(t)
		if n, ok := t.(*types.Named); ok {
			if n.Obj().Pkg() == nil || relPkg(n.Obj().Pkg().Path()) != "ir" {
				return
			}
			if s := sumOf(sums, n); s != nil {
				for _, v := range s.Variants {
					if _, ok := v.Underlying().(*types.Struct); ok {
						walkStruct(v, path+"{"+v.Obj().Name()+"}", stack)
					}
				}
				return
			}
			if _, ok := n.Underlying().(*types.Struct); ok {
				walkStruct(n, path, stack)
				return
			}
		}
	}
	walkStruct = func(t *types.Named, prefix string, stack map[*types.TypeName]bool) {
		if stack[t.Obj()] {
			return // recursion: covered by the deep-fresh requirement on the enclosing container
		}
		stack[t.Obj()] = true
		defer delete(stack, t.Obj())
		st := t.Underlying().(*types.Struct)
		for i := 0; i < st.NumFields(); i++ {
			f := st.Field(i)
			ft := types.Unalias(f.Type())
			path := prefix + "." + f.Name()
			if isContainer(ft) {
				var elem types.Type
				switch u := ft.Underlying().(type) {
				case *types.Slice:
					elem = u.Elem()
				case *types.Pointer:
					elem = u.Elem()
				case *types.Map:
					elem = u.Elem()
				}
				out = append(out, accessPath{Path: strings.TrimPrefix(path, "."), Key: t.Obj().Name() + "." + f.Name(), Elem: elem, Type: ft})
				sub := path
				if _, isSlice := ft.Underlying().(*types.Slice); isSlice {
					sub += "[]"
				}
				walkValue(elem, sub, stack)
				continue
			}
			walkValue(ft, path, stack)
		}
	}
	walkStruct(mod.(*types.Named), "", map[*types.TypeName]bool{})
	c.cache["modulePaths"] = out
	return out
}

// keysUnder: container keys (and bare types) reachable below a value of type t (type-level, recursion cut).
func (c *Ctx) keysUnder(t types.Type) map[string]bool {
	sums := c.sumTypes("ir")
	out := map[string]bool{}
	seen := map[*types.TypeName]bool{}
	var walk func(t types.Type)
	walk = func(t types.Type) {
		t = types.Unalias(t)
		switch u := t.(type) {
		case *types.Named:
			if u.Obj().Pkg() == nil || relPkg(u.Obj().Pkg().Path()) != "ir" || seen[u.Obj()] {
				return
			}
			seen[u.Obj()] = true
			if s := sumOf(sums, u); s != nil {
				for _, v := range s.Variants {
					walk(v)
				}
				return
			}
			switch uu := u.Underlying().(type) {
			case *types.Struct:
				for i := 0; i < uu.NumFields(); i++ {
					f := uu.Field(i)
					if isContainer(f.Type()) {
						out[u.Obj().Name()+"."+f.Name()] = true
					}
					walk(f.Type())
				}
			case *types.Slice:
				out["type:"+u.Obj().Name()] = true
				walk(uu.Elem())
			}
		case *types.Slice:
			walk(u.Elem())
		case *types.Pointer:
			walk(u.Elem())
		case *types.Map:
			walk(u.Elem())
		}
	}
	walk(t)
	return out
}

// ---------------------------------------------------------------------------
// clone analysis

type freshPath struct {
	Path string
	Deep bool
	Pos  token.Pos
}

// isFreshExpr: the expression allocates new storage.
func (c *Ctx) isFreshExpr(info *types.Info, e ast.Expr, w map[string]bool, depth int) (fresh, deep bool) {
	switch x := ast.Unparen(e).(type) {
	case *ast.CompositeLit:
		return true, false
	case *ast.UnaryExpr:
		if x.Op == token.AND {
			return true, false // &local / &T{}
		}
	case *ast.CallExpr:
		if id, ok := ast.Unparen(x.Fun).(*ast.Ident); ok {
			if b, ok := info.Uses[id].(*types.Builtin); ok {
				switch b.Name() {
				case "make", "new":
					return true, false
				case "append":
					// append([]T(nil), src...) / append(T(nil), ...)
					if len(x.Args) >= 1 {
						a0 := ast.Unparen(x.Args[0])
						if conv, ok := a0.(*ast.CallExpr); ok && len(conv.Args) == 1 && isNil(info, conv.Args[0]) {
							return true, false
						}
						if isNil(info, a0) {
							return true, false
						}
					}
					return false, false
				}
			}
		}
		// a deep cloner: static callee returning the parameter's type with all
		// W keys below that type re-allocated
		if callee := calleeOf(info, x); callee != nil {
			if fi := c.funcByObj(callee); fi != nil && depth < 4 {
				if c.isDeepCloner(fi, w, depth+1) {
					return true, true
				}
			}
		}
	}
	return false, false
}

// isDeepCloner: fi returns a value of (one of) its parameter's ir type, and every
// container key in W that lies below that type is assigned a fresh value
// somewhere in fi or in the deep cloners it calls (field-level judgement).
func (c *Ctx) isDeepCloner(fi *funcInfo, w map[string]bool, depth int) bool {
	key := "deep:" + fi.id()
	if v, ok := c.cache[key]; ok {
		return v.(bool)
	}
	c.cache[key] = true // coinductive assumption for recursion
	sig := fi.Obj.Type().(*types.Signature)
	if sig.Results().Len() == 0 || sig.Params().Len() == 0 {
		c.cache[key] = false
		return false
	}
	rt := sig.Results().At(0).Type()
	same := false
	for i := 0; i < sig.Params().Len(); i++ {
		if types.Identical(sig.Params().At(i).Type(), rt) {
			same = true
		}
	}
	if !same {
		c.cache[key] = false
		return false
	}
	need := map[string]bool{}
	for k := range c.keysUnder(rt) {
		if w[k] {
			need[k] = true
		}
	}
	got := c.freshKeysIn(fi, w, depth, map[*types.Func]bool{})
	// the result container itself
	if n, ok := types.Unalias(rt).(*types.Named); ok {
		if _, isSlice := n.Underlying().(*types.Slice); isSlice {
			delete(need, "type:"+n.Obj().Name())
		}
	}
	ok := true
	for k := range need {
		if !got[k] {
			ok = false
		}
	}
	c.cache[key] = ok
	if !ok {
		var miss []string
		for k := range need {
			if !got[k] {
				miss = append(miss, k)
			}
		}
		sort.Strings(miss)
		c.cache["deepmiss:"+fi.id()] = miss
	}
	return ok
}

// freshKeysIn: container keys (Type.field) assigned a fresh value in fi (and
// in same-package helpers it calls with an ir node argument).
func (c *Ctx) freshKeysIn(fi *funcInfo, w map[string]bool, depth int, seen map[*types.Func]bool) map[string]bool {
	out := map[string]bool{}
	if seen[fi.Obj] || depth > 5 {
		return out
	}
	seen[fi.Obj] = true
	info := fi.Pkg.Info
	// rebuild targets and literals: T{f: fresh} ; x.f = fresh
	ast.Inspect(fi.Decl.Body, func(n ast.Node) bool {
		switch x := n.(type) {
		case *ast.AssignStmt:
			for i, l := range x.Lhs {
				if len(x.Rhs) != len(x.Lhs) {
					continue
				}
				sel, ok := ast.Unparen(l).(*ast.SelectorExpr)
				if !ok {
					continue
				}
				if s := info.Selections[sel]; s == nil || s.Kind() != types.FieldVal {
					continue
				}
				tv, ok := info.Types[sel.X]
				if !ok {
					continue
				}
				tn := irTypeName(tv.Type)
				if tn == "" {
					continue
				}
				if fresh, _ := c.isFreshExpr(info, x.Rhs[i], w, depth); fresh {
					out[tn+"."+sel.Sel.Name] = true
				} else if c.freshLocal(fi, x.Rhs[i]) {
					out[tn+"."+sel.Sel.Name] = true
				}
			}
		case *ast.CompositeLit:
			tv, ok := info.Types[x]
			if !ok {
				return true
			}
			tn := irTypeName(tv.Type)
			if tn == "" {
				return true
			}
			for _, el := range x.Elts {
				if kv, ok := el.(*ast.KeyValueExpr); ok {
					if id, ok := kv.Key.(*ast.Ident); ok {
						if fresh, _ := c.isFreshExpr(info, kv.Value, w, depth); fresh || c.freshLocal(fi, kv.Value) {
							out[tn+"."+id.Name] = true
						}
					}
				}
			}
		case *ast.CallExpr:
			if callee := calleeOf(info, x); callee != nil && callee.Pkg() == fi.Obj.Pkg() {
				if sub := c.funcByObj(callee); sub != nil && sub != fi {
					for k := range c.freshKeysIn(sub, w, depth+1, seen) {
						out[k] = true
					}
				}
			}
		}
		return true
	})
	return out
}

// freshLocal: e is a local variable whose every definition in fi is a fresh expression
// (x := make(...); v := *p ... &v handled by isFreshExpr).
func (c *Ctx) freshLocal(fi *funcInfo, e ast.Expr) bool {
	id, ok := ast.Unparen(e).(*ast.Ident)
	if !ok {
		return false
	}
	info := fi.Pkg.Info
	obj := info.Uses[id]
	if obj == nil {
		return false
	}
	defs, fresh := 0, 0
	ast.Inspect(fi.Decl.Body, func(n ast.Node) bool {
		as, ok := n.(*ast.AssignStmt)
		if !ok || len(as.Lhs) != len(as.Rhs) {
			return true
		}
		for i, l := range as.Lhs {
			lid, ok := l.(*ast.Ident)
			if !ok {
				continue
			}
			if info.Defs[lid] == obj || (as.Tok == token.ASSIGN && info.Uses[lid] == obj) {
				// x = append(x, ...) keeps freshness
				if call, ok := ast.Unparen(as.Rhs[i]).(*ast.CallExpr); ok {
					if fid, ok := ast.Unparen(call.Fun).(*ast.Ident); ok {
						if b, ok := info.Uses[fid].(*types.Builtin); ok && b.Name() == "append" && len(call.Args) > 0 {
							if a0, ok := ast.Unparen(call.Args[0]).(*ast.Ident); ok && info.Uses[a0] == obj {
								continue
							}
						}
					}
				}
				defs++
				if f, _ := c.isFreshExpr(info, as.Rhs[i], nil, 9); f {
					fresh++
				}
			}
		}
		return true
	})
	// var x T (zero value, then appended to) counts as fresh
	if defs == 0 {
		if v, ok := obj.(*types.Var); ok && !v.IsField() {
			isParam := false
			sig := fi.Obj.Type().(*types.Signature)
			for i := 0; i < sig.Params().Len(); i++ {
				if sig.Params().At(i) == v {
					isParam = true
				}
			}
			if !isParam && v.Pkg() == fi.Obj.Pkg() && v.Parent() != v.Pkg().Scope() {
				return true
			}
		}
		return false
	}
	return defs == fresh
}

type cloneSpec struct {
	Name     string
	CloneFn  string   // function containing the clone (dst := *src)
	Mutators []string // entries whose reachable functions mutate the clone
	MutPkgs  func(string) bool
	Exc      map[string]string // path -> reason
}

func (c *Ctx) runClone(r *Report, rule string, sp cloneSpec) {
	kf := c.lookupFunc(sp.CloneFn)
	if kf == nil || c.funcByObj(kf) == nil {
		r.undecided(rule, sp.Name, "", "clone function "+sp.CloneFn+" not found")
		return
	}
	kfi := c.funcByObj(kf)
	info := kfi.Pkg.Info
	// the clone variable: local defined as *param (or param deref copy) of type ir.Module
	var cloneObj types.Object
	ast.Inspect(kfi.Decl.Body, func(n ast.Node) bool {
		as, ok := n.(*ast.AssignStmt)
		if !ok || as.Tok != token.DEFINE || len(as.Lhs) != 1 || len(as.Rhs) != 1 || cloneObj != nil {
			return true
		}
		if st, ok := ast.Unparen(as.Rhs[0]).(*ast.StarExpr); ok {
			if tv, ok := info.Types[st.X]; ok && irTypeName(tv.Type) == "Module" {
				if id, ok := as.Lhs[0].(*ast.Ident); ok {
					cloneObj = info.Defs[id]
				}
			}
		}
		return true
	})
	if cloneObj == nil {
		r.undecided(rule, sp.Name, c.pos(kfi.Decl.Pos()), "no `dst := *src` module copy found in "+sp.CloneFn)
		return
	}
	// W: write-through keys of the mutators
	var ments []*types.Func
	for _, m := range sp.Mutators {
		f := c.lookupFunc(m)
		if f == nil {
			r.undecided(rule, sp.Name, "", "mutator entry "+m+" not found")
			return
		}
		ments = append(ments, f)
	}
	reach := c.reach(ments...)
	w := map[string]bool{}
	wsite := map[string]wtSite{}
	for _, fn := range c.allFuncs() {
		if fn.Obj == nil || !reach[fn.Obj] {
			continue
		}
		if sp.MutPkgs != nil && !sp.MutPkgs(fn.Pkg.Rel) {
			continue
		}
		for _, s := range c.writeThroughSites(fn) {
			if !w[s.Key] {
				w[s.Key] = true
				wsite[s.Key] = s
			}
		}
	}
	// F: fresh paths in the clone function
	ex := &extractor{c: c, info: info, roots: map[types.Object]string{cloneObj: ""}, seenFn: map[*types.Func]bool{}}
	var fresh []freshPath
	ast.Inspect(kfi.Decl.Body, func(n ast.Node) bool {
		as, ok := n.(*ast.AssignStmt)
		if !ok || len(as.Lhs) != len(as.Rhs) {
			return true
		}
		for i, l := range as.Lhs {
			// aliases: f := &dst.Functions[i]
			if id, ok := l.(*ast.Ident); ok && as.Tok == token.DEFINE {
				if p, ok := ex.rooted(as.Rhs[i]); ok {
					if obj := info.Defs[id]; obj != nil {
						ex.roots[obj] = p
					}
				}
				continue
			}
			p, ok := ex.rooted(l)
			if !ok || isIdent(l) {
				continue
			}
			if f, deep := c.isFreshExpr(info, as.Rhs[i], w, 0); f {
				fresh = append(fresh, freshPath{Path: normPath(p), Deep: deep, Pos: l.Pos()})
			} else if c.freshLocal(kfi, as.Rhs[i]) {
				fresh = append(fresh, freshPath{Path: normPath(p), Pos: l.Pos()})
			}
		}
		return true
	})
	isFresh := func(path string) (bool, bool) {
		for _, f := range fresh {
			if f.Path == path {
				return true, f.Deep
			}
			if f.Deep && strings.HasPrefix(path, f.Path) {
				return true, true
			}
		}
		return false, false
	}
	n := 0
	for _, ap := range c.modulePaths() {
		needSelf := w[ap.Key]
		if !needSelf {
			if nn, ok := types.Unalias(ap.Type).(*types.Named); ok && w["type:"+nn.Obj().Name()] {
				needSelf = true
			}
		}
		// containers whose elements recurse (Block): W keys below require deep freshness
		needDeep := false
		var deepWhy string
		if blockSpec.Match(ap.Type) {
			for k := range c.keysUnder(ap.Type) {
				if w[k] && k != "type:Block" {
					needDeep = true
					deepWhy = k
					break
				}
			}
			if w["type:Block"] {
				needSelf = true
			}
		}
		if !needSelf && !needDeep {
			continue
		}
		n++
		construct := sp.Name + ":" + ap.Path
		f, deep := isFresh(ap.Path)
		site := wsite[ap.Key]
		if site.Func == nil {
			site = wsite["type:Block"]
		}
		where := ""
		if site.Func != nil {
			where = " (written through by " + site.Func.id() + " at " + c.pos(site.Pos) + ")"
		}
		switch {
		case f && (deep || !needDeep):
			r.ok(rule, construct, c.pos(kfi.Decl.Pos()), "")
		case sp.Exc[ap.Path] != "":
			r.exc(rule, construct, c.pos(kfi.Decl.Pos()), sp.Exc[ap.Path])
		case f && needDeep:
			r.viol(rule, construct, c.pos(kfi.Decl.Pos()), fmt.Sprintf("%s re-allocates %s only one level deep, but nested containers below it (e.g. %s) are written through by the mutators: the caller's module is modified", sp.CloneFn, ap.Path, deepWhy))
		default:
			r.viol(rule, construct, c.pos(kfi.Decl.Pos()), fmt.Sprintf("%s does not re-allocate %s, which the code working on the clone writes through%s: the caller's module is modified", sp.CloneFn, ap.Path, where))
		}
	}
	r.inst("clone."+sp.Name, n)
	var wk []string
	for k := range w {
		wk = append(wk, k)
	}
	sort.Strings(wk)
	r.Extra["write_through_keys."+sp.Name] = wk
}
