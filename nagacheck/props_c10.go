package main

// triaged site by site (findings/abort/abort.md); keyed by function + kind
var abortExceptions = map[string]string{
	"dxil/internal/bitcode.EncodeChar6:panic":                            "only caller is Writer.WriteChar6, which has no caller outside tests",
	"spirv/internal/codegen.Backend.getRayQueryPointerTypeID:panic":      "emitTypes() has already emitted and cached every module type (or made Compile return an error) before any function body runs; the later emitType call returns from the cache with a nil error",
	"spirv/internal/codegen.Backend.writeRayQueryInitialize:panic":       "same invariant as getRayQueryPointerTypeID: the types were emitted by emitTypes before function bodies",
	"spirv/internal/codegen.Backend.writeRayQueryGetIntersection:panic":  "same invariant as getRayQueryPointerTypeID",
	"dxil/internal/emit.Emitter.tryShlAndCombine:assert":                 "peelToAndExpr returns true only after a comma-ok ExprBinary check on the same handle",
	"dxil/internal/emit.Emitter.tryLoadVectorFromFlatArray:assert":       "isConst is the ok of a comma-ok ExprAccessIndex test on ptrExpr; the function is entered only for ExprAccess / ExprAccessIndex pointer expressions",
	"dxil/internal/emit.Emitter.resolveBindingArrayUAVChainFromGV:assert": "the only call with isDynamicIndex=false sits under a comma-ok ExprAccessIndex check on the same ai.Base",
	"dxil/internal/passes/mem2reg.phiWalker.handleIf:assert":             "called only from the matching case of walkBlock's type switch on the same statement",
	"dxil/internal/passes/mem2reg.phiWalker.handleSwitch:assert":         "called only from the matching case of walkBlock's type switch on the same statement",
	"dxil/internal/passes/mem2reg.phiWalker.handleLoop:assert":           "called only from the matching case of walkBlock's type switch on the same statement",
	"glsl/internal/codegen.Writer.writeImageGlobalDecl:assert":           "sole caller is inside case ir.ImageType on the same Types[global.Type]",
	"hlsl/internal/codegen.Writer.writeImageQueryExpression:assert":      "qt == imageQuerySizeLevel is derived from a type switch on e.Query that yields that value only for ImageQuerySize",
	"hlsl/internal/codegen.Writer.writeStructDefinition:assert":          "guarded by isMatCx2Type, which does the comma-ok MatrixType test on the same handle",
	"hlsl/internal/codegen.Writer.writeSingleStructConstructor:assert":   "guarded by isMatCx2Type / isArrayOfMatCx2Type, which do the comma-ok test on the same handle",
	"spirv/internal/codegen.Backend.emitFunctionImpl:assert":             "input.isStruct is set only inside a comma-ok StructType check for the same entry-point argument",
	"spirv/internal/codegen.ExpressionEmitter.emitStatement:assert":      "output.isStruct is set only inside a comma-ok StructType check for the same entry-point result",
	"wgsl/internal/lower.Lowerer.lowerMatrixScalarConstruct:assert":      "sole caller is gated by isMatrixScalarConstruct, which does the comma-ok on cons.Type",
	"dxil/internal/emit.Emitter.resolveCBVRegIndex:intdiv":               "divisor is a ScalarType.Width; every scalar the lowerer can put into a uniform type tree has width 1, 2, 4 or 8 and ir.Validate rejects width 0 (hand-built IR only: findings/abort/3-6_ironly_test.go)",
	"dxil/internal/emit.Emitter.emitCBVMultiRegLoad:intdiv":              "divisor is a ScalarType.Width in {1,2,4,8} for every module the lowerer returns (hand-built IR only)",
}

var argIndexExceptions = map[string]string{
	"wgsl/internal/parser.DependencyOrder:decls[i]": "i is a node of the dependency graph: the closure is only called with the index of `for i := range decls` and with values of nameToIdx, which are such indices",
}

func init() { register("C10", propC10) }

func propC10(c *Ctx, r *Report) {
	r.Clauses = append(r.Clauses,
		"abort inventory (E9): in every library function, (i) bounds guards are not off by one: an index s[i] protected by a comparison of i with len(s) is not protected by `i > len(s)` / `i <= len(s)`, and a constant index s[c] is not reached under guards that only establish len(s) >= m with m <= c; (ii) explicit panic / log.Fatal / os.Exit calls, (iii) single-value type assertions not protected by a comma-ok or type switch on the same expression in the function, (iv) integer divisions whose divisor is never compared with zero in the function - each such site is either shown unreachable by a written invariant or reported")
	r.NotDecided = append(r.NotDecided,
		"index-out-of-range on slices other than parser-node lists and with computed indices, nil dereference in general, stack depth of recursive descent, termination, time and memory bounds (allocation sizes driven by array lengths in the source)")
	c.runPanicfree(r, nil, nil, abortExceptions)
	r.Clauses = append(r.Clauses, "source-controlled lengths (E9, zone-style dataflow over go/cfg with per-parameter call-site facts): every index expression with a constant or local-variable index on a slice of parser nodes (call arguments, template parameters, attribute arguments, declarations - their length is chosen by the source text), and every local-variable index into a fixed-size array (swizzle patterns, component buffers), is proven below the length on every path: from len() comparisons, range loops, constant assignments/increments, slicing and append, and the minimum length every caller of an unexported function establishes for the slice it passes")
	r.Assumptions = append(r.Assumptions, "abort.argindex assumes that a value of type ir.VectorSize is at most 4 (the IR only defines Vec2, Vec3, Vec4 and the frontend creates no other): loops bounded by int(x.Size) index [4]-arrays in range")
	c.runArgIndex(r, "abort.argindex", inPkgs("wgsl", "ir", "naga"), argIndexExceptions)
	r.floor("abort.argindex", 120)
	r.Clauses = append(r.Clauses, "no unmemoised re-lowering (E9): a function of the lowerer that hands an initialiser kept as syntax (an entry of a map[string]parser.Expr field, looked up by name) to a lowering call at each use of the name also memoises the lowered result under that name - otherwise a chain of n declarations costs 2^n lowerings")
	c.runRelower(r, "time.relower")
	r.floor("time.relower", 1)
	r.Clauses = append(r.Clauses, sameSliceClause, memoNilClause)
	c.runBoundsSameSlice(r, "bounds.sameslice", func(string) bool { return true })
	r.floor("bounds.sameslice", 300)
	c.runMemoNilResult(r, "memo.nilresult", func(string) bool { return true })
	r.floor("memo.nilresult", 40)
	r.Clauses = append(r.Clauses, forHeaderClause+" - a break / continue / return in the update clause reached the SPIR-V backend with no open block (nil dereference)")
	c.runForHeader(r, "parse.forheader", "wgsl/internal/parser")
	r.floor("parse.forheader", 8)
	r.Clauses = append(r.Clauses, "parser loops (E9): every loop of the lexer/parser that keeps consuming tokens until some token kind is seen (or has no condition) also tests for the end of input, or repeats only after a specific token was matched - otherwise a truncated source makes the parser spin forever")
	c.runParserLoops(r, "abort.parser-loop")
	r.floor("parser.open-loops", 10)
	r.floor("abort.functions", 3000)
	r.Clauses = append(r.Clauses, "discarded ok (E85): a pointer- or interface-typed `v, _ := x.(T)` is followed by a nil test of v before any other use (expected count on the pinned tree: 0; positive control: seed C10-g)")
	c.runDiscardOk(r, "abort.discardok", func(string) bool { return true })
	r.Clauses = append(r.Clauses, "work follows the input, not a number in it (E97): a text backend or the SPIR-V backend that allocates (make) or loops in Go with the declared element count of an array type compares that count with a limit first - the count costs a few characters of source (armed for glsl, hlsl, msl, spirv; the DXIL emitter's five sites and the lowerer's createZeroComponents are listed by `-dump sourcecount` but not triaged)")
	c.runSourceCount(r, "cost.sourcecount", inPkgs("glsl", "hlsl", "msl", "spirv"), nil)
	r.Clauses = append(r.Clauses, staleHandlesClause+" - a stale handle indexes past the end of the compacted arena (panic on var<private> v: S = S(vec2(1, 2), 3))")
	c.runStaleHandles(r, "phase.stalehandles", "wgsl/internal/lower", nil)
	r.floor("phase.renumberingTails", 1)
	r.floor("phase.afterRenumbering", 8)
	r.Clauses = append(r.Clauses, "define after initializer (E7, go/cfg): in the parser's dependency walk and the lowerer, no call that consumes the initializer or type of a declaration node (d.Init / d.Type as an argument) is reachable in the control-flow graph from a store that defines the declaration's name (a store into a string-keyed map with key d.Name) - the initializer of let/var/const/override is resolved outside the scope of the name it declares (let x = x + 1 reads the outer x; a self-referential initializer can otherwise recurse without end)")
	c.runDefAfterInit(r, "scope.defafterinit", inPkgs("wgsl/internal/lower", parserRel))
	r.floor("scope.definitions", 12)
}
