package main

var abortExceptions = map[string]string{}

func init() { register("C10", propC10) }

func propC10(c *Ctx, r *Report) {
	r.Clauses = append(r.Clauses,
		"abort inventory (E9): in every library function, (i) bounds guards are not off by one: an index s[i] protected by a comparison of i with len(s) is not protected by `i > len(s)` / `i <= len(s)`, and a constant index s[c] is not reached under guards that only establish len(s) >= m with m <= c; (ii) explicit panic / log.Fatal / os.Exit calls, (iii) single-value type assertions not protected by a comma-ok or type switch on the same expression in the function, (iv) integer divisions whose divisor is never compared with zero in the function - each such site is either shown unreachable by a written invariant or reported")
	r.NotDecided = append(r.NotDecided,
		"index-out-of-range and nil dereference in general, stack depth of recursive descent, termination, time and memory bounds (allocation sizes driven by array lengths in the source)")
	c.runPanicfree(r, nil, nil, abortExceptions)
	r.floor("abort.functions", 3000)
}
