package main

// epfunctions.covered (C11, C09, C13): entry-point functions are stored inline in
// Module.EntryPoints[i].Function, NOT in Module.Functions. A function that
// walks Module.Functions and hands each element to a per-function routine G
// (validateFunction, a pass, a collector) processes only the helper functions
// unless G is also applied to every EntryPoints[i].Function - in the same
// function, or in a sibling reached from the same caller. Checked: for every
// G called with an element of a range over <module>.Functions, some function of
// the same package calls G with a value derived from a range over
// <module>.EntryPoints (its .Function field). Otherwise the bodies of entry
// points are never validated / transformed.

import (
	"go/ast"
	"go/types"
	"sort"
)

const epCoverClause = "entry-point bodies (E45): every per-function routine that the validator and the IR passes apply to the elements of Module.Functions is also applied to Module.EntryPoints[i].Function (entry-point functions are stored inline, not in Module.Functions)"

func (c *Ctx) runEPFunctionsCovered(r *Report, rule string, pkgs func(string) bool, exceptions map[string]string) {
	n := 0
	type key struct {
		pkg string
		g   *types.Func
	}
	overFuncs := map[key]*funcInfo{} // G applied to elements of .Functions (first site)
	overEPs := map[key]bool{}
	isModuleField := func(info *types.Info, e ast.Expr, field string) bool {
		se, ok := ast.Unparen(e).(*ast.SelectorExpr)
		if !ok || se.Sel.Name != field {
			return false
		}
		return irTypeName(info.TypeOf(se.X)) == "Module"
	}
	for _, fn := range c.allFuncs() {
		if !pkgs(fn.Pkg.Rel) {
			continue
		}
		info := fn.Pkg.Info
		ast.Inspect(fn.Decl.Body, func(m ast.Node) bool {
			rs, ok := m.(*ast.RangeStmt)
			if !ok {
				return true
			}
			var which string
			switch {
			case isModuleField(info, rs.X, "Functions"):
				which = "Functions"
			case isModuleField(info, rs.X, "EntryPoints"):
				which = "EntryPoints"
			default:
				return true
			}
			// variables holding (a pointer to) the element / its Function
			elem := map[types.Object]bool{}
			if id, ok := rs.Value.(*ast.Ident); ok {
				elem[info.ObjectOf(id)] = true
			}
			keyObj := types.Object(nil)
			if id, ok := rs.Key.(*ast.Ident); ok {
				keyObj = info.ObjectOf(id)
			}
			derives := func(e ast.Expr) bool {
				hit := false
				ast.Inspect(e, func(k ast.Node) bool {
					switch x := k.(type) {
					case *ast.Ident:
						if elem[info.Uses[x]] {
							hit = true
						}
					case *ast.IndexExpr:
						if isModuleField(info, x.X, which) {
							if id, ok := ast.Unparen(x.Index).(*ast.Ident); ok && keyObj != nil && info.Uses[id] == keyObj {
								hit = true
							}
						}
					}
					return !hit
				})
				return hit
			}
			for changed := true; changed; {
				changed = false
				ast.Inspect(rs.Body, func(k ast.Node) bool {
					if as, ok := k.(*ast.AssignStmt); ok && len(as.Lhs) == len(as.Rhs) {
						for i := range as.Lhs {
							if id, ok := as.Lhs[i].(*ast.Ident); ok && derives(as.Rhs[i]) {
								if o := info.ObjectOf(id); o != nil && !elem[o] {
									elem[o] = true
									changed = true
								}
							}
						}
					}
					return true
				})
			}
			ast.Inspect(rs.Body, func(k ast.Node) bool {
				call, ok := k.(*ast.CallExpr)
				if !ok {
					return true
				}
				g := calleeOf(info, call)
				if g == nil || g.Pkg() == nil || g.Pkg() != fn.Pkg.Types {
					return true
				}
				passes := false
				for _, a := range call.Args {
					t := info.TypeOf(a)
					if t == nil {
						continue
					}
					tn := irTypeName(t)
					if p, ok := t.(*types.Pointer); ok {
						tn = irTypeName(p.Elem())
					}
					if tn != "Function" {
						continue
					}
					if derives(a) {
						passes = true
					}
				}
				if !passes {
					return true
				}
				k2 := key{fn.Pkg.Rel, g.Origin()}
				if which == "Functions" {
					if overFuncs[k2] == nil {
						overFuncs[k2] = fn
					}
				} else {
					overEPs[k2] = true
				}
				return true
			})
			return true
		})
	}
	var keys []key
	for k := range overFuncs {
		keys = append(keys, k)
	}
	sort.Slice(keys, func(i, j int) bool {
		if keys[i].pkg != keys[j].pkg {
			return keys[i].pkg < keys[j].pkg
		}
		return keys[i].g.Name() < keys[j].g.Name()
	})
	for _, k := range keys {
		n++
		site := overFuncs[k]
		cons := k.pkg + ":" + k.g.Name()
		switch {
		case overEPs[k]:
			r.ok(rule, cons, c.pos(site.Decl.Pos()), "")
		case exceptions[cons] != "":
			r.exc(rule, cons, c.pos(site.Decl.Pos()), exceptions[cons])
		default:
			r.viol(rule, cons, c.pos(site.Decl.Pos()), site.id()+" applies "+k.g.Name()+" to every element of Module.Functions, and no function of "+k.pkg+" applies it to Module.EntryPoints[i].Function: entry-point functions are stored inline, so their bodies are skipped")
		}
	}
	r.inst("epfunctions.covered", n)
}

func init() {
	dumpers["epcover"] = func(c *Ctx, parts []string) {
		r := newReport("dump")
		c.runEPFunctionsCovered(r, "epfunctions.covered", func(string) bool { return true }, nil)
		for _, o := range r.Obs {
			println(o.Verdict, o.Construct, o.Pos, o.Msg)
		}
	}
}
