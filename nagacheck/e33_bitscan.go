package main

// bitscan.width (C03, C04, C05): WGSL's countTrailingZeros(0) is 32,
// countLeadingZeros(x) is 31 - index of the highest set bit, and the targets'
// bit-scan builtins answer -1 / 0xFFFFFFFF for "no bit set". Where a backend
// spells one of the three polyfill idioms in a string literal, the integer
// constant in it is fixed by the 32-bit width of the operand:
//     min(K, firstbitlow(x)) / min(findLSB(x), K)     K = 32
//     K - firstbithigh(x)    / K - findMSB(x)         K = 31
//     ((ctz(x) + 1) % K) - 1                          K = 33
// The rule is conditional on the idiom: code that computes the result some
// other way has no obligation here.

import (
	"go/ast"
	"go/token"
	"regexp"
	"strconv"
)

var bitscanIdioms = []struct {
	name string
	re   *regexp.Regexp
	want string
}{
	{"min(K,scanlow)", regexp.MustCompile(`min\((\d+)u?, ?(?:firstbitlow|findLSB)\(`), "32"},
	{"min(scanlow,K)", regexp.MustCompile(`min\([^,]*(?:firstbitlow|findLSB)\([^,]*, ?(\d+)u?\)`), "32"},
	{"K-scanhigh", regexp.MustCompile(`(\d+)u? - (?:firstbithigh|findMSB)\(`), "31"},
	{"(ctz+1)%K", regexp.MustCompile(`ctz\(.*\+ ?1\) ?% ?(\d+)`), "33"},
}

func (c *Ctx) runBitscanWidth(r *Report, rule string, pkgs func(string) bool) {
	n := 0
	for _, fn := range c.allFuncs() {
		if !pkgs(fn.Pkg.Rel) {
			continue
		}
		ord := map[string]int{}
		ast.Inspect(fn.Decl.Body, func(m ast.Node) bool {
			lit, ok := m.(*ast.BasicLit)
			if !ok || lit.Kind != token.STRING {
				return true
			}
			s, err := strconv.Unquote(lit.Value)
			if err != nil {
				return true
			}
			for _, id := range bitscanIdioms {
				mm := id.re.FindStringSubmatch(s)
				if mm == nil {
					continue
				}
				n++
				key := fn.id() + ":" + id.name
				ord[key]++
				cons := key + "#" + itoa(ord[key])
				if mm[1] == id.want {
					r.ok(rule, cons, c.pos(lit.Pos()), "")
				} else {
					r.viol(rule, cons, c.pos(lit.Pos()), fn.id()+" spells the bit-scan polyfill "+strconv.Quote(s)+" with the constant "+mm[1]+"; for 32-bit operands the idiom "+id.name+" needs "+id.want+" (the target builtin answers all-ones for a zero operand, WGSL requires 32 / 31 - msb)")
				}
			}
			return true
		})
	}
	r.inst("bitscan.width", n)
}

func init() {
	dumpers["bitscan"] = func(c *Ctx, parts []string) {
		r := newReport("dump")
		c.runBitscanWidth(r, "bitscan.width", func(string) bool { return true })
		for _, o := range r.Obs {
			println(o.Verdict, o.Construct, o.Pos, o.Msg)
		}
	}
}
