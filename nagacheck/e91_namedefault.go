package main

import (
	"go/ast"
	"go/types"
	"strings"
)

// name.silentdefault (C11, C17): a function of the lowerer that translates a
// name written in the source (a string, or a parser type node) into an IR
// enumerant by a table lookup or a switch over the string answers only with
// the enumerant - it has no way to say "no such name". Where its fall-through
// returns an ordinary enumerant and the function reports nothing, a misspelt
// @builtin(...), address space, access mode or texel format is silently
// compiled as some other, valid one (@builtin(bogus) became position,
// var<bogus> a function-space variable). The function must be able to refuse:
// report through addError (directly or transitively), return an error / ok
// result, or every name it does not know must have been rejected before.
func (c *Ctx) runNameSilentDefault(r *Report, rule, rel string, exceptions map[string]string) {
	n := 0
	g := c.graph()
	reports := func(f *types.Func) bool {
		seen := map[*types.Func]bool{f: true}
		stack := []*types.Func{f}
		for len(stack) > 0 {
			x := stack[len(stack)-1]
			stack = stack[:len(stack)-1]
			if x.Name() == "addError" || strings.HasPrefix(x.Name(), "attrArg") {
				return true
			}
			for _, y := range g.out[x] {
				if !seen[y] {
					seen[y] = true
					stack = append(stack, y)
				}
			}
		}
		return false
	}
	for _, fn := range c.allFuncs() {
		if fn.Pkg.Rel != rel || fn.Obj == nil || fn.Decl.Body == nil {
			continue
		}
		sig := fn.Obj.Type().(*types.Signature)
		if sig.Results().Len() != 1 {
			continue
		}
		named, ok := sig.Results().At(0).Type().(*types.Named)
		if !ok || named.Obj().Pkg() == nil || !strings.HasSuffix(named.Obj().Pkg().Path(), "/ir") {
			continue
		}
		if b, ok := named.Underlying().(*types.Basic); !ok || b.Info()&types.IsInteger == 0 {
			continue
		}
		info := fn.Pkg.Info
		// the source name: a string parameter, or a string-typed field of a parser node parameter
		params := map[types.Object]bool{}
		for i := 0; i < sig.Params().Len(); i++ {
			p := sig.Params().At(i)
			if isStringType(p.Type()) || strings.Contains(p.Type().String(), "/parser.") {
				params[p] = true
			}
		}
		if len(params) == 0 {
			continue
		}
		// everything derived from those parameters by local definitions (fixpoint)
		for changed := true; changed; {
			changed = false
			ast.Inspect(fn.Decl.Body, func(k ast.Node) bool {
				as, ok := k.(*ast.AssignStmt)
				if !ok {
					return true
				}
				from := false
				for _, rhs := range as.Rhs {
					ast.Inspect(rhs, func(q ast.Node) bool {
						if qid, ok := q.(*ast.Ident); ok && params[info.ObjectOf(qid)] {
							from = true
						}
						return true
					})
				}
				if !from {
					return true
				}
				for _, lh := range as.Lhs {
					if lid, ok := lh.(*ast.Ident); ok && lid.Name != "_" {
						if o := info.ObjectOf(lid); o != nil && !params[o] {
							if _, isVar := o.(*types.Var); isVar && !isBoolType(o.Type()) {
								params[o] = true
								changed = true
							}
						}
					}
				}
				return true
			})
		}
		isName := func(e ast.Expr) bool {
			if !isStringType(info.TypeOf(e)) {
				return false
			}
			found := false
			ast.Inspect(e, func(m ast.Node) bool {
				if id, ok := m.(*ast.Ident); ok && params[info.ObjectOf(id)] {
					found = true
				}
				return true
			})
			return found
		}
		lookup := false
		ast.Inspect(fn.Decl.Body, func(m ast.Node) bool {
			switch x := m.(type) {
			case *ast.IndexExpr:
				if _, ok := info.TypeOf(x.X).Underlying().(*types.Map); ok && isName(x.Index) {
					lookup = true
				}
			case *ast.SwitchStmt:
				if x.Tag != nil && isName(x.Tag) {
					lookup = true
				}
			}
			return true
		})
		if !lookup {
			continue
		}
		n++
		cons := fn.id()
		// the fall-through answer: the last return of the body / the default arm
		var last *ast.ReturnStmt
		ast.Inspect(fn.Decl.Body, func(m ast.Node) bool {
			if rs, ok := m.(*ast.ReturnStmt); ok && len(rs.Results) == 1 {
				last = rs
			}
			return true
		})
		if last == nil {
			r.ok(rule, cons, c.pos(fn.Decl.Pos()), "")
			continue
		}
		// only an ordinary enumerant can pass for an answer; a literal 0 or a
		// variable is a "none" the caller has to look at
		isConst := false
		switch x := ast.Unparen(last.Results[0]).(type) {
		case *ast.Ident:
			_, isConst = info.ObjectOf(x).(*types.Const)
		case *ast.SelectorExpr:
			_, isConst = info.ObjectOf(x.Sel).(*types.Const)
		}
		if !isConst {
			r.triv(rule, cons, c.pos(last.Pos()), "the fall-through answer is not an enumerant")
			continue
		}
		if why, ok := exceptions[cons]; ok {
			r.exc(rule, cons, c.pos(last.Pos()), why)
			continue
		}
		if reports(fn.Obj) {
			r.ok(rule, cons, c.pos(last.Pos()), "")
			continue
		}
		r.viol(rule, cons, c.pos(last.Pos()), fn.id()+" translates a name written in the source into "+named.Obj().Name()+" and answers "+types.ExprString(last.Results[0])+" for every name it does not know, without reporting: a misspelt name is silently compiled as another, valid one")
	}
	r.inst(rule, n)
}

func isStringType(t types.Type) bool {
	if t == nil {
		return false
	}
	b, ok := t.Underlying().(*types.Basic)
	return ok && b.Info()&types.IsString != 0
}

func init() {
	dumpers["namedefault"] = func(c *Ctx, parts []string) {
		r := newReport("dump")
		c.runNameSilentDefault(r, "name.silentdefault", "wgsl/internal/lower", nil)
		for _, o := range r.Obs {
			println(o.Verdict, o.Construct, o.Pos, o.Msg)
		}
	}
}
