package main

// E6 maporder: iteration over a Go map has a randomised order; the body of a
// `range` over a map must not let that order reach the output. A site is
// order-insensitive when its body only performs commutative effects:
// insert/delete in maps or sets, boolean flags and constant stores, counters,
// min/max updates, appends to a slice that is sorted before any other use,
// existence checks (return of a constant), and loops/ifs over the same.

import (
	"fmt"
	"go/ast"
	"go/token"
	"go/types"
)

type mapRangeSite struct {
	Func    *funcInfo
	Stmt    *ast.RangeStmt
	Ordinal int
	MapExpr string
}

func (s *mapRangeSite) id() string {
	id := s.Func.id() + ":range(" + s.MapExpr + ")"
	if s.Ordinal > 1 {
		id += fmt.Sprintf("#%d", s.Ordinal)
	}
	return id
}

func (c *Ctx) mapRanges(pkg func(string) bool) []*mapRangeSite {
	var out []*mapRangeSite
	for _, fn := range c.allFuncs() {
		if pkg != nil && !pkg(fn.Pkg.Rel) {
			continue
		}
		info := fn.Pkg.Info
		ord := map[string]int{}
		ast.Inspect(fn.Decl.Body, func(n ast.Node) bool {
			rs, ok := n.(*ast.RangeStmt)
			if !ok {
				return true
			}
			tv, ok := info.Types[rs.X]
			if !ok {
				return true
			}
			if _, isMap := types.Unalias(tv.Type).Underlying().(*types.Map); !isMap {
				return true
			}
			me := types.ExprString(rs.X)
			ord[me]++
			out = append(out, &mapRangeSite{Func: fn, Stmt: rs, Ordinal: ord[me], MapExpr: me})
			return true
		})
	}
	return out
}

// classifyMapRange returns "" if the body is order-insensitive, else the reason.
func (c *Ctx) classifyMapRange(s *mapRangeSite) (string, token.Pos) {
	info := s.Func.Pkg.Info
	fn := s.Func
	var keyObj, valObj types.Object
	if id, ok := s.Stmt.Key.(*ast.Ident); ok {
		keyObj = info.Defs[id]
	}
	if id, ok := s.Stmt.Value.(*ast.Ident); ok {
		valObj = info.Defs[id]
	}
	_ = keyObj
	_ = valObj
	// locals declared inside the loop body are per-iteration scratch
	declaredInside := map[types.Object]bool{}
	ast.Inspect(s.Stmt.Body, func(n ast.Node) bool {
		if id, ok := n.(*ast.Ident); ok {
			if obj := info.Defs[id]; obj != nil {
				declaredInside[obj] = true
			}
		}
		return true
	})
	var reason string
	var rpos token.Pos
	fail := func(pos token.Pos, format string, a ...any) {
		if reason == "" {
			reason = fmt.Sprintf(format, a...)
			rpos = pos
		}
	}
	isLocalScratch := func(e ast.Expr) bool {
		switch x := ast.Unparen(e).(type) {
		case *ast.Ident:
			if x.Name == "_" {
				return true
			}
			obj := info.Uses[x]
			if obj == nil {
				obj = info.Defs[x]
			}
			return obj != nil && declaredInside[obj]
		}
		return false
	}
	isConstExpr := func(e ast.Expr) bool {
		tv, ok := info.Types[e]
		return ok && (tv.Value != nil || tv.IsNil())
	}
	var sortedLater func(obj types.Object) bool
	sortedLater = func(obj types.Object) bool {
		// the slice is passed to a sort function (or the repo's nested-loop
		// compare-and-swap idiom) after the loop in the same function
		found := false
		ast.Inspect(fn.Decl.Body, func(n ast.Node) bool {
			if n == nil || n.Pos() < s.Stmt.End() {
				return true
			}
			switch x := n.(type) {
			case *ast.CallExpr:
				if callee := calleeOf(info, x); callee != nil && callee.Pkg() != nil {
					pk := callee.Pkg().Path()
					if (pk == "sort" || pk == "slices") && len(x.Args) > 0 {
						if id, ok := ast.Unparen(x.Args[0]).(*ast.Ident); ok && info.Uses[id] == obj {
							// a comparator that only tests boolean criteria is a partial order:
							// ties keep the (map) order in which the slice was built
							if len(x.Args) < 2 || comparatorIsOrdered(info, x.Args[1]) {
								found = true
							}
						}
						// sort.Sort(byX(slice))
						if conv, ok := ast.Unparen(x.Args[0]).(*ast.CallExpr); ok && len(conv.Args) == 1 {
							if id, ok := ast.Unparen(conv.Args[0]).(*ast.Ident); ok && info.Uses[id] == obj {
								found = true
							}
						}
					}
				}
			case *ast.ForStmt:
				// hand-rolled sort: nested index loops over the slice whose body swaps elements
				if isSwapSort(info, x, obj) {
					found = true
				}
			}
			return !found
		})
		return found
	}
	var checkStmt func(st ast.Stmt)
	var checkCall func(call *ast.CallExpr, pos token.Pos)
	checkCall = func(call *ast.CallExpr, pos token.Pos) {
		if id, ok := ast.Unparen(call.Fun).(*ast.Ident); ok {
			if b, ok := info.Uses[id].(*types.Builtin); ok {
				switch b.Name() {
				case "delete", "len", "cap", "min", "max", "clear", "panic", "append", "make", "new", "copy":
					return // append is judged where its result is assigned
				}
			}
		}
		callee := calleeOf(info, call)
		if callee != nil && c.isOrderFreeCallee(callee, 0) {
			return
		}
		name := types.ExprString(call.Fun)
		fail(pos, "calls %s, whose effects are not known to be order-independent", name)
	}
	checkExprCalls := func(e ast.Expr) {
		ast.Inspect(e, func(n ast.Node) bool {
			if call, ok := n.(*ast.CallExpr); ok {
				if tv, ok := info.Types[call.Fun]; ok && tv.IsType() {
					return true
				}
				checkCall(call, call.Pos())
			}
			if _, ok := n.(*ast.FuncLit); ok {
				return false
			}
			return true
		})
	}
	checkStmt = func(st ast.Stmt) {
		if reason != "" || st == nil {
			return
		}
		switch x := st.(type) {
		case *ast.BlockStmt:
			for _, s2 := range x.List {
				checkStmt(s2)
			}
		case *ast.ExprStmt:
			if call, ok := x.X.(*ast.CallExpr); ok {
				for _, a := range call.Args {
					checkExprCalls(a)
				}
				checkCall(call, call.Pos())
				return
			}
		case *ast.IncDecStmt:
			return
		case *ast.AssignStmt:
			for _, r := range x.Rhs {
				checkExprCalls(r)
			}
			for i, l := range x.Lhs {
				if isLocalScratch(l) || x.Tok == token.DEFINE {
					continue
				}
				switch lx := ast.Unparen(l).(type) {
				case *ast.IndexExpr:
					// M[k] = append(M[k], v): per-key slices grow in iteration order; they must
					// be sorted (with an ordered comparator) when M is walked afterwards
					if len(x.Rhs) == len(x.Lhs) {
						if call, ok := ast.Unparen(x.Rhs[i]).(*ast.CallExpr); ok {
							if id, ok := ast.Unparen(call.Fun).(*ast.Ident); ok {
								if b, ok := info.Uses[id].(*types.Builtin); ok && b.Name() == "append" && len(call.Args) > 0 &&
									types.ExprString(ast.Unparen(call.Args[0])) == types.ExprString(ast.Unparen(l)) {
									if mid, ok := ast.Unparen(lx.X).(*ast.Ident); ok {
										if obj := info.Uses[mid]; obj != nil && valuesSortedLater(info, fn, s.Stmt, obj) {
											continue
										}
									}
									fail(l.Pos(), "appends to the per-key slice %s in map-iteration order and the slices are not sorted with an ordered comparator afterwards", types.ExprString(l))
									return
								}
							}
						}
					}
					// m2[k] = v : map insert is commutative when keys are the iteration keys;
					// slice[idx] = v is a keyed store as well. When the index is computed from the
					// iteration VALUE only, two entries of the iterated map can carry the same
					// value: they write the same slot and the last one wins - unless what is
					// stored does not depend on the entry (set[v] = true).
					if keyObj != nil && valObj != nil && len(x.Rhs) == len(x.Lhs) {
						mentions := func(e ast.Expr, o types.Object) bool {
							hit := false
							ast.Inspect(e, func(k ast.Node) bool {
								if id, ok := k.(*ast.Ident); ok && info.Uses[id] == o {
									hit = true
								}
								return !hit
							})
							return hit
						}
						if mentions(lx.Index, valObj) && !mentions(lx.Index, keyObj) && (mentions(x.Rhs[i], keyObj) || mentions(x.Rhs[i], valObj)) && !isConstExpr(x.Rhs[i]) {
							fail(l.Pos(), "stores into %s, a slot chosen by the iteration value alone: entries with equal values write the same slot and the last one visited wins", types.ExprString(l))
							return
						}
					}
					continue
				case *ast.Ident, *ast.SelectorExpr, *ast.StarExpr:
					_ = lx
					if x.Tok != token.ASSIGN {
						continue // += |= etc.: commutative accumulation (integers, flags)
					}
					if len(x.Rhs) == len(x.Lhs) {
						r := x.Rhs[i]
						if isConstExpr(r) {
							continue // flag = true
						}
						// append to a slice that is sorted afterwards
						if call, ok := ast.Unparen(r).(*ast.CallExpr); ok {
							if id, ok := ast.Unparen(call.Fun).(*ast.Ident); ok {
								if b, ok := info.Uses[id].(*types.Builtin); ok && b.Name() == "append" {
									if tid, ok := ast.Unparen(l).(*ast.Ident); ok {
										if obj := info.Uses[tid]; obj != nil && sortedLater(obj) {
											continue
										}
									}
									fail(l.Pos(), "appends to %s in map-iteration order and the slice is not sorted afterwards in this function", types.ExprString(l))
									return
								}
							}
						}
						// min / max update guarded by a comparison with the same variable
						if guardedExtremum(info, s.Stmt.Body, x) {
							continue
						}
						fail(l.Pos(), "assigns %s a value that depends on the iteration (last writer wins)", types.ExprString(l))
						return
					}
				}
			}
		case *ast.IfStmt:
			if x.Init != nil {
				checkStmt(x.Init)
			}
			checkExprCalls(x.Cond)
			checkStmt(x.Body)
			if x.Else != nil {
				checkStmt(x.Else)
			}
		case *ast.ForStmt:
			checkStmt(x.Body)
		case *ast.RangeStmt:
			checkStmt(x.Body)
		case *ast.SwitchStmt:
			for _, cl := range x.Body.List {
				for _, s2 := range cl.(*ast.CaseClause).Body {
					checkStmt(s2)
				}
			}
		case *ast.TypeSwitchStmt:
			for _, cl := range x.Body.List {
				for _, s2 := range cl.(*ast.CaseClause).Body {
					checkStmt(s2)
				}
			}
		case *ast.BranchStmt:
			if x.Tok == token.BREAK {
				// break out of the map loop: "first match" unless nothing was recorded (only flags)
				fail(x.Pos(), "breaks out of the map iteration (first match depends on order)")
			}
		case *ast.ReturnStmt:
			for _, r := range x.Results {
				if !isConstExpr(r) {
					fail(x.Pos(), "returns %s from inside the map iteration (which element is found first depends on order)", types.ExprString(r))
					return
				}
			}
		case *ast.DeclStmt, *ast.EmptyStmt:
		default:
			fail(st.Pos(), "statement %T not classified", st)
		}
	}
	checkStmt(s.Stmt.Body)
	return reason, rpos
}

// guardedExtremum: `x = v` inside `if v < x` / `if v > x` (or with x zero-test): a min/max update.
func guardedExtremum(info *types.Info, body *ast.BlockStmt, as *ast.AssignStmt) bool {
	found := false
	ast.Inspect(body, func(n ast.Node) bool {
		ifs, ok := n.(*ast.IfStmt)
		if !ok {
			return true
		}
		inside := false
		ast.Inspect(ifs.Body, func(m ast.Node) bool {
			if m == as {
				inside = true
			}
			return !inside
		})
		if !inside {
			return true
		}
		lhs := types.ExprString(as.Lhs[0])
		ast.Inspect(ifs.Cond, func(m ast.Node) bool {
			if be, ok := m.(*ast.BinaryExpr); ok {
				switch be.Op {
				case token.LSS, token.GTR, token.LEQ, token.GEQ:
					if types.ExprString(be.X) == lhs || types.ExprString(be.Y) == lhs {
						found = true
					}
				}
			}
			return !found
		})
		return !found
	})
	return found
}

// isSwapSort: for i ... { for j ... { if s[j] < s[i] { s[i], s[j] = s[j], s[i] } } } over obj.
func isSwapSort(info *types.Info, f *ast.ForStmt, obj types.Object) bool {
	swap := false
	ast.Inspect(f.Body, func(n ast.Node) bool {
		as, ok := n.(*ast.AssignStmt)
		if !ok || len(as.Lhs) != 2 || len(as.Rhs) != 2 {
			return true
		}
		l0, ok0 := ast.Unparen(as.Lhs[0]).(*ast.IndexExpr)
		l1, ok1 := ast.Unparen(as.Lhs[1]).(*ast.IndexExpr)
		if !ok0 || !ok1 {
			return true
		}
		id0, _ := ast.Unparen(l0.X).(*ast.Ident)
		id1, _ := ast.Unparen(l1.X).(*ast.Ident)
		if id0 != nil && id1 != nil && info.Uses[id0] == obj && info.Uses[id1] == obj &&
			types.ExprString(as.Lhs[0]) == types.ExprString(as.Rhs[1]) && types.ExprString(as.Lhs[1]) == types.ExprString(as.Rhs[0]) {
			swap = true
		}
		return !swap
	})
	return swap
}

// isOrderFreeCallee: a function whose body only performs commutative effects
// (map inserts, flags) and pure computation, recursively (depth <= 3); standard
// library formatting/strings/math functions are pure.
func (c *Ctx) isOrderFreeCallee(f *types.Func, depth int) bool {
	if f.Pkg() == nil {
		return true
	}
	path := f.Pkg().Path()
	switch path {
	case "strings", "strconv", "math", "math/bits", "unicode", "unicode/utf8", "sort", "slices", "fmt", "errors":
		// fmt.Sprintf etc. are pure; fmt.Fprintf writes: judged by name of the pure subset
		if path == "fmt" {
			switch f.Name() {
			case "Sprintf", "Sprint", "Sprintln", "Errorf":
				return true
			}
			return false
		}
		return true
	}
	key := "orderfree:" + f.FullName()
	if v, ok := c.cache[key]; ok {
		return v.(bool)
	}
	c.cache[key] = true // recursion: assume
	fi := c.funcByObj(f)
	if fi == nil || depth > 3 {
		c.cache[key] = false
		return false
	}
	info := fi.Pkg.Info
	ok := true
	// parameters and locals
	isLocal := func(e ast.Expr) bool {
		id, isId := ast.Unparen(e).(*ast.Ident)
		if !isId {
			return false
		}
		if id.Name == "_" {
			return true
		}
		obj := info.Uses[id]
		if obj == nil {
			obj = info.Defs[id]
		}
		if v, isVar := obj.(*types.Var); isVar && !v.IsField() && v.Parent() != nil && v.Parent() != v.Pkg().Scope() {
			return true
		}
		return false
	}
	ast.Inspect(fi.Decl.Body, func(n ast.Node) bool {
		if !ok {
			return false
		}
		switch x := n.(type) {
		case *ast.AssignStmt:
			for _, l := range x.Lhs {
				if isLocal(l) {
					continue
				}
				if _, isIdx := ast.Unparen(l).(*ast.IndexExpr); isIdx {
					continue // keyed store
				}
				if x.Tok != token.ASSIGN && x.Tok != token.DEFINE {
					continue
				}
				// field = constant flag
				if len(x.Rhs) == len(x.Lhs) {
					continue2 := false
					for i := range x.Lhs {
						if x.Lhs[i] == l {
							if tv, okk := info.Types[x.Rhs[i]]; okk && tv.Value != nil {
								continue2 = true
							}
						}
					}
					if continue2 {
						continue
					}
				}
				ok = false
			}
		case *ast.CallExpr:
			if tv, isT := info.Types[x.Fun]; isT && tv.IsType() {
				return true
			}
			if id, isId := ast.Unparen(x.Fun).(*ast.Ident); isId {
				if _, isB := info.Uses[id].(*types.Builtin); isB {
					if id.Name == "append" {
						// append to a non-local accumulates in call order
						return true
					}
					return true
				}
			}
			callee := calleeOf(info, x)
			if callee == nil || !c.isOrderFreeCallee(callee, depth+1) {
				ok = false
			}
		}
		return ok
	})
	c.cache[key] = ok
	return ok
}

type mapOrderException struct{ Site, Reason string }

func (c *Ctx) runMapOrder(r *Report, rule, family string, pkg func(string) bool, exceptions []mapOrderException) {
	exc := map[string]string{}
	for _, e := range exceptions {
		exc[e.Site] = e.Reason
	}
	sites := c.mapRanges(pkg)
	for _, s := range sites {
		reason, pos := c.classifyMapRange(s)
		if reason == "" {
			r.ok(rule, s.id(), c.pos(s.Stmt.Pos()), "body is order-insensitive")
			continue
		}
		if why, ok := exc[s.id()]; ok {
			r.exc(rule, s.id(), c.pos(s.Stmt.Pos()), why)
			continue
		}
		r.viol(rule, s.id(), c.pos(pos), "iteration over map "+s.MapExpr+" in "+s.Func.id()+" "+reason)
	}
	r.inst(family, len(sites))
}

func init() {
	dumpers["maporder"] = func(c *Ctx, parts []string) {
		r := newReport("dump")
		c.runMapOrder(r, "maporder", "mapranges", nil, nil)
		for _, o := range r.Obs {
			if o.Verdict != OK {
				fmt.Println(o.Verdict, o.Construct, o.Pos, o.Msg)
			}
		}
		fmt.Println(r.Instances)
	}
}

// comparatorIsOrdered: the less-function contains an ordered comparison (< > or
// a Compare call) between non-boolean operands, i.e. it can break ties between
// elements that agree on its boolean criteria.
func comparatorIsOrdered(info *types.Info, e ast.Expr) bool {
	lit, ok := ast.Unparen(e).(*ast.FuncLit)
	if !ok {
		return true // a named comparator: not judged
	}
	ordered := false
	ast.Inspect(lit.Body, func(n ast.Node) bool {
		switch x := n.(type) {
		case *ast.BinaryExpr:
			switch x.Op {
			case token.LSS, token.GTR, token.LEQ, token.GEQ:
				ordered = true
			}
		case *ast.CallExpr:
			if f := calleeOf(info, x); f != nil && (f.Name() == "Compare" || f.Name() == "Less") {
				ordered = true
			}
		}
		return !ordered
	})
	return ordered
}

// valuesSortedLater: after the loop, `for _, v := range M { ... sort(v, ordered) ... }`.
func valuesSortedLater(info *types.Info, fn *funcInfo, after *ast.RangeStmt, mapObj types.Object) bool {
	found := false
	ast.Inspect(fn.Decl.Body, func(n ast.Node) bool {
		rs, ok := n.(*ast.RangeStmt)
		if !ok || rs.Pos() < after.End() {
			return true
		}
		id, ok := ast.Unparen(rs.X).(*ast.Ident)
		if !ok || info.Uses[id] != mapObj {
			return true
		}
		vid, ok := rs.Value.(*ast.Ident)
		if !ok {
			return true
		}
		vobj := info.Defs[vid]
		ast.Inspect(rs.Body, func(m ast.Node) bool {
			call, ok := m.(*ast.CallExpr)
			if !ok || len(call.Args) == 0 {
				return true
			}
			if callee := calleeOf(info, call); callee != nil && callee.Pkg() != nil && (callee.Pkg().Path() == "sort" || callee.Pkg().Path() == "slices") {
				if a0, ok := ast.Unparen(call.Args[0]).(*ast.Ident); ok && info.Uses[a0] == vobj {
					if len(call.Args) < 2 || comparatorIsOrdered(info, call.Args[1]) {
						found = true
					}
				}
			}
			return !found
		})
		return !found
	})
	return found
}
