package main

// accum.lazyinit (C17, C09): a value accumulated over the iterations of a loop.
// A variable declared before a loop and initialised lazily inside it
// (`if v == nil { v = &T{} }` followed by `v.F = x`) collects fields from
// several iterations - the attributes of one declaration, in whatever order the
// source lists them. Every other assignment to the variable inside that loop
// must then also be the lazy form: an unconditional `v = &T{F: x}` discards what
// earlier iterations stored (`@interpolate(flat) @location(1)` loses the
// interpolation, `@blend_src(1) @location(0)` the blend source, while the usual
// order `@location` first keeps working).

import (
	"go/ast"
	"go/token"
	"go/types"
)

func (c *Ctx) runAccumLazyInit(r *Report, rule string, pkgs func(string) bool) {
	n := 0
	for _, fn := range c.allFuncs() {
		if !pkgs(fn.Pkg.Rel) {
			continue
		}
		info := fn.Pkg.Info
		isNilIdent := func(e ast.Expr) bool {
			id, ok := ast.Unparen(e).(*ast.Ident)
			if !ok {
				return false
			}
			_, isN := info.Uses[id].(*types.Nil)
			return isN
		}
		var loops []ast.Node
		ast.Inspect(fn.Decl.Body, func(m ast.Node) bool {
			switch m.(type) {
			case *ast.RangeStmt, *ast.ForStmt:
				loops = append(loops, m)
			}
			return true
		})
		done := map[types.Object]bool{}
		for _, loop := range loops {
			var body *ast.BlockStmt
			switch l := loop.(type) {
			case *ast.RangeStmt:
				body = l.Body
			case *ast.ForStmt:
				body = l.Body
			}
			// lazy-init guards in this loop: if v == nil { v = ... }
			lazy := map[types.Object][]*ast.IfStmt{}
			ast.Inspect(body, func(m ast.Node) bool {
				if _, ok := m.(*ast.FuncLit); ok {
					return false
				}
				ifs, ok := m.(*ast.IfStmt)
				if !ok || ifs.Init != nil || ifs.Else != nil {
					return true
				}
				be, ok := ast.Unparen(ifs.Cond).(*ast.BinaryExpr)
				if !ok || be.Op != token.EQL || !isNilIdent(be.Y) {
					return true
				}
				id, ok := ast.Unparen(be.X).(*ast.Ident)
				if !ok {
					return true
				}
				v, ok := info.Uses[id].(*types.Var)
				if !ok || v.IsField() || v.Pos() >= loop.Pos() || v.Pos() < fn.Decl.Pos() {
					return true // declared inside the loop (per-iteration), or not a local
				}
				for _, st := range ifs.Body.List {
					if as, ok := st.(*ast.AssignStmt); ok && len(as.Lhs) == 1 {
						if lid, ok := as.Lhs[0].(*ast.Ident); ok && info.Uses[lid] == v {
							lazy[v] = append(lazy[v], ifs)
						}
					}
				}
				return true
			})
			for v, guards := range lazy {
				if done[v] {
					continue // judged for the outermost loop already
				}
				done[v] = true
				inGuard := func(p token.Pos) bool {
					for _, g := range guards {
						if p >= g.Body.Pos() && p < g.Body.End() {
							return true
						}
					}
					return false
				}
				ord := 0
				ast.Inspect(body, func(m ast.Node) bool {
					if _, ok := m.(*ast.FuncLit); ok {
						return false
					}
					as, ok := m.(*ast.AssignStmt)
					if !ok {
						return true
					}
					for _, l := range as.Lhs {
						lid, ok := l.(*ast.Ident)
						if !ok || info.Uses[lid] != v {
							continue
						}
						ord++
						n++
						cons := fn.id() + ":" + v.Name() + "#" + itoa(ord)
						if inGuard(as.Pos()) {
							r.ok(rule, cons, c.pos(as.Pos()), "")
						} else {
							r.viol(rule, cons, c.pos(as.Pos()), fn.id()+": "+v.Name()+" accumulates fields over the iterations of this loop (it is created lazily under `"+v.Name()+" == nil` elsewhere in the loop), but this assignment replaces it unconditionally: whatever earlier iterations stored is lost, so the result depends on the order of the items")
						}
					}
					return true
				})
			}
		}
	}
	r.inst("accum.lazyinit", n)
}

func init() {
	dumpers["accum"] = func(c *Ctx, parts []string) {
		r := newReport("dump")
		c.runAccumLazyInit(r, "accum.lazyinit", func(string) bool { return true })
		for _, o := range r.Obs {
			println(o.Verdict, o.Construct, o.Pos, o.Msg)
		}
	}
}
