package main

// dims.product (C03-C05, C17, C18): the number of invocations of a workgroup is
// the product of its three dimensions. A multiplication chain of three or more
// factors that are (conversions of, or locals assigned from) elements X[i] of
// one three-element array multiplies each index exactly once: x * y * y is the
// wrong group size for every workgroup with y != z, and agrees with the right
// one for all cubic and one-dimensional sizes.

import (
	"go/ast"
	"go/token"
	"go/types"
)

func (c *Ctx) runDimsProduct(r *Report, rule string, pkgs func(string) bool) {
	n := 0
	for _, fn := range c.allFuncs() {
		if !pkgs(fn.Pkg.Rel) {
			continue
		}
		info := fn.Pkg.Info
		// origin of an expression: (array text, constant index)
		type origin struct {
			arr string
			idx int64
		}
		localOrigin := map[types.Object]origin{}
		var originOf func(e ast.Expr) (origin, bool)
		originOf = func(e ast.Expr) (origin, bool) {
			e = ast.Unparen(e)
			switch x := e.(type) {
			case *ast.CallExpr:
				if tv, ok := info.Types[x.Fun]; ok && tv.IsType() && len(x.Args) == 1 {
					return originOf(x.Args[0])
				}
				if id, ok := x.Fun.(*ast.Ident); ok && (id.Name == "max" || id.Name == "min") && len(x.Args) >= 1 {
					return originOf(x.Args[0])
				}
			case *ast.IndexExpr:
				if at, ok := info.TypeOf(x.X).Underlying().(*types.Array); ok && at.Len() == 3 {
					if v, ok := constInt(info, x.Index); ok {
						return origin{types.ExprString(x.X), int64(v)}, true
					}
				}
			case *ast.Ident:
				if o, ok := localOrigin[info.Uses[x]]; ok {
					return o, true
				}
			}
			return origin{}, false
		}
		ast.Inspect(fn.Decl.Body, func(m ast.Node) bool {
			as, ok := m.(*ast.AssignStmt)
			if !ok || as.Tok != token.DEFINE || len(as.Lhs) != len(as.Rhs) {
				return true
			}
			for i := range as.Lhs {
				if id, ok := as.Lhs[i].(*ast.Ident); ok {
					if o, ok := originOf(as.Rhs[i]); ok {
						localOrigin[info.ObjectOf(id)] = o
					}
				}
			}
			return true
		})
		ord := 0
		seen := map[ast.Expr]bool{}
		ast.Inspect(fn.Decl.Body, func(m ast.Node) bool {
			be, ok := m.(*ast.BinaryExpr)
			if !ok || be.Op != token.MUL || seen[be] {
				return true
			}
			var factors []ast.Expr
			var flat func(e ast.Expr)
			flat = func(e ast.Expr) {
				e = ast.Unparen(e)
				if b, ok := e.(*ast.BinaryExpr); ok && b.Op == token.MUL {
					seen[b] = true
					flat(b.X)
					flat(b.Y)
					return
				}
				factors = append(factors, e)
			}
			flat(be)
			if len(factors) < 3 {
				return true
			}
			byArr := map[string][]int64{}
			for _, f := range factors {
				if o, ok := originOf(f); ok {
					byArr[o.arr] = append(byArr[o.arr], o.idx)
				}
			}
			for arr, idxs := range byArr {
				if len(idxs) < 3 {
					continue
				}
				n++
				ord++
				cons := fn.id() + ":product(" + noSpace(arr) + ")#" + itoa(ord)
				cnt := map[int64]int{}
				dup := false
				for _, i := range idxs {
					cnt[i]++
					if cnt[i] > 1 {
						dup = true
					}
				}
				if dup {
					r.viol(rule, cons, c.pos(be.Pos()), fn.id()+": "+types.ExprString(be)+" multiplies one element of "+arr+" twice and leaves another out: the product is the total only when those two dimensions are equal")
				} else {
					r.ok(rule, cons, c.pos(be.Pos()), "")
				}
			}
			return true
		})
	}
	r.inst("dims.product", n)
}

func init() {
	dumpers["dims"] = func(c *Ctx, parts []string) {
		r := newReport("dump")
		c.runDimsProduct(r, "dims.product", func(string) bool { return true })
		for _, o := range r.Obs {
			println(o.Verdict, o.Construct, o.Pos)
		}
	}
}

// array.extentorder (C07, C03): a C-style declarator lists array extents
// outermost first: array<array<T, 2>, 3> is `name[3][2]`. A self-recursive
// function that prints one `[extent]` per array level and recurses into the
// element type (.Base) prints its own extent BEFORE it recurses; the other order
// declares the transposed array, whose element (i, j) lies at a different
// offset whenever the extents differ.
func (c *Ctx) runExtentOrder(r *Report, rule string, pkgs func(string) bool) {
	n := 0
	for _, fn := range c.allFuncs() {
		if !pkgs(fn.Pkg.Rel) || fn.Obj == nil {
			continue
		}
		info := fn.Pkg.Info
		var selfCall, bracket token.Pos
		ast.Inspect(fn.Decl.Body, func(m ast.Node) bool {
			call, ok := m.(*ast.CallExpr)
			if !ok {
				return true
			}
			if f := calleeOf(info, call); f != nil && f.Origin() == fn.Obj {
				for _, a := range call.Args {
					if se, ok := ast.Unparen(a).(*ast.SelectorExpr); ok && se.Sel.Name == "Base" && irTypeName(info.TypeOf(se.X)) == "ArrayType" {
						if selfCall == 0 || call.Pos() < selfCall {
							selfCall = call.Pos()
						}
					}
				}
				return true
			}
			for _, a := range call.Args {
				if lit, ok := ast.Unparen(a).(*ast.BasicLit); ok && lit.Kind == token.STRING && len(lit.Value) > 2 && lit.Value[1] == '[' {
					if bracket == 0 || call.Pos() < bracket {
						bracket = call.Pos()
					}
				}
			}
			return true
		})
		if selfCall == 0 || bracket == 0 {
			continue
		}
		n++
		cons := fn.id() + ":extents"
		if bracket < selfCall {
			r.ok(rule, cons, c.pos(bracket), "")
		} else {
			r.viol(rule, cons, c.pos(selfCall), fn.id()+" recurses into the element type before printing its own [extent]: nested array extents come out innermost first, i.e. the transposed array")
		}
	}
	r.inst("array.extentorder", n)
}

func init() {
	dumpers["extents"] = func(c *Ctx, parts []string) {
		r := newReport("dump")
		c.runExtentOrder(r, "array.extentorder", func(string) bool { return true })
		for _, o := range r.Obs {
			println(o.Verdict, o.Construct, o.Pos)
		}
	}
}
