package main

import (
	"go/ast"
	"go/types"
)

// splat.scalaroperand (C08): ExprSplat repeats a SCALAR; every backend rejects
// anything else ("splat value must be scalar"). Where the lowerer wraps a
// handle it was given (a parameter of the function) into ExprSplat, the
// function must have established that the handle's type is a scalar by a
// positive test (a type assertion to ir.ScalarType). "Not a vector" is not
// enough: a matrix is not a vector either, and `v *= m` (vector times matrix)
// became a splat of the matrix.
func (c *Ctx) runSplatScalarOperand(r *Report, rule, rel string) {
	n := 0
	for _, fn := range c.allFuncs() {
		if fn.Pkg.Rel != rel || fn.Obj == nil || fn.Decl.Body == nil {
			continue
		}
		info := fn.Pkg.Info
		sig := fn.Obj.Type().(*types.Signature)
		params := map[types.Object]bool{}
		for i := 0; i < sig.Params().Len(); i++ {
			if irTypeName(sig.Params().At(i).Type()) == "ExpressionHandle" {
				params[sig.Params().At(i)] = true
			}
		}
		if len(params) == 0 {
			continue
		}
		var sites []*ast.CompositeLit
		var names []string
		ast.Inspect(fn.Decl.Body, func(m ast.Node) bool {
			cl, ok := m.(*ast.CompositeLit)
			if !ok || irTypeName(info.TypeOf(cl)) != "ExprSplat" {
				return true
			}
			for _, el := range cl.Elts {
				kv, ok := el.(*ast.KeyValueExpr)
				if !ok {
					continue
				}
				if k, ok := kv.Key.(*ast.Ident); ok && k.Name == "Value" {
					if id, ok := ast.Unparen(kv.Value).(*ast.Ident); ok && params[info.ObjectOf(id)] {
						sites = append(sites, cl)
						names = append(names, id.Name)
					}
				}
			}
			return true
		})
		if len(sites) == 0 {
			continue
		}
		positive := false
		ast.Inspect(fn.Decl.Body, func(m ast.Node) bool {
			switch x := m.(type) {
			case *ast.TypeAssertExpr:
				if x.Type != nil && irTypeName(info.TypeOf(x.Type)) == "ScalarType" {
					positive = true
				}
			case *ast.CaseClause:
				for _, e := range x.List {
					if irTypeName(info.TypeOf(e)) == "ScalarType" {
						positive = true
					}
				}
			}
			return true
		})
		for i, cl := range sites {
			n++
			cons := fn.id() + ":Splat(" + names[i] + ")#" + itoa(i+1)
			if positive {
				r.ok(rule, cons, c.pos(cl.Pos()), "")
			} else {
				r.viol(rule, cons, c.pos(cl.Pos()), fn.id()+" wraps the handle "+names[i]+" it was given into ExprSplat without a positive test that its type is a scalar (no assertion to ir.ScalarType in the function): a matrix operand (`v *= m`) is splatted and every backend rejects the valid program")
			}
		}
	}
	r.inst(rule, n)
}

func init() {
	dumpers["splatscalar"] = func(c *Ctx, parts []string) {
		r := newReport("dump")
		c.runSplatScalarOperand(r, "splat.scalaroperand", "wgsl/internal/lower")
		for _, o := range r.Obs {
			println(o.Verdict, o.Construct, o.Pos)
		}
	}
}
