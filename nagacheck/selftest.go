package main

// Thorough-tier self-test: every confirmed seeded change that a rule is
// claimed to catch (DESIGN.md §4) is applied as an in-memory overlay
// (packages.Config.Overlay — /repo is not touched, no scratch copy of the
// repository is made: only the patched files are materialised in a temporary
// directory that is removed at once), the property is re-analysed and the
// named rule must report the named construct. A patch that no longer applies
// is skipped (a refactoring must not raise an alarm); a patch that applies and
// type-checks but is not reported means the rule went blind: the check fails.

import (
	"fmt"
	"os"
	"os/exec"
	"path/filepath"
	"strings"
)

type seedExpect struct {
	Seed      string
	Prop      string
	Rule      string
	Construct string // substring of the construct identity
}

var seedExpectations = []seedExpect{
	{"C01-a", "C12", "reset.complete", "Backend.wrappedFuncIDs"},
	{"C08-a", "C08", "reset.complete", "Lowerer.localAbstractASTs"},
	{"C09-a", "C09", "handlewalk.ExpressionHandle.remapper", "StmtImageStore.ArrayIndex"},
	{"C09-a", "C13", "handlewalk.ExpressionHandle.remapper", "StmtImageStore.ArrayIndex"},
	{"C10-a", "C10", "abort.guard", "constFoldAccessIndex"},
	{"C11-a", "C11", "scope.perblock", "lowerSwitch"},
	{"C11-a", "C09", "scope.perblock", "lowerSwitch"},
	{"C12-a", "C12", "clone.fresh", "msl.applyPipelineConstants"},
	{"C12-a", "C14", "clone.fresh", "msl.applyPipelineConstants"},
	{"C13-a", "C13", "rebuild.complete", "SwitchCase.FallThrough"},
	{"C14-a", "C14", "clone.fresh", "Functions[].LocalVars[].Init"},
	{"C14-a", "C12", "clone.fresh", "Functions[].LocalVars[].Init"},
	{"C15-a", "C15", "routing.index", "writeAccess"},
	{"C17-a", "C17", "setter.total", "computeResourceMap"},
	{"C18-a", "C18", "siblings.fields", "PhiIncoming.ValueID"},
	{"C05-a", "C16", "names.checked-emitted", "namer.call"},
	{"C02-b", "C02", "operands.Block.walker", "collectGlobalVarsFromStatements"},
	{"C02-b", "C01", "operands.Block.walker", "collectGlobalVarsFromStatements"},
	{"C15-b", "C15", "operands.Block.walker", "collectGlobalVarsFromStatements"},
	{"C17-b", "C17", "operands.Block.walker", "collectGlobalVarsFromStatements"},
	{"C09-b", "C08", "reset.complete", "Lowerer.localIsPtr"},
	{"C10-b", "C10", "abort.parser-loop", "skipDirective"},
	{"C12-b", "C12", "maporder", "writeGlobalVariables"},
	// second round
	{"C06-a", "C06", "order.pair", "tryFoldVectorBinaryOp"},
	{"C03-a", "C03", "shape.indexlen", "getAccessMaxIndex"},
	{"C03-c", "C15", "shape.indexlen", "getAccessMaxIndex"},
	{"C04-c", "C04", "guard.agree", "existingLocalInvocationID"},
	{"C04-c", "C17", "guard.agree", "existingLocalInvocationID"},
	{"C07-b", "C07", "layout.seethrough", "emitStructMemberDecorations"},
	{"C07-c", "C02", "layout.seethrough", "emitStructMemberDecorations"},
	{"C05-b", "C05", "term.lastonly", "blockEndsWithTerminator"},
	{"C13-c", "C13", "alias.loopstate", "handleSwitch"},
	{"C06-c", "C06", "conv.signext", "evalConstantIdent"},
	{"C14-b", "C14", "range.kindlimit", "scalarValueToLiteral"},
	{"C09-c", "C09", "shape.colvec", "concretizeExpressionToType"},
	{"C10-c", "C10", "abort.argindex", "lowerTextureGatherCompare"},
	{"C16-a", "C16", "names.sanitize", "namer.sanitize"},
	{"C16-c", "C16", "names.sanitize", "namer.sanitize"},
	{"C16-b", "C16", "names.fresh", "flattenedMemberNames"},
	{"C19-b", "C19", "lex.tokenchars", "blockComment"},
	{"C19-b", "C11", "lex.tokenchars", "blockComment"},
	{"C19-c", "C19", "parse.listloop", "typeSpec"},
	{"C19-c", "C08", "parse.listloop", "typeSpec"},
	{"C05-c", "C05", "resolution.siblings", "writeAs"},
	{"C03-b", "C03", "scalar.narrow", "typeInnerToHLSLStr"},
	{"C02-a", "C02", "ptrtype.scaware", "emitAccessAsPointer"},
	{"C18-c", "C18", "arith.roundup", "psvComputeMaskDwordsFromVectors"},
	{"C02-c", "C02", "reset.complete", "blockDecoratedTypes"},
	{"C12-c", "C12", "clone.fresh", "LocalVars"},
	{"C01-c", "C01", "operands.Block.walker", "collectGlobalVarsFromStatements"},
	{"C17-c", "C17", "operands.Block.walker", "collectGlobalVarsFromStatements"},
	{"C08-c", "C08", "scope.defafterinit", "collectStmtDeps"},
	// third round
	{"C02-d", "C02", "version.bump14", "emitLoad"},
	{"C03-d", "C03", "layout.colstride", "computeSubAccess"},
	{"C03-d", "C07", "layout.colstride", "computeSubAccess"},
	{"C05-d", "C05", "recursion.depth", "writeWorkgroupZeroInit"},
	{"C09-d", "C09", "scope.shadowclear", "localIsPtr"},
	{"C10-d", "C10", "abort.argindex", "swizzlePattern"},
	{"C11-d", "C11", "swizzle.checked", "lowerMemberForRef"},
	{"C18-d", "C18", "arith.roundup", "psvComputeMaskDwordsFromVectors"},
	{"C06-d", "C06", "order.pair", "tryFoldVectorBinaryOp"},
	{"C13-d", "C13", "handlewalk.Block.walker", "traceStatementsForRefs"},
	{"C12-d", "C12", "clone.fresh", "ExprCompose"},
	{"C08-d", "C08", "scope.defafterinit", "collectStmtDeps"},
	{"C15-d", "C15", "operands.Block.walker", "collectGlobalVarsFromStatements"},
	{"C16-d", "C16", "names.sanitize", "namer.sanitize"},
	{"C17-d", "C17", "operands.Block.walker", "collectGlobalVarsFromStatements"},
	{"C19-d", "C19", "lex.nestdelim", "blockComment"},
	// completed from the seed matrix (full construct identities)
	{"C01-b", "C08", "reset.complete", "lower.Lowerer/lowerFunction:Lowerer.isInsideLoop"},
	{"C04-b", "C14", "handlewalk.ExpressionHandle.remapper", "msl/internal/codegen.adjustExprHandles/ExpressionKind:ExprMath.Arg3"},
	{"C06-b", "C06", "evalsel.goop", "wgsl/internal/lower.Lowerer.tryFoldBinaryOp/BinaryOperator#2:BinaryModulo"},
	{"C08-b", "C08", "scope.defafterinit", "wgsl/internal/parser.collectStmtDeps:locals[s.Name]"},
	{"C11-b", "C11", "astwalk.child", "wgsl/internal/parser.collectStmtDeps/Stmt:IfStmt.Else"},
	{"C13-b", "C13", "handlewalk.Block.walker", "ir.traceStatementsForRefs/StatementKind:StmtSwitch.Cases[].Body"},
	{"C14-c", "C14", "clone.fresh", "ir.CloneModuleForOverrides+ProcessOverrides:Functions[].LocalVars[].Init"},
	{"C15-c", "C15", "operands.Block.walker", "spirv/internal/codegen.Backend.collectGlobalVarsFromStatements/StatementKind:StmtLoop.Continuing"},
	{"C19-a", "C08", "scope.defafterinit", "wgsl/internal/parser.collectStmtDeps:locals[s.Name]"},
	// fifth batch (-e) and the two -d seeds caught since
	{"C01-e", "C01", "order.pair", "emitDot4PackedPolyfill:cross:arg1ID"},
	{"C02-e", "C02", "image.depthlike", "emitImageQuery"},
	{"C01-d", "C01", "image.depthlike", "emitImageQuery"},
	{"C04-d", "C04", "image.depthlike", "imageNeedsLod"},
	{"C03-e", "C03", "bitscan.width", "writeMathExpression"},
	{"C04-e", "C04", "parens.bakedonly", "needsParens"},
	{"C06-e", "C06", "shortcircuit.const", "lowerLogicalShortCircuit"},
	{"C07-e", "C07", "attrs.independent", "lowerStruct"},
	{"C08-e", "C08", "shape.samefield", "typeShapeMatches"},
	{"C09-e", "C09", "accum.lazyinit", "collectBinding"},
	{"C17-e", "C17", "accum.lazyinit", "collectBinding"},
	{"C11-e", "C11", "flag.nest", "validateStatement"},
	{"C12-e", "C12", "reset.complete", "workgroupInitVars"},
	{"C13-e", "C13", "blockpred.quantifier", "blockOnlyHasTerminators"},
	{"C14-e", "C14", "copy.writeback", "remapBlockHandles"},
	{"C15-e", "C15", "bounds.strict", "accessNeedsRestrict"},
	{"C16-e", "C16", "names.fresh", "writeSamplerIndexBuffer"},
	{"C18-e", "C18", "precedence.arraysize", "collectPSVResources"},
	{"C19-e", "C08", "reset.complete", "Lowerer.localIsPtr"},
	// sixth batch (-f)
	{"C01-f", "C01", "accum.dropped", "spirv/internal/codegen.ExpressionEmitter.emitImageSample:imageOperandMask#1"},
	{"C02-f", "C02", "cachekey.separator", "spirv/internal/codegen.Backend.getFuncType:key"},
	{"C03-f", "C03", "dims.product", "hlsl/internal/codegen.Writer.writeEPArgInit:product(ep.Workgroup)#1"},
	{"C04-f", "C12", "clone.fresh", "msl.applyPipelineConstants:Functions[].LocalVars"},
	{"C05-f", "C05", "glsl.samplerprecision", "glsl/internal/codegen.Writer.writeExtraCombinedSamplerDecl:uniform#1"},
	{"C06-f", "C06", "fold.step", "wgsl/internal/lower.Lowerer.tryFoldScalarMath:MathStep"},
	{"C07-f", "C07", "array.extentorder", "hlsl/internal/codegen.Writer.writeArraySizes:extents"},
	{"C08-f", "C08", "parse.headersemi", "wgsl/internal/parser.Parser.exprOrAssignStmt:semicolon"},
	{"C10-f", "C10", "memo.nilresult", "msl/internal/codegen.Writer.getPassThroughGlobals:w.funcPassThroughGlobals"},
	{"C11-f", "C11", "args.namerole", "wgsl/internal/lower.Lowerer.checkArgumentType:typeShapeMatches(arg,param)#1"},
	{"C12-f", "C12", "reset.first", "spirv/internal/codegen.Backend.Compile:Reset"},
	{"C13-f", "C13", "ptr.sharedcell", "ir.remapInlineStatementHandles:func-literal:&opt#1"},
	{"C14-f", "C14", "override.converted", "ir.ProcessOverrides:resolvedValues"},
	{"C15-f", "C15", "shape.indexlen", "hlsl/internal/codegen.Writer.getAccessMaxIndex/MatrixType"},
	{"C16-f", "C16", "names.rawuse", "hlsl/internal/codegen.Writer.writeMatCx2StoreIfNeeded:Fprintf(fieldName)#1"},
	{"C17-f", "C17", "bounds.sameslice", "hlsl/internal/codegen.Writer.writeEPOutputStruct:fragEP.Module.Types[arg.Type]#1"},
	// seventh batch (-g)
	{"C06-g", "C06", "ptr.sharedaddr", "tryFoldVectorMath:&h"},
	{"C18-g", "C18", "builtin.direction", "psvSemanticForBinding:if:BuiltinSampleMask"},
	{"C07-g", "C07", "layout.arrayround", "typeAlignmentAndSize:ArrayType"},
	{"C03-g", "C03", "emit.loopbound", "writeWorkgroupZeroInit:for"},
	{"C10-g", "C10", "abort.discardok", "Parser.postfix:ident"},
	{"C12-g", "C12", "maporder", "analyzeGlobalWriteUsage:range(funcCalls)"},
	{"C08-g", "C08", "lex.splitremainder", "expectTemplateClose:TokenGreaterGreaterEqual"},
	{"C19-g", "C19", "lex.splitremainder", "expectTemplateClose:TokenGreaterGreaterEqual"},
	{"C13-g", "C13", "promote.loopaware", "promoteBlocksIn:StmtLoop"},
	{"C15-g", "C15", "clamp.rawafter", "emitImageLoadRestrict:UMin(levelID)"},
	{"C11-g", "C11", "lookup.innerfirst", "resolveIdentifier"},
	{"C02-g", "C02", "phi.predecessor", "emitImageLoadRZSW:branch-to-mergeBlockID#2"},
	{"C14-g", "C14", "error.breakloop", "evaluateGlobalInitializers:if-err"},
	{"C17-g", "C17", "index.mixedbasis", "writeEPInputStruct:fakeMembers.index"},
	// eighth batch (-h), caught on arrival
	{"C02-h", "C02", "layout.seethrough", "emitStructMemberDecorations"},
	{"C07-h", "C07", "layout.colstride", "computeSubAccess:alignmentFromVectorSize"},
	{"C17-h", "C17", "epselect.agree", "scanTextureSamplerPairs:filter"},
	{"C18-h", "C18", "maporder", "emitHelperFunctions:range(calledFunctions)"},
	// hand-made positive controls (controls/)
	{"globals-write", "C12", "globals.nowrite", "typeNameCache"},
	{"rzsw-nomerge", "C02", "spirv.mergefirst", "emitImageLoadRZSW"},
	{"if-block-dropped", "C02", "spirv.blockstate", "emitIf"},
	{"type-bytext", "C15", "type.bytext", "writeFunctionBody"},
	{"template-close", "C08", "template.close", "typeSpec"},
	{"type-error-dropped", "C11", "errflow.nilonly", "lowerLocalConst"},
	{"sample-offset-dropped", "C09", "sample.offsetkept", "lowerTextureSampleCompare"},
	{"spirv-imagequery-capability", "C02", "cap.opcode", "emitImageLoadRestrict"},
	{"spirv-image-key-raw-format", "C02", "cachekey.mapped", "imageTypeKey"},
	{"spirv-pushconstant-wrapper", "C02", "space.sameclass", "globalNeedsWrapper"},
	{"push-constant-spelling", "C03", "space.sameclass", "writeGlobalVariable"},
	{"glsl-texture-argument-type", "C05", "imagetype.viaglobal", "resolveImageType"},
	{"glsl-texture-argument-type", "C15", "imagetype.viaglobal", "resolveImageType"},
	{"hlsl-texture-argument-type", "C03", "imagetype.viaglobal", "getStorageLoadHelper"},
	{"glsl-reserved-prefix", "C16", "names.genformat", "reserved-prefix:gl_"},
	{"user-function-shadow", "C08", "call.usershadow", "lowerCall"},
	{"user-function-shadow", "C19", "call.usershadow", "lowerCall"},
	{"local-const-shadow", "C08", "lookup.innerfirst", "evalConstantIdent"},
	{"local-const-shadow", "C11", "lookup.innerfirst", "evalConstantIdent"},
	{"spirv-restrict-ones-type", "C02", "constcomposite.component", "emitImageLoadRestrict"},
	{"global-init-dropped", "C09", "phase.stalehandles", "moduleConstants"},
	{"negative-literal-unary", "C09", "phase.stalehandles", "evalConstantIdent"},
	{"constructor-init-silent", "C09", "eval.silentdefault", "buildGlobalExpressions"},
	{"attribute-silent-default", "C17", "eval.silentdefault", "collectBinding"},
	{"dxil-sample-mask-semantic", "C18", "semantic.siblings", "MapBuiltinToSemantic:missing:BuiltinSampleMask"},
	{"deref-compound-noload", "C08", "deref.loadrule", "lowerAssign"},
	{"inline-local-noreinit", "C13", "inline.localreinit", "inlineOneCall"},
	{"dce-no-remark", "C13", "unmark.remarked", "dce.Run"},
	{"unknown-name-default", "C11", "name.silentdefault", "Lowerer.builtin"},
	{"glsl-all-entry-points", "C05", "epselect.agree", "Writer.writeEntryPoints:filter"},
	{"glsl-atomic-sub-glue", "C05", "parens.prefixglue", "Writer.writeAtomic:format(value)"},
	{"dce-pointer-escape", "C13", "census.loadonly", "dce.findDeadLocals:load-census"},
	{"lower-scope-leftover", "C11", "scope.leaveclean", "lowerFunction:locals"},
	{"let-pointer-copy", "C08", "attr.aliasclosure", "lowerLocalConst:localIsPtr"},
	{"sroa-init-lost", "C13", "split.initkept", "sroa.decompose:LocalVariable.Init"},
	{"dce-no-repropagation", "C13", "unmark.propagatedagain", "dce.Run:markLiveLocalStoreValues"},
	{"hlsl-missing-binding-silent", "C17", "bindmap.missreported", "Writer.getBindTarget:FakeMissingBindings"},
	{"swizzle-pointer-param", "C08", "forref.valueuse", "lowerMember:ExprSwizzle.Vector"},
	{"splat-matrix-operand", "C08", "splat.scalaroperand", "splatScalarToMatchPointer:Splat(value)"},
	{"glsl-all-entry-points", "C17", "epselect.agree", "Writer.scanTextureSamplerPairs:filter"},
	{"unknown-name-default", "C17", "name.silentdefault", "Lowerer.addressSpace"},
	{"mem2reg-revoke-in-walk", "C13", "commit.revoke", "walkBlock"},
	{"mem2reg-loop-unaware", "C13", "promote.loopaware", "promoteBlocks"},
	{"sroa-store-not-split", "C13", "classify.rewritten", "classifyStmts:StmtStore"},
	{"inline-return-in-loop", "C13", "return.breakdepth", "rewriteReturnsForInline"},
	{"glsl-vector-select", "C05", "select.condshape", "writeSelect"},
	{"glsl-image-atomic-coord", "C05", "image.coordbuilder", "writeImageAtomic"},
	{"glsl-shallow-feature-scan", "C05", "walker.shallow", "scanStatementsForFeatures"},
	{"glsl-nested-switch-continue", "C05", "continue.forwardnest", "writeSwitch"},
	{"stale-type-tables", "C09", "phase.stalehandles", "findStructType"},
	{"stale-type-tables", "C10", "phase.stalehandles", "coerceScalarToType"},
	{"stale-type-tables", "C09", "handle.zerosentinel", "findColumnType"},
}

// overlayFromPatch materialises the files a unified diff touches, patches
// them in a temporary directory and returns them as an overlay keyed by their
// real path under repo. ok=false if the patch does not apply.
func overlayFromPatch(repo, patchFile string) (map[string][]byte, bool) {
	b, err := os.ReadFile(patchFile)
	if err != nil {
		return nil, false
	}
	var files []string
	for _, line := range strings.Split(string(b), "\n") {
		if strings.HasPrefix(line, "+++ b/") {
			files = append(files, strings.TrimPrefix(line, "+++ b/"))
		}
	}
	if len(files) == 0 {
		return nil, false
	}
	tmp, err := os.MkdirTemp("", "nagacheck-overlay-")
	if err != nil {
		return nil, false
	}
	defer os.RemoveAll(tmp)
	for _, f := range files {
		src, err := os.ReadFile(filepath.Join(repo, f))
		if err != nil {
			return nil, false
		}
		dst := filepath.Join(tmp, f)
		os.MkdirAll(filepath.Dir(dst), 0o755)
		if err := os.WriteFile(dst, src, 0o644); err != nil {
			return nil, false
		}
	}
	cmd := exec.Command("patch", "-p1", "-s", "--no-backup-if-mismatch", "-d", tmp, "-i", patchFile)
	if out, err := cmd.CombinedOutput(); err != nil {
		_ = out
		return nil, false
	}
	ov := map[string][]byte{}
	for _, f := range files {
		nb, err := os.ReadFile(filepath.Join(tmp, f))
		if err != nil {
			return nil, false
		}
		ov[filepath.Join(repo, f)] = nb
	}
	return ov, true
}

// runSelfTest adds one obligation per expectation of this property.
func runSelfTest(repo, verif string, r *Report) {
	type res struct{ applied, caught int }
	var skipped []string
	n := 0
	for _, e := range seedExpectations {
		if e.Prop != r.Prop {
			continue
		}
		n++
		construct := e.Seed + ":" + e.Rule + ":" + e.Construct
		patch := filepath.Join(verif, "seeded", e.Seed, "patch.diff")
		if _, err := os.Stat(patch); err != nil {
			patch = filepath.Join(verif, "controls", e.Seed, "patch.diff")
		}
		ov, ok := overlayFromPatch(repo, patch)
		if !ok {
			skipped = append(skipped, e.Seed)
			r.triv("selftest.seed", construct, "", "seed patch does not apply to the current tree: skipped")
			continue
		}
		caught := false
		func() {
			defer func() {
				if x := recover(); x != nil {
					// the mutant does not type-check: not a valid variant
					skipped = append(skipped, e.Seed+"(does not type-check)")
					caught = true
				}
			}()
			ctx := loadRepoOverlay(repo, "thorough", nil, "overlay:"+e.Seed, ov)
			r2 := newReport(e.Prop)
			props[e.Prop](ctx, r2)
			for _, o := range r2.Obs {
				if o.Verdict == Violation && o.Rule == e.Rule && strings.Contains(o.Construct, e.Construct) {
					caught = true
				}
			}
		}()
		if caught {
			r.ok("selftest.seed", construct, "", "seeded change "+e.Seed+" applied as an overlay is reported by "+e.Rule)
		} else {
			r.viol("selftest.seed", construct, "", fmt.Sprintf("seeded change %s (seeded/%s/patch.diff) applied as an overlay type-checks but rule %s no longer reports a construct containing %q: the rule went blind", e.Seed, e.Seed, e.Rule, e.Construct))
		}
	}
	r.Extra["selftest.expectations"] = n
	r.Extra["selftest.skipped"] = skipped
}
