package main

import (
	"go/ast"
	"go/token"
	"go/types"
)

// deref.loadrule (C08): the lowerer's load rule loads references (variables,
// accesses into them) and leaves every other expression alone - also a pointer
// VALUE such as a ptr<function, T> parameter. Where a function obtains a
// pointer from an explicit dereference (`*p`: a branch testing
// parser.TokenStar that lowers the operand) and later asks the load rule for
// the pointee's value, it must deal with the rule answering "unchanged"
// (compare the result with the pointer, or build the ExprLoad itself);
// otherwise `*p += 1` computes with the pointer instead of the pointee.
func (c *Ctx) runDerefLoadRule(r *Report, rule string, pkg string) {
	n := 0
	for _, fn := range c.allFuncs() {
		if fn.Pkg.Rel != pkg || fn.Obj == nil || fn.Decl.Body == nil {
			continue
		}
		info := fn.Pkg.Info
		// pointer variables assigned in a TokenStar branch
		ptrs := map[types.Object]bool{}
		ast.Inspect(fn.Decl.Body, func(m ast.Node) bool {
			is, ok := m.(*ast.IfStmt)
			if !ok {
				return true
			}
			star := false
			ast.Inspect(is.Cond, func(k ast.Node) bool {
				if se, ok := k.(*ast.SelectorExpr); ok && se.Sel.Name == "TokenStar" {
					star = true
				}
				return true
			})
			if !star {
				return true
			}
			for _, st := range is.Body.List {
				if as, ok := st.(*ast.AssignStmt); ok && len(as.Rhs) == 1 {
					if _, isCall := ast.Unparen(as.Rhs[0]).(*ast.CallExpr); isCall {
						if id, ok := as.Lhs[0].(*ast.Ident); ok {
							if o := info.ObjectOf(id); o != nil && irTypeName(o.Type()) == "ExpressionHandle" {
								ptrs[o] = true
							}
						}
					}
				}
			}
			return true
		})
		if len(ptrs) == 0 {
			continue
		}
		ord := 0
		ast.Inspect(fn.Decl.Body, func(m ast.Node) bool {
			as, ok := m.(*ast.AssignStmt)
			if !ok || len(as.Lhs) != 1 || len(as.Rhs) != 1 {
				return true
			}
			call, ok := ast.Unparen(as.Rhs[0]).(*ast.CallExpr)
			if !ok || len(call.Args) != 1 {
				return true
			}
			f := calleeOf(info, call)
			if f == nil || f.Name() != "applyLoadRule" {
				return true
			}
			pid, ok := ast.Unparen(call.Args[0]).(*ast.Ident)
			if !ok || !ptrs[info.ObjectOf(pid)] {
				return true
			}
			res, ok := as.Lhs[0].(*ast.Ident)
			if !ok {
				return true
			}
			ord++
			n++
			cons := fn.id() + ":applyLoadRule#" + itoa(ord)
			// handled: a comparison of the result with the pointer somewhere after
			handled := false
			ast.Inspect(fn.Decl.Body, func(k ast.Node) bool {
				be, ok := k.(*ast.BinaryExpr)
				if !ok || (be.Op != token.EQL && be.Op != token.NEQ) || be.Pos() < as.End() {
					return true
				}
				x, okx := ast.Unparen(be.X).(*ast.Ident)
				y, oky := ast.Unparen(be.Y).(*ast.Ident)
				if okx && oky {
					ox, oy := info.ObjectOf(x), info.ObjectOf(y)
					if (ox == info.ObjectOf(res) && oy == info.ObjectOf(pid)) || (oy == info.ObjectOf(res) && ox == info.ObjectOf(pid)) {
						handled = true
					}
				}
				return true
			})
			if handled {
				r.ok(rule, cons, c.pos(as.Pos()), "")
			} else {
				r.viol(rule, cons, c.pos(as.Pos()), fn.id()+" takes a pointer from an explicit dereference and asks the load rule for its value without dealing with the rule leaving a pointer value (a ptr<> parameter) unloaded")
			}
			return true
		})
	}
	r.inst(rule, n)
}

func init() {
	dumpers["derefload"] = func(c *Ctx, parts []string) {
		r := newReport("dump")
		c.runDerefLoadRule(r, "deref.loadrule", "wgsl/internal/lower")
		for _, o := range r.Obs {
			println(o.Verdict, o.Construct, o.Pos)
		}
	}
}
