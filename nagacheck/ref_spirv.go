package main

// Reference tables written from the SPIR-V 1.6 unified specification and the
// GLSL.std.450 extended instruction set (independent of the repository).

var refOpCode = map[string]int64{
	"Nop": 0, "Undef": 1, "SourceContinued": 2, "Source": 3, "SourceExtension": 4, "Name": 5, "MemberName": 6, "String": 7, "Line": 8,
	"Extension": 10, "ExtInstImport": 11, "ExtInst": 12, "MemoryModel": 14, "EntryPoint": 15, "ExecutionMode": 16, "Capability": 17,
	"TypeVoid": 19, "TypeBool": 20, "TypeInt": 21, "TypeFloat": 22, "TypeVector": 23, "TypeMatrix": 24, "TypeImage": 25, "TypeSampler": 26,
	"TypeSampledImage": 27, "TypeArray": 28, "TypeRuntimeArray": 29, "TypeStruct": 30, "TypeOpaque": 31, "TypePointer": 32, "TypeFunction": 33,
	"ConstantTrue": 41, "ConstantFalse": 42, "Constant": 43, "ConstantComposite": 44, "ConstantSampler": 45, "ConstantNull": 46,
	"SpecConstantTrue": 48, "SpecConstantFalse": 49, "SpecConstant": 50, "SpecConstantComposite": 51, "SpecConstantOp": 52,
	"Function": 54, "FunctionParameter": 55, "FunctionEnd": 56, "FunctionCall": 57, "Variable": 59, "ImageTexelPointer": 60, "Load": 61, "Store": 62,
	"CopyMemory": 63, "AccessChain": 65, "InBoundsAccessChain": 66, "ArrayLength": 68, "Decorate": 71, "MemberDecorate": 72,
	"VectorExtractDynamic": 77, "VectorInsertDynamic": 78, "VectorShuffle": 79, "CompositeConstruct": 80, "CompositeExtract": 81, "CompositeInsert": 82,
	"CopyObject": 83, "Transpose": 84, "SampledImage": 86, "ImageSampleImplicitLod": 87, "ImageSampleExplicitLod": 88, "ImageSampleDrefImplicitLod": 89,
	"ImageSampleDrefExplicitLod": 90, "ImageSampleProjImplicitLod": 91, "ImageSampleProjExplicitLod": 92, "ImageSampleProjDrefImplicitLod": 93,
	"ImageSampleProjDrefExplicitLod": 94, "ImageFetch": 95, "ImageGather": 96, "ImageDrefGather": 97, "ImageRead": 98, "ImageWrite": 99, "Image": 100,
	"ImageQueryFormat": 101, "ImageQueryOrder": 102, "ImageQuerySizeLod": 103, "ImageQuerySize": 104, "ImageQueryLod": 105, "ImageQueryLevels": 106, "ImageQuerySamples": 107,
	"ConvertFToU": 109, "ConvertFToS": 110, "ConvertSToF": 111, "ConvertUToF": 112, "UConvert": 113, "SConvert": 114, "FConvert": 115, "QuantizeToF16": 116,
	"Bitcast": 124, "SNegate": 126, "FNegate": 127, "IAdd": 128, "FAdd": 129, "ISub": 130, "FSub": 131, "IMul": 132, "FMul": 133, "UDiv": 134, "SDiv": 135, "FDiv": 136,
	"UMod": 137, "SRem": 138, "SMod": 139, "FRem": 140, "FMod": 141, "VectorTimesScalar": 142, "MatrixTimesScalar": 143, "VectorTimesMatrix": 144,
	"MatrixTimesVector": 145, "MatrixTimesMatrix": 146, "OuterProduct": 147, "Dot": 148, "IAddCarry": 149, "ISubBorrow": 150, "UMulExtended": 151, "SMulExtended": 152,
	"Any": 154, "All": 155, "IsNan": 156, "IsInf": 157, "LogicalEqual": 164, "LogicalNotEqual": 165, "LogicalOr": 166, "LogicalAnd": 167, "LogicalNot": 168, "Select": 169,
	"IEqual": 170, "INotEqual": 171, "UGreaterThan": 172, "SGreaterThan": 173, "UGreaterThanEqual": 174, "SGreaterThanEqual": 175, "ULessThan": 176, "SLessThan": 177,
	"ULessThanEqual": 178, "SLessThanEqual": 179, "FOrdEqual": 180, "FUnordEqual": 181, "FOrdNotEqual": 182, "FUnordNotEqual": 183, "FOrdLessThan": 184, "FUnordLessThan": 185,
	"FOrdGreaterThan": 186, "FUnordGreaterThan": 187, "FOrdLessThanEqual": 188, "FUnordLessThanEqual": 189, "FOrdGreaterThanEqual": 190, "FUnordGreaterThanEqual": 191,
	"ShiftRightLogical": 194, "ShiftRightArithmetic": 195, "ShiftLeftLogical": 196, "BitwiseOr": 197, "BitwiseXor": 198, "BitwiseAnd": 199, "Not": 200,
	"BitFieldInsert": 201, "BitFieldSExtract": 202, "BitFieldUExtract": 203, "BitReverse": 204, "BitCount": 205,
	"DPdx": 207, "DPdy": 208, "Fwidth": 209, "DPdxFine": 210, "DPdyFine": 211, "FwidthFine": 212, "DPdxCoarse": 213, "DPdyCoarse": 214, "FwidthCoarse": 215,
	"EmitVertex": 218, "EndPrimitive": 219, "ControlBarrier": 224, "MemoryBarrier": 225, "AtomicLoad": 227, "AtomicStore": 228, "AtomicExchange": 229,
	"AtomicCompareExchange": 230, "AtomicCompareExch": 230, "AtomicCompareExchangeWeak": 231, "AtomicIIncrement": 232, "AtomicIDecrement": 233, "AtomicIAdd": 234, "AtomicISub": 235,
	"AtomicSMin": 236, "AtomicUMin": 237, "AtomicSMax": 238, "AtomicUMax": 239, "AtomicAnd": 240, "AtomicOr": 241, "AtomicXor": 242,
	"Phi": 245, "LoopMerge": 246, "SelectionMerge": 247, "Label": 248, "Branch": 249, "BranchConditional": 250, "Switch": 251, "Kill": 252, "Return": 253, "ReturnValue": 254, "Unreachable": 255,
	"GroupNonUniformElect": 333, "GroupNonUniformAll": 334, "GroupNonUniformAny": 335, "GroupNonUniformAllEqual": 336, "GroupNonUniformBroadcast": 337, "GroupNonUniformBroadcastFirst": 338,
	"GroupNonUniformBallot": 339, "GroupNonUniformInverseBallot": 340, "GroupNonUniformBallotBitExtract": 341, "GroupNonUniformBallotBitCount": 342, "GroupNonUniformBallotFindLSB": 343,
	"GroupNonUniformBallotFindMSB": 344, "GroupNonUniformShuffle": 345, "GroupNonUniformShuffleXor": 346, "GroupNonUniformShuffleUp": 347, "GroupNonUniformShuffleDown": 348,
	"GroupNonUniformIAdd": 349, "GroupNonUniformFAdd": 350, "GroupNonUniformIMul": 351, "GroupNonUniformFMul": 352, "GroupNonUniformSMin": 353, "GroupNonUniformUMin": 354,
	"GroupNonUniformFMin": 355, "GroupNonUniformSMax": 356, "GroupNonUniformUMax": 357, "GroupNonUniformFMax": 358, "GroupNonUniformBitwiseAnd": 359, "GroupNonUniformBitwiseOr": 360,
	"GroupNonUniformBitwiseXor": 361, "GroupNonUniformLogicalAnd": 362, "GroupNonUniformLogicalOr": 363, "GroupNonUniformLogicalXor": 364, "GroupNonUniformQuadBroadcast": 365, "GroupNonUniformQuadSwap": 366,
	"CopyLogical": 400, "PtrEqual": 401, "PtrNotEqual": 402, "PtrDiff": 403,
	"SDot": 4450, "UDot": 4451, "SUDot": 4452, "SDotAccSat": 4453, "UDotAccSat": 4454, "SUDotAccSat": 4455,
	"TypeRayQuery": 4472, "RayQueryInitialize": 4473, "RayQueryTerminate": 4474, "RayQueryGenerateIntersection": 4475, "RayQueryConfirmIntersection": 4476, "RayQueryProceed": 4477, "RayQueryGetIntersectionType": 4479,
	"TypeAccelerationStructure": 5341, "AtomicFMin": 5614, "AtomicFMax": 5615,
	"RayQueryGetRayTMin": 6016, "RayQueryGetRayFlags": 6017, "RayQueryGetIntersectionT": 6018, "RayQueryGetIntersectionInstanceCustomIndex": 6019, "RayQueryGetIntersectionInstanceId": 6020,
	"RayQueryGetIntersectionInstanceShaderBindingTableRecordOffset": 6021, "RayQueryGetIntersectionGeometryIndex": 6022, "RayQueryGetIntersectionPrimitiveIndex": 6023,
	"RayQueryGetIntersectionBarycentrics": 6024, "RayQueryGetIntersectionFrontFace": 6025, "RayQueryGetIntersectionCandidateAABBOpaque": 6026, "RayQueryGetIntersectionObjectRayDirection": 6027,
	"RayQueryGetIntersectionObjectRayOrigin": 6028, "RayQueryGetWorldRayDirection": 6029, "RayQueryGetWorldRayOrigin": 6030, "RayQueryGetIntersectionObjectToWorld": 6031, "RayQueryGetIntersectionWorldToObject": 6032,
	"AtomicFAdd": 6035,
}

var refGLSLstd450 = map[string]int64{
	"Round": 1, "RoundEven": 2, "Trunc": 3, "FAbs": 4, "SAbs": 5, "FSign": 6, "SSign": 7, "Floor": 8, "Ceil": 9, "Fract": 10, "Radians": 11, "Degrees": 12,
	"Sin": 13, "Cos": 14, "Tan": 15, "Asin": 16, "Acos": 17, "Atan": 18, "Sinh": 19, "Cosh": 20, "Tanh": 21, "Asinh": 22, "Acosh": 23, "Atanh": 24, "Atan2": 25,
	"Pow": 26, "Exp": 27, "Log": 28, "Exp2": 29, "Log2": 30, "Sqrt": 31, "InverseSqrt": 32, "Determinant": 33, "MatrixInverse": 34, "Modf": 35, "ModfStruct": 36,
	"FMin": 37, "UMin": 38, "SMin": 39, "FMax": 40, "UMax": 41, "SMax": 42, "FClamp": 43, "UClamp": 44, "SClamp": 45, "FMix": 46, "IMix": 47, "Step": 48, "SmoothStep": 49,
	"Fma": 50, "Frexp": 51, "FrexpStruct": 52, "Ldexp": 53, "PackSnorm4x8": 54, "PackUnorm4x8": 55, "PackSnorm2x16": 56, "PackUnorm2x16": 57, "PackHalf2x16": 58, "PackDouble2x32": 59,
	"UnpackSnorm2x16": 60, "UnpackUnorm2x16": 61, "UnpackHalf2x16": 62, "UnpackSnorm4x8": 63, "UnpackUnorm4x8": 64, "UnpackDouble2x32": 65,
	"Length": 66, "Distance": 67, "Cross": 68, "Normalize": 69, "FaceForward": 70, "Reflect": 71, "Refract": 72, "FindILsb": 73, "FindSMsb": 74, "FindUMsb": 75,
	"InterpolateAtCentroid": 76, "InterpolateAtSample": 77, "InterpolateAtOffset": 78, "NMin": 79, "NMax": 80, "NClamp": 81,
}

var refDecoration = map[string]int64{
	"RelaxedPrecision": 0, "SpecId": 1, "Block": 2, "BufferBlock": 3, "RowMajor": 4, "ColMajor": 5, "ArrayStride": 6, "MatrixStride": 7, "GLSLShared": 8, "GLSLPacked": 9, "CPacked": 10,
	"BuiltIn": 11, "NoPerspective": 13, "Flat": 14, "Patch": 15, "Centroid": 16, "Sample": 17, "Invariant": 18, "Restrict": 19, "Aliased": 20, "Volatile": 21, "Constant": 22, "Coherent": 23,
	"NonWritable": 24, "NonReadable": 25, "Uniform": 26, "UniformId": 27, "SaturatedConversion": 28, "Stream": 29, "Location": 30, "Component": 31, "Index": 32, "Binding": 33, "DescriptorSet": 34,
	"Offset": 35, "XfbBuffer": 36, "XfbStride": 37, "FuncParamAttr": 38, "FPRoundingMode": 39, "FPFastMathMode": 40, "LinkageAttributes": 41, "NoContraction": 42, "InputAttachmentIndex": 43, "Alignment": 44,
	"MaxByteOffset": 45, "PerPrimitive": 5271, "PerVertex": 5285, "NonUniform": 5300,
}

var refBuiltIn = map[string]int64{
	"Position": 0, "PointSize": 1, "ClipDistance": 3, "CullDistance": 4, "VertexId": 5, "InstanceId": 6, "PrimitiveId": 7, "InvocationId": 8, "Layer": 9, "ViewportIndex": 10,
	"TessLevelOuter": 11, "TessLevelInner": 12, "TessCoord": 13, "PatchVertices": 14, "FragCoord": 15, "PointCoord": 16, "FrontFacing": 17, "SampleId": 18, "SamplePosition": 19, "SampleMask": 20,
	"FragDepth": 22, "HelperInvocation": 23, "NumWorkgroups": 24, "WorkgroupSize": 25, "WorkgroupId": 26, "LocalInvocationId": 27, "GlobalInvocationId": 28, "LocalInvocationIndex": 29,
	"SubgroupSize": 36, "NumSubgroups": 38, "SubgroupId": 40, "SubgroupLocalInvocationId": 41, "SubgroupLocalInvID": 41, "VertexIndex": 42, "InstanceIndex": 43,
	"SubgroupEqMask": 4416, "SubgroupGeMask": 4417, "SubgroupGtMask": 4418, "SubgroupLeMask": 4419, "SubgroupLtMask": 4420, "BaseVertex": 4424, "BaseInstance": 4425, "DrawIndex": 4426,
	"DeviceIndex": 4438, "ViewIndex": 4440, "BaryCoord": 5286, "BaryCoordNoPersp": 5287, "PrimitivePointIndices": 5294, "PrimitiveLineIndices": 5295, "PrimitiveTriangleIndices": 5296, "CullPrimitive": 5299,
}

var refStorageClass = map[string]int64{
	"UniformConstant": 0, "Input": 1, "Uniform": 2, "Output": 3, "Workgroup": 4, "CrossWorkgroup": 5, "Private": 6, "Function": 7, "Generic": 8, "PushConstant": 9, "AtomicCounter": 10,
	"Image": 11, "StorageBuffer": 12, "CallableData": 5328, "IncomingCallableData": 5329, "RayPayload": 5338, "HitAttribute": 5339, "IncomingRayPayload": 5342, "ShaderRecordBuffer": 5343,
	"PhysicalStorageBuffer": 5349, "TaskPayloadWorkgroup": 5402,
}

var refExecutionModel = map[string]int64{
	"Vertex": 0, "TessellationControl": 1, "TessellationEvaluation": 2, "Geometry": 3, "Fragment": 4, "GLCompute": 5, "Kernel": 6, "Task": 5364, "Mesh": 5365,
}

var refExecutionMode = map[string]int64{
	"Invocations": 0, "SpacingEqual": 1, "SpacingFractionalEven": 2, "SpacingFractionalOdd": 3, "VertexOrderCw": 4, "VertexOrderCcw": 5, "PixelCenterInteger": 6,
	"OriginUpperLeft": 7, "OriginLowerLeft": 8, "EarlyFragmentTests": 9, "PointMode": 10, "Xfb": 11, "DepthReplacing": 12, "DepthGreater": 14, "DepthLess": 15, "DepthUnchanged": 16,
	"LocalSize": 17, "LocalSizeHint": 18, "InputPoints": 19, "InputLines": 20, "InputLinesAdjacency": 21, "Triangles": 22, "InputTrianglesAdjacency": 23, "Quads": 24, "Isolines": 25,
	"OutputVertices": 26, "OutputPoints": 27, "OutputLineStrip": 28, "OutputTriangleStrip": 29, "VecTypeHint": 30, "ContractionOff": 31, "Initializer": 33, "Finalizer": 34,
	"SubgroupSize": 35, "SubgroupsPerWorkgroup": 36, "SubgroupsPerWorkgroupId": 37, "LocalSizeId": 38, "LocalSizeHintId": 39, "PostDepthCoverage": 4446,
	"DenormPreserve": 4459, "DenormFlushToZero": 4460, "SignedZeroInfNanPreserve": 4461, "RoundingModeRTE": 4462, "RoundingModeRTZ": 4463,
	"OutputLines": 5269, "OutputPrimitives": 5270, "OutputTriangles": 5298,
}

var refCapability = map[string]int64{
	"Matrix": 0, "Shader": 1, "Geometry": 2, "Tessellation": 3, "Addresses": 4, "Linkage": 5, "Kernel": 6, "Vector16": 7, "Float16Buffer": 8, "Float16": 9, "Float64": 10, "Int64": 11,
	"Int64Atomics": 12, "ImageBasic": 13, "ImageReadWrite": 14, "ImageMipmap": 15, "Pipes": 17, "Groups": 18, "DeviceEnqueue": 19, "LiteralSampler": 20, "AtomicStorage": 21, "Int16": 22,
	"TessellationPointSize": 23, "GeometryPointSize": 24, "ImageGatherExtended": 25, "StorageImageMultisample": 27, "UniformBufferArrayDynamicIndexing": 28, "SampledImageArrayDynamicIndexing": 29,
	"StorageBufferArrayDynamicIndexing": 30, "StorageImageArrayDynamicIndexing": 31, "ClipDistance": 32, "CullDistance": 33, "ImageCubeArray": 34, "SampleRateShading": 35, "ImageRect": 36,
	"SampledRect": 37, "GenericPointer": 38, "Int8": 39, "InputAttachment": 40, "SparseResidency": 41, "MinLod": 42, "Sampled1D": 43, "Image1D": 44, "SampledCubeArray": 45, "SampledBuffer": 46,
	"ImageBuffer": 47, "ImageMSArray": 48, "StorageImageExtendedFormats": 49, "ImageQuery": 50, "DerivativeControl": 51, "InterpolationFunction": 52, "TransformFeedback": 53, "GeometryStreams": 54,
	"StorageImageReadWithoutFormat": 55, "StorageImageWriteWithoutFormat": 56, "MultiViewport": 57, "SubgroupDispatch": 58, "NamedBarrier": 59, "PipeStorage": 60, "GroupNonUniform": 61,
	"GroupNonUniformVote": 62, "GroupNonUniformArithmetic": 63, "GroupNonUniformBallot": 64, "GroupNonUniformShuffle": 65, "GroupNonUniformShuffleRelative": 66, "GroupNonUniformShuffleRel": 66,
	"GroupNonUniformClustered": 67, "GroupNonUniformQuad": 68, "ShaderLayer": 69, "ShaderViewportIndex": 70, "SubgroupBallot": 4423, "DrawParameters": 4427, "SubgroupVote": 4431,
	"StorageBuffer16BitAccess": 4433, "UniformAndStorageBuffer16BitAccess": 4434, "StoragePushConstant16": 4435, "StorageInputOutput16": 4436, "DeviceGroup": 4437, "MultiView": 4439,
	"VariablePointersStorageBuffer": 4441, "VariablePointers": 4442, "AtomicStorageOps": 4445, "SampleMaskPostDepthCoverage": 4447, "StorageBuffer8BitAccess": 4448,
	"UniformAndStorageBuffer8BitAccess": 4449, "StoragePushConstant8": 4450, "DenormPreserve": 4464, "DenormFlushToZero": 4465, "SignedZeroInfNanPreserve": 4466, "RoundingModeRTE": 4467,
	"RoundingModeRTZ": 4468, "RayQueryProvisional": 4471, "RayQuery": 4472, "RayTraversalPrimitiveCulling": 4478, "RayTracing": 4479, "Int64Image": 5016, "MeshShading": 5283,
	"FragmentBarycentric": 5284, "ShaderNonUniform": 5301, "RuntimeDescriptorArray": 5302, "InputAttachmentArrayDynamicIndexing": 5303, "UniformTexelBufferArrayDynamicIndexing": 5304,
	"StorageTexelBufferArrayDynamicIndexing": 5305, "UniformBufferArrayNonUniformIndexing": 5306, "SampledImageArrayNonUniformIndexing": 5307, "StorageBufferArrayNonUniformIndexing": 5308,
	"StorageImageArrayNonUniformIndexing": 5309, "VulkanMemoryModel": 5345, "PhysicalStorageBufferAddresses": 5347, "DemoteToHelperInvocation": 5379, "AtomicFloat32MinMax": 5612,
	"AtomicFloat64MinMax": 5613, "DotProductInputAll": 6016, "DotProductInput4x8Bit": 6017, "DotProductInput4x8BitPacked": 6018, "DotProduct": 6019, "AtomicFloat32Add": 6033, "AtomicFloat64Add": 6034,
}

var refDim = map[string]int64{"1D": 0, "2D": 1, "3D": 2, "Cube": 3, "Rect": 4, "Buffer": 5, "SubpassData": 6}

var refImageFormat = map[string]int64{
	"Unknown": 0, "Rgba32f": 1, "Rgba16f": 2, "R32f": 3, "Rgba8": 4, "Rgba8Snorm": 5, "Rg32f": 6, "Rg16f": 7, "R11fG11fB10f": 8, "R16f": 9, "Rgba16": 10, "Rgb10A2": 11, "Rg16": 12, "Rg8": 13,
	"R16": 14, "R8": 15, "Rgba16Snorm": 16, "Rg16Snorm": 17, "Rg8Snorm": 18, "R16Snorm": 19, "R8Snorm": 20, "Rgba32i": 21, "Rgba16i": 22, "Rgba8i": 23, "R32i": 24, "Rg32i": 25, "Rg16i": 26,
	"Rg8i": 27, "R16i": 28, "R8i": 29, "Rgba32ui": 30, "Rgba16ui": 31, "Rgba8ui": 32, "R32ui": 33, "Rgb10a2ui": 34, "Rg32ui": 35, "Rg16ui": 36, "Rg8ui": 37, "R16ui": 38, "R8ui": 39, "R64ui": 40, "R64i": 41,
}

var refMisc = map[string]map[string]int64{
	"AddressingModel":  {"Logical": 0, "Physical32": 1, "Physical64": 2, "PhysicalStorageBuffer64": 5348},
	"MemoryModel":      {"Simple": 0, "GLSL450": 1, "OpenCL": 2, "Vulkan": 3},
	"FunctionControl":  {"None": 0, "Inline": 1, "DontInline": 2, "Pure": 4, "Const": 8},
	"SelectionControl": {"None": 0, "Flatten": 1, "DontFlatten": 2},
	"LoopControl":      {"None": 0, "Unroll": 1, "DontUnroll": 2, "DependencyInfinite": 4, "DependencyLength": 8, "MinIterations": 16, "MaxIterations": 32, "IterationMultiple": 64, "PeelCount": 128, "PartialCount": 256},
}

func (c *Ctx) runSpirvTables(r *Report) {
	rel := "spirv/internal/codegen"
	c.runEnumTable(r, "tables.spirv", rel, "OpCode", []string{"Op"}, refOpCode, map[string]string{"OpImageSampleProjDrefExplicit": "OpImageSampleProjDrefExplicitLod", "OpImageSampleProjDrefImplicit": "OpImageSampleProjDrefImplicitLod"})
	c.runEnumTable(r, "tables.spirv", rel, "Decoration", []string{"Decoration"}, refDecoration, nil)
	c.runEnumTable(r, "tables.spirv", rel, "BuiltIn", []string{"BuiltIn"}, refBuiltIn, nil)
	c.runEnumTable(r, "tables.spirv", rel, "StorageClass", []string{"StorageClass"}, refStorageClass, nil)
	c.runEnumTable(r, "tables.spirv", rel, "ExecutionModel", []string{"ExecutionModel"}, refExecutionModel, nil)
	c.runEnumTable(r, "tables.spirv", rel, "ExecutionMode", []string{"ExecutionMode"}, refExecutionMode, nil)
	c.runEnumTable(r, "tables.spirv", rel, "Capability", []string{"Capability"}, refCapability, nil)
	c.runEnumTable(r, "tables.spirv", rel, "ImageFormat", []string{"ImageFormat"}, refImageFormat, nil)
	c.runPrefixTable(r, "tables.spirv", rel, "GLSLstd450", refGLSLstd450)
	for t, ref := range refMisc {
		c.runEnumTable(r, "tables.spirv", rel, t, []string{t}, ref, nil)
	}
}

func init() {
	dumpers["tables"] = func(c *Ctx, parts []string) {
		r := newReport("dump")
		c.runSpirvTables(r)
		for _, o := range r.Obs {
			if o.Verdict != OK || !o.Nontrivial {
				println(o.Verdict, o.Construct, o.Msg)
			}
		}
		for k, v := range r.Instances {
			println(k, v)
		}
	}
}
