package main

// option.read (C15, C17, C02-C05): a backend's Options are promises: a field the
// caller can set (a bounds-check policy per resource kind, a binding map, a
// flag) must be READ by the backend's code generator, or selecting it has no
// effect and the caller believes in a protection that is not there
// (spirv.Options.BoundsCheckPolicies.Index = Restrict left every buffer index
// unchecked). For every field of the struct types named Options and of the
// struct types of their fields that are declared in the same package, there is
// at least one read of the field (a selector expression that is not the target
// of an assignment and not a key of a composite literal) in the backend's
// non-test code.

import (
	"go/ast"
	"go/types"
	"sort"
	"strings"
)

const optionReadClause = "options honoured (E44): every field of a backend's Options (and of the option structs nested in it) that concerns this property is read by the backend's code - a field that is only copied between option structs has no effect on the output"

var optionReadExceptions = map[string]string{
	"glsl/internal/codegen:BoundsCheckPolicies.ImageStore": "GLSL defines imageStore to coordinates outside the image as having no effect (ARB_shader_image_load_store: invalid image stores are ignored), which is the skip-write behaviour; there is nothing to emit for either policy",
}

func (c *Ctx) runOptionRead(r *Report, rule string, pkgRel string, want func(field string) bool, exceptions map[string]string) {
	n := 0
	pkg := c.ByPath[modPath+"/"+pkgRel]
	if pkg == nil {
		r.undecided(rule, pkgRel+":Options", "", "package not loaded")
		return
	}
	obj := pkg.Types.Scope().Lookup("Options")
	if obj == nil {
		r.inst("option.read", 0)
		return
	}
	// option struct types: Options and, transitively, struct types of its fields declared in this package
	var structs []*types.Named
	seen := map[*types.Named]bool{}
	var visit func(t types.Type)
	visit = func(t types.Type) {
		nt, ok := types.Unalias(t).(*types.Named)
		if !ok || seen[nt] || nt.Obj().Pkg() != pkg.Types {
			return
		}
		st, ok := nt.Underlying().(*types.Struct)
		if !ok {
			return
		}
		seen[nt] = true
		structs = append(structs, nt)
		for i := 0; i < st.NumFields(); i++ {
			visit(st.Field(i).Type())
		}
	}
	visit(obj.Type())
	fields := map[*types.Var]string{}
	for _, nt := range structs {
		st := nt.Underlying().(*types.Struct)
		for i := 0; i < st.NumFields(); i++ {
			fields[st.Field(i)] = nt.Obj().Name() + "." + st.Field(i).Name()
		}
	}
	read := map[*types.Var]bool{}
	for _, p := range c.Roots {
		// reads anywhere in the module's library code count (the public wrapper package converts, the codegen package consumes)
		for _, f := range p.Syntax {
			var stack []ast.Node
			ast.Inspect(f, func(m ast.Node) bool {
				if m == nil {
					stack = stack[:len(stack)-1]
					return true
				}
				stack = append(stack, m)
				se, ok := m.(*ast.SelectorExpr)
				if !ok {
					return true
				}
				v, ok := p.TypesInfo.Uses[se.Sel].(*types.Var)
				if !ok || fields[v] == "" {
					return true
				}
				// target of an assignment?
				if len(stack) >= 2 {
					if as, ok := stack[len(stack)-2].(*ast.AssignStmt); ok {
						for _, l := range as.Lhs {
							if l == ast.Expr(se) {
								return true
							}
						}
					}
				}
				// a read that only copies the field into the same-named field of another options literal is not a use
				if len(stack) >= 2 {
					if kv, ok := stack[len(stack)-2].(*ast.KeyValueExpr); ok && kv.Value == ast.Expr(se) {
						if kid, ok := kv.Key.(*ast.Ident); ok && kid.Name == se.Sel.Name {
							return true
						}
					}
					// ... possibly under a conversion: Key: T(o.X.Key)
					if call, ok := stack[len(stack)-2].(*ast.CallExpr); ok && len(call.Args) == 1 && len(stack) >= 3 {
						if tv, ok := p.TypesInfo.Types[call.Fun]; ok && tv.IsType() {
							if kv, ok := stack[len(stack)-3].(*ast.KeyValueExpr); ok {
								if kid, ok := kv.Key.(*ast.Ident); ok && kid.Name == se.Sel.Name {
									return true
								}
							}
						}
					}
				}
				// a selector that is only the base of a longer selector reads the struct, not yet the leaf: counted for the struct field itself
				read[v] = true
				return true
			})
		}
	}
	var names []string
	byName := map[string]*types.Var{}
	for v, nm := range fields {
		names = append(names, nm)
		byName[nm] = v
	}
	sort.Strings(names)
	for _, nm := range names {
		v := byName[nm]
		if want != nil && !want(nm) {
			continue
		}
		n++
		cons := pkgRel + ":" + nm
		pos := c.pos(v.Pos())
		switch {
		case read[v]:
			r.ok(rule, cons, pos, "")
		case exceptions[cons] != "":
			r.exc(rule, cons, pos, exceptions[cons])
		default:
			r.viol(rule, cons, pos, "option "+nm+" of "+pkgRel+" is never read by the code generator: setting it has no effect on the output")
		}
	}
	r.inst("option.read", n)
}

func init() {
	dumpers["options"] = func(c *Ctx, parts []string) {
		r := newReport("dump")
		for _, p := range []string{"spirv/internal/codegen", "msl/internal/codegen", "hlsl/internal/codegen", "glsl/internal/codegen", "dxil"} {
			c.runOptionRead(r, "option.read", p, nil, nil)
		}
		nOK := 0
		for _, o := range r.Obs {
			if o.Verdict == "ok" {
				nOK++
				continue
			}
			println(o.Verdict, o.Construct, o.Pos, o.Msg)
		}
		println("ok:", nOK)
	}
}

// binding.fieldread (C17): everything a WGSL binding attribute says is stored in
// a field of an ir binding struct (BuiltinBinding, LocationBinding,
// Interpolation, ResourceBinding). A backend that never READS one of those
// fields cannot express the attribute: spirv never reading
// BuiltinBinding.Invariant means @invariant is dropped from every SPIR-V module.
// For every backend and every such field there is at least one read in the
// backend's packages.
func (c *Ctx) runBindingFieldRead(r *Report, rule string, backends []string, exceptions map[string]string) {
	n := 0
	irPkg := c.ByPath[modPath+"/ir"]
	if irPkg == nil {
		r.undecided(rule, "ir:binding-structs", "", "package ir not loaded")
		return
	}
	var fields []*types.Var
	names := map[*types.Var]string{}
	for _, sn := range []string{"BuiltinBinding", "LocationBinding", "Interpolation", "ResourceBinding"} {
		obj := irPkg.Types.Scope().Lookup(sn)
		if obj == nil {
			continue
		}
		st, ok := obj.Type().Underlying().(*types.Struct)
		if !ok {
			continue
		}
		for i := 0; i < st.NumFields(); i++ {
			fields = append(fields, st.Field(i))
			names[st.Field(i)] = sn + "." + st.Field(i).Name()
		}
	}
	for _, be := range backends {
		read := map[*types.Var]bool{}
		for _, p := range c.Roots {
			rel := relPkg(p.PkgPath)
			if rel != be && !strings.HasPrefix(rel, be+"/") {
				continue
			}
			for _, f := range p.Syntax {
				ast.Inspect(f, func(m ast.Node) bool {
					if se, ok := m.(*ast.SelectorExpr); ok {
						if v, ok := p.TypesInfo.Uses[se.Sel].(*types.Var); ok && names[v] != "" {
							read[v] = true
						}
					}
					return true
				})
			}
		}
		for _, v := range fields {
			n++
			cons := be + ":" + names[v]
			switch {
			case read[v]:
				r.ok(rule, cons, c.pos(v.Pos()), "")
			case exceptions[cons] != "":
				r.exc(rule, cons, c.pos(v.Pos()), exceptions[cons])
			default:
				r.viol(rule, cons, c.pos(v.Pos()), "the "+be+" backend never reads ir."+names[v]+": the attribute stored there cannot appear in its output")
			}
		}
	}
	r.inst("binding.fieldread", n)
}

func init() {
	dumpers["bindingfields"] = func(c *Ctx, parts []string) {
		r := newReport("dump")
		c.runBindingFieldRead(r, "binding.fieldread", []string{"spirv", "hlsl", "msl", "glsl", "dxil"}, nil)
		for _, o := range r.Obs {
			if o.Verdict != "ok" {
				println(o.Verdict, o.Construct, o.Msg)
			}
		}
	}
}
