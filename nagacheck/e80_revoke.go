package main

import (
	"go/ast"
	"go/types"
)

// commit.revoke (C13): a rename walk that DROPS statements on behalf of the
// members of a candidate set (a store to a candidate is not copied to the
// output) has committed to promoting them. If the same walk can later remove
// a member from the set (delete(w.candidates, v) in a function the walk
// reaches), what was dropped for that member before is lost while its later
// uses are kept: mem2reg deleted `x = i + 5u` in front of a loop and then
// withdrew x from promotion at the loop. Members must leave the set before
// the walk starts; a deletion during the walk is only sound for members that
// provably had nothing dropped yet.
func (c *Ctx) runCommitRevoke(r *Report, rule string, inPkg func(string) bool) {
	n := 0
	for _, fn := range c.allFuncs() {
		if !inPkg(fn.Pkg.Rel) || fn.Obj == nil || fn.Decl.Body == nil {
			continue
		}
		info := fn.Pkg.Info
		// the dropping site: inside `case ir.StmtStore`, a membership test of a map FIELD followed by continue
		var setField *types.Var
		ast.Inspect(fn.Decl.Body, func(m ast.Node) bool {
			ts, ok := m.(*ast.TypeSwitchStmt)
			if !ok || !typeSwitchOnKind(ts) {
				return true
			}
			for _, cl := range ts.Body.List {
				cc := cl.(*ast.CaseClause)
				isStore := false
				for _, e := range cc.List {
					if t, ok := info.Types[e]; ok && irTypeName(derefType(t.Type)) == "StmtStore" {
						isStore = true
					}
				}
				if !isStore {
					continue
				}
				ast.Inspect(cc, func(k ast.Node) bool {
					is, ok := k.(*ast.IfStmt)
					if !ok || is.Init == nil {
						return true
					}
					as, ok := is.Init.(*ast.AssignStmt)
					if !ok || len(as.Rhs) != 1 {
						return true
					}
					ix, ok := ast.Unparen(as.Rhs[0]).(*ast.IndexExpr)
					if !ok {
						return true
					}
					se, ok := ast.Unparen(ix.X).(*ast.SelectorExpr)
					if !ok {
						return true
					}
					sel := info.Selections[se]
					if sel == nil || sel.Kind() != types.FieldVal {
						return true
					}
					if _, isMap := sel.Obj().Type().Underlying().(*types.Map); !isMap {
						return true
					}
					drops := false
					ast.Inspect(is.Body, func(q ast.Node) bool {
						if bs, ok := q.(*ast.BranchStmt); ok && bs.Tok.String() == "continue" {
							drops = true
						}
						return true
					})
					if drops {
						setField = sel.Obj().(*types.Var)
					}
					return true
				})
			}
			return true
		})
		if setField == nil {
			continue
		}
		n++
		cons := fn.id() + ":" + setField.Name()
		// deletions from the same field in functions reachable from the walker
		var revoker *funcInfo
		for f := range c.reach(fn.Obj) {
			fi := c.funcByObj(f)
			if fi == nil || fi.Decl.Body == nil {
				continue
			}
			ast.Inspect(fi.Decl.Body, func(k ast.Node) bool {
				call, ok := k.(*ast.CallExpr)
				if !ok || len(call.Args) != 2 {
					return true
				}
				id, ok := call.Fun.(*ast.Ident)
				if !ok || id.Name != "delete" {
					return true
				}
				if se, ok := ast.Unparen(call.Args[0]).(*ast.SelectorExpr); ok {
					if sel := fi.Pkg.Info.Selections[se]; sel != nil && sel.Obj() == setField {
						revoker = fi
					}
				}
				return true
			})
		}
		if revoker == nil {
			r.ok(rule, cons, c.pos(fn.Decl.Pos()), "")
		} else {
			r.viol(rule, cons, c.pos(revoker.Decl.Pos()), fn.id()+" drops the stores of the members of "+setField.Name()+" as it walks, and "+revoker.id()+", which the walk reaches, deletes members from that set: a store dropped before the deletion is lost although the variable is no longer promoted")
		}
	}
	r.inst(rule, n)
}

func init() {
	dumpers["revoke"] = func(c *Ctx, parts []string) {
		r := newReport("dump")
		c.runCommitRevoke(r, "commit.revoke", inPkgs("dxil/internal/passes", "ir"))
		for _, o := range r.Obs {
			println(o.Verdict, o.Construct, o.Pos)
		}
	}
}
