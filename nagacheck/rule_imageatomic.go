package main

import (
	"go/ast"
	"go/types"
)

// ruleImageAtomicNoCompare: the exceptions that let visitors skip
// StmtImageAtomic.Fun rest on the producer-side fact that no library code
// constructs a StmtImageAtomic whose Fun can carry an expression handle
// (AtomicExchange{Compare}). This rule decides that fact on every run.
func (c *Ctx) ruleImageAtomicNoCompare(r *Report) {
	sums := c.sumTypes("ir")
	atomic := sums["AtomicFunction"]
	if atomic == nil {
		r.undecided("imageatomic.nocompare", "ir.AtomicFunction", "", "sum type ir.AtomicFunction not found")
		return
	}
	carries := func(t types.Type) (string, bool) {
		nn := namedOf(t)
		if nn == nil || !atomic.has(nn.Obj().Name()) {
			return "", false
		}
		return nn.Obj().Name(), len(variantPaths(sums, nn, hExpr)) > 0
	}
	n := 0
	for _, fn := range c.allFuncs() {
		info := fn.Pkg.Info
		ast.Inspect(fn.Decl.Body, func(node ast.Node) bool {
			lit, ok := node.(*ast.CompositeLit)
			if !ok {
				return true
			}
			tv, ok := info.Types[lit]
			if !ok || !isNamed(tv.Type, "ir", "StmtImageAtomic") {
				return true
			}
			n++
			construct := fn.id() + ":StmtImageAtomic.Fun"
			var val ast.Expr
			for _, el := range lit.Elts {
				if kv, ok := el.(*ast.KeyValueExpr); ok {
					if id, ok := kv.Key.(*ast.Ident); ok && id.Name == "Fun" {
						val = kv.Value
					}
				}
			}
			if val == nil {
				r.ok("imageatomic.nocompare", construct, c.pos(lit.Pos()), "Fun not set (nil)")
				return true
			}
			// rebuild: Fun: k.Fun with k a StmtImageAtomic
			if sel, ok := ast.Unparen(val).(*ast.SelectorExpr); ok && sel.Sel.Name == "Fun" {
				if xt, ok := info.Types[sel.X]; ok && isNamed(xt.Type, "ir", "StmtImageAtomic") {
					r.triv("imageatomic.nocompare", construct, c.pos(lit.Pos()), "rebuild from an existing StmtImageAtomic")
					return true
				}
			}
			var rhs []ast.Expr
			if id, ok := ast.Unparen(val).(*ast.Ident); ok {
				obj := info.Uses[id]
				ast.Inspect(fn.Decl.Body, func(m ast.Node) bool {
					switch as := m.(type) {
					case *ast.AssignStmt:
						if len(as.Lhs) == len(as.Rhs) {
							for i, l := range as.Lhs {
								if lid, ok := l.(*ast.Ident); ok && (info.Uses[lid] == obj || info.Defs[lid] == obj) {
									rhs = append(rhs, as.Rhs[i])
								}
							}
						}
					case *ast.ValueSpec:
						for i, nm := range as.Names {
							if info.Defs[nm] == obj && i < len(as.Values) {
								rhs = append(rhs, as.Values[i])
							}
						}
					}
					return true
				})
			} else {
				rhs = []ast.Expr{val}
			}
			if len(rhs) == 0 {
				r.undecided("imageatomic.nocompare", construct, c.pos(lit.Pos()), "cannot resolve the value of Fun")
				return true
			}
			for _, e := range rhs {
				cl, ok := ast.Unparen(e).(*ast.CompositeLit)
				if !ok {
					r.undecided("imageatomic.nocompare", construct, c.pos(e.Pos()), "Fun is assigned a value that is not a literal of an AtomicFunction variant")
					return true
				}
				ct := info.Types[cl].Type
				name, has := carries(ct)
				if name == "" {
					r.undecided("imageatomic.nocompare", construct, c.pos(e.Pos()), "Fun literal is not an AtomicFunction variant")
					return true
				}
				if has {
					r.viol("imageatomic.nocompare", construct, c.pos(e.Pos()), "StmtImageAtomic is built with "+name+", which carries an expression handle that the compaction remappers/tracers do not visit")
					return true
				}
			}
			r.ok("imageatomic.nocompare", construct, c.pos(lit.Pos()), "Fun is one of handle-free AtomicFunction literals")
			return true
		})
	}
	r.inst("imageatomic.producers", n)
	r.floor("imageatomic.producers", 1)
}
