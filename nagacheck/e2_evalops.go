package main

// E2 evaluator operator selection (C06).
//
// A compile-time evaluator is a switch over ir.BinaryOperator (or the parser's
// TokenKind) whose arms compute the result with Go operators on values derived
// from the two operand parameters. For every arm of such a switch:
//
//   evalsel.token  every maximal Go binary expression that combines a value
//                  derived from the left operand with one derived from the right
//                  operand (outside if/for/switch conditions) has a top-level Go
//                  operator allowed for the WGSL operator of the arm;
//   evalsel.order  every Go binary expression with a non-commutative operator
//                  whose one side is derived only from the left operand and the
//                  other only from the right operand keeps left on the left
//                  (comparisons may be written mirrored: a > b as b < a);
//   evalsel.trunc  the arm for % does not round the quotient with math.Floor /
//                  Ceil / Round / RoundToEven / Remainder (WGSL % truncates).
//
// "left" / "right" are the first and second of the function's operand
// parameters (the parameters other than the operator itself that flow into the
// judged expressions); locals inherit the class of the values they are computed
// from (flow-insensitive closure over assignments).

import (
	"go/ast"
	"go/token"
	"go/types"
	"sort"
	"strings"
)

var evalCanon = map[string]string{
	"BinaryAdd": "add", "BinarySubtract": "sub", "BinaryMultiply": "mul", "BinaryDivide": "div", "BinaryModulo": "mod",
	"BinaryEqual": "eq", "BinaryNotEqual": "ne", "BinaryLess": "lt", "BinaryLessEqual": "le", "BinaryGreater": "gt", "BinaryGreaterEqual": "ge",
	"BinaryAnd": "and", "BinaryExclusiveOr": "xor", "BinaryInclusiveOr": "or", "BinaryLogicalAnd": "land", "BinaryLogicalOr": "lor",
	"BinaryShiftLeft": "shl", "BinaryShiftRight": "shr",
	"TokenPlus": "add", "TokenMinus": "sub", "TokenStar": "mul", "TokenSlash": "div", "TokenPercent": "mod",
	"TokenEqualEqual": "eq", "TokenBangEqual": "ne", "TokenLess": "lt", "TokenLessEqual": "le", "TokenGreater": "gt", "TokenGreaterEqual": "ge",
	"TokenAmpersand": "and", "TokenCaret": "xor", "TokenPipe": "or", "TokenAmpAmp": "land", "TokenPipePipe": "lor",
	"TokenLessLess": "shl", "TokenGreaterGreater": "shr",
}

// allowed top-level Go operators of the combining expression
var evalTop = map[string][]token.Token{
	"add": {token.ADD}, "sub": {token.SUB}, "mul": {token.MUL}, "div": {token.QUO}, "mod": {token.REM, token.SUB},
	"eq": {token.EQL}, "ne": {token.NEQ}, "lt": {token.LSS, token.GTR}, "le": {token.LEQ, token.GEQ}, "gt": {token.GTR, token.LSS}, "ge": {token.GEQ, token.LEQ},
	"and": {token.AND, token.LAND}, "xor": {token.XOR, token.NEQ}, "or": {token.OR, token.LOR}, "land": {token.LAND}, "lor": {token.LOR},
	"shl": {token.SHL}, "shr": {token.SHR},
}

// (operator, Go token) -> required orientation: true = left operand on the left
var evalOrient = map[string]map[token.Token]bool{
	"sub": {token.SUB: true}, "div": {token.QUO: true}, "mod": {token.REM: true, token.QUO: true},
	"shl": {token.SHL: true}, "shr": {token.SHR: true},
	"lt": {token.LSS: true, token.GTR: false}, "le": {token.LEQ: true, token.GEQ: false},
	"gt": {token.GTR: true, token.LSS: false}, "ge": {token.GEQ: true, token.LEQ: false},
}

var roundingFuncs = map[string]bool{"Floor": true, "Ceil": true, "Round": true, "RoundToEven": true, "Remainder": true}

type classSet uint8 // bit i = derived from operand parameter i (0 = left, 1 = right)

// operandClasses computes, for the function, the class of every variable.
func operandClasses(fn *funcInfo, tagType string) map[types.Object]classSet {
	info := fn.Pkg.Info
	cls := map[types.Object]classSet{}
	if fn.Decl.Type.Params == nil {
		return cls
	}
	// operand parameters: the first two parameters of identical type that are not the operator
	var params []*types.Var
	for _, f := range fn.Decl.Type.Params.List {
		for _, nm := range f.Names {
			if v, ok := info.Defs[nm].(*types.Var); ok {
				if n, ok := types.Unalias(v.Type()).(*types.Named); ok && n.Obj().Name() == tagType {
					continue
				}
				params = append(params, v)
			}
		}
	}
	found := false
	for i := 0; i+1 < len(params) && !found; i++ {
		if types.Identical(params[i].Type(), params[i+1].Type()) {
			cls[params[i]] = 1
			cls[params[i+1]] = 2
			found = true
		}
	}
	_ = found
	exprClass := func(e ast.Expr) classSet {
		return selClass(info, cls, e)
	}
	for changed := true; changed; {
		changed = false
		ast.Inspect(fn.Decl.Body, func(n ast.Node) bool {
			as, ok := n.(*ast.AssignStmt)
			if !ok {
				return true
			}
			var rc classSet
			for _, r := range as.Rhs {
				rc |= exprClass(r)
			}
			if rc == 0 {
				return true
			}
			for i, l := range as.Lhs {
				id, ok := ast.Unparen(l).(*ast.Ident)
				if !ok {
					continue
				}
				o := info.Defs[id]
				if o == nil {
					o = info.Uses[id]
				}
				if o == nil {
					continue
				}
				c := rc
				if len(as.Lhs) == len(as.Rhs) {
					c = exprClass(as.Rhs[i])
				}
				if cls[o]|c != cls[o] {
					cls[o] |= c
					changed = true
				}
			}
			return true
		})
	}
	return cls
}

// selClass: classes of the identifiers in e, plus .Left / .Right selections on a binary node
// (a struct that has both fields) when the function has no operand parameter pair.
func selClass(info *types.Info, cls map[types.Object]classSet, e ast.Expr) classSet {
	var k classSet
	ast.Inspect(e, func(n ast.Node) bool {
		switch x := n.(type) {
		case *ast.Ident:
			if o := info.Uses[x]; o != nil {
				k |= cls[o]
			}
		case *ast.SelectorExpr:
			if x.Sel.Name == "Left" || x.Sel.Name == "Right" {
				if sel, ok := info.Selections[x]; ok && sel.Kind() == types.FieldVal {
					t := sel.Recv()
					if p, ok := t.Underlying().(*types.Pointer); ok {
						t = p.Elem()
					}
					if st, ok := t.Underlying().(*types.Struct); ok {
						hasL, hasR := false, false
						for i := 0; i < st.NumFields(); i++ {
							hasL = hasL || st.Field(i).Name() == "Left"
							hasR = hasR || st.Field(i).Name() == "Right"
						}
						if hasL && hasR {
							if x.Sel.Name == "Left" {
								k |= 1
							} else {
								k |= 2
							}
						}
					}
				}
			}
		}
		return true
	})
	return k
}

func (c *Ctx) runEvalOps(r *Report, pkgs map[string]bool) {
	nArms := 0
	for _, d := range c.dispatchSwitches() {
		if !pkgs[d.Func.Pkg.Rel] || (d.TagType != "BinaryOperator" && d.TagType != "parser.TokenKind" && d.TagType != "TokenKind") {
			continue
		}
		sw, ok := d.Stmt.(*ast.SwitchStmt)
		if !ok {
			continue
		}
		fn := d.Func
		info := fn.Pkg.Info
		cls := operandClasses(fn, strings.TrimPrefix(d.TagType, "parser."))
		classOf := func(e ast.Expr) classSet {
			return selClass(info, cls, e)
		}
		for _, cl := range sw.Body.List {
			cc := cl.(*ast.CaseClause)
			for _, lab := range cc.List {
				name := irConstName(info, lab)
				if name == "" {
					if se, ok := ast.Unparen(lab).(*ast.SelectorExpr); ok {
						name = se.Sel.Name
					} else if id, ok := ast.Unparen(lab).(*ast.Ident); ok {
						name = id.Name
					}
				}
				op, known := evalCanon[name]
				if !known {
					continue
				}
				// collect binary expressions of the arm outside conditions
				var maximal []*ast.BinaryExpr
				var all []*ast.BinaryExpr
				var rounding []string
				var visit func(n ast.Node, inBin bool)
				visit = func(n ast.Node, inBin bool) {
					switch x := n.(type) {
					case nil:
						return
					case *ast.FuncLit:
						return
					case *ast.IfStmt:
						visit(x.Init, false)
						visit(x.Body, false)
						visit(x.Else, false)
						return
					case *ast.ForStmt:
						visit(x.Body, false)
						return
					case *ast.SwitchStmt:
						// a nested re-dispatch on the operator is judged as its own switch
						if x.Tag != nil {
							if tv, ok := info.Types[x.Tag]; ok && sw.Tag != nil {
								if otv, ok := info.Types[sw.Tag]; ok && types.Identical(tv.Type, otv.Type) {
									return
								}
							}
						}
						visit(x.Body, false)
						return
					case *ast.CaseClause:
						for _, s := range x.Body {
							visit(s, false)
						}
						return
					case *ast.BinaryExpr:
						all = append(all, x)
						if !inBin {
							maximal = append(maximal, x)
						}
						visit(x.X, true)
						visit(x.Y, true)
						return
					case *ast.CallExpr:
						if se, ok := x.Fun.(*ast.SelectorExpr); ok {
							if f, ok := info.Uses[se.Sel].(*types.Func); ok && f.Pkg() != nil && f.Pkg().Path() == "math" && roundingFuncs[f.Name()] {
								rounding = append(rounding, "math."+f.Name())
							}
						}
						// arguments of a call start a new expression context
						visit(x.Fun, inBin)
						for _, a := range x.Args {
							visit(a, inBin)
						}
						return
					}
					children(n, func(m ast.Node) { visit(m, inBin) })
				}
				for _, s := range cc.Body {
					visit(s, false)
				}
				judged := false
				construct := d.id() + ":" + name
				pos := c.pos(cc.Pos())
				var bad []string
				for _, b := range maximal {
					if classOf(b) != 3 {
						continue
					}
					judged = true
					ok := false
					for _, t := range evalTop[op] {
						if b.Op == t {
							ok = true
						}
					}
					if !ok {
						bad = append(bad, "combines the operands with Go '"+b.Op.String()+"' ("+types.ExprString(b)+")")
					}
				}
				for _, b := range all {
					cx, cy := classOf(b.X), classOf(b.Y)
					if !((cx == 1 && cy == 2) || (cx == 2 && cy == 1)) {
						continue
					}
					want, rel := evalOrient[op][b.Op]
					if !rel {
						continue
					}
					judged = true
					leftFirst := cx == 1
					if leftFirst != want {
						bad = append(bad, "operand order of '"+types.ExprString(b)+"' is reversed for "+op)
					}
				}
				if op == "mod" && len(rounding) > 0 {
					judged = true
					sort.Strings(rounding)
					bad = append(bad, "rounds the quotient with "+strings.Join(rounding, ", ")+" (WGSL % truncates toward zero)")
				}
				if !judged {
					continue
				}
				nArms++
				if len(bad) > 0 {
					r.viol("evalsel.goop", construct, pos, fn.id()+", arm "+name+": "+strings.Join(bad, "; "))
				} else {
					r.ok("evalsel.goop", construct, pos, "")
				}
			}
		}
	}
	r.inst("evalsel.arms", nArms)
}

func init() {
	dumpers["evalops"] = func(c *Ctx, parts []string) {
		r := newReport("dump")
		c.runEvalOps(r, map[string]bool{"wgsl/internal/lower": true, "ir": true, "msl/internal/codegen": true, "dxil/internal/emit": true, "hlsl/internal/codegen": true, "glsl/internal/codegen": true, "spirv/internal/codegen": true})
		for _, o := range r.Obs {
			println(o.Verdict, o.Construct, o.Pos, o.Msg)
		}
		for k, v := range r.Instances {
			println(k, v)
		}
	}
}

// ---- evaluator math builtins: Go math function per WGSL builtin -------------
//
// evalsel.gomath: in a switch over ir.MathFunction outside the backends' emitters,
// the functions of Go's math package (and math/bits) referenced in the arm for a
// builtin must be ones whose result is the WGSL builtin's (reference table from
// the WGSL builtin definitions and the Go documentation).

var goMathRef = map[string][]string{
	"MathAbs": {"math.Abs"}, "MathFloor": {"math.Floor"}, "MathCeil": {"math.Ceil"}, "MathTrunc": {"math.Trunc"},
	"MathRound": {"math.RoundToEven"}, "MathFract": {"math.Floor"}, "MathSqrt": {"math.Sqrt"}, "MathInverseSqrt": {"math.Sqrt"},
	"MathSin": {"math.Sin"}, "MathCos": {"math.Cos"}, "MathTan": {"math.Tan"}, "MathAsin": {"math.Asin"}, "MathAcos": {"math.Acos"},
	"MathAtan": {"math.Atan"}, "MathAtan2": {"math.Atan2"}, "MathSinh": {"math.Sinh"}, "MathCosh": {"math.Cosh"}, "MathTanh": {"math.Tanh"},
	"MathAsinh": {"math.Asinh"}, "MathAcosh": {"math.Acosh"}, "MathAtanh": {"math.Atanh"},
	"MathExp": {"math.Exp"}, "MathExp2": {"math.Exp2", "math.Pow"}, "MathLog": {"math.Log"}, "MathLog2": {"math.Log2"}, "MathPow": {"math.Pow"},
	"MathMin": {"math.Min"}, "MathMax": {"math.Max"}, "MathClamp": {"math.Min", "math.Max"}, "MathSaturate": {"math.Min", "math.Max"},
	"MathStep": {}, "MathSign": {"math.Signbit", "math.IsNaN"}, "MathFma": {"math.FMA"}, "MathMix": {},
	"MathDegrees": {"math.Pi"}, "MathRadians": {"math.Pi"},
	"MathCountLeadingZeros": {"bits.LeadingZeros32", "bits.LeadingZeros64"}, "MathCountTrailingZeros": {"bits.TrailingZeros32", "bits.TrailingZeros64"},
	"MathCountOneBits": {"bits.OnesCount32", "bits.OnesCount64"}, "MathReverseBits": {"bits.Reverse32", "bits.Reverse64"},
	"MathFirstLeadingBit": {"bits.LeadingZeros32", "bits.Len32"}, "MathFirstTrailingBit": {"bits.TrailingZeros32"},
}

// neutral helpers of package math that carry no builtin semantics
var goMathNeutral = map[string]bool{"math.Float32frombits": true, "math.Float32bits": true, "math.Float64frombits": true, "math.Float64bits": true,
	"math.IsNaN": true, "math.IsInf": true, "math.Inf": true, "math.NaN": true, "math.MaxInt32": true, "math.MinInt32": true, "math.MaxUint32": true,
	"math.MaxInt64": true, "math.MinInt64": true, "math.MaxFloat32": true, "math.MaxFloat64": true, "math.SmallestNonzeroFloat32": true, "math.MaxUint64": true, "math.MaxInt": true}

func armMathRefs(info *types.Info, body []ast.Stmt) []string {
	seen := map[string]bool{}
	for _, st := range body {
		ast.Inspect(st, func(n ast.Node) bool {
			se, ok := n.(*ast.SelectorExpr)
			if !ok {
				return true
			}
			o := info.Uses[se.Sel]
			if o == nil || o.Pkg() == nil {
				return true
			}
			switch o.Pkg().Path() {
			case "math":
				seen["math."+o.Name()] = true
			case "math/bits":
				seen["bits."+o.Name()] = true
			}
			return true
		})
	}
	var out []string
	for k := range seen {
		out = append(out, k)
	}
	sort.Strings(out)
	return out
}

func (c *Ctx) runEvalMath(r *Report, pkgs map[string]bool) {
	n := 0
	for _, d := range c.dispatchSwitches() {
		if !pkgs[d.Func.Pkg.Rel] || d.TagType != "MathFunction" {
			continue
		}
		sw, ok := d.Stmt.(*ast.SwitchStmt)
		if !ok {
			continue
		}
		info := d.Func.Pkg.Info
		for _, cl := range sw.Body.List {
			cc := cl.(*ast.CaseClause)
			refs := armMathRefs(info, cc.Body)
			var sem []string
			for _, m := range refs {
				if !goMathNeutral[m] {
					sem = append(sem, m)
				}
			}
			if len(sem) == 0 {
				continue
			}
			for _, lab := range cc.List {
				name := irConstName(info, lab)
				allowed, known := goMathRef[name]
				if !known {
					continue
				}
				n++
				var bad []string
				for _, m := range sem {
					ok := false
					for _, a := range allowed {
						if a == m {
							ok = true
						}
					}
					if !ok {
						bad = append(bad, m)
					}
				}
				construct := d.id() + ":" + name
				if len(bad) > 0 {
					r.viol("evalsel.gomath", construct, c.pos(cc.Pos()), d.Func.id()+", arm "+name+": evaluates with "+strings.Join(bad, ", ")+"; the Go function(s) with the builtin's meaning: "+strings.Join(allowed, ", "))
				} else {
					r.ok("evalsel.gomath", construct, c.pos(cc.Pos()), "")
				}
			}
		}
	}
	r.inst("evalsel.matharms", n)
}

func init() {
	dumpers["evalmath"] = func(c *Ctx, parts []string) {
		r := newReport("dump")
		c.runEvalMath(r, map[string]bool{"wgsl/internal/lower": true, "ir": true, "msl/internal/codegen": true, "dxil/internal/emit": true, "hlsl/internal/codegen": true, "glsl/internal/codegen": true, "spirv/internal/codegen": true})
		for _, o := range r.Obs {
			println(o.Verdict, o.Construct, o.Pos, o.Msg)
		}
		for k, v := range r.Instances {
			println(k, v)
		}
	}
}
