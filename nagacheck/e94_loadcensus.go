package main

import (
	"go/ast"
	"go/token"
	"go/types"
	"strings"
)

// census.loadonly (C13): a pass decides per local variable whether it is still
// used by counting loads: a loop over the function's expressions that skips
// everything but ExprLoad (`load, ok := e.Kind.(ir.ExprLoad); if !ok {
// continue }`) and records a verdict under the local the load's pointer leads
// to. Loads are not the only readers of a local: its address can be passed to
// a call, to an atomic or a ray query. A function that holds such a
// load-only census must look at the other users as well - a second loop over
// the expressions that does not skip non-loads and resolves them to a local,
// or an examination of the call statements - otherwise `x = 5; f(&x)` loses
// its store.
func (c *Ctx) runLoadOnlyCensus(r *Report, rule string, inPkg func(string) bool) {
	n := 0
	for _, fn := range c.allFuncs() {
		if !inPkg(fn.Pkg.Rel) || fn.Decl.Body == nil {
			continue
		}
		info := fn.Pkg.Info
		isExprRange := func(rs *ast.RangeStmt) bool {
			sel, ok := ast.Unparen(rs.X).(*ast.SelectorExpr)
			return ok && sel.Sel.Name == "Expressions"
		}
		// load-only: the body asserts ExprLoad and continues when the assertion fails
		loadOnly := func(rs *ast.RangeStmt) bool {
			var okVar types.Object
			for _, st := range rs.Body.List {
				switch x := st.(type) {
				case *ast.AssignStmt:
					if len(x.Lhs) == 2 && len(x.Rhs) == 1 {
						if ta, ok := ast.Unparen(x.Rhs[0]).(*ast.TypeAssertExpr); ok && ta.Type != nil && irTypeName(info.TypeOf(ta.Type)) == "ExprLoad" {
							if id, ok := x.Lhs[1].(*ast.Ident); ok {
								okVar = info.ObjectOf(id)
							}
						}
					}
				case *ast.IfStmt:
					if okVar == nil {
						continue
					}
					u, ok := ast.Unparen(x.Cond).(*ast.UnaryExpr)
					if !ok || u.Op != token.NOT {
						continue
					}
					if id, ok := ast.Unparen(u.X).(*ast.Ident); ok && info.ObjectOf(id) == okVar && len(x.Body.List) == 1 {
						if br, ok := x.Body.List[0].(*ast.BranchStmt); ok && br.Tok == token.CONTINUE {
							return true
						}
					}
				}
			}
			return false
		}
		// the loop records something per local: an element of a slice / map indexed by a variable is written
		recordsPerLocal := func(rs *ast.RangeStmt) bool {
			found := false
			ast.Inspect(rs.Body, func(m ast.Node) bool {
				as, ok := m.(*ast.AssignStmt)
				if !ok {
					return true
				}
				for _, l := range as.Lhs {
					e := ast.Unparen(l)
					if sel, ok := e.(*ast.SelectorExpr); ok {
						e = ast.Unparen(sel.X)
					}
					if ix, ok := e.(*ast.IndexExpr); ok {
						if _, isId := ast.Unparen(ix.Index).(*ast.Ident); isId {
							found = true
						}
					}
				}
				return true
			})
			return found
		}
		resolvesLocal := func(node ast.Node) bool {
			found := false
			ast.Inspect(node, func(m ast.Node) bool {
				switch x := m.(type) {
				case *ast.CallExpr:
					if f := calleeOf(info, x); f != nil && strings.Contains(strings.ToLower(f.Name()), "local") {
						found = true
					}
				case *ast.IndexExpr:
					if mt, ok := info.TypeOf(x.X).Underlying().(*types.Map); ok && strings.HasSuffix(mt.Key().String(), "ExpressionHandle") {
						found = true
					}
				}
				return true
			})
			return found
		}
		var census []*ast.RangeStmt
		var others []*ast.RangeStmt
		looksAtCalls := false
		ast.Inspect(fn.Decl.Body, func(m ast.Node) bool {
			switch x := m.(type) {
			case *ast.RangeStmt:
				if isExprRange(x) {
					if loadOnly(x) && recordsPerLocal(x) {
						census = append(census, x)
					} else {
						others = append(others, x)
					}
				}
			case *ast.TypeAssertExpr:
				if x.Type != nil && irTypeName(info.TypeOf(x.Type)) == "StmtCall" {
					looksAtCalls = true
				}
			case *ast.CaseClause:
				for _, e := range x.List {
					if irTypeName(info.TypeOf(e)) == "StmtCall" {
						looksAtCalls = true
					}
				}
			}
			return true
		})
		for i, rs := range census {
			n++
			cons := fn.id() + ":load-census#" + itoa(i+1)
			ok := looksAtCalls
			for _, o := range others {
				if resolvesLocal(o.Body) {
					ok = true
				}
			}
			if ok {
				r.ok(rule, cons, c.pos(rs.Pos()), "")
			} else {
				r.viol(rule, cons, c.pos(rs.Pos()), fn.id()+" judges the use of each local by its loads only (the loop skips every expression that is not an ExprLoad) and looks at no other user of the local's address: a local whose address is passed to a call is declared unused and its stores are removed")
			}
		}
	}
	r.inst(rule, n)
}

func init() {
	dumpers["loadcensus"] = func(c *Ctx, parts []string) {
		r := newReport("dump")
		c.runLoadOnlyCensus(r, "census.loadonly", func(string) bool { return true })
		for _, o := range r.Obs {
			println(o.Verdict, o.Construct, o.Pos)
		}
	}
}
