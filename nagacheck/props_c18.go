package main

func init() { register("C18", propC18) }

const roundUpClause = "round-up idioms (E24): every expression that rounds up to a multiple - (x + c) / d, (x + c) >> n, (x + c) &^ m, (x + c) & ^m with constants, or (x + a - 1) &^ (a - 1), (x + a - 1) / a with a variable - is well-formed (c, d, n, m describe the same power of two / divisor, the same variable appears in both places), and no size is computed as floor-plus-one ((x >> n) + 1, x/k + 1), which is one unit too large exactly at the multiples"

func propC18(c *Ctx, r *Report) {
	r.Clauses = append(r.Clauses,
		"bitstream block nesting (E7, go/cfg): in every DXIL serialiser function EnterBlock/ExitBlock are balanced on every path (helper functions with a consistent non-zero net effect are counted at their call sites), so block length back-patching always closes the block it opened")
	r.NotDecided = append(r.NotDecided,
		"size/offset arithmetic of the container, abbreviation widths, operand indices, signature/PSV consistency, hash correctness")
	c.runBalance(r, "pairing.bitcode", bitcodeBracket)
	r.Clauses = append(r.Clauses, "sibling semantic tables (E74): the tables that name the system-value semantic of a built-in (signature parts, PSV0 elements, metadata) give a built-in the same SV_ name, and a built-in named by two of them has an arm in the others")
	r.Clauses = append(r.Clauses, builtinDirClause)
	c.runBuiltinDirection(r, "builtin.direction", inPkgs("dxil"))
	r.floor("builtin.direction", 2)
	c.runSemanticSiblings(r, "semantic.siblings", inPkgs("dxil"), nil)
	r.floor("semantic.siblings", 15)
	r.floor("semantic.tables", 3)
	r.floor("pairing.EnterBlock/ExitBlock", 8)
	r.Clauses = append(r.Clauses, "sibling renumbering (E3): the functions of the DXIL emitter that rewrite emitter-local value ids to final ids in module.Instruction records (entry-point and helper-function finalisers, discovered as functions writing >= 3 common fields of Instruction / PhiIncoming) write the same set of fields - a field only one of them renumbers keeps stale ids on the other path, i.e. operands that refer to the wrong value")
	c.runSiblingWriters(r, "siblings.fields", "dxil/internal/emit", []string{"Instruction", "PhiIncoming"}, 3, nil)
	r.floor("siblings.dxil/internal/emit", 1)
	r.Clauses = append(r.Clauses, enumMapClause+" - here: the semantic names and kinds of the signature / PSV parts, the program kind of the header and the component types of signature elements")
	c.runEnumTables(r, "dxil")
	r.Clauses = append(r.Clauses, "numeric tables (E1): every constant of the DXIL backend that library code references and that is written into the container or the bitstream - dx.op opcodes, LLVM 3.7 block ids and MODULE/TYPE/CST/FUNC/METADATA/VST/PARAMATTR record codes, attribute kinds, binary / cast / compare / atomicrmw opcodes, DXIL atomic, barrier, wave and quad operation codes, shader kinds, PSV resource types and kinds, signature component types and system-value semantics - has the value the DXIL / LLVM 3.7 / DXBC specifications assign (reference tables written from the specifications)")
	c.runDXILTables(r, "tables.dxil")
	r.floor("tables.dxil", 200)
	r.Clauses = append(r.Clauses, roundUpClause+" - here: part sizes, string-table alignment and the dword counts of the PSV dependency tables")
	c.runRoundUp(r, "arith.roundup", inPkgs("dxil"), "arith.roundup")
	r.floor("arith.roundup", 8)
	r.Clauses = append(r.Clauses, "determinism (E6): every `range` over a Go map in the DXIL packages is order-insensitive or argued")
	c.runMapOrder(r, "maporder", "dxil.mapranges", inPkgs("dxil"), mapOrderExceptions)
	r.Clauses = append(r.Clauses, "binding-array range (E42): both writers of a binding array's register range (PSV0 resource records and dx.resources metadata) dereference the caller's BindingArraySize hint only under a condition that establishes that the IR type declares no size, so the two records of one container agree")
	c.runArraySizePrecedence(r, "precedence.arraysize", inPkgs("dxil"))
	r.floor("precedence.arraysize", 2)
	r.Clauses = append(r.Clauses, "workgroup size products (E50): a product of three or more factors drawn from the elements of one three-element array uses each index exactly once")
	c.runDimsProduct(r, "dims.product", inPkgs("dxil"))
	r.floor("dims.product", 2)
	r.Clauses = append(r.Clauses, accumDroppedClause)
	c.runAccumDropped(r, "accum.dropped", inPkgs("dxil"))
	r.floor("accum.dropped", 5)
	r.floor("dxil.mapranges", 20)
}
