package main

import (
	"go/ast"
	"go/types"
	"sort"
	"strings"
)

// irfield.read (C01, C03-C05): every field of an IR expression or statement
// kind carries part of the program's meaning (an operand, a flag, a mode). A
// backend that handles the kind at all (mentions the type) but never reads one
// of its fields cannot reflect that field in its output.
func (c *Ctx) runIRFieldRead(r *Report, rule string, backend string, exceptions map[string]string) {
	c.runIRFieldReadSel(r, rule, backend, exceptions, func(n string) bool {
		return strings.HasPrefix(n, "Expr") || strings.HasPrefix(n, "Stmt")
	})
}

func (c *Ctx) runIRFieldReadSel(r *Report, rule string, backend string, exceptions map[string]string, sel func(string) bool) {
	irPkg := c.ByPath[modPath+"/ir"]
	if irPkg == nil {
		r.undecided(rule, "ir:kinds", "", "package ir not loaded")
		return
	}
	type fld struct {
		v    *types.Var
		name string
		tn   *types.TypeName
	}
	var fields []fld
	scope := irPkg.Types.Scope()
	names := scope.Names()
	sort.Strings(names)
	for _, n := range names {
		if !sel(n) {
			continue
		}
		tn, ok := scope.Lookup(n).(*types.TypeName)
		if !ok {
			continue
		}
		st, ok := tn.Type().Underlying().(*types.Struct)
		if !ok {
			continue
		}
		for i := 0; i < st.NumFields(); i++ {
			fields = append(fields, fld{st.Field(i), n + "." + st.Field(i).Name(), tn})
		}
	}
	read := map[*types.Var]bool{}
	mentioned := map[*types.TypeName]bool{}
	for _, p := range c.Roots {
		rel := relPkg(p.PkgPath)
		if rel != backend && !strings.HasPrefix(rel, backend+"/") {
			continue
		}
		for _, f := range p.Syntax {
			ast.Inspect(f, func(m ast.Node) bool {
				switch x := m.(type) {
				case *ast.SelectorExpr:
					if v, ok := p.TypesInfo.Uses[x.Sel].(*types.Var); ok && v.IsField() {
						read[v] = true
					}
					if tn, ok := p.TypesInfo.Uses[x.Sel].(*types.TypeName); ok {
						mentioned[tn] = true
					}
				}
				return true
			})
		}
	}
	n := 0
	for _, f := range fields {
		if !mentioned[f.tn] {
			continue // the kind is not handled at all: the handlewalk / dispatch rules report that
		}
		n++
		cons := backend + ":" + f.name
		switch {
		case read[f.v]:
			r.ok(rule, cons, c.pos(f.v.Pos()), "")
		case exceptions[cons] != "":
			r.exc(rule, cons, c.pos(f.v.Pos()), exceptions[cons])
		default:
			r.viol(rule, cons, c.pos(f.v.Pos()), "the "+backend+" backend handles ir."+f.tn.Name()+" but never reads its field "+f.v.Name()+": what the field says cannot appear in the output")
		}
	}
	r.inst(rule+"."+backend, n)
}

func init() {
	dumpers["irfields2"] = func(c *Ctx, parts []string) {
		r := newReport("dump")
		for _, be := range []string{"spirv", "hlsl", "msl", "glsl"} {
			c.runIRFieldReadSel(r, "irfield.decl", be, nil, irDeclStructs)
		}
		nOK := 0
		for _, o := range r.Obs {
			if o.Verdict == "ok" {
				nOK++
				continue
			}
			println(o.Verdict, o.Construct)
		}
		println("ok", nOK)
	}
	dumpers["irfields"] = func(c *Ctx, parts []string) {
		r := newReport("dump")
		for _, be := range []string{"spirv", "hlsl", "msl", "glsl", "dxil"} {
			c.runIRFieldRead(r, "irfield.read", be, nil)
		}
		nOK := 0
		for _, o := range r.Obs {
			if o.Verdict == "ok" {
				nOK++
				continue
			}
			println(o.Verdict, o.Construct)
		}
		println("ok", nOK)
	}
}

// irDeclStructs selects the IR declaration structs whose fields all carry
// program meaning a backend has to reflect (irfield.decl).
func irDeclStructs(n string) bool {
	switch n {
	case "GlobalVariable", "LocalVariable", "FunctionArgument", "FunctionResult", "StructMember",
		"ImageType", "SamplerType", "ArrayType", "MatrixType", "VectorType", "ScalarType", "AtomicType",
		"SwitchCase", "Override", "EntryPoint", "EarlyDepthTest":
		return true
	}
	return false
}
