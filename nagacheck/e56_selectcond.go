package main

import (
	"go/ast"
	"go/types"
	"strconv"
	"strings"
)

// select.condshape (C04, C05): in GLSL and MSL the ?: operator takes a scalar
// bool; a component-wise select is mix() / select() with a bool-vector
// selector. The function that writes ir.ExprSelect and spells a `?` must
// therefore branch on something computed from the condition operand (other
// than its text): an if whose init or test contains a call that receives
// <select>.Condition and is not the expression writer itself.
func (c *Ctx) runSelectCondShape(r *Report, rule string, inPkg func(string) bool) {
	n := 0
	for _, fn := range c.allFuncs() {
		if !inPkg(fn.Pkg.Rel) || fn.Obj == nil || fn.Decl.Body == nil {
			continue
		}
		sig := fn.Obj.Type().(*types.Signature)
		var selParam *types.Var
		for i := 0; i < sig.Params().Len(); i++ {
			if irTypeName(sig.Params().At(i).Type()) == "ExprSelect" {
				selParam = sig.Params().At(i)
			}
		}
		if selParam == nil {
			continue
		}
		info := fn.Pkg.Info
		ternary := false
		ast.Inspect(fn.Decl.Body, func(m ast.Node) bool {
			if lit, ok := m.(*ast.BasicLit); ok {
				if s, err := strconv.Unquote(lit.Value); err == nil && strings.Contains(s, " ? ") {
					ternary = true
				}
			}
			return true
		})
		if !ternary {
			continue
		}
		n++
		isCondOperand := func(e ast.Expr) bool {
			sel, ok := ast.Unparen(e).(*ast.SelectorExpr)
			if !ok || sel.Sel.Name != "Condition" {
				return false
			}
			id, ok := ast.Unparen(sel.X).(*ast.Ident)
			return ok && info.ObjectOf(id) == selParam
		}
		// variables computed from the condition operand by a non-writer call
		shapeVars := map[types.Object]bool{}
		shapeCall := func(e ast.Node) bool {
			found := false
			ast.Inspect(e, func(k ast.Node) bool {
				call, ok := k.(*ast.CallExpr)
				if !ok {
					return true
				}
				f := calleeOf(info, call)
				if f == nil || f.Name() == "writeExpression" {
					return true
				}
				for _, a := range call.Args {
					if isCondOperand(a) {
						found = true
					}
				}
				return true
			})
			return found
		}
		ast.Inspect(fn.Decl.Body, func(m ast.Node) bool {
			if as, ok := m.(*ast.AssignStmt); ok {
				for _, rhs := range as.Rhs {
					if shapeCall(rhs) {
						for _, l := range as.Lhs {
							if id, ok := l.(*ast.Ident); ok && id.Name != "_" {
								if o := info.ObjectOf(id); o != nil {
									shapeVars[o] = true
								}
							}
						}
					}
				}
			}
			return true
		})
		branches := false
		ast.Inspect(fn.Decl.Body, func(m ast.Node) bool {
			is, ok := m.(*ast.IfStmt)
			if !ok {
				return true
			}
			parts := []ast.Node{is.Cond}
			if is.Init != nil {
				parts = append(parts, is.Init)
			}
			for _, p := range parts {
				if shapeCall(p) {
					branches = true
				}
				ast.Inspect(p, func(k ast.Node) bool {
					if id, ok := k.(*ast.Ident); ok && shapeVars[info.ObjectOf(id)] {
						// a variable that is only the operand's parenthesisation flag does not count:
						// it must reach a branch that returns / emits before the `?`
						branches = true
					}
					return true
				})
			}
			return true
		})
		// the branch must be able to leave the function before the ternary is spelt:
		// require a return inside an if that tests the shape
		early := false
		ast.Inspect(fn.Decl.Body, func(m ast.Node) bool {
			is, ok := m.(*ast.IfStmt)
			if !ok {
				return true
			}
			tests := false
			parts := []ast.Node{is.Cond}
			if is.Init != nil {
				parts = append(parts, is.Init)
			}
			for _, p := range parts {
				if shapeCall(p) {
					tests = true
				}
				ast.Inspect(p, func(k ast.Node) bool {
					if id, ok := k.(*ast.Ident); ok && shapeVars[info.ObjectOf(id)] {
						tests = true
					}
					return true
				})
			}
			if !tests {
				return true
			}
			ast.Inspect(is.Body, func(k ast.Node) bool {
				if _, ok := k.(*ast.ReturnStmt); ok {
					early = true
				}
				return true
			})
			return true
		})
		cons := fn.id() + ":ternary"
		if branches && early {
			r.ok(rule, cons, c.pos(fn.Decl.Pos()), "")
		} else {
			r.viol(rule, cons, c.pos(fn.Decl.Pos()), fn.id()+" spells ir.ExprSelect with the ?: operator without first branching on the shape of the condition operand: for a bool-vector condition the target language has no ?: (GLSL: mix(reject, accept, cond); MSL: select(reject, accept, cond))")
		}
	}
	r.inst(rule, n)
}

func init() {
	dumpers["selectcond"] = func(c *Ctx, parts []string) {
		r := newReport("dump")
		c.runSelectCondShape(r, "select.condshape", inPkgs("glsl", "msl", "hlsl"))
		for _, o := range r.Obs {
			println(o.Verdict, o.Construct, o.Pos)
		}
	}
}
