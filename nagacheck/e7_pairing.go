package main

// E7 pairing / typestate over go/cfg (per function).

import (
	"fmt"
	"go/ast"
	"go/token"
	"go/types"
	"sort"

	"golang.org/x/tools/go/cfg"
)

func (c *Ctx) cfgOf(fn *funcInfo) *cfg.CFG {
	key := "cfg:" + fn.id()
	if v, ok := c.cache[key]; ok {
		return v.(*cfg.CFG)
	}
	info := fn.Pkg.Info
	g := cfg.New(fn.Decl.Body, func(call *ast.CallExpr) bool {
		if id, ok := ast.Unparen(call.Fun).(*ast.Ident); ok {
			if b, ok := info.Uses[id].(*types.Builtin); ok && b.Name() == "panic" {
				return false
			}
		}
		return true
	})
	c.cache[key] = g
	return g
}

// callsIn lists the call expressions of a CFG node in source order, not entering function literals.
func callsIn(n ast.Node) []*ast.CallExpr {
	var out []*ast.CallExpr
	ast.Inspect(n, func(m ast.Node) bool {
		switch x := m.(type) {
		case *ast.FuncLit:
			return false
		case *ast.CallExpr:
			// arguments are evaluated before the call itself
			for _, a := range x.Args {
				out = append(out, callsIn(a)...)
			}
			out = append(out, callsIn(x.Fun)...)
			out = append(out, x)
			return false
		}
		return true
	})
	return out
}

type bracketSpec struct {
	Name      string
	Open      func(f *types.Func) bool
	Close     func(f *types.Func) bool
	OnlyOK    bool // judge balance only on paths that end in a success return (last result nil / no error result)
	Pkg       func(string) bool
	Exception map[string]string // function id -> reason
}

type bracketSummary struct {
	Net        int
	Consistent bool
	Uses       bool
	BadPos     token.Pos
	BadMsg     string
}

// isErrorReturn: the return statement's last result is a non-nil error expression.
func isErrorReturn(info *types.Info, rs *ast.ReturnStmt) bool {
	if len(rs.Results) == 0 {
		return false
	}
	last := rs.Results[len(rs.Results)-1]
	tv, ok := info.Types[last]
	if !ok {
		return false
	}
	if tv.IsNil() {
		return false
	}
	return tv.Type != nil && isErrorType(tv.Type)
}

// bracketEffect computes the net open/close effect of a function over all
// paths (derived openers/closers from `derived` are honoured).
func (c *Ctx) bracketEffect(fn *funcInfo, sp bracketSpec, derived map[*types.Func]int) bracketSummary {
	info := fn.Pkg.Info
	g := c.cfgOf(fn)
	effect := func(call *ast.CallExpr) int {
		f := calleeOf(info, call)
		if f == nil {
			return 0
		}
		f = f.Origin()
		if sp.Open(f) {
			return 1
		}
		if sp.Close(f) {
			return -1
		}
		return derived[f]
	}
	sum := bracketSummary{Consistent: true}
	// deferred effects (defer x.Close()) apply at every exit
	deferred := 0
	ast.Inspect(fn.Decl.Body, func(n ast.Node) bool {
		switch x := n.(type) {
		case *ast.FuncLit:
			return false
		case *ast.DeferStmt:
			deferred += effect(x.Call)
			if lit, ok := x.Call.Fun.(*ast.FuncLit); ok {
				for _, call := range callsIn(lit.Body) {
					deferred += effect(call)
				}
			}
		}
		return true
	})
	const unset = -1 << 30
	in := make([]int, len(g.Blocks))
	for i := range in {
		in[i] = unset
	}
	if len(g.Blocks) == 0 {
		return sum
	}
	in[0] = 0
	work := []*cfg.Block{g.Blocks[0]}
	exitNet := unset
	for len(work) > 0 {
		b := work[len(work)-1]
		work = work[:len(work)-1]
		d := in[b.Index]
		var ret *ast.ReturnStmt
		for _, n := range b.Nodes {
			if _, isDefer := n.(*ast.DeferStmt); isDefer {
				continue
			}
			for _, call := range callsIn(n) {
				e := effect(call)
				if e != 0 {
					sum.Uses = true
				}
				d += e
				if d < 0 && sum.Consistent && derived != nil && false {
					_ = d
				}
			}
			if rs, ok := n.(*ast.ReturnStmt); ok {
				ret = rs
			}
		}
		if len(b.Succs) == 0 {
			if !b.Live {
				continue
			}
			if sp.OnlyOK && ret != nil && isErrorReturn(info, ret) {
				continue
			}
			// panics: blocks ending in a panic call have no successors and no return: skip
			if ret == nil && endsInPanic(info, b) {
				continue
			}
			net := d + deferred
			if exitNet == unset {
				exitNet = net
			} else if exitNet != net && sum.Consistent {
				sum.Consistent = false
				if ret != nil {
					sum.BadPos = ret.Pos()
				} else {
					sum.BadPos = fn.Decl.Body.Rbrace
				}
				sum.BadMsg = fmt.Sprintf("exits with net %+d here but %+d on another path", net, exitNet)
			}
			continue
		}
		for _, s := range b.Succs {
			if in[s.Index] == unset {
				in[s.Index] = d
				work = append(work, s)
			} else if in[s.Index] != d && sum.Consistent {
				sum.Consistent = false
				if len(s.Nodes) > 0 {
					sum.BadPos = s.Nodes[0].Pos()
				} else {
					sum.BadPos = fn.Decl.Pos()
				}
				sum.BadMsg = fmt.Sprintf("paths join with different nesting depth (%+d vs %+d)", in[s.Index], d)
			}
		}
	}
	if deferred != 0 {
		sum.Uses = true
	}
	if exitNet != unset {
		sum.Net = exitNet
	}
	return sum
}

func endsInPanic(info *types.Info, b *cfg.Block) bool {
	if len(b.Nodes) == 0 {
		return false
	}
	last := b.Nodes[len(b.Nodes)-1]
	if es, ok := last.(*ast.ExprStmt); ok {
		if call, ok := es.X.(*ast.CallExpr); ok {
			if id, ok := ast.Unparen(call.Fun).(*ast.Ident); ok {
				if bi, ok := info.Uses[id].(*types.Builtin); ok && bi.Name() == "panic" {
					return true
				}
			}
		}
	}
	return false
}

// runBalance: every function that opens or closes the bracket is balanced on
// all (or all successful) paths; functions with a consistent non-zero net effect
// are wrappers and count as openers/closers for their callers.
func (c *Ctx) runBalance(r *Report, rule string, sp bracketSpec) {
	derived := map[*types.Func]int{}
	var fns []*funcInfo
	for _, fn := range c.allFuncs() {
		if sp.Pkg != nil && !sp.Pkg(fn.Pkg.Rel) {
			continue
		}
		if fn.Obj != nil && (sp.Open(fn.Obj) || sp.Close(fn.Obj)) {
			continue // the primitives themselves
		}
		fns = append(fns, fn)
	}
	sums := map[*funcInfo]bracketSummary{}
	for round := 0; round < 4; round++ {
		changed := false
		for _, fn := range fns {
			s := c.bracketEffect(fn, sp, derived)
			sums[fn] = s
			if s.Uses && s.Consistent && s.Net != 0 && fn.Obj != nil && derived[fn.Obj] != s.Net {
				derived[fn.Obj] = s.Net
				changed = true
			}
		}
		if !changed {
			break
		}
	}
	n := 0
	sort.Slice(fns, func(i, j int) bool { return fns[i].id() < fns[j].id() })
	for _, fn := range fns {
		s := sums[fn]
		if !s.Uses {
			continue
		}
		n++
		construct := fn.id()
		switch {
		case !s.Consistent:
			if reason, ok := sp.Exception[fn.id()]; ok {
				r.exc(rule, construct, c.pos(s.BadPos), reason)
			} else {
				r.viol(rule, construct, c.pos(s.BadPos), fmt.Sprintf("%s: %s of %s is not balanced on all paths: %s", fn.id(), sp.Name, "open/close", s.BadMsg))
			}
		case s.Net != 0:
			r.ok(rule, construct, c.pos(fn.Decl.Pos()), fmt.Sprintf("wrapper with consistent net effect %+d (counted at its call sites)", s.Net))
		default:
			r.ok(rule, construct, c.pos(fn.Decl.Pos()), "balanced on every path")
		}
	}
	r.inst("pairing."+sp.Name, n)
}

func methodNamed(pkgRel, recv, name string) func(f *types.Func) bool {
	return func(f *types.Func) bool {
		if f.Name() != name || f.Pkg() == nil || relPkg(f.Pkg().Path()) != pkgRel {
			return false
		}
		sig, ok := f.Type().(*types.Signature)
		if !ok || sig.Recv() == nil {
			return recv == ""
		}
		return namedName(sig.Recv().Type()) == recv
	}
}

// ---------------------------------------------------------------------------
// scope per block: a block body must be lowered in a scope of its own

type scopeSpec struct {
	Push, Pop func(f *types.Func) bool
	Body      func(f *types.Func) bool // the call that lowers a block body
	Pkg       func(string) bool
	Exception map[string]string
}

func (c *Ctx) runScopePerBlock(r *Report, rule string, sp scopeSpec) {
	const (
		none  = 0 // no scope opened in this function on this path
		fresh = 1 // a scope was just opened, nothing lowered in it
		used  = 2 // a block body has been lowered in the innermost open scope
		mixed = 3
	)
	n := 0
	for _, fn := range c.allFuncs() {
		if sp.Pkg != nil && !sp.Pkg(fn.Pkg.Rel) {
			continue
		}
		info := fn.Pkg.Info
		has := false
		ast.Inspect(fn.Decl.Body, func(m ast.Node) bool {
			if call, ok := m.(*ast.CallExpr); ok {
				if f := calleeOf(info, call); f != nil && sp.Body(f.Origin()) {
					has = true
				}
			}
			return !has
		})
		if !has {
			continue
		}
		g := c.cfgOf(fn)
		in := make([]int, len(g.Blocks))
		for i := range in {
			in[i] = -1
		}
		in[0] = none
		work := []*cfg.Block{g.Blocks[0]}
		ord := 0
		reported := map[token.Pos]bool{}
		sites := map[token.Pos]int{}
		var order []token.Pos
		for iter := 0; len(work) > 0 && iter < 100000; iter++ {
			b := work[len(work)-1]
			work = work[:len(work)-1]
			st := in[b.Index]
			for _, nd := range b.Nodes {
				if _, isDefer := nd.(*ast.DeferStmt); isDefer {
					continue
				}
				for _, call := range callsIn(nd) {
					f := calleeOf(info, call)
					if f == nil {
						continue
					}
					f = f.Origin()
					switch {
					case sp.Push(f):
						st = fresh
					case sp.Pop(f):
						st = none
					case sp.Body(f):
						if _, seen := sites[call.Pos()]; !seen {
							sites[call.Pos()] = st
							order = append(order, call.Pos())
						} else if sites[call.Pos()] != st {
							if st == used || st == mixed || sites[call.Pos()] == none {
								sites[call.Pos()] = st
							}
						}
						_ = reported
						st = used
					}
				}
			}
			for _, s := range b.Succs {
				ns := st
				if in[s.Index] == -1 {
					in[s.Index] = ns
					work = append(work, s)
				} else if in[s.Index] != ns {
					m := mixed
					if in[s.Index] != m {
						// join: used dominates (a body may already have been lowered in this scope)
						if in[s.Index] == used || ns == used {
							m = used
						}
						if in[s.Index] != m {
							in[s.Index] = m
							work = append(work, s)
						}
					}
				}
			}
		}
		sort.Slice(order, func(i, j int) bool { return order[i] < order[j] })
		for _, pos := range order {
			ord++
			n++
			construct := fmt.Sprintf("%s:body#%d", fn.id(), ord)
			switch sites[pos] {
			case fresh:
				r.ok(rule, construct, c.pos(pos), "lowered in a scope opened for it")
			case none:
				if reason, ok := sp.Exception[fn.id()]; ok {
					r.exc(rule, construct, c.pos(pos), reason)
				} else {
					r.viol(rule, construct, c.pos(pos), fn.id()+" lowers a block body without opening a scope for it in this function")
				}
			default:
				if reason, ok := sp.Exception[fn.id()]; ok {
					r.exc(rule, construct, c.pos(pos), reason)
				} else {
					r.viol(rule, construct, c.pos(pos), fn.id()+" lowers a block body in a scope in which another block body has already been lowered on some path (sibling blocks share one scope: names declared in one remain visible in the next)")
				}
			}
		}
	}
	r.inst("scope.bodies", n)
}
