package main

// lex.tokenchars (C19, C11, C08): the lexer's punctuation scanner.
//
// The scanner consumes one character, switches on it and extends the token
// with `match(c)` (consumes c if it is next) before it calls addToken(K) - or
// hands over to a sub-scanner such as the block-comment skipper, which expects
// its opening delimiter to be consumed already. For every such action the
// characters consumed on the way to it - the case label, the characters of the
// match() tests that hold on the path, and explicit advance() calls (a known
// character inside `switch peek() { case c: advance() }`, unknown otherwise) -
// must spell exactly the WGSL token K (reference table from the WGSL grammar) /
// the delimiter the sub-scanner expects. A character tested but not consumed,
// or consumed but not part of the token, shifts every following token: with
// comments it makes "/*/ ... */" lex differently from the same program without
// the comment.

import (
	"go/ast"
	"go/constant"
	"go/types"
)

var tokenSpelling = map[string]string{
	"TokenPlus": "+", "TokenMinus": "-", "TokenStar": "*", "TokenSlash": "/", "TokenPercent": "%", "TokenAmpersand": "&", "TokenPipe": "|", "TokenCaret": "^",
	"TokenTilde": "~", "TokenBang": "!", "TokenEqual": "=", "TokenLess": "<", "TokenGreater": ">", "TokenDot": ".", "TokenComma": ",", "TokenColon": ":",
	"TokenSemicolon": ";", "TokenAt": "@", "TokenArrow": "->", "TokenPlusPlus": "++", "TokenMinusMinus": "--", "TokenEqualEqual": "==", "TokenBangEqual": "!=",
	"TokenLessEqual": "<=", "TokenGreaterEqual": ">=", "TokenAmpAmp": "&&", "TokenPipePipe": "||", "TokenLessLess": "<<", "TokenGreaterGreater": ">>",
	"TokenPlusEqual": "+=", "TokenMinusEqual": "-=", "TokenStarEqual": "*=", "TokenSlashEqual": "/=", "TokenPercentEqual": "%=", "TokenAmpEqual": "&=",
	"TokenPipeEqual": "|=", "TokenCaretEqual": "^=", "TokenLessLessEqual": "<<=", "TokenGreaterGreaterEqual": ">>=",
	"TokenLeftParen": "(", "TokenRightParen": ")", "TokenLeftBrace": "{", "TokenRightBrace": "}", "TokenLeftBracket": "[", "TokenRightBracket": "]",
}

// sub-scanners and the delimiter that must have been consumed when they are entered
var subScannerPrefix = map[string]string{
	"blockComment": "/*",
}

func charConst(info *types.Info, e ast.Expr) (string, bool) {
	tv, ok := info.Types[e]
	if !ok || tv.Value == nil || tv.Value.Kind() != constant.Int {
		return "", false
	}
	v, ok := constant.Int64Val(tv.Value)
	if !ok || v < 32 || v > 126 {
		return "", false
	}
	return string(rune(v)), true
}

func spellMatches(consumed, want string) bool {
	if len(consumed) != len(want) {
		return false
	}
	for i := range want {
		if consumed[i] != '?' && consumed[i] != want[i] {
			return false
		}
	}
	return true
}

func (c *Ctx) runLexerTokenChars(r *Report, rule string) {
	n := 0
	for _, fn := range c.allFuncs() {
		if fn.Pkg.Rel != "wgsl/internal/parser" || fn.Obj == nil {
			continue
		}
		sig := fn.Obj.Type().(*types.Signature)
		if sig.Recv() == nil || namedName(sig.Recv().Type()) != "Lexer" {
			continue
		}
		info := fn.Pkg.Info
		isLexCall := func(e ast.Expr, name string) *ast.CallExpr {
			call, ok := ast.Unparen(e).(*ast.CallExpr)
			if !ok {
				return nil
			}
			f := calleeOf(info, call)
			if f == nil || f.Name() != name {
				return nil
			}
			s, ok := f.Type().(*types.Signature)
			if !ok || s.Recv() == nil || namedName(s.Recv().Type()) != "Lexer" {
				return nil
			}
			return call
		}
		// the variable holding the first consumed character: x := l.advance()
		var first types.Object
		ast.Inspect(fn.Decl.Body, func(m ast.Node) bool {
			if as, ok := m.(*ast.AssignStmt); ok && len(as.Lhs) == 1 && len(as.Rhs) == 1 && isLexCall(as.Rhs[0], "advance") != nil {
				if id, ok := as.Lhs[0].(*ast.Ident); ok && first == nil {
					first = info.Defs[id]
				}
			}
			return true
		})
		if first == nil {
			continue
		}
		ord := map[string]int{}
		report := func(what, want, consumed string, pos ast.Node) {
			n++
			cons := fn.id() + ":" + what
			ord[cons]++
			if ord[cons] > 1 {
				cons += "#" + itoa(ord[cons])
			}
			if spellMatches(consumed, want) {
				r.ok(rule, cons, c.pos(pos.Pos()), "")
			} else {
				r.viol(rule, cons, c.pos(pos.Pos()), fn.id()+" reaches "+what+" after consuming \""+consumed+"\" but it stands for \""+want+"\": a character is tested without being consumed (or consumed without belonging to the token), so the following text is lexed from the wrong position")
			}
		}
		var walk func(stmts []ast.Stmt, consumed string, peeked string)
		walkStmt := func(s ast.Stmt, consumed *string, peeked *string) {
			switch x := s.(type) {
			case *ast.ExprStmt:
				if call := isLexCall(x.X, "addToken"); call != nil && len(call.Args) == 1 {
					if k := irConstName(info, call.Args[0]); k != "" {
						if want, ok := tokenSpelling[k]; ok {
							report(k, want, *consumed, x)
						}
					}
					return
				}
				if isLexCall(x.X, "advance") != nil {
					if *peeked != "" {
						*consumed += *peeked
						*peeked = ""
					} else {
						*consumed += "?"
					}
					return
				}
				if call, ok := ast.Unparen(x.X).(*ast.CallExpr); ok {
					if f := calleeOf(info, call); f != nil {
						if want, ok := subScannerPrefix[f.Name()]; ok && isLexCall(x.X, f.Name()) != nil {
							report(f.Name()+"()", want, *consumed, x)
						}
					}
				}
			case *ast.IfStmt:
				if call := isLexCall(x.Cond, "match"); call != nil && len(call.Args) == 1 {
					if ch, ok := charConst(info, call.Args[0]); ok {
						walk(x.Body.List, *consumed+ch, "")
						switch e := x.Else.(type) {
						case *ast.BlockStmt:
							walk(e.List, *consumed, *peeked)
						case *ast.IfStmt:
							walk([]ast.Stmt{e}, *consumed, *peeked)
						}
						return
					}
				}
				// any other condition: both branches continue with what is consumed so far
				walk(x.Body.List, *consumed, *peeked)
				switch e := x.Else.(type) {
				case *ast.BlockStmt:
					walk(e.List, *consumed, *peeked)
				case *ast.IfStmt:
					walk([]ast.Stmt{e}, *consumed, *peeked)
				}
			case *ast.SwitchStmt:
				if x.Tag != nil && isLexCall(x.Tag, "peek") != nil {
					for _, cl := range x.Body.List {
						cc := cl.(*ast.CaseClause)
						if len(cc.List) == 1 {
							if ch, ok := charConst(info, cc.List[0]); ok {
								walk(cc.Body, *consumed, ch)
								continue
							}
						}
						walk(cc.Body, *consumed, "")
					}
				}
			case *ast.BlockStmt:
				walk(x.List, *consumed, *peeked)
			}
		}
		walk = func(stmts []ast.Stmt, consumed string, peeked string) {
			for _, s := range stmts {
				walkStmt(s, &consumed, &peeked)
			}
		}
		ast.Inspect(fn.Decl.Body, func(m ast.Node) bool {
			sw, ok := m.(*ast.SwitchStmt)
			if !ok || sw.Tag == nil {
				return true
			}
			id, ok := ast.Unparen(sw.Tag).(*ast.Ident)
			if !ok || info.Uses[id] != first {
				return true
			}
			for _, cl := range sw.Body.List {
				cc := cl.(*ast.CaseClause)
				if len(cc.List) != 1 {
					continue
				}
				ch, ok := charConst(info, cc.List[0])
				if !ok {
					continue
				}
				walk(cc.Body, ch, "")
			}
			return false
		})
	}
	r.inst("lex.tokenchars", n)
}

func init() {
	dumpers["lexer"] = func(c *Ctx, parts []string) {
		r := newReport("dump")
		c.runLexerTokenChars(r, "lex.tokenchars")
		for _, o := range r.Obs {
			println(o.Verdict, o.Construct, o.Pos, o.Msg)
		}
	}
}

// swizzle.checked (C11): WGSL rejects a swizzle letter beyond the vector's width
// (v.z on a vec2). The lowerer maps a letter to a component with a raw mapper
// (byte -> (ir.SwizzleComponent, ok)) that knows nothing about the vector; every
// function that calls the raw mapper must itself compare the component with an
// ir.VectorSize value (the width check). A caller that uses the mapped
// component without that comparison accepts out-of-range swizzles on its path
// (e.g. only on the left-hand side of assignments).
func (c *Ctx) runSwizzleChecked(r *Report, rule string) {
	n := 0
	for _, fn := range c.allFuncs() {
		if fn.Pkg.Rel != "wgsl/internal/lower" {
			continue
		}
		info := fn.Pkg.Info
		calls := 0
		ast.Inspect(fn.Decl.Body, func(m ast.Node) bool {
			call, ok := m.(*ast.CallExpr)
			if !ok {
				return true
			}
			f := calleeOf(info, call)
			if f == nil {
				return true
			}
			sig := f.Type().(*types.Signature)
			if sig.Recv() == nil && sig.Params().Len() == 1 && sig.Results().Len() == 2 && irTypeName(sig.Results().At(0).Type()) == "SwizzleComponent" {
				if b, ok := sig.Params().At(0).Type().Underlying().(*types.Basic); ok && (b.Kind() == types.Uint8 || b.Kind() == types.Int32) {
					calls++
				}
			}
			return true
		})
		if calls == 0 {
			continue
		}
		mentions := func(e ast.Expr, typeName string) bool {
			hit := false
			ast.Inspect(e, func(k ast.Node) bool {
				if id, ok := k.(*ast.Ident); ok {
					if o := info.Uses[id]; o != nil && irTypeName(o.Type()) == typeName {
						hit = true
					}
				}
				return !hit
			})
			return hit
		}
		checked := false
		ast.Inspect(fn.Decl.Body, func(m ast.Node) bool {
			be, ok := m.(*ast.BinaryExpr)
			if !ok {
				return true
			}
			switch be.Op.String() {
			case "<", "<=", ">", ">=":
				if (mentions(be.X, "SwizzleComponent") && mentions(be.Y, "VectorSize")) || (mentions(be.Y, "SwizzleComponent") && mentions(be.X, "VectorSize")) {
					checked = true
				}
			}
			return true
		})
		n++
		cons := fn.id() + ":width-check"
		if checked {
			r.ok(rule, cons, c.pos(fn.Decl.Pos()), "")
		} else {
			r.viol(rule, cons, c.pos(fn.Decl.Pos()), fn.id()+" maps a swizzle letter to a component with the raw mapper but never compares the component with the vector's size: a component beyond the vector's width is accepted on this path")
		}
	}
	r.inst("swizzle.checked", n)
}

// lex.nestdelim (C19): WGSL block comments nest; the comment skipper counts
// the nesting depth and both delimiters "/*" and "*/" are two characters long.
// In every lexer method that adjusts a local nesting counter (depth++ /
// depth--), the branch that does so must have consumed exactly two characters:
// advance() calls in the branch body or in the init statement of the enclosing
// switch, plus successful match() tests in the branch condition. A delimiter
// of which only one character is consumed makes the following character count
// twice ("/*/" opens and closes at once), so a comment ends too early or too
// late and commented-out text is compiled.
func (c *Ctx) runNestDelim(r *Report, rule string) {
	n := 0
	for _, fn := range c.allFuncs() {
		if fn.Pkg.Rel != "wgsl/internal/parser" || fn.Obj == nil {
			continue
		}
		sig := fn.Obj.Type().(*types.Signature)
		if sig.Recv() == nil || namedName(sig.Recv().Type()) != "Lexer" {
			continue
		}
		info := fn.Pkg.Info
		isLex := func(e ast.Expr, name string) bool {
			call, ok := ast.Unparen(e).(*ast.CallExpr)
			if !ok {
				return false
			}
			f := calleeOf(info, call)
			if f == nil || f.Name() != name {
				return false
			}
			s, ok := f.Type().(*types.Signature)
			return ok && s.Recv() != nil && namedName(s.Recv().Type()) == "Lexer"
		}
		countCalls := func(nd ast.Node, name string) int {
			k := 0
			if nd == nil {
				return 0
			}
			ast.Inspect(nd, func(m ast.Node) bool {
				switch x := m.(type) {
				case *ast.FuncLit:
					return false
				case *ast.CallExpr:
					if isLex(x, name) {
						k++
					}
				}
				return true
			})
			return k
		}
		// walk with a stack of (branch body, branch condition, enclosing switch init)
		type frame struct {
			body []ast.Stmt
			cond ast.Expr
			init ast.Stmt
		}
		var walk func(stmts []ast.Stmt, fr frame)
		ord := 0
		judge := func(st *ast.IncDecStmt, fr frame) {
			id, ok := ast.Unparen(st.X).(*ast.Ident)
			if !ok {
				return
			}
			v, ok := info.Uses[id].(*types.Var)
			if !ok || v.IsField() || v.Parent() == v.Pkg().Scope() {
				return
			}
			consumed := 0
			for _, s := range fr.body {
				consumed += countCalls(s, "advance")
			}
			if fr.cond != nil {
				consumed += countCalls(fr.cond, "match")
			}
			if fr.init != nil {
				consumed += countCalls(fr.init, "advance")
			}
			n++
			ord++
			cons := fn.id() + ":" + id.Name + st.Tok.String()
			if ord > 2 {
				cons += "#" + itoa(ord)
			}
			if consumed == 2 {
				r.ok(rule, cons, c.pos(st.Pos()), "")
			} else {
				r.viol(rule, cons, c.pos(st.Pos()), fn.id()+" adjusts the nesting counter "+id.Name+" in a branch that consumes "+itoa(consumed)+" character(s); both comment delimiters are two characters long, so the unconsumed character is looked at again and can open or close another level")
			}
		}
		walk = func(stmts []ast.Stmt, fr frame) {
			for _, s := range stmts {
				switch x := s.(type) {
				case *ast.IncDecStmt:
					judge(x, fr)
				case *ast.IfStmt:
					walk(x.Body.List, frame{x.Body.List, x.Cond, fr.init})
					switch e := x.Else.(type) {
					case *ast.BlockStmt:
						walk(e.List, frame{e.List, nil, fr.init})
					case *ast.IfStmt:
						walk([]ast.Stmt{e}, fr)
					}
				case *ast.ForStmt:
					walk(x.Body.List, frame{x.Body.List, nil, nil})
				case *ast.SwitchStmt:
					for _, cl := range x.Body.List {
						cc := cl.(*ast.CaseClause)
						var cond ast.Expr
						if len(cc.List) == 1 {
							cond = cc.List[0]
						}
						walk(cc.Body, frame{cc.Body, cond, x.Init})
					}
				case *ast.BlockStmt:
					walk(x.List, fr)
				}
			}
		}
		walk(fn.Decl.Body.List, frame{})
	}
	r.inst("lex.nestdelim", n)
}
