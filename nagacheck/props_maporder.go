package main

// triaged by reading (findings/maporder/maporder.md): one site + one reason each
var mapOrderExceptions = []mapOrderException{
	{"dxil/internal/emit.Emitter.finalize:range(e.globalVarModuleVars)", "inverse of an injective map: every emitter id is allocated together with a freshly added module global (AddGlobalVar + allocValue), so no two ids carry the same *GlobalVar"},
	{"dxil/internal/emit.Emitter.finalize:range(e.constMap)", "inverse of an injective map: every emitter id is allocated together with a freshly added module constant, behind per-value caches (intConsts / floatConsts), so no two ids carry the same *Constant"},
	{"dxil/internal/emit.EmitWithFlags:range(e.helperFunctions)", "finalizeHelperFunction only renumbers value ids inside the one function passed in; its base is computed from module-level lengths it does not mutate: helpers are independent"},
	{"dxil/internal/emit.collectCalledFunctions:range(result)", "callee only inserts into the same set and the enclosing loop runs to a fixed point: the result is the transitive closure in any order"},
	{"dxil/internal/emit.Emitter.moduleUsesRayQuery:range(e.helperFunctions)", "boolean OR over a read-only predicate"},
	{"dxil/internal/emit.usedStructMembers:range(live)", "existence test (every early return yields nil) followed by set inserts"},
	{"dxil/internal/emit.isArgRead:range(emitted)", "boolean OR over the pure predicate expressionReferences"},
	{"dxil/internal/emit.usedComponentMask:range(emitted)", "every in-loop return yields the same constant mask; otherwise a commutative |= accumulation"},
	{"dxil/internal/emit.liveLocalVars:range(emitted)", "callee closure only inserts into the live set"},
	{"dxil/internal/passes/mem2reg.initialValues:range(candidates)", "permutes only the internal handles of trailing ExprZeroValue expressions on the clone; they are consumed per variable and emitted lazily at first use (200/200 identical outputs, findings/maporder/08_insensitive_test.go)"},
	{"dxil/internal/passes/mem2reg.newPhiWalker:range(w.candidates)", "same as initialValues: zero-value handles are a pure renaming (findings/maporder/09_insensitive_test.go)"},
	{"dxil/internal/passes/sroa.decompose:range(info.accessHandles)", "each access handle belongs to exactly one field; independent in-place rewrites, no appends"},
	{"hlsl/internal/codegen.Writer.typeToHLSLWithArraySuffix:range(w.typeNames)", "struct arm unreachable for front-end modules (every struct handle has a registered name and is resolved before this loop); type names are unique"},
	{"hlsl/internal/codegen.Writer.typeToHLSLWithArraySuffix:range(w.typeNames)#2", "same as the first loop of this function"},
	{"msl/internal/codegen.Writer.writeEntryPoint:range(epUsedGlobals)", "boolean OR with break over a pure type query"},
	{"spirv/internal/codegen.Backend.findTypeHandleByID:range(b.typeIDs)", "handles sharing one SPIR-V id have identical scalar types (ids are deduplicated by kind and width), and the only caller projects the handle to its ScalarType"},
}
