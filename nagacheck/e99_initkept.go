package main

import (
	"go/ast"
	"go/types"
)

// split.initkept (C13): a pass that replaces a local variable by new ones
// (sroa: one per struct member) builds `ir.LocalVariable{..., Init: x}` where x
// is taken from the original's initialiser only when that initialiser has one
// expression kind (`.Kind.(ir.ExprCompose)`, no else). For every other kind the
// new locals start at zero and the original's initial value is gone - unless
// the side that selects the candidates looks at the initialiser and leaves
// such locals alone. The package must read LocalVariable.Init in a function
// other than the one that builds the new locals, or the builder's kind test
// must have an else branch.
func (c *Ctx) runInitKept(r *Report, rule string, inPkg func(string) bool) {
	n := 0
	isInitField := func(info *types.Info, sel *ast.SelectorExpr) bool {
		if sel.Sel.Name != "Init" {
			return false
		}
		v, ok := info.ObjectOf(sel.Sel).(*types.Var)
		if !ok || !v.IsField() {
			return false
		}
		return irTypeName(info.TypeOf(sel.X)) == "LocalVariable" || irTypeName(derefType(info.TypeOf(sel.X))) == "LocalVariable"
	}
	for _, fn := range c.allFuncs() {
		if !inPkg(fn.Pkg.Rel) || fn.Decl.Body == nil {
			continue
		}
		info := fn.Pkg.Info
		// builder: a LocalVariable literal whose Init is a plain variable
		var initVar types.Object
		var lit *ast.CompositeLit
		ast.Inspect(fn.Decl.Body, func(m ast.Node) bool {
			cl, ok := m.(*ast.CompositeLit)
			if !ok || irTypeName(info.TypeOf(cl)) != "LocalVariable" {
				return true
			}
			for _, el := range cl.Elts {
				kv, ok := el.(*ast.KeyValueExpr)
				if !ok {
					continue
				}
				if k, ok := kv.Key.(*ast.Ident); ok && k.Name == "Init" {
					if id, ok := ast.Unparen(kv.Value).(*ast.Ident); ok {
						if v, ok := info.ObjectOf(id).(*types.Var); ok && !v.IsField() {
							initVar, lit = v, cl
						}
					}
				}
			}
			return true
		})
		if initVar == nil {
			continue
		}
		// the variable is assigned under a single-kind test of an expression's Kind with no else
		var guarded *ast.IfStmt
		ast.Inspect(fn.Decl.Body, func(m ast.Node) bool {
			ifs, ok := m.(*ast.IfStmt)
			if !ok {
				return true
			}
			as, ok := ifs.Init.(*ast.AssignStmt)
			if !ok || len(as.Rhs) != 1 {
				return true
			}
			ta, ok := ast.Unparen(as.Rhs[0]).(*ast.TypeAssertExpr)
			if !ok || ta.Type == nil || irTypeName(info.TypeOf(ta.Type)) == "" {
				return true
			}
			assigns := false
			ast.Inspect(ifs.Body, func(k ast.Node) bool {
				if a, ok := k.(*ast.AssignStmt); ok {
					for _, l := range a.Lhs {
						if id, ok := l.(*ast.Ident); ok && info.ObjectOf(id) == initVar {
							assigns = true
						}
					}
				}
				return true
			})
			if assigns {
				guarded = ifs
			}
			return true
		})
		if guarded == nil {
			continue
		}
		n++
		cons := fn.id() + ":LocalVariable.Init"
		if guarded.Else != nil {
			r.ok(rule, cons, c.pos(lit.Pos()), "")
			continue
		}
		// does another function of the package look at LocalVariable.Init?
		other := ""
		for _, g := range c.allFuncs() {
			if g.Pkg != fn.Pkg || g == fn || g.Decl.Body == nil {
				continue
			}
			ast.Inspect(g.Decl.Body, func(m ast.Node) bool {
				if sel, ok := m.(*ast.SelectorExpr); ok && isInitField(g.Pkg.Info, sel) {
					other = g.id()
				}
				return true
			})
		}
		if other != "" {
			r.ok(rule, cons, c.pos(lit.Pos()), "")
		} else {
			r.viol(rule, cons, c.pos(guarded.Pos()), fn.id()+" gives the locals it creates an initialiser only when the original's initialiser has one expression kind, and no other function of the package looks at LocalVariable.Init: a local initialised any other way (a constant, a call result) is replaced by zero-initialised ones")
		}
	}
	r.inst(rule, n)
}

func init() {
	dumpers["initkept"] = func(c *Ctx, parts []string) {
		r := newReport("dump")
		c.runInitKept(r, "split.initkept", func(string) bool { return true })
		for _, o := range r.Obs {
			println(o.Verdict, o.Construct, o.Pos)
		}
	}
}
