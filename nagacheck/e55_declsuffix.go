package main

import (
	"go/ast"
	"go/types"
	"strconv"
	"strings"
)

// decl.arraysuffix (C03): HLSL spells an array declaration `T name[N]`; only a
// cast may say `(T[N])`. The writer has two type-text functions: one returns
// the full text (`float2[2]`), the other the base text and the array suffix
// separately. A declaration - a format literal in which a type text is followed
// by a blank and the declared name - of a module-scope variable, local
// variable, constant, struct member or function result (the entities WGSL lets
// be arrays) must take its type text from the function that splits off the
// suffix and print that suffix after the name.
func (c *Ctx) runDeclArraySuffix(r *Report, rule string, pkg string, exceptions map[string]string) {
	n := 0
	for _, fn := range c.allFuncs() {
		if fn.Pkg.Rel != pkg || fn.Obj == nil || fn.Decl.Body == nil {
			continue
		}
		info := fn.Pkg.Info
		// vars assigned from the whole-text function: v := w.getTypeName(E)
		whole := map[types.Object]ast.Expr{}
		ast.Inspect(fn.Decl.Body, func(m ast.Node) bool {
			as, ok := m.(*ast.AssignStmt)
			if !ok || len(as.Lhs) != 1 || len(as.Rhs) != 1 {
				return true
			}
			call, ok := ast.Unparen(as.Rhs[0]).(*ast.CallExpr)
			if !ok || len(call.Args) != 1 {
				return true
			}
			f := calleeOf(info, call)
			if f == nil || f.Name() != "getTypeName" {
				return true
			}
			if id, ok := as.Lhs[0].(*ast.Ident); ok {
				if o := info.ObjectOf(id); o != nil {
					whole[o] = call.Args[0]
				}
			}
			return true
		})
		if len(whole) == 0 {
			continue
		}
		ord := map[string]int{}
		ast.Inspect(fn.Decl.Body, func(m ast.Node) bool {
			call, ok := m.(*ast.CallExpr)
			if !ok {
				return true
			}
			// locate the format literal
			fi := -1
			var format string
			for i, a := range call.Args {
				if lit, ok := ast.Unparen(a).(*ast.BasicLit); ok {
					if s, err := strconv.Unquote(lit.Value); err == nil && strings.Contains(s, "%s") {
						fi, format = i, s
						break
					}
				}
			}
			if fi < 0 {
				return true
			}
			// verbs in order
			var verbs []int // byte offsets of each % verb
			for i := 0; i+1 < len(format); i++ {
				if format[i] == '%' {
					if format[i+1] == '%' {
						i++
						continue
					}
					verbs = append(verbs, i)
				}
			}
			for vi, off := range verbs {
				ai := fi + 1 + vi
				if ai >= len(call.Args) || !strings.HasPrefix(format[off:], "%s %s") {
					continue
				}
				id, ok := ast.Unparen(call.Args[ai]).(*ast.Ident)
				if !ok {
					continue
				}
				src, ok := whole[info.ObjectOf(id)]
				if !ok {
					continue
				}
				ent := declEntity(info, fn, src)
				if ent == "" {
					continue
				}
				// declaration shape: after the name comes " = ", ";", " :" or end of text
				rest := format[off+len("%s %s"):]
				if !(strings.HasPrefix(rest, " = ") || strings.HasPrefix(rest, ";") || rest == "" || strings.HasPrefix(rest, " :")) {
					continue
				}
				n++
				ord[ent]++
				cons := fn.id() + ":" + ent + "#" + itoa(ord[ent])
				if why := exceptions[cons]; why != "" {
					r.exc(rule, cons, c.pos(call.Pos()), why)
				} else {
					r.viol(rule, cons, c.pos(call.Pos()), fn.id()+" declares a "+ent+" with the format "+strconv.Quote(format)+" and the whole type text of getTypeName: for an array type this prints `T[N] name`, which HLSL does not accept; the sibling declarations use getTypeNameWithArraySuffix and print the suffix after the name")
				}
			}
			return true
		})
	}
	// sibling count: declarations through the splitting function
	split := 0
	for _, fn := range c.allFuncs() {
		if fn.Pkg.Rel != pkg || fn.Decl.Body == nil {
			continue
		}
		ast.Inspect(fn.Decl.Body, func(m ast.Node) bool {
			if call, ok := m.(*ast.CallExpr); ok {
				if f := calleeOf(fn.Pkg.Info, call); f != nil && f.Name() == "getTypeNameWithArraySuffix" {
					split++
				}
			}
			return true
		})
	}
	r.inst("decl.splitSuffixSites", split)
	r.inst(rule, n)
}

// declEntity names the IR entity whose .Type the expression reads, following one local copy.
func declEntity(info *types.Info, fn *funcInfo, e ast.Expr) string {
	e = ast.Unparen(e)
	if id, ok := e.(*ast.Ident); ok {
		// typeHandle := X.Type (any of the variable's definitions)
		obj := info.ObjectOf(id)
		ent := ""
		ast.Inspect(fn.Decl.Body, func(m ast.Node) bool {
			as, ok := m.(*ast.AssignStmt)
			if !ok || len(as.Lhs) != len(as.Rhs) {
				return true
			}
			for i, l := range as.Lhs {
				if lid, ok := l.(*ast.Ident); ok && info.ObjectOf(lid) == obj && ent == "" {
					ent = entityOfTypeSel(info, as.Rhs[i])
				}
			}
			return true
		})
		return ent
	}
	return entityOfTypeSel(info, e)
}

func entityOfTypeSel(info *types.Info, e ast.Expr) string {
	sel, ok := ast.Unparen(e).(*ast.SelectorExpr)
	if !ok || sel.Sel.Name != "Type" {
		return ""
	}
	tv, ok := info.Types[sel.X]
	if !ok {
		return ""
	}
	switch n := irTypeName(derefType(tv.Type)); n {
	case "GlobalVariable", "LocalVariable", "Constant", "StructMember", "FunctionResult":
		return n
	}
	return ""
}

func init() {
	dumpers["declsuffix"] = func(c *Ctx, parts []string) {
		r := newReport("dump")
		c.runDeclArraySuffix(r, "decl.arraysuffix", "hlsl/internal/codegen", nil)
		for _, o := range r.Obs {
			println(o.Verdict, o.Construct, o.Pos, o.Msg)
		}
	}
}
