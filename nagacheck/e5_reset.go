package main

// E5 reset: objects reused across invocations return to their initial state.
//
// A *reuse scope* is (T, E): a state object of struct type T is reused across
// calls of the scope entry E. Mut = fields of T written by any function
// reachable from E (constructors excluded). Rst = fields unconditionally
// re-initialised in the prologue of E: reset-form writes at the top level of
// E's body, or of a method of T that E calls at top level (b.Reset()).
// Obligation: Mut ⊆ Rst.  For *nested* scopes (per-function state of a
// lowerer/writer inside a per-module driver) only the fields written
// exclusively inside the scope are obligated.

import (
	"go/ast"
	"go/token"
	"go/types"
	"sort"
	"strings"
)

type fieldKey struct {
	T *types.TypeName
	F string
}

type fieldWrite struct {
	Key  fieldKey
	Pos  token.Pos
	Form string // "assign" | "index" | "append" | "incdec" | "delete" | "clear" | "method" | "addr" | "nested"
}

// fieldWritesOf lists the struct-field writes a function body performs.
func (c *Ctx) fieldWritesOf(fn *funcInfo) []fieldWrite {
	key := "fw:" + fn.id()
	if v, ok := c.cache[key]; ok {
		return v.([]fieldWrite)
	}
	info := fn.Pkg.Info
	var out []fieldWrite
	// record the field chain of an lvalue expression
	var record func(e ast.Expr, form string, pos token.Pos, outer bool)
	record = func(e ast.Expr, form string, pos token.Pos, outer bool) {
		switch x := ast.Unparen(e).(type) {
		case *ast.SelectorExpr:
			if sel := info.Selections[x]; sel != nil && sel.Kind() == types.FieldVal {
				if tn := structTypeName(info, x.X); tn != nil {
					f := form
					if outer {
						f = "nested"
					}
					out = append(out, fieldWrite{Key: fieldKey{tn, x.Sel.Name}, Pos: pos, Form: f})
				}
				// a.b.c = v also mutates a.b when b is stored by value
				if tv, ok := info.Types[x.X]; ok {
					if _, isPtr := types.Unalias(tv.Type).Underlying().(*types.Pointer); !isPtr {
						record(x.X, form, pos, true)
					}
				}
			}
		case *ast.IndexExpr:
			f := "index"
			if outer {
				f = "nested"
			}
			record(x.X, f, pos, outer)
		case *ast.StarExpr:
			record(x.X, form, pos, outer)
		case *ast.SliceExpr:
			record(x.X, form, pos, outer)
		}
	}
	ast.Inspect(fn.Decl.Body, func(n ast.Node) bool {
		switch x := n.(type) {
		case *ast.AssignStmt:
			for i, l := range x.Lhs {
				form := "assign"
				if x.Tok != token.ASSIGN && x.Tok != token.DEFINE {
					form = "incdec"
				} else if len(x.Rhs) == len(x.Lhs) {
					if call, ok := ast.Unparen(x.Rhs[i]).(*ast.CallExpr); ok {
						if id, ok := ast.Unparen(call.Fun).(*ast.Ident); ok {
							if b, ok := info.Uses[id].(*types.Builtin); ok && b.Name() == "append" && len(call.Args) > 0 &&
								types.ExprString(ast.Unparen(call.Args[0])) == types.ExprString(ast.Unparen(l)) {
								form = "append"
							}
						}
					}
				}
				record(l, form, l.Pos(), false)
			}
		case *ast.IncDecStmt:
			record(x.X, "incdec", x.Pos(), false)
		case *ast.RangeStmt:
			if x.Tok == token.ASSIGN {
				if x.Key != nil {
					record(x.Key, "assign", x.Pos(), false)
				}
				if x.Value != nil {
					record(x.Value, "assign", x.Pos(), false)
				}
			}
		case *ast.CallExpr:
			if id, ok := ast.Unparen(x.Fun).(*ast.Ident); ok {
				if b, ok := info.Uses[id].(*types.Builtin); ok && len(x.Args) > 0 {
					switch b.Name() {
					case "delete":
						record(x.Args[0], "delete", x.Pos(), false)
					case "clear":
						record(x.Args[0], "clear", x.Pos(), false)
					case "copy":
						record(x.Args[0], "index", x.Pos(), false)
					}
				}
			}
			// method call with pointer receiver on a by-value struct field: x.f.M()
			if sel, ok := ast.Unparen(x.Fun).(*ast.SelectorExpr); ok {
				if s := info.Selections[sel]; s != nil && s.Kind() == types.MethodVal {
					if m, ok := s.Obj().(*types.Func); ok {
						if sig, ok := m.Type().(*types.Signature); ok && sig.Recv() != nil {
							if _, ptrRecv := types.Unalias(sig.Recv().Type()).(*types.Pointer); ptrRecv {
								if fsel, ok := ast.Unparen(sel.X).(*ast.SelectorExpr); ok {
									if tv, ok := info.Types[fsel]; ok {
										if _, isPtr := types.Unalias(tv.Type).Underlying().(*types.Pointer); !isPtr {
											if _, isIface := types.Unalias(tv.Type).Underlying().(*types.Interface); !isIface {
												record(fsel, "method:"+m.Name(), x.Pos(), false)
											}
										}
									}
								}
							}
						}
					}
				}
			}
			for _, a := range x.Args {
				if u, ok := ast.Unparen(a).(*ast.UnaryExpr); ok && u.Op == token.AND {
					record(u.X, "addr", a.Pos(), false)
				}
			}
		}
		return true
	})
	c.cache[key] = out
	return out
}

// structTypeName: the named struct type (module-local) an expression denotes, through one pointer.
func structTypeName(info *types.Info, e ast.Expr) *types.TypeName {
	tv, ok := info.Types[e]
	if !ok {
		return nil
	}
	nn := namedOf(tv.Type)
	if nn == nil || nn.Obj().Pkg() == nil {
		return nil
	}
	if _, ok := nn.Underlying().(*types.Struct); !ok {
		return nil
	}
	return nn.Obj()
}

// isConstructorOf: the function builds a fresh T (contains a composite literal or new(T)).
func (c *Ctx) isConstructorOf(fn *funcInfo, T *types.TypeName) bool {
	found := false
	info := fn.Pkg.Info
	ast.Inspect(fn.Decl.Body, func(n ast.Node) bool {
		if lit, ok := n.(*ast.CompositeLit); ok {
			if tv, ok := info.Types[lit]; ok {
				if nn := namedOf(tv.Type); nn != nil && nn.Obj() == T {
					found = true
				}
			}
		}
		return !found
	})
	return found
}

// resetForms: fields of T unconditionally re-initialised by the statements of
// body executed at top level (plus top-level calls to methods on the same
// receiver object, followed to depth 2).
func (c *Ctx) resetForms(fn *funcInfo, T *types.TypeName, depth int, out map[string]token.Pos) {
	info := fn.Pkg.Info
	isTField := func(e ast.Expr) (string, bool) {
		sel, ok := ast.Unparen(e).(*ast.SelectorExpr)
		if !ok {
			return "", false
		}
		if s := info.Selections[sel]; s == nil || s.Kind() != types.FieldVal {
			return "", false
		}
		if tn := structTypeName(info, sel.X); tn == T {
			return sel.Sel.Name, true
		}
		return "", false
	}
	mentions := func(e ast.Expr, field string) bool {
		hit := false
		ast.Inspect(e, func(n ast.Node) bool {
			if se, ok := n.(ast.Expr); ok {
				if f, ok := isTField(se); ok && f == field {
					hit = true
				}
			}
			return !hit
		})
		return hit
	}
	var stmtResets func(s ast.Stmt) map[string]token.Pos
	blockResets := func(list []ast.Stmt) map[string]token.Pos {
		m := map[string]token.Pos{}
		for _, s := range list {
			for k, v := range stmtResets(s) {
				if _, ok := m[k]; !ok {
					m[k] = v
				}
			}
		}
		return m
	}
	stmtResets = func(s ast.Stmt) map[string]token.Pos {
		m := map[string]token.Pos{}
		switch x := s.(type) {
		case *ast.AssignStmt:
			if x.Tok != token.ASSIGN {
				return m
			}
			for i, l := range x.Lhs {
				f, ok := isTField(l)
				if !ok {
					// x.f.g = v : reset of sub-field g of the by-value struct field f
					if sel, ok2 := ast.Unparen(l).(*ast.SelectorExpr); ok2 {
						if pf, ok3 := isTField(sel.X); ok3 {
							if s := info.Selections[sel]; s != nil && s.Kind() == types.FieldVal {
								var r ast.Expr
								if len(x.Rhs) == len(x.Lhs) {
									r = x.Rhs[i]
								}
								plain := r == nil
								if r != nil {
									ru := ast.Unparen(r)
									if sl, ok := ru.(*ast.SliceExpr); ok && types.ExprString(ast.Unparen(sl.X)) == types.ExprString(ast.Unparen(l)) {
										plain = true
									} else if !containsExpr(r, l) {
										plain = true
									}
								}
								if plain {
									m[pf+"."+sel.Sel.Name] = l.Pos()
								}
							}
						}
					}
					continue
				}
				var r ast.Expr
				if len(x.Rhs) == len(x.Lhs) {
					r = x.Rhs[i]
				}
				if r == nil {
					m[f] = l.Pos()
					continue
				}
				ru := ast.Unparen(r)
				// x.f = x.f[:0]
				if sl, ok := ru.(*ast.SliceExpr); ok {
					if g, ok := isTField(sl.X); ok && g == f {
						m[f] = l.Pos()
						continue
					}
				}
				if _, ok := ru.(*ast.CompositeLit); ok {
					m[f] = l.Pos()
					continue
				}
				if !mentions(r, f) {
					m[f] = l.Pos()
				}
			}
		case *ast.ExprStmt:
			call, ok := ast.Unparen(x.X).(*ast.CallExpr)
			if !ok {
				return m
			}
			if id, ok := ast.Unparen(call.Fun).(*ast.Ident); ok {
				if b, ok := info.Uses[id].(*types.Builtin); ok && b.Name() == "clear" && len(call.Args) == 1 {
					if f, ok := isTField(call.Args[0]); ok {
						m[f] = call.Pos()
					}
				}
			}
			if sel, ok := ast.Unparen(call.Fun).(*ast.SelectorExpr); ok {
				if s := info.Selections[sel]; s != nil && s.Kind() == types.MethodVal {
					// x.f.Reset() / x.f.reset()
					if f, ok := isTField(sel.X); ok && (sel.Sel.Name == "Reset" || sel.Sel.Name == "reset") {
						m[f] = call.Pos()
					}
					// x.Reset(): follow a method on the same object
					if tn := structTypeName(info, sel.X); tn == T && depth < 2 {
						if callee, ok := s.Obj().(*types.Func); ok {
							if fi := c.funcByObj(callee); fi != nil {
								sub := map[string]token.Pos{}
								c.resetForms(fi, T, depth+1, sub)
								for k, v := range sub {
									m[k] = v
								}
							}
						}
					}
				}
			}
		case *ast.RangeStmt:
			// for k := range x.f { delete(x.f, k) }
			if f, ok := isTField(x.X); ok && len(x.Body.List) == 1 {
				if es, ok := x.Body.List[0].(*ast.ExprStmt); ok {
					if call, ok := es.X.(*ast.CallExpr); ok {
						if id, ok := ast.Unparen(call.Fun).(*ast.Ident); ok {
							if b, ok := info.Uses[id].(*types.Builtin); ok && b.Name() == "delete" && len(call.Args) == 2 {
								if g, ok := isTField(call.Args[0]); ok && g == f {
									m[f] = x.Pos()
								}
							}
						}
					}
				}
			}
		case *ast.IfStmt:
			// both branches reset the field
			if x.Else != nil {
				a := blockResets(x.Body.List)
				var b map[string]token.Pos
				switch e := x.Else.(type) {
				case *ast.BlockStmt:
					b = blockResets(e.List)
				case *ast.IfStmt:
					b = stmtResets(e)
				}
				for k, v := range a {
					if _, ok := b[k]; ok {
						m[k] = v
					}
				}
			}
		case *ast.BlockStmt:
			return blockResets(x.List)
		}
		return m
	}
	for k, v := range blockResets(fn.Decl.Body.List) {
		if _, ok := out[k]; !ok {
			out[k] = v
		}
	}
}

func containsExpr(hay ast.Expr, needle ast.Expr) bool {
	want := types.ExprString(ast.Unparen(needle))
	hit := false
	ast.Inspect(hay, func(n ast.Node) bool {
		if e, ok := n.(ast.Expr); ok && types.ExprString(ast.Unparen(e)) == want {
			hit = true
		}
		return !hit
	})
	return hit
}

type resetScope struct {
	Name      string
	TypePkg   string // package (relative) of T
	TypeName  string
	Entry     string   // scope entry E ("pkg.Type.Method")
	Entries   []string // several sibling entries of one scope (each must reset what it may write)
	OnlyKeyedBy string // if set: only fields whose type mentions this ir type (function-local identity, e.g. ExpressionHandle) are obligated
	ResetFunc string   // where the prologue is looked up (default: Entry)
	Outer     []string // for nested scopes: the driver entries; fields also written outside E are not obligated
	Exception map[string]string
}

func (c *Ctx) runResetScope(r *Report, rule string, sc resetScope) {
	p := c.ByPath[modPath+"/"+sc.TypePkg]
	if p == nil {
		r.undecided(rule, sc.Name, "", "package "+sc.TypePkg+" not loaded")
		return
	}
	tn, _ := p.Types.Scope().Lookup(sc.TypeName).(*types.TypeName)
	if tn == nil {
		r.undecided(rule, sc.Name, "", "type "+sc.TypeName+" not found")
		return
	}
	st, ok := tn.Type().Underlying().(*types.Struct)
	if !ok {
		r.undecided(rule, sc.Name, "", sc.TypeName+" is not a struct")
		return
	}
	entryIDs := append([]string{}, sc.Entries...)
	if sc.Entry != "" {
		entryIDs = append(entryIDs, sc.Entry)
	}
	var entries []*types.Func
	for _, id := range entryIDs {
		e := c.lookupFunc(id)
		if e == nil || c.funcByObj(e) == nil {
			r.undecided(rule, sc.Name, "", "scope entry "+id+" not found")
			return
		}
		entries = append(entries, e)
	}
	// writes outside the scope (nested scopes only): reachability from the
	// drivers with every scope entry cut out
	outside := map[string]bool{}
	if len(sc.Outer) > 0 {
		g := c.graph()
		seen := map[*types.Func]bool{}
		for _, e := range entries {
			seen[e] = true
		}
		var stack []*types.Func
		for _, o := range sc.Outer {
			f := c.lookupFunc(o)
			if f == nil {
				r.undecided(rule, sc.Name, "", "outer entry "+o+" not found")
				return
			}
			if !seen[f] {
				seen[f] = true
				stack = append(stack, f)
			}
		}
		for len(stack) > 0 {
			f := stack[len(stack)-1]
			stack = stack[:len(stack)-1]
			for _, t := range g.out[f] {
				if !seen[t] {
					seen[t] = true
					stack = append(stack, t)
				}
			}
		}
		for _, e := range entries {
			delete(seen, e)
		}
		for _, fn := range c.allFuncs() {
			if fn.Obj == nil || !seen[fn.Obj] || c.isConstructorOf(fn, tn) {
				continue
			}
			for _, w := range c.fieldWritesOf(fn) {
				if w.Key.T == tn {
					outside[w.Key.F] = true
				}
			}
		}
	}
	var names []string
	for i := 0; i < st.NumFields(); i++ {
		names = append(names, st.Field(i).Name())
	}
	sort.Strings(names)
	nMut := 0
	for ei, entry := range entries {
		efi := c.funcByObj(entry)
		inScope := c.reach(entry)
		mut := map[string]fieldWrite{}
		for _, fn := range c.allFuncs() {
			if fn.Obj == nil || !inScope[fn.Obj] || c.isConstructorOf(fn, tn) {
				continue
			}
			for _, w := range c.fieldWritesOf(fn) {
				if w.Key.T == tn {
					if _, ok := mut[w.Key.F]; !ok {
						mut[w.Key.F] = w
					}
				}
			}
		}
		rst := map[string]token.Pos{}
		rfi := efi
		if sc.ResetFunc != "" {
			rf := c.lookupFunc(sc.ResetFunc)
			if rf == nil || c.funcByObj(rf) == nil {
				r.undecided(rule, sc.Name, "", "reset function "+sc.ResetFunc+" not found")
				return
			}
			rfi = c.funcByObj(rf)
		}
		c.resetForms(rfi, tn, 0, rst)
		scopeName := sc.Name
		if len(entries) > 1 {
			scopeName = sc.Name + "@" + efi.Name
		}
		_ = ei
		for _, f := range names {
			construct := scopeName + ":" + sc.TypeName + "." + f
			w, isMut := mut[f]
			if !isMut {
				r.triv(rule, construct, "", "never written inside the scope (configuration)")
				continue
			}
			if outside[f] {
				r.triv(rule, construct, c.pos(w.Pos), "also written outside the scope entries: state of the enclosing scope")
				continue
			}
			if sc.OnlyKeyedBy != "" && !typeMentions(fieldType(st, f), sc.OnlyKeyedBy, map[types.Type]bool{}) {
				r.triv(rule, construct, c.pos(w.Pos), "field type does not mention "+sc.OnlyKeyedBy+": not function-scoped identity (module-level accumulator or bracket state; not judged)")
				continue
			}
			nMut++
			if pos, ok := rst[f]; ok {
				r.ok(rule, construct, c.pos(pos), "")
				continue
			}
			// by-value struct field reset sub-field by sub-field
			if sub := c.nestedReset(tn, st, f, rst, inScope); sub != nil {
				for _, g := range sub {
					cst := construct + "." + g.name
					switch {
					case g.reset:
						r.ok(rule, cst, c.pos(g.pos), "")
					case sc.Exception[f+"."+g.name] != "":
						r.exc(rule, cst, c.pos(g.pos), sc.Exception[f+"."+g.name])
					default:
						r.viol(rule, cst, c.pos(g.pos), "sub-field "+sc.TypeName+"."+f+"."+g.name+" is written during "+efi.id()+" but the prologue resets only other sub-fields of "+f)
					}
				}
				continue
			}
			if c.saveRestored(tn, f, inScope) {
				r.ok(rule, construct, c.pos(w.Pos), "every writer brackets the field: saved before, restored after (save/restore discipline)")
				continue
			}
			if reason, ok := sc.Exception[f]; ok {
				r.exc(rule, construct, c.pos(w.Pos), reason)
				continue
			}
			r.viol(rule, construct, c.pos(w.Pos), "field "+sc.TypeName+"."+f+" is written during "+efi.id()+" ("+w.Form+") but is not re-initialised in its prologue: state leaks into the next invocation")
		}
	}
	r.inst("reset."+sc.Name, nMut)
}

type subReset struct {
	name  string
	reset bool
	pos   token.Pos
}

// nestedReset: field f of T is a module-local struct stored by value and the
// prologue contains "x.f.g = ..." forms; returns the verdict per mutated sub-field.
func (c *Ctx) nestedReset(T *types.TypeName, st *types.Struct, f string, rst map[string]token.Pos, inScope map[*types.Func]bool) []subReset {
	has := false
	for k := range rst {
		if len(k) > len(f) && k[:len(f)+1] == f+"." {
			has = true
		}
	}
	if !has {
		return nil
	}
	var ft types.Type
	for i := 0; i < st.NumFields(); i++ {
		if st.Field(i).Name() == f {
			ft = st.Field(i).Type()
		}
	}
	nn, _ := types.Unalias(ft).(*types.Named)
	if nn == nil {
		return nil
	}
	sst, ok := nn.Underlying().(*types.Struct)
	if !ok {
		return nil
	}
	mut := map[string]token.Pos{}
	for _, fn := range c.allFuncs() {
		if fn.Obj == nil || !inScope[fn.Obj] || c.isConstructorOf(fn, nn.Obj()) {
			continue
		}
		for _, w := range c.fieldWritesOf(fn) {
			if w.Key.T == nn.Obj() {
				if _, ok := mut[w.Key.F]; !ok {
					mut[w.Key.F] = w.Pos
				}
			}
		}
	}
	var out []subReset
	for i := 0; i < sst.NumFields(); i++ {
		g := sst.Field(i).Name()
		if pos, ok := rst[f+"."+g]; ok {
			out = append(out, subReset{g, true, pos})
		} else if pos, ok := mut[g]; ok {
			out = append(out, subReset{g, false, pos})
		}
	}
	return out
}

// saveRestored: every in-scope function that writes T.f also saves it first
// (v := x.f) and restores it (x.f = v, possibly in a deferred closure).
func (c *Ctx) saveRestored(T *types.TypeName, f string, inScope map[*types.Func]bool) bool {
	n := 0
	for _, fn := range c.allFuncs() {
		if fn.Obj == nil || !inScope[fn.Obj] || c.isConstructorOf(fn, T) {
			continue
		}
		writes := false
		for _, w := range c.fieldWritesOf(fn) {
			if w.Key.T == T && w.Key.F == f {
				writes = true
			}
		}
		if !writes {
			continue
		}
		n++
		info := fn.Pkg.Info
		saved := map[types.Object]bool{}
		restored := false
		isField := func(e ast.Expr) bool {
			sel, ok := ast.Unparen(e).(*ast.SelectorExpr)
			if !ok || sel.Sel.Name != f {
				return false
			}
			return structTypeName(info, sel.X) == T
		}
		ast.Inspect(fn.Decl.Body, func(m ast.Node) bool {
			as, ok := m.(*ast.AssignStmt)
			if !ok || len(as.Lhs) != len(as.Rhs) {
				return true
			}
			for i := range as.Lhs {
				if id, ok := as.Lhs[i].(*ast.Ident); ok && isField(as.Rhs[i]) {
					if obj := info.Defs[id]; obj != nil {
						saved[obj] = true
					} else if obj := info.Uses[id]; obj != nil {
						saved[obj] = true
					}
				}
				if id, ok := ast.Unparen(as.Rhs[i]).(*ast.Ident); ok && isField(as.Lhs[i]) {
					if saved[info.Uses[id]] {
						restored = true
					}
				}
			}
			return true
		})
		if !restored {
			return false
		}
	}
	return n > 0
}

func fieldType(st *types.Struct, name string) types.Type {
	for i := 0; i < st.NumFields(); i++ {
		if st.Field(i).Name() == name {
			return st.Field(i).Type()
		}
	}
	return nil
}

// typeMentions: the type's structure (map keys/values, elements, struct fields) mentions ir.<name>.
func typeMentions(t types.Type, name string, seen map[types.Type]bool) bool {
	if t == nil || seen[t] {
		return false
	}
	seen[t] = true
	t = types.Unalias(t)
	switch x := t.(type) {
	case *types.Named:
		if isNamed(x, "ir", name) {
			return true
		}
		if x.Obj().Pkg() == nil || !strings.HasPrefix(x.Obj().Pkg().Path(), modPath) {
			return false
		}
		return typeMentions(x.Underlying(), name, seen)
	case *types.Pointer:
		return typeMentions(x.Elem(), name, seen)
	case *types.Slice:
		return typeMentions(x.Elem(), name, seen)
	case *types.Array:
		return typeMentions(x.Elem(), name, seen)
	case *types.Map:
		return typeMentions(x.Key(), name, seen) || typeMentions(x.Elem(), name, seen)
	case *types.Struct:
		for i := 0; i < x.NumFields(); i++ {
			if typeMentions(x.Field(i).Type(), name, seen) {
				return true
			}
		}
	}
	return false
}
