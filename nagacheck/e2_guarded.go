package main

// E2 guarded-constant tables: operator -> opcode selection.
//
// Inside a function that dispatches on all binary (unary) operators, every use
// of an OpCode constant sits under *guard facts* that can be read off the
// syntax: the case labels of the enclosing operator switch and the chain of
// enclosing if / else conditions that compare a value of type ir.ScalarKind
// with a constant (==, !=, ||, &&, switch over the kind). The relation
//     (operator, possible scalar kinds) -> opcode
// extracted this way is compared with the WGSL -> SPIR-V reference relation:
// an opcode used under a combination for which the reference does not allow it
// is *forbidden*; a feasible combination for which no allowed opcode is
// reachable is *missing*.

import (
	"fmt"
	"go/ast"
	"go/token"
	"go/types"
	"sort"
	"strings"
)

var scalarKinds = []string{"ScalarSint", "ScalarUint", "ScalarFloat", "ScalarBool"}

type kindSet map[string]bool

func allKinds() kindSet {
	k := kindSet{}
	for _, s := range scalarKinds {
		k[s] = true
	}
	return k
}

func (k kindSet) String() string {
	var out []string
	for s := range k {
		out = append(out, strings.TrimPrefix(s, "Scalar"))
	}
	sort.Strings(out)
	return strings.Join(out, "|")
}

// kindFacts: the set of kinds for which cond is definitely true (pos) — nil if
// cond says nothing about a ScalarKind.
func kindFacts(info *types.Info, cond ast.Expr) (pos kindSet, exact bool) {
	c := ast.Unparen(cond)
	be, ok := c.(*ast.BinaryExpr)
	if !ok {
		return nil, false
	}
	isKindExpr := func(e ast.Expr) bool {
		tv, ok := info.Types[e]
		return ok && isNamed(types.Unalias(tv.Type), "ir", "ScalarKind")
	}
	switch be.Op {
	case token.EQL, token.NEQ:
		var name string
		if isKindExpr(be.X) {
			name = irConstName(info, be.Y)
		} else if isKindExpr(be.Y) {
			name = irConstName(info, be.X)
		}
		if name == "" || !strings.HasPrefix(name, "Scalar") {
			return nil, false
		}
		if be.Op == token.EQL {
			return kindSet{name: true}, true
		}
		s := allKinds()
		delete(s, name)
		// abstract kinds do not reach the backends
		return s, true
	case token.LOR:
		a, ea := kindFacts(info, be.X)
		b, eb := kindFacts(info, be.Y)
		if a == nil || b == nil {
			return nil, false
		}
		u := kindSet{}
		for k := range a {
			u[k] = true
		}
		for k := range b {
			u[k] = true
		}
		return u, ea && eb
	case token.LAND:
		a, _ := kindFacts(info, be.X)
		b, _ := kindFacts(info, be.Y)
		switch {
		case a != nil && b != nil:
			u := kindSet{}
			for k := range a {
				if b[k] {
					u[k] = true
				}
			}
			return u, false // the conjunction may be narrower than the kinds alone
		case a != nil:
			return a, false
		case b != nil:
			return b, false
		}
	}
	return nil, false
}

type opcodeUse struct {
	Ops    []string // operator constants of the enclosing case clause
	Kinds  kindSet
	Opcode string
	Pos    token.Pos
}

// opcodeUses extracts the guarded uses of constants of constType inside the
// case clauses of switches over ir.<enumType> in fn.
// constType "prefix:<P>" selects the package-level constants whose name starts with P instead.
func (c *Ctx) opcodeUses(fn *funcInfo, enumType, constType string) []opcodeUse {
	prefix := ""
	if strings.HasPrefix(constType, "prefix:") {
		prefix = strings.TrimPrefix(constType, "prefix:")
	}
	info := fn.Pkg.Info
	var out []opcodeUse
	var visit func(n ast.Node, ops []string, kinds kindSet)
	visit = func(n ast.Node, ops []string, kinds kindSet) {
		if n == nil {
			return
		}
		switch x := n.(type) {
		case *ast.FuncLit:
			return
		case *ast.SwitchStmt:
			if x.Tag != nil {
				if tv, ok := info.Types[x.Tag]; ok {
					if isNamed(types.Unalias(tv.Type), "ir", enumType) {
						for _, cl := range x.Body.List {
							cc := cl.(*ast.CaseClause)
							var labels []string
							for _, e := range cc.List {
								if nm := irConstName(info, e); nm != "" {
									labels = append(labels, nm)
								}
							}
							if cc.List == nil {
								labels = []string{"<default>"}
							}
							for _, st := range cc.Body {
								visit(st, labels, kinds)
							}
						}
						return
					}
					if isNamed(types.Unalias(tv.Type), "ir", "ScalarKind") {
						seen := kindSet{}
						for _, cl := range x.Body.List {
							cc := cl.(*ast.CaseClause)
							ks := kindSet{}
							for _, e := range cc.List {
								if nm := irConstName(info, e); nm != "" && kinds[nm] {
									ks[nm] = true
									seen[nm] = true
								}
							}
							if cc.List == nil {
								for k := range kinds {
									if !seen[k] {
										ks[k] = true
									}
								}
							}
							for _, st := range cc.Body {
								visit(st, ops, ks)
							}
						}
						return
					}
				}
			}
		case *ast.IfStmt:
			if x.Init != nil {
				visit(x.Init, ops, kinds)
			}
			pos, exact := kindFacts(info, x.Cond)
			thenK, elseK := kinds, kinds
			if pos != nil {
				thenK = kindSet{}
				for k := range kinds {
					if pos[k] {
						thenK[k] = true
					}
				}
				if exact {
					elseK = kindSet{}
					for k := range kinds {
						if !pos[k] {
							elseK[k] = true
						}
					}
				}
			}
			visit(x.Cond, ops, kinds)
			visit(x.Body, ops, thenK)
			if x.Else != nil {
				visit(x.Else, ops, elseK)
			}
			return
		case *ast.Ident:
			if k, ok := info.Uses[x].(*types.Const); ok && len(ops) > 0 {
				match := false
				if prefix != "" {
					match = strings.HasPrefix(k.Name(), prefix) && k.Pkg() == fn.Obj.Pkg() && k.Parent() == k.Pkg().Scope()
				} else if nt, ok := k.Type().(*types.Named); ok && nt.Obj().Name() == constType && nt.Obj().Pkg() == fn.Obj.Pkg() {
					match = true
				}
				if match {
					ks := kindSet{}
					for kk := range kinds {
						ks[kk] = true
					}
					out = append(out, opcodeUse{Ops: ops, Kinds: ks, Opcode: k.Name(), Pos: x.Pos()})
				}
			}
		}
		children(n, func(m ast.Node) { visit(m, ops, kinds) })
	}
	visit(fn.Decl.Body, nil, allKinds())
	return out
}

type opRef map[string]map[string][]string // operator -> kind -> allowed opcodes

func runGuardedTable(c *Ctx, r *Report, rule, pkgRel, enumType, constType string, ref opRef, exceptions map[string]string) {
	runGuardedTableFrac(c, r, rule, pkgRel, enumType, constType, ref, exceptions, 1.0)
}

func runGuardedTableFrac(c *Ctx, r *Report, rule, pkgRel, enumType, constType string, ref opRef, exceptions map[string]string, minFrac float64) {
	n := 0
	reach := map[string]map[string]bool{} // op|kind -> has an allowed opcode
	nDisp := 0
	for _, d := range c.dispatchSwitches() {
		if d.Func.Pkg.Rel != pkgRel || d.TagType != enumType || float64(len(d.Covered)) < minFrac*float64(len(d.Universe)) {
			continue
		}
		nDisp++
		fn := d.Func
		ord := map[string]int{}
		for _, u := range c.opcodeUses(fn, enumType, constType) {
			for _, op := range u.Ops {
				allowedByKind, known := ref[op]
				if !known {
					continue
				}
				n++
				key := fn.id() + ":" + op + "->" + u.Opcode
				ord[key]++
				construct := key
				if ord[key] > 1 {
					construct += "#" + itoa(ord[key])
				}
				var bad, good []string
				for _, k := range scalarKinds {
					if !u.Kinds[k] {
						continue
					}
					allowed, feasible := allowedByKind[k]
					if !feasible {
						continue
					}
					ok := false
					for _, a := range allowed {
						if a == u.Opcode {
							ok = true
						}
					}
					if ok {
						good = append(good, k)
						if reach[op] == nil {
							reach[op] = map[string]bool{}
						}
						reach[op][k] = true
					} else {
						bad = append(bad, strings.TrimPrefix(k, "Scalar")+" (reference: "+strings.Join(allowed, "/")+")")
					}
				}
				switch {
				case len(bad) == 0:
					r.ok(rule, construct, c.pos(u.Pos), fmt.Sprintf("used under kinds %s", u.Kinds))
				case exceptions[construct] != "":
					r.exc(rule, construct, c.pos(u.Pos), exceptions[construct])
				default:
					r.viol(rule, construct, c.pos(u.Pos), fmt.Sprintf("%s selects %s for %s when the operand kind may be %s", fn.id(), u.Opcode, strings.TrimPrefix(op, "Binary"), strings.Join(bad, ", ")))
				}
			}
		}
	}
	if nDisp > 0 {
		var ops []string
		for op := range ref {
			ops = append(ops, op)
		}
		sort.Strings(ops)
		for _, op := range ops {
			for _, k := range scalarKinds {
				allowed, feasible := ref[op][k]
				if !feasible || len(allowed) == 0 {
					continue
				}
				construct := pkgRel + ":" + op + "/" + strings.TrimPrefix(k, "Scalar")
				if reach[op][k] {
					r.ok(rule+".complete", construct, "", "")
				} else if exceptions[construct] != "" {
					r.exc(rule+".complete", construct, "", exceptions[construct])
				} else {
					r.viol(rule+".complete", construct, "", fmt.Sprintf("no use of %s is reachable for %s on %s operands in the %s operator dispatcher", strings.Join(allowed, "/"), strings.TrimPrefix(op, "Binary"), strings.TrimPrefix(k, "Scalar"), pkgRel))
				}
			}
		}
	}
	r.inst("guarded."+enumType+".sites", n)
	r.inst("guarded."+enumType+".dispatchers", nDisp)
}

var spirvBinaryRef = opRef{
	"BinaryAdd":          {"ScalarFloat": {"OpFAdd"}, "ScalarSint": {"OpIAdd"}, "ScalarUint": {"OpIAdd"}},
	"BinarySubtract":     {"ScalarFloat": {"OpFSub"}, "ScalarSint": {"OpISub"}, "ScalarUint": {"OpISub"}},
	"BinaryMultiply":     {"ScalarFloat": {"OpFMul", "OpMatrixTimesVector", "OpVectorTimesMatrix", "OpMatrixTimesMatrix", "OpMatrixTimesScalar", "OpVectorTimesScalar"}, "ScalarSint": {"OpIMul"}, "ScalarUint": {"OpIMul"}},
	"BinaryDivide":       {"ScalarFloat": {"OpFDiv"}, "ScalarSint": {"OpSDiv"}, "ScalarUint": {"OpUDiv"}},
	"BinaryModulo":       {"ScalarFloat": {"OpFRem"}, "ScalarSint": {"OpSRem"}, "ScalarUint": {"OpUMod"}},
	"BinaryEqual":        {"ScalarFloat": {"OpFOrdEqual"}, "ScalarSint": {"OpIEqual"}, "ScalarUint": {"OpIEqual"}, "ScalarBool": {"OpLogicalEqual"}},
	"BinaryNotEqual":     {"ScalarFloat": {"OpFOrdNotEqual", "OpFUnordNotEqual"}, "ScalarSint": {"OpINotEqual"}, "ScalarUint": {"OpINotEqual"}, "ScalarBool": {"OpLogicalNotEqual"}},
	"BinaryLess":         {"ScalarFloat": {"OpFOrdLessThan"}, "ScalarSint": {"OpSLessThan"}, "ScalarUint": {"OpULessThan"}},
	"BinaryLessEqual":    {"ScalarFloat": {"OpFOrdLessThanEqual"}, "ScalarSint": {"OpSLessThanEqual"}, "ScalarUint": {"OpULessThanEqual"}},
	"BinaryGreater":      {"ScalarFloat": {"OpFOrdGreaterThan"}, "ScalarSint": {"OpSGreaterThan"}, "ScalarUint": {"OpUGreaterThan"}},
	"BinaryGreaterEqual": {"ScalarFloat": {"OpFOrdGreaterThanEqual"}, "ScalarSint": {"OpSGreaterThanEqual"}, "ScalarUint": {"OpUGreaterThanEqual"}},
	"BinaryAnd":          {"ScalarSint": {"OpBitwiseAnd"}, "ScalarUint": {"OpBitwiseAnd"}, "ScalarBool": {"OpLogicalAnd"}},
	"BinaryExclusiveOr":  {"ScalarSint": {"OpBitwiseXor"}, "ScalarUint": {"OpBitwiseXor"}},
	"BinaryInclusiveOr":  {"ScalarSint": {"OpBitwiseOr"}, "ScalarUint": {"OpBitwiseOr"}, "ScalarBool": {"OpLogicalOr"}},
	"BinaryLogicalAnd":   {"ScalarBool": {"OpLogicalAnd"}},
	"BinaryLogicalOr":    {"ScalarBool": {"OpLogicalOr"}},
	"BinaryShiftLeft":    {"ScalarSint": {"OpShiftLeftLogical"}, "ScalarUint": {"OpShiftLeftLogical"}},
	"BinaryShiftRight":   {"ScalarSint": {"OpShiftRightArithmetic"}, "ScalarUint": {"OpShiftRightLogical"}},
}

var spirvUnaryRef = opRef{
	"UnaryNegate":     {"ScalarFloat": {"OpFNegate"}, "ScalarSint": {"OpSNegate"}},
	"UnaryLogicalNot": {"ScalarBool": {"OpLogicalNot"}},
	"UnaryBitwiseNot": {"ScalarSint": {"OpNot"}, "ScalarUint": {"OpNot"}},
}

func init() {
	dumpers["guarded"] = func(c *Ctx, parts []string) {
		r := newReport("dump")
		runGuardedTable(c, r, "opsel.spirv", "spirv/internal/codegen", "BinaryOperator", "OpCode", spirvBinaryRef, nil)
		runGuardedTable(c, r, "opsel.spirv", "spirv/internal/codegen", "UnaryOperator", "OpCode", spirvUnaryRef, nil)
		for _, o := range r.Obs {
			fmt.Println(o.Verdict, o.Rule, o.Construct, o.Pos, o.Msg)
		}
		fmt.Println(r.Instances)
	}
}

// ---- math builtins -> GLSL.std.450 extended instructions (SPIR-V backend) ----
//
// Written from the WGSL builtin definitions and the GLSL.std.450 specification:
// the instruction listed is the one whose specified result equals the WGSL
// builtin's for operands of that scalar kind. An empty list means no extended
// instruction computes it (abs on u32 is the identity).

func sameAll(names ...string) map[string][]string {
	return map[string][]string{"ScalarFloat": names, "ScalarSint": names, "ScalarUint": names}
}
func floatOnly(names ...string) map[string][]string {
	return map[string][]string{"ScalarFloat": names}
}

var spirvMathRef = opRef{
	"MathAbs":     {"ScalarFloat": {"GLSLstd450FAbs"}, "ScalarSint": {"GLSLstd450SAbs"}, "ScalarUint": {}},
	"MathMin":     {"ScalarFloat": {"GLSLstd450FMin"}, "ScalarSint": {"GLSLstd450SMin"}, "ScalarUint": {"GLSLstd450UMin"}},
	"MathMax":     {"ScalarFloat": {"GLSLstd450FMax"}, "ScalarSint": {"GLSLstd450SMax"}, "ScalarUint": {"GLSLstd450UMax"}},
	"MathClamp":   {"ScalarFloat": {"GLSLstd450FClamp"}, "ScalarSint": {"GLSLstd450SClamp"}, "ScalarUint": {"GLSLstd450UClamp"}},
	"MathSign":    {"ScalarFloat": {"GLSLstd450FSign"}, "ScalarSint": {"GLSLstd450SSign"}},
	"MathSaturate": floatOnly("GLSLstd450FClamp"),
	"MathCos":      floatOnly("GLSLstd450Cos"), "MathCosh": floatOnly("GLSLstd450Cosh"), "MathSin": floatOnly("GLSLstd450Sin"),
	"MathSinh": floatOnly("GLSLstd450Sinh"), "MathTan": floatOnly("GLSLstd450Tan"), "MathTanh": floatOnly("GLSLstd450Tanh"),
	"MathAcos": floatOnly("GLSLstd450Acos"), "MathAsin": floatOnly("GLSLstd450Asin"), "MathAtan": floatOnly("GLSLstd450Atan"),
	"MathAtan2": floatOnly("GLSLstd450Atan2"), "MathAsinh": floatOnly("GLSLstd450Asinh"), "MathAcosh": floatOnly("GLSLstd450Acosh"),
	"MathAtanh": floatOnly("GLSLstd450Atanh"), "MathRadians": floatOnly("GLSLstd450Radians"), "MathDegrees": floatOnly("GLSLstd450Degrees"),
	"MathCeil": floatOnly("GLSLstd450Ceil"), "MathFloor": floatOnly("GLSLstd450Floor"),
	"MathRound": floatOnly("GLSLstd450RoundEven"), // Round leaves ties to the implementation
	"MathFract": floatOnly("GLSLstd450Fract"), "MathTrunc": floatOnly("GLSLstd450Trunc"),
	"MathModf": floatOnly("GLSLstd450ModfStruct"), "MathFrexp": floatOnly("GLSLstd450FrexpStruct"), "MathLdexp": floatOnly("GLSLstd450Ldexp"),
	"MathExp": floatOnly("GLSLstd450Exp"), "MathExp2": floatOnly("GLSLstd450Exp2"), "MathLog": floatOnly("GLSLstd450Log"),
	"MathLog2": floatOnly("GLSLstd450Log2"), "MathPow": floatOnly("GLSLstd450Pow"),
	"MathCross": floatOnly("GLSLstd450Cross"), "MathDistance": floatOnly("GLSLstd450Distance"), "MathLength": floatOnly("GLSLstd450Length"),
	"MathNormalize": floatOnly("GLSLstd450Normalize"), "MathFaceForward": floatOnly("GLSLstd450FaceForward"),
	"MathReflect": floatOnly("GLSLstd450Reflect"), "MathRefract": floatOnly("GLSLstd450Refract"),
	"MathFma": floatOnly("GLSLstd450Fma"), "MathMix": floatOnly("GLSLstd450FMix"), "MathStep": floatOnly("GLSLstd450Step"),
	"MathSmoothStep": floatOnly("GLSLstd450SmoothStep"), "MathSqrt": floatOnly("GLSLstd450Sqrt"),
	"MathInverseSqrt": floatOnly("GLSLstd450InverseSqrt"), "MathInverse": floatOnly("GLSLstd450MatrixInverse"),
	"MathDeterminant": floatOnly("GLSLstd450Determinant"),
	"MathCountTrailingZeros": {"ScalarSint": {"GLSLstd450FindILsb", "GLSLstd450UMin"}, "ScalarUint": {"GLSLstd450FindILsb", "GLSLstd450UMin"}},
	"MathCountLeadingZeros":  {"ScalarSint": {"GLSLstd450FindUMsb"}, "ScalarUint": {"GLSLstd450FindUMsb"}},
	"MathFirstTrailingBit":   {"ScalarSint": {"GLSLstd450FindILsb"}, "ScalarUint": {"GLSLstd450FindILsb"}},
	"MathFirstLeadingBit":    {"ScalarSint": {"GLSLstd450FindSMsb"}, "ScalarUint": {"GLSLstd450FindUMsb"}},
	"MathPack4x8snorm": floatOnly("GLSLstd450PackSnorm4x8"), "MathPack4x8unorm": floatOnly("GLSLstd450PackUnorm4x8"),
	"MathPack2x16snorm": floatOnly("GLSLstd450PackSnorm2x16"), "MathPack2x16unorm": floatOnly("GLSLstd450PackUnorm2x16"),
	"MathPack2x16float": floatOnly("GLSLstd450PackHalf2x16"),
	"MathUnpack4x8snorm": {"ScalarUint": {"GLSLstd450UnpackSnorm4x8"}}, "MathUnpack4x8unorm": {"ScalarUint": {"GLSLstd450UnpackUnorm4x8"}},
	"MathUnpack2x16snorm": {"ScalarUint": {"GLSLstd450UnpackSnorm2x16"}}, "MathUnpack2x16unorm": {"ScalarUint": {"GLSLstd450UnpackUnorm2x16"}},
	"MathUnpack2x16float": {"ScalarUint": {"GLSLstd450UnpackHalf2x16"}},
}

func init() {
	dumpers["guardedmath"] = func(c *Ctx, parts []string) {
		r := newReport("dump")
		runGuardedTableFrac(c, r, "mathsel.spirv", "spirv/internal/codegen", "MathFunction", "prefix:GLSLstd450", spirvMathRef, nil, 0.7)
		for _, o := range r.Obs {
			if o.Verdict != OK {
				fmt.Println(o.Verdict, o.Rule, o.Construct, o.Pos, o.Msg)
			}
		}
		fmt.Println(r.Instances)
	}
}
