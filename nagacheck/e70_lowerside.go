package main

import (
	"go/ast"
	"go/token"
	"regexp"
	"strconv"
)

// bounds.lowerside (C15): WGSL texture coordinates, array indices, levels and
// sample numbers may be signed. A function that writes a read-zero guard as
// text and compares such a value with the texture's extent from above
// (`< textureSize(`, `lessThan(`, `< textureQueryLevels(`, `< textureSamples(`)
// must also write the comparison from below (`>= 0`, `greaterThanEqual(`) or
// convert the value to unsigned first (`uvec`, `uint(`): with only the upper
// comparison a negative value passes the guard and reaches texelFetch.
var (
	upperCmp = regexp.MustCompile(`< texture(Size|QueryLevels|Samples)\(|lessThan\(`)
	lowerCmp = regexp.MustCompile(`>= 0|greaterThanEqual\(|uvec[234]?(%d)?\(|uint\(`)
	guardedOp = regexp.MustCompile(`texelFetch\(|imageLoad\(`)
)

func (c *Ctx) runLowerSide(r *Report, rule string, pkg string) {
	n := 0
	for _, fn := range c.allFuncs() {
		if fn.Pkg.Rel != pkg || fn.Obj == nil || fn.Decl.Body == nil {
			continue
		}
		var upper ast.Node
		lower, guarded := false, false
		ast.Inspect(fn.Decl.Body, func(m ast.Node) bool {
			bl, ok := m.(*ast.BasicLit)
			if !ok || bl.Kind != token.STRING {
				return true
			}
			s, err := strconv.Unquote(bl.Value)
			if err != nil {
				return true
			}
			if upperCmp.MatchString(s) && upper == nil {
				upper = bl
			}
			if lowerCmp.MatchString(s) {
				lower = true
			}
			if guardedOp.MatchString(s) {
				guarded = true
			}
			return true
		})
		if upper == nil || !guarded {
			continue
		}
		n++
		cons := fn.id() + ":upper-only"
		if lower {
			r.ok(rule, cons, c.pos(upper.Pos()), "")
		} else {
			r.viol(rule, cons, c.pos(upper.Pos()), fn.id()+" guards an image access by comparing coordinate / level / sample with the extent from above only and never from below nor as unsigned: a negative value passes the guard")
		}
	}
	r.inst(rule, n)
}

func init() {
	dumpers["lowerside"] = func(c *Ctx, parts []string) {
		r := newReport("dump")
		c.runLowerSide(r, "bounds.lowerside", "glsl/internal/codegen")
		for _, o := range r.Obs {
			println(o.Verdict, o.Construct, o.Pos)
		}
	}
}
