package main

// sibling agreement: functions of one package that renumber the same record
// type (they write >= 3 common fields of the given struct types) must write the
// same set of fields; a field one sibling rewrites and the other leaves alone is
// a value that keeps its old numbering on one of the two paths.

import (
	"sort"
	"strings"
)

func (c *Ctx) runSiblingWriters(r *Report, rule, pkgRel string, typeNames []string, minCommon int, exceptions map[string]string) {
	want := map[string]bool{}
	for _, t := range typeNames {
		want[t] = true
	}
	type fw struct {
		fn     *funcInfo
		fields map[string]bool
	}
	var fws []fw
	for _, fn := range c.allFuncs() {
		if fn.Pkg.Rel != pkgRel {
			continue
		}
		fs := map[string]bool{}
		for _, w := range c.fieldWritesOf(fn) {
			if w.Key.T.Pkg() == nil || !strings.HasPrefix(w.Key.T.Pkg().Path(), modPath) {
				continue
			}
			if want[w.Key.T.Name()] && w.Form != "nested" {
				fs[w.Key.T.Name()+"."+w.Key.F] = true
			}
		}
		if len(fs) >= minCommon {
			fws = append(fws, fw{fn, fs})
		}
	}
	n := 0
	for i := 0; i < len(fws); i++ {
		for j := i + 1; j < len(fws); j++ {
			a, b := fws[i], fws[j]
			common := 0
			for f := range a.fields {
				if b.fields[f] {
					common++
				}
			}
			if common < minCommon {
				continue
			}
			n++
			var all []string
			seen := map[string]bool{}
			for f := range a.fields {
				if !seen[f] {
					seen[f] = true
					all = append(all, f)
				}
			}
			for f := range b.fields {
				if !seen[f] {
					seen[f] = true
					all = append(all, f)
				}
			}
			sort.Strings(all)
			for _, f := range all {
				construct := a.fn.id() + "~" + b.fn.id() + ":" + f
				switch {
				case a.fields[f] && b.fields[f]:
					r.ok(rule, construct, c.pos(a.fn.Decl.Pos()), "")
				case exceptions[construct] != "":
					r.exc(rule, construct, c.pos(a.fn.Decl.Pos()), exceptions[construct])
				default:
					has, lacks := a.fn, b.fn
					if b.fields[f] {
						has, lacks = b.fn, a.fn
					}
					r.viol(rule, construct, c.pos(lacks.Decl.Pos()), lacks.id()+" rewrites the same record fields as its sibling "+has.id()+" but never writes "+f+", which the sibling does: that field keeps its old numbering on this path")
				}
			}
		}
	}
	r.inst("siblings."+pkgRel, n)
}

func init() {
	dumpers["siblings"] = func(c *Ctx, parts []string) {
		r := newReport("dump")
		c.runSiblingWriters(r, "siblings.fields", "dxil/internal/emit", []string{"Instruction", "PhiIncoming"}, 3, nil)
		for _, o := range r.Obs {
			println(o.Verdict, o.Construct)
		}
	}
}
