package main

import (
	"go/ast"
	"go/token"
	"go/types"
)

// call.usershadow (C08, C19): in WGSL a module-scope declaration shadows a
// predeclared identifier, so `fn step(...)` or `fn min(...)` are callable. In
// the lowerer's call dispatcher (the function that takes a *parser.CallExpr and
// decides by the callee's name) the lookup of the name in the table of
// program-declared functions (a map field from string to ir.FunctionHandle)
// must therefore come before the first test that recognises the name as a
// built-in (a comparison of the name with a string literal, or a predicate
// call on the name).
func (c *Ctx) runUserShadow(r *Report, rule string, pkg string) {
	n := 0
	for _, fn := range c.allFuncs() {
		if fn.Pkg.Rel != pkg || fn.Obj == nil || fn.Decl.Body == nil {
			continue
		}
		sig := fn.Obj.Type().(*types.Signature)
		hasCall := false
		for i := 0; i < sig.Params().Len(); i++ {
			if p, ok := sig.Params().At(i).Type().(*types.Pointer); ok {
				if nm := namedOf(p.Elem()); nm != nil && nm.Obj().Name() == "CallExpr" && nm.Obj().Pkg() != nil && nm.Obj().Pkg().Name() == "parser" {
					hasCall = true
				}
			}
		}
		if !hasCall {
			continue
		}
		info := fn.Pkg.Info
		// the name variable: name := call.Func.Name
		var nameVar types.Object
		for _, st := range fn.Decl.Body.List {
			as, ok := st.(*ast.AssignStmt)
			if !ok || len(as.Lhs) != 1 || len(as.Rhs) != 1 {
				continue
			}
			if se, ok := ast.Unparen(as.Rhs[0]).(*ast.SelectorExpr); ok && se.Sel.Name == "Name" {
				if id, ok := as.Lhs[0].(*ast.Ident); ok {
					nameVar = info.ObjectOf(id)
					break
				}
			}
		}
		if nameVar == nil {
			continue
		}
		usesName := func(e ast.Node) bool {
			found := false
			ast.Inspect(e, func(k ast.Node) bool {
				if id, ok := k.(*ast.Ident); ok && info.ObjectOf(id) == nameVar {
					found = true
				}
				return true
			})
			return found
		}
		userIdx, builtinIdx := -1, -1
		var builtinPos, userPos token.Pos
		for i, st := range fn.Decl.Body.List {
			// user table lookup: an index expression on a map[string]ir.FunctionHandle field with the name
			isUser := false
			ast.Inspect(st, func(k ast.Node) bool {
				ix, ok := k.(*ast.IndexExpr)
				if !ok {
					return true
				}
				if tv, ok := info.Types[ix.X]; ok {
					if m, ok := tv.Type.Underlying().(*types.Map); ok && irTypeName(m.Elem()) == "FunctionHandle" && usesName(ix.Index) {
						isUser = true
					}
				}
				return true
			})
			if isUser && userIdx < 0 {
				userIdx, userPos = i, st.Pos()
			}
			is, ok := st.(*ast.IfStmt)
			if !ok || isUser {
				continue
			}
			isBuiltin := false
			test := func(e ast.Node) {
				if e == nil {
					return
				}
				ast.Inspect(e, func(k ast.Node) bool {
					switch x := k.(type) {
					case *ast.BinaryExpr:
						if x.Op == token.EQL && usesName(x) {
							for _, s := range []ast.Expr{x.X, x.Y} {
								if bl, ok := ast.Unparen(s).(*ast.BasicLit); ok && bl.Kind == token.STRING {
									isBuiltin = true
								}
							}
						}
					case *ast.CallExpr:
						if calleeOf(info, x) != nil {
							for _, a := range x.Args {
								if id, ok := ast.Unparen(a).(*ast.Ident); ok && info.ObjectOf(id) == nameVar {
									isBuiltin = true
								}
							}
						}
					case *ast.IndexExpr:
						// a table of built-in spellings keyed by the name
						if usesName(x.Index) {
							if tv, ok := info.Types[x.X]; ok {
								if m, ok := tv.Type.Underlying().(*types.Map); ok && irTypeName(m.Elem()) != "FunctionHandle" && irTypeName(m.Elem()) != "TypeHandle" {
									isBuiltin = true
								}
							}
						}
					}
					return true
				})
			}
			test(is.Init)
			test(is.Cond)
			if isBuiltin && builtinIdx < 0 {
				builtinIdx, builtinPos = i, st.Pos()
			}
		}
		if userIdx < 0 || builtinIdx < 0 {
			continue
		}
		n++
		cons := fn.id() + ":userFirst"
		if userIdx < builtinIdx {
			r.ok(rule, cons, c.pos(userPos), "")
		} else {
			r.viol(rule, cons, c.pos(builtinPos), fn.id()+" recognises the callee name as a built-in before it looks the name up among the functions the program declares: a user function named like a built-in (step, min, vecs, ...) can never be called")
		}
	}
	r.inst(rule, n)
}

func init() {
	dumpers["usershadow"] = func(c *Ctx, parts []string) {
		r := newReport("dump")
		c.runUserShadow(r, "call.usershadow", "wgsl/internal/lower")
		for _, o := range r.Obs {
			println(o.Verdict, o.Construct, o.Pos)
		}
	}
}
