package main

func init() {
	register("C16", propC16)
	register("C01", propC01)
	register("C02", propC02)
}

func propC16(c *Ctx, r *Report) {
	r.Clauses = append(r.Clauses,
		"keyword tables (E1): the reserved-word table of each text backend is a statically evaluable literal that contains every reserved word of its target language in the reference lists (GLSL 4.60 keywords and reserved words; C++14 keywords plus the MSL address-space/stage keywords; HLSL keywords and reserved words)",
		"helper reservation (E1): every identifier the backend itself defines in its output (naga_* / _naga_* tokens in emitted strings) is reserved in that backend's namer, or is a computed name that always ends in a digit (which no user name can, because the namers suffix such names)")
	r.NotDecided = append(r.NotDecided,
		"the rest of the sanitising / uniquifying algorithm (character filtering, escapes, counters), scope resolution of references, case-insensitive clashes between two user names, the reported entry-point name mapping")
	c.runKeywordTables(r, keywordTables)
	c.runHelperReservation(r, helperSpecs)
	r.Clauses = append(r.Clauses, "checked = emitted (E11): in every string-returning function that tests a spelling with a reserved-word predicate, the tested variable is the one returned or adjusted in the guarded branch (not the raw input of a sanitiser)")
	c.runCheckedEmitted(r, "names.checked-emitted", inPkgs("hlsl", "msl", "glsl", "internal/backend"))
	r.Clauses = append(r.Clauses, "sanitised bases (E19, go/cfg must-analysis): every value returned by a namer's sanitiser (the function whose result keys the uniqueness map) provably has no trailing underscore - the precondition under which the spellings B, B_ (digit-ending or reserved B) and B_N of the Rust-naga naming scheme are pairwise distinct")
	c.runSanitizeNoTrail(r, "names.sanitize", inPkgs("hlsl", "msl", "glsl", "internal/backend"))
	r.floor("names.sanitize.returns", 10)
	r.Clauses = append(r.Clauses, "fresh names (E19 provenance): every spelling stored into a writer's entity-name table (types, members, functions, arguments, locals, globals, entry points, baked expressions, flattened entry-point parameters) comes from the namer, from another name table, or from one of the generated spellings frozen per table - never directly from an IR name or from a table of another scope")
	c.runNameFresh(r, "names.fresh", inPkgs("hlsl", "msl", "glsl"))
	r.Clauses = append(r.Clauses, "invented names (E66): a name the writer invents with an identifier-shaped format string ends in a digit or underscore, or goes through the namer, or starts with a prefix the namer reserves (literals / a table consulted with strings.HasPrefix in functions reachable from the namer); the GLSL namer reserves gl_")
	for _, p := range []string{"glsl", "hlsl", "msl"} {
		var req []string
		if p == "glsl" {
			req = []string{"gl_"}
		}
		c.runGenFormatReq(r, "names.genformat", p+"/internal/codegen", genFormatExceptions, req)
	}
	r.floor("names.genformat", 4)
	r.Clauses = append(r.Clauses, rawNamesClause)
	c.runRawNames(r, "names.rawuse", inPkgs("hlsl", "msl", "glsl"), rawNameExceptions)
	r.floor("names.rawuse", 1)
	r.floor("names.stores", 60)
	r.floor("namecheck.sites", 4)
	r.floor("tables.keywords.GLSL", 200)
	r.floor("tables.keywords.MSL", 150)
	r.floor("tables.keywords.HLSL", 200)
	r.floor("names.helpers.HLSL", 10)
	r.floor("names.helpers.MSL", 5)
	r.floor("names.helpers.GLSL", 3)
}

func spirvBackend() backendSpec {
	for _, b := range backendSpecs {
		if b.Prop == "C01" {
			return b
		}
	}
	return backendSpec{}
}

func propC01(c *Ctx, r *Report) {
	r.Clauses = append(r.Clauses,
		"numeric tables (E1): every SPIR-V opcode, GLSL.std.450 instruction, decoration, builtin, storage class, execution model/mode, capability and image format constant of the backend has the value the SPIR-V specification assigns (reference tables written independently of the repository)",
		"operand consumption (E3): every SPIR-V emitter that dispatches on IR node kinds and reads all operand handles of >=3/4 of them reads every operand handle of every kind the frontend can produce and recurses into every nested block")
	r.NotDecided = append(r.NotDecided,
		"operand order and types, native opcode selection for math builtins (OpDot, bit-field ops), conversions / atomics / image operations, access-chain indices, load/store placement, control-flow wiring, wrapper bodies, float accuracy - i.e. that the emitted module computes the WGSL result")
	c.runSpirvTables(r)
	r.Clauses = append(r.Clauses, "operator selection (E2 guarded-constant table): in the SPIR-V binary- and unary-operator dispatchers every OpCode constant is used only under (operator, scalar-kind) guard facts - case labels of the operator switch and the enclosing if/else/switch tests on the scalar kind - for which the WGSL->SPIR-V reference relation allows that opcode, and every feasible (operator, kind) pair reaches an allowed opcode")
	runGuardedTable(c, r, "opsel.spirv", "spirv/internal/codegen", "BinaryOperator", "OpCode", spirvBinaryRef, nil)
	runGuardedTable(c, r, "opsel.spirv", "spirv/internal/codegen", "UnaryOperator", "OpCode", spirvUnaryRef, nil)
	r.floor("guarded.BinaryOperator.sites", 30)
	r.floor("guarded.UnaryOperator.sites", 3)
	r.Clauses = append(r.Clauses, "math builtin selection (E2 guarded-constant table): in the SPIR-V math dispatcher every GLSL.std.450 instruction constant is used only under (math function, operand scalar kind) guard facts for which the reference relation (WGSL builtin definition vs GLSL.std.450 instruction definition) allows it, e.g. round -> RoundEven, abs -> FAbs/SAbs/none, firstLeadingBit -> FindSMsb/FindUMsb, and every feasible pair reaches an allowed instruction")
	runGuardedTableFrac(c, r, "mathsel.spirv", "spirv/internal/codegen", "MathFunction", "prefix:GLSLstd450", spirvMathRef, nil, 0.7)
	r.floor("guarded.MathFunction.sites", 60)
	c.runBackendWalk(r, spirvBackend())
	r.Clauses = append(r.Clauses, "per-compilation state (E5): every field of the reusable spirv Backend / ModuleBuilder written during Compile is re-initialised by its reset (a wrapper-function or type cache surviving into the next module makes it call or reference ids of the previous one)")
	c.runResetScopes(r, spirvResetScopes)
	r.Clauses = append(r.Clauses, enumMapClause)
	c.runEnumTables(r, "spirv")
	r.Clauses = append(r.Clauses, resolutionClause)
	c.runResolutionSiblings(r, "resolution.siblings", inPkgs("spirv", "ir"), nil)
	r.floor("resolution.siblings", 4)
	r.Clauses = append(r.Clauses, colVecClause)
	c.runColVec(r, "shape.colvec", inPkgs("spirv", "ir"))
	r.floor("shape.colvec", 5)
	r.Clauses = append(r.Clauses, orderClause)
	c.runOperandOrder(r, "order.spirv", inPkgs("spirv"))
	r.floor("order.spirv", orderFloors["spirv"])
	r.Clauses = append(r.Clauses, depthLikeClause)
	c.runDepthLike(r, "image.depthlike", inPkgs("spirv", "ir"))
	r.floor("image.depthlike", 4)
	r.Clauses = append(r.Clauses, zeroInitClause)
	c.runZeroInitOpVariable(r, "zeroinit.opvariable")
	r.floor("zeroinit.opvariable", 2)
	r.Clauses = append(r.Clauses, "skip sets (E60): a set of expression handles that an expression handler tests on its operand to skip emitting instructions receives only the handle of the expression a handler is emitting - never the operand itself, whose recorded work may sit in a block that does not dominate the next use")
	c.runMemoSkipKey(r, "memo.skipkey", inPkgs("spirv"))
	r.floor("memo.skipkey", 3)
	r.floor("memo.skipSets", 1)
	r.Clauses = append(r.Clauses, irFieldReadClause)
	c.runIRFieldRead(r, "irfield.read", "spirv", irFieldReadExceptions)
	r.floor("irfield.read.spirv", 90)
	c.runIRFieldReadSel(r, "irfield.decl", "spirv", irFieldReadExceptions, irDeclStructs)
	r.floor("irfield.decl.spirv", 25)
	r.Clauses = append(r.Clauses, shallowWalkerClause)
	c.runShallowWalker(r, "walker.shallow", inPkgs("spirv"), shallowWalkerExceptions)
	r.floor("walker.shallow", 2)
	r.Clauses = append(r.Clauses, breakReachClause)
	c.runBreakReach(r, "merge.breakreach", "spirv/internal/codegen")
	r.floor("merge.breakreach", 1)
	r.Clauses = append(r.Clauses, accumDroppedClause)
	c.runAccumDropped(r, "accum.dropped", inPkgs("spirv"))
	r.floor("accum.dropped", 5)
	r.Clauses = append(r.Clauses, argsRoleClause)
	c.runArgsNameRole(r, "args.namerole", inPkgs("spirv"))
	r.floor("args.namerole", 20)
	r.floor("tables.OpCode", 150)
	r.floor("tables.Decoration", 10)
	r.floor("tables.BuiltIn", 20)
	r.floor("spirv.ExpressionHandle.walkers", 2)
}

func propC02(c *Ctx, r *Report) {
	r.Clauses = append(r.Clauses,
		"numeric tables (E1): every enumerant the SPIR-V backend can write into a module (opcodes, decorations, builtins, storage classes, execution models/modes, capabilities, image formats, memory/addressing models, control masks) has the value the specification assigns - a wrong number makes an instruction of the wrong kind or an invalid operand")
	r.NotDecided = append(r.NotDecided,
		"section order, id definition/dominance, type uniqueness, operand type rules, block termination and merge nesting, capability declaration completeness, layout decorations, interface lists")
	c.runSpirvTables(r)
	r.Clauses = append(r.Clauses, "block recursion (E3): every statement walker of the SPIR-V backend that descends into 3 of the 4 block-bearing statement kinds descends into all nested blocks (body and continuing of loops, both branches of ifs, every switch case) - the walkers that collect the globals of an entry point feed the OpEntryPoint interface list required from SPIR-V 1.4 on")
	c.runBlockWalkers(r, "operands", "spirv", inPkgs("spirv/internal/codegen"), nil)
	r.Clauses = append(r.Clauses, enumMapClause+" - for validity: the capability declared for a builtin / image dimension, the storage class of an address space, the execution model and modes of a stage, the image format operand")
	c.runEnumTables(r, "spirv")
	r.Clauses = append(r.Clauses, "storage-class-aware pointee types (E23): where the storage class of a pointer is taken from the accessed expression (not known statically), the pointee type id handed to the pointer-type constructor was computed by a call that receives the same storage class (layout-free types for Workgroup, decorated ones elsewhere)")
	c.runStorageClassAware(r, "ptrtype.scaware")
	r.floor("ptrtype.scaware", 3)
	r.Clauses = append(r.Clauses, "width-named capabilities (E18): in a switch over a scalar bit width the capability constants named in the arm for width N carry N in their name (Float16 / Int16 / ...16BitAccess for 16, Float64 / Int64 for 64, Int8 for 8)")
	c.runWidthSuffix(r, "width.suffix", "spirv", "Capability")
	r.Clauses = append(r.Clauses, breakReachClause)
	c.runBreakReach(r, "merge.breakreach", "spirv/internal/codegen")
	r.floor("merge.breakreach", 1)
	r.Clauses = append(r.Clauses, "one parent per predecessor (E88): in an emitter that builds an OpPhi, every block it closes with a branch to the OpPhi's block recorded its own label - read from currentBlock between the setCurrentBlock that opened it and the consumeBlock that closes it - exactly once into the operand list")
	c.runPhiPredecessor(r, "phi.predecessor", "spirv/internal/codegen")
	r.floor("phi.predecessor", 1)
	r.Clauses = append(r.Clauses, "capability per instruction (E62): a function that builds an instruction whose capability is not implied by Shader (image queries, fine / coarse derivatives, subgroup operations, ray queries, float atomic add, integer dot products - table from the SPIR-V specification) declares that capability itself, or every one of its callers (to depth 3) does")
	c.runCapOpcode(r, "cap.opcode", "spirv/internal/codegen", map[string]string{
		"spirv/internal/codegen.atomicOpcode:OpAtomicFAddEXT": "AtomicFloat32AddEXT is declared when the atomic<f32> type is emitted (emitType, AtomicType arm), and the pointer operand of every float atomic has that type",
	})
	r.floor("cap.opcode", 40)
	r.Clauses = append(r.Clauses, "cache keys follow what is written (E63): where a type-emitting function writes a field of its parameter only through a mapping function, the key function of its cache uses the mapped value too - keyed on the raw field, two values mapped to the same operand declare the same non-aggregate type twice")
	r.Clauses = append(r.Clauses, "one class, one treatment (E64): address spaces that the space-to-storage-class function sends to the same class (PushConstant and Immediate) appear together, in the same arm, in every other switch over the address space")
	c.runSpaceSameClass(r, "space.sameclass", "spirv/internal/codegen", nil)
	r.floor("space.sameclass", 2)
	r.floor("space.sharedClasses", 1)
	r.Clauses = append(r.Clauses, "constant composites (E71): where a function composes constants of a scalar type it fixes locally, the composite's type is built from that same scalar type (by emitVectorType of it or a vector-type literal with the same kind and width)")
	c.runConstCompositeComponent(r, "constcomposite.component", "spirv/internal/codegen")
	r.floor("constcomposite.component", 2)
	c.runCacheKeyMapped(r, "cachekey.mapped", "spirv/internal/codegen")
	r.floor("cachekey.mapped", 1)
	r.floor("width.suffix", 6)
	r.Clauses = append(r.Clauses, "merge before branch (E28, go/cfg must-analysis): in every function of the SPIR-V emitter, on every control-flow path to the emission of an OpBranchConditional or OpSwitch terminator an OpSelectionMerge / OpLoopMerge has been emitted before (directly, through a builder method or through a local closure)")
	r.Clauses = append(r.Clauses, cacheKeyClause)
	c.runCacheKeySeparator(r, "cachekey.separator", inPkgs("spirv"))
	r.floor("cachekey.separator", 1)
	c.runMergeFirst(r, "spirv.mergefirst")
	r.floor("spirv.mergefirst", 6)
	r.Clauses = append(r.Clauses, depthLikeClause)
	c.runDepthLike(r, "image.depthlike", inPkgs("spirv"))
	r.floor("image.depthlike", 3)
	r.Clauses = append(r.Clauses, "block open/close typestate (E28, go/cfg): in no function of the SPIR-V emitter is consumeBlock reached on a path on which the current block is definitely closed, nor setCurrentBlock on a path on which a block opened in that function is definitely still open (every block is terminated exactly once and none is dropped)")
	c.runBlockState(r, "spirv.blockstate")
	r.floor("spirv.blockstate", 30)
	r.Clauses = append(r.Clauses, "version bump (E23): every call that raises the module's SPIR-V version to 1.4 or later sits in a function that also updates the options' Version field, which selects the 1.4 OpEntryPoint interface rule")
	c.runVersionBump(r, "version.bump14")
	r.floor("version.bump14", 1)
	r.Clauses = append(r.Clauses, "matrix layout through arrays (E13): every MatrixStride member decoration is emitted for a matrix found by unwrapping all array levels (Vulkan requires ColMajor/MatrixStride on every matrix or array-of-matrix member of a Block struct)")
	c.runSeeThrough(r, "layout.seethrough")
	r.floor("layout.seethrough", 2)
	r.Clauses = append(r.Clauses, "per-compilation state (E5): every field of the reusable spirv Backend / ModuleBuilder written during Compile is re-initialised by its reset - stale type/decoration caches make the next module invalid (missing Block decoration, dangling ids)")
	c.runResetScopes(r, spirvResetScopes)
	r.floor("spirv.Block.walkers", 3)
	r.floor("tables.OpCode", 150)
	r.floor("tables.Capability", 20)
	r.floor("tables.StorageClass", 10)
}

var genFormatExceptions = map[string]string{
	"glsl/internal/codegen.Writer.imageToGLSL:%sCubeArray#1":       "spells a built-in GLSL type (samplerCubeArray with its i / u prefix), not an invented identifier",
	"glsl/internal/codegen.Writer.imageToGLSL:%sCube#1":            "spells a built-in GLSL type (samplerCube with its i / u prefix), not an invented identifier",
	"msl/internal/codegen.Writer.packedVectorTypeName:%spacked_%s3#1": "spells a metal_stdlib type (metal::packed_float3), not an invented identifier",
	"glsl/internal/codegen.Writer.fallbackCombinedName:%s_%s#1":    "a use-site fallback for a texture-sampler pair the pre-scan did not declare: it names nothing that is declared, so it cannot define a second entity (the pre-scan's own names are decided under reflect / names.rawuse)",
	"hlsl/internal/codegen.Writer.samplerBindingArrayInfoFromExpression:nagaGroup%dSamplerIndexArray#1": "re-spelling, at a use, of the name that writeSamplerIndexBuffer obtains from the namer; the naga prefix is reserved (names.helpers)",
	"msl/internal/codegen.wrappedMathSuffix:vec%d_%s#1":                                                  "a suffix appended to a reserved naga_ helper name, never a name of its own",
}

const breakReachClause = "break reaches the merge block (E69): an emitter that makes its merge label the break target marks that merge block OpUnreachable only under a condition that looks at branches to the label - an arm ending in break ends its block with a branch to the merge block"
