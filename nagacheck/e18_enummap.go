package main

// E18 enum maps (C17, C02, C01, C03-C05, C18).
//
// The translation of a WGSL attribute into the target's vocabulary is, in every
// backend, a switch over an enum of package ir whose arms name the target's
// word: @builtin(x) -> SPIR-V BuiltIn / HLSL semantic / MSL attribute / GLSL
// gl_ variable, address space -> storage class / MSL address-space keyword,
// interpolation -> decoration / qualifier, shader stage -> execution model,
// storage texel format -> image format ... Each reference table below was
// written from the target's specification (SPIR-V 1.6 unified spec, HLSL
// semantics documentation, Metal Shading Language specification tables 5.x,
// GLSL 4.60 / ESSL 3.20 built-in variables), independently of the repository.
//
//   enummap.<table>  in every switch over the enum (tagged switch, any function
//       of the backend), the words of the target vocabulary that occur in the
//       arm for member M - string literals split into identifier tokens, named
//       string constants, and named constants of the backend's enum types - are
//       words the reference allows for M. Words outside the vocabulary are
//       ignored, so an arm may compute, delegate or decline.
//
// A word of the vocabulary that appears under the wrong member binds the
// variable to a different builtin / register class / format than the WGSL
// attribute says, for exactly the programs that use that member.

import (
	"go/ast"
	"go/constant"
	"go/token"
	"go/types"
	"regexp"
	"sort"
	"strings"
)

var wordRe = regexp.MustCompile(`[A-Za-z_][A-Za-z0-9_]*`)

type enumArm struct {
	Fn      *funcInfo
	Enum    string
	Members []string
	Words   []string // vocabulary candidates found in the arm
	Pos     token.Pos
	SwOrd   int
}

// armWords: identifier tokens of string constants, and names of non-string named constants, in the statements.
func armWords(info *types.Info, body []ast.Stmt, skipNested func(*ast.SwitchStmt) bool) []string {
	set := map[string]bool{}
	for _, st := range body {
		ast.Inspect(st, func(n ast.Node) bool {
			switch x := n.(type) {
			case *ast.FuncLit:
				return false
			case *ast.SwitchStmt:
				if skipNested != nil && skipNested(x) {
					return false
				}
			case *ast.CallExpr:
				if isErrorTextCall(info, x) {
					return false // the text of an error message is not target vocabulary
				}
			case *ast.BasicLit:
				if x.Kind == token.STRING {
					if tv, ok := info.Types[x]; ok && tv.Value != nil && tv.Value.Kind() == constant.String {
						for _, w := range wordRe.FindAllString(constant.StringVal(tv.Value), -1) {
							set[w] = true
						}
					}
				}
			case *ast.Ident:
				if k, ok := info.Uses[x].(*types.Const); ok && k.Pkg() != nil && strings.HasPrefix(k.Pkg().Path(), modPath) {
					if k.Val().Kind() == constant.String {
						for _, w := range wordRe.FindAllString(constant.StringVal(k.Val()), -1) {
							set[w] = true
						}
					} else if _, named := types.Unalias(k.Type()).(*types.Named); named {
						set[k.Name()] = true
					}
				}
			case *ast.SelectorExpr:
				if k, ok := info.Uses[x.Sel].(*types.Const); ok && k.Pkg() != nil && strings.HasPrefix(k.Pkg().Path(), modPath) {
					if k.Val().Kind() == constant.String {
						for _, w := range wordRe.FindAllString(constant.StringVal(k.Val()), -1) {
							set[w] = true
						}
					} else if _, named := types.Unalias(k.Type()).(*types.Named); named {
						set[k.Name()] = true
					}
					return false
				}
			}
			return true
		})
	}
	var out []string
	for w := range set {
		out = append(out, w)
	}
	sort.Strings(out)
	return out
}

// enumArms lists the arms of every tagged switch over ir.<enum> in the packages.
func (c *Ctx) enumArms(pkgs func(string) bool, enum string) []enumArm {
	var out []enumArm
	for _, fn := range c.allFuncs() {
		if !pkgs(fn.Pkg.Rel) {
			continue
		}
		info := fn.Pkg.Info
		ord := 0
		isEnumSwitch := func(sw *ast.SwitchStmt) bool {
			if sw.Tag == nil {
				return false
			}
			tv, ok := info.Types[sw.Tag]
			return ok && irTypeName(tv.Type) == enum
		}
		ast.Inspect(fn.Decl.Body, func(n ast.Node) bool {
			sw, ok := n.(*ast.SwitchStmt)
			if !ok || !isEnumSwitch(sw) {
				return true
			}
			ord++
			for _, cl := range sw.Body.List {
				cc := cl.(*ast.CaseClause)
				var members []string
				for _, l := range cc.List {
					if nm := irConstName(info, l); nm != "" {
						members = append(members, nm)
					}
				}
				if len(members) == 0 {
					continue
				}
				out = append(out, enumArm{Fn: fn, Enum: enum, Members: members, Words: armWords(info, cc.Body, isEnumSwitch), Pos: cc.Pos(), SwOrd: ord})
			}
			return true
		})
	}
	return out
}

// sumArms lists the arms of every type switch over the ir sum type `sum` in the packages
// (members are the variant type names).
func (c *Ctx) sumArms(pkgs func(string) bool, sum string) []enumArm {
	sums := c.sumTypes("ir")
	st := sums[sum]
	if st == nil {
		return nil
	}
	var out []enumArm
	for _, fn := range c.allFuncs() {
		if !pkgs(fn.Pkg.Rel) {
			continue
		}
		info := fn.Pkg.Info
		ord := 0
		ast.Inspect(fn.Decl.Body, func(n ast.Node) bool {
			ts, ok := n.(*ast.TypeSwitchStmt)
			if !ok {
				return true
			}
			isSum := false
			for _, cl := range ts.Body.List {
				for _, l := range cl.(*ast.CaseClause).List {
					if tv, ok := info.Types[l]; ok && st.has(irTypeName(tv.Type)) {
						isSum = true
					}
				}
			}
			if !isSum {
				return true
			}
			ord++
			for _, cl := range ts.Body.List {
				cc := cl.(*ast.CaseClause)
				var members []string
				for _, l := range cc.List {
					if tv, ok := info.Types[l]; ok {
						if nm := irTypeName(tv.Type); st.has(nm) {
							members = append(members, nm)
						}
					}
				}
				if len(members) == 0 {
					continue
				}
				out = append(out, enumArm{Fn: fn, Enum: sum, Members: members, Words: armWords(info, cc.Body, nil), Pos: cc.Pos(), SwOrd: ord})
			}
			return true
		})
	}
	return out
}

type enumRef map[string][]string // member -> allowed words

// constNamesOfType: names of the package-level constants of Go type typeName declared in packages under prefix.
func (c *Ctx) constNamesOfType(prefix, typeName string) []string {
	var out []string
	for _, p := range c.Roots {
		rel := relPkg(p.PkgPath)
		if !(rel == prefix || strings.HasPrefix(rel, prefix+"/")) {
			continue
		}
		sc := p.Types.Scope()
		for _, nm := range sc.Names() {
			if k, ok := sc.Lookup(nm).(*types.Const); ok && namedName(k.Type()) == typeName {
				out = append(out, nm)
			}
		}
	}
	return out
}

func isErrorTextCall(info *types.Info, call *ast.CallExpr) bool {
	f := calleeOf(info, call)
	if f == nil || f.Pkg() == nil {
		return false
	}
	return (f.Pkg().Path() == "fmt" && f.Name() == "Errorf") || (f.Pkg().Path() == "errors" && f.Name() == "New")
}

func (c *Ctx) runEnumMapT(r *Report, t enumTable) {
	vocab := map[string]bool{}
	for _, ws := range t.Ref {
		for _, w := range ws {
			vocab[w] = true
		}
	}
	if t.VocabType != "" {
		for _, w := range c.constNamesOfType(t.Pkg, t.VocabType) {
			vocab[w] = true
		}
	}
	n := 0
	arms := c.enumArms(inPkgs(t.Pkg), t.Enum)
	if t.Sum {
		arms = c.sumArms(inPkgs(t.Pkg), t.Enum)
	}
	for _, a := range arms {
		if reason, skip := t.SkipFuncs[a.Fn.id()]; skip {
			r.exc(t.Rule, a.Fn.id()+"/"+t.Enum+":"+strings.Join(a.Members, ","), c.pos(a.Pos), reason)
			continue
		}
		var cand []string
		for _, w := range a.Words {
			if vocab[w] {
				cand = append(cand, w)
			}
		}
		if len(cand) == 0 {
			continue
		}
		for _, m := range a.Members {
			allowed, has := t.Ref[m]
			if !has {
				continue
			}
			n++
			cons := a.Fn.id() + "/" + t.Enum
			if a.SwOrd > 1 {
				cons += "#" + itoa(a.SwOrd)
			}
			cons += ":" + m
			var bad []string
			for _, w := range cand {
				if !hasStr(allowed, w) {
					bad = append(bad, w)
				}
			}
			pos := c.pos(a.Pos)
			if len(bad) > 0 {
				r.viol(t.Rule, cons, pos, a.Fn.id()+": the arm for "+m+" names "+strings.Join(bad, ", ")+", which the target's specification does not assign to "+m+" (allowed: "+strings.Join(allowed, ", ")+")")
			} else {
				r.ok(t.Rule, cons, pos, "")
			}
		}
	}
	r.inst(t.Rule, n)
}

func init() {
	dumpers["enummap"] = func(c *Ctx, parts []string) {
		// enummap:<pkgprefix>:<Enum>
		arms := c.enumArms(inPkgs(parts[1]), parts[2])
		arms = append(arms, c.sumArms(inPkgs(parts[1]), parts[2])...)
		for _, a := range arms {
			println(a.Fn.id(), a.SwOrd, strings.Join(a.Members, ","), "=>", strings.Join(a.Words, " "))
		}
	}
}

func init() {
	dumpers["enumtables"] = func(c *Ctx, parts []string) {
		r := newReport("dump")
		c.runEnumTables(r, "spirv", "hlsl", "msl", "glsl", "dxil")
		for _, o := range r.Obs {
			if o.Verdict != OK {
				println(o.Verdict, o.Rule, o.Construct, o.Pos, o.Msg)
			}
		}
		var ks []string
		for k, v := range r.Instances {
			ks = append(ks, k+"="+itoa(v))
		}
		sort.Strings(ks)
		println(strings.Join(ks, " "))
	}
}

// width.suffix (C02): in a switch whose case labels are the bit widths 8, 16,
// 32, 64 (the tag is computed from a scalar's Width), the SPIR-V capability
// constants named in the arm for width N carry N in their name (Float16, Int16,
// StorageBuffer16BitAccess, Int64 ...) and no other of those widths - declaring
// Float64 for a 16-bit float leaves OpTypeFloat 16 without its capability.
func (c *Ctx) runWidthSuffix(r *Report, rule string, pkgRel, constType string) {
	n := 0
	widths := []string{"8", "16", "32", "64"}
	for _, fn := range c.allFuncs() {
		if !inPkgs(pkgRel)(fn.Pkg.Rel) {
			continue
		}
		info := fn.Pkg.Info
		ord := 0
		ast.Inspect(fn.Decl.Body, func(m ast.Node) bool {
			sw, ok := m.(*ast.SwitchStmt)
			if !ok || sw.Tag == nil {
				return true
			}
			if tv, ok := info.Types[sw.Tag]; !ok || tv.Type == nil {
				return true
			} else if b, ok := tv.Type.Underlying().(*types.Basic); !ok || b.Info()&types.IsInteger == 0 {
				return true
			}
			ord++
			for _, cl := range sw.Body.List {
				cc := cl.(*ast.CaseClause)
				if len(cc.List) != 1 {
					continue
				}
				w, ok := constInt(info, cc.List[0])
				if !ok || (w != 8 && w != 16 && w != 32 && w != 64) {
					continue
				}
				for _, word := range armWords(info, cc.Body, nil) {
					// only constants of the given type
					isConst := false
					for _, nm := range c.constNamesOfType(pkgRel, constType) {
						if nm == word {
							isConst = true
						}
					}
					if !isConst {
						continue
					}
					var has []string
					for _, ws := range widths {
						if idx := strings.Index(word, ws); idx >= 0 {
							// "16" inside "16BitAccess" or at the end; avoid matching 6 in 64 etc. by exact digit runs
							run := ""
							for i := idx; i < len(word) && word[i] >= '0' && word[i] <= '9'; i++ {
								run += string(word[i])
							}
							pre := idx > 0 && word[idx-1] >= '0' && word[idx-1] <= '9'
							if run == ws && !pre {
								has = append(has, ws)
							}
						}
					}
					if len(has) == 0 {
						continue
					}
					n++
					cons := fn.id() + ":width" + itoa(w) + ":" + word
					if ord > 1 {
						cons += "#" + itoa(ord)
					}
					if len(has) == 1 && has[0] == itoa(w) {
						r.ok(rule, cons, c.pos(cc.Pos()), "")
					} else {
						r.viol(rule, cons, c.pos(cc.Pos()), fn.id()+" names "+word+" in the arm for bit width "+itoa(w)+": the capability of another width is declared, the one this width needs is not")
					}
				}
			}
			return true
		})
	}
	r.inst("width.suffix", n)
}
