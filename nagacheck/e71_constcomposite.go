package main

import (
	"go/ast"
	"go/types"
)

// constcomposite.component (C02): the constituents of OpConstantComposite must
// have the component type of the result type. Where a function builds the
// constituents itself as constants of a scalar type it fixes locally (S :=
// emitScalarType(ir.ScalarType{...}); c := AddConstant(S, v)), the result type
// of AddConstantComposite must be built from that same S (emitVectorType(S, n))
// - a type that arrives from elsewhere (the type of an operand expression, a
// field of a parameter) may have another component type: unsigned texture
// coordinates gave `OpConstantComposite %v2uint %int_1 %int_1`.
func (c *Ctx) runConstCompositeComponent(r *Report, rule string, pkg string) {
	n := 0
	for _, fn := range c.allFuncs() {
		if fn.Pkg.Rel != pkg || fn.Obj == nil || fn.Decl.Body == nil {
			continue
		}
		info := fn.Pkg.Info
		scalarOf := map[types.Object]types.Object{} // constant / slice var -> scalar type var
		fixedScalar := map[types.Object]bool{}
		vecOf := map[types.Object]types.Object{} // vector type var -> scalar type var
		scalarLit := map[types.Object]string{}   // scalar type var -> "Kind/Width" of its literal
		vecLit := map[types.Object]string{}      // vector type var -> "Kind/Width" of the scalar in its literal
		// litScalar renders the ir.ScalarType{Kind: K, Width: W} literal found in e (directly or as the Scalar of a VectorType literal)
		var litScalar func(e ast.Expr, wantVector bool) string
		litScalar = func(e ast.Expr, wantVector bool) string {
			out := ""
			ast.Inspect(e, func(k ast.Node) bool {
				cl, ok := k.(*ast.CompositeLit)
				if !ok || out != "" {
					return true
				}
				tv, ok := info.Types[cl]
				if !ok {
					return true
				}
				switch irTypeName(tv.Type) {
				case "VectorType":
					if wantVector {
						for _, el := range cl.Elts {
							if kv, ok := el.(*ast.KeyValueExpr); ok {
								if id, ok := kv.Key.(*ast.Ident); ok && id.Name == "Scalar" {
									out = litScalar(kv.Value, false)
								}
							}
						}
						return false
					}
				case "ScalarType":
					if !wantVector {
						kind, width := "", ""
						for _, el := range cl.Elts {
							if kv, ok := el.(*ast.KeyValueExpr); ok {
								if id, ok := kv.Key.(*ast.Ident); ok {
									if id.Name == "Kind" {
										kind = irConstNameAny(info, kv.Value)
									}
									if id.Name == "Width" {
										width = types.ExprString(kv.Value)
									}
								}
							}
						}
						out = kind + "/" + width
						return false
					}
				}
				return true
			})
			return out
		}
		objOf := func(e ast.Expr) types.Object {
			if id, ok := ast.Unparen(e).(*ast.Ident); ok {
				return info.ObjectOf(id)
			}
			return nil
		}
		// iterate to a fixed point over assignments (source order suffices twice)
		for pass := 0; pass < 2; pass++ {
			ast.Inspect(fn.Decl.Body, func(m ast.Node) bool {
				as, ok := m.(*ast.AssignStmt)
				if !ok {
					return true
				}
				if len(as.Rhs) == 1 {
					if call, ok := ast.Unparen(as.Rhs[0]).(*ast.CallExpr); ok {
						f := calleeOf(info, call)
						lhs0 := objOf(as.Lhs[0])
						if f != nil && lhs0 != nil {
							switch f.Name() {
							case "emitScalarType":
								if len(call.Args) == 1 {
									if _, ok := ast.Unparen(call.Args[0]).(*ast.CompositeLit); ok {
										fixedScalar[lhs0] = true
										scalarLit[lhs0] = litScalar(call.Args[0], false)
									}
								}
							case "resolveTypeResolution", "emitInlineType":
								if len(call.Args) == 1 {
									if l := litScalar(call.Args[0], true); l != "" {
										vecLit[lhs0] = l
									}
								}
							case "AddConstant":
								if len(call.Args) >= 1 {
									if s := objOf(call.Args[0]); s != nil && fixedScalar[s] {
										scalarOf[lhs0] = s
									}
								}
							case "emitVectorType":
								if len(call.Args) >= 1 {
									if s := objOf(call.Args[0]); s != nil {
										vecOf[lhs0] = s
									}
								}
							}
						}
					}
				}
				// slice[i] = constVar
				for i, l := range as.Lhs {
					if ix, ok := l.(*ast.IndexExpr); ok && i < len(as.Rhs) {
						if sl := objOf(ix.X); sl != nil {
							if cv := objOf(as.Rhs[i]); cv != nil && scalarOf[cv] != nil {
								scalarOf[sl] = scalarOf[cv]
							}
						}
					}
				}
				return true
			})
		}
		ord := 0
		ast.Inspect(fn.Decl.Body, func(m ast.Node) bool {
			call, ok := m.(*ast.CallExpr)
			if !ok || len(call.Args) < 2 {
				return true
			}
			f := calleeOf(info, call)
			if f == nil || f.Name() != "AddConstantComposite" {
				return true
			}
			var s types.Object
			for _, a := range call.Args[1:] {
				if o := objOf(a); o != nil && scalarOf[o] != nil {
					s = scalarOf[o]
				}
			}
			if s == nil {
				return true // constituents are not locally fixed constants
			}
			ord++
			n++
			cons := fn.id() + ":composite#" + itoa(ord)
			t := objOf(call.Args[0])
			switch {
			case t != nil && vecOf[t] == s:
				r.ok(rule, cons, c.pos(call.Pos()), "")
			case t != nil && vecLit[t] != "" && vecLit[t] == scalarLit[s]:
				r.ok(rule, cons, c.pos(call.Pos()), "")
			case t != nil && vecLit[t] != "":
				r.viol(rule, cons, c.pos(call.Pos()), fn.id()+" composes constants of the scalar type "+scalarLit[s]+" into a vector of "+vecLit[t])
			case t != nil && vecOf[t] != nil:
				r.viol(rule, cons, c.pos(call.Pos()), fn.id()+" composes constants of the scalar type "+s.Name()+" into a vector type built from "+vecOf[t].Name())
			default:
				r.viol(rule, cons, c.pos(call.Pos()), fn.id()+" composes constants of the locally fixed scalar type "+s.Name()+" into a composite whose type ("+types.ExprString(call.Args[0])+") is not built from that scalar type here: if its component type differs the OpConstantComposite is invalid")
			}
			return true
		})
	}
	r.inst(rule, n)
}

func init() {
	dumpers["constcomposite"] = func(c *Ctx, parts []string) {
		r := newReport("dump")
		c.runConstCompositeComponent(r, "constcomposite.component", "spirv/internal/codegen")
		for _, o := range r.Obs {
			println(o.Verdict, o.Construct, o.Pos, o.Msg)
		}
	}
}
