package main

import (
	"go/ast"
	"go/types"
	"regexp"
	"strconv"
	"strings"
)

// names.genformat (C16): besides user names the text backends invent names with
// format strings ("_group_%d_binding_%d_%s", "ret_%s", "_e%d"). The namers keep
// user names apart from each other and from keywords; an invented name is kept
// apart from user names only if (a) it always ends in a digit or an underscore
// (no user name does: the namers suffix such names / trim underscores), or
// (b) it is itself passed through the namer, or (c) it starts with a prefix
// the namer reserves (a literal consulted with strings.HasPrefix in a function
// reachable from the namer). Otherwise a user identifier spelt like it names a
// second entity with the same spelling.
var identFormat = regexp.MustCompile(`^(?:[_A-Za-z][A-Za-z0-9_]*(?:%[ds][A-Za-z0-9_]*)+|%s[A-Za-z_][A-Za-z0-9_]*(?:%[ds][A-Za-z0-9_]*)*)$`)

func (c *Ctx) runGenFormat(r *Report, rule string, pkg string, exceptions map[string]string) {
	c.runGenFormatReq(r, rule, pkg, exceptions, nil)
}

// runGenFormatReq also demands that the namer reserves the prefixes the target
// language itself reserves (GLSL: gl_).
func (c *Ctx) runGenFormatReq(r *Report, rule string, pkg string, exceptions map[string]string, required []string) {
	// reserved prefixes: literals used as the prefix argument of strings.HasPrefix in functions reachable from the namer's call method
	var namerCall *types.Func
	for _, fn := range c.allFuncs() {
		if fn.Pkg.Rel != pkg || fn.Obj == nil || fn.Obj.Name() != "call" {
			continue
		}
		if rs := fn.Obj.Type().(*types.Signature).Recv(); rs != nil {
			if n := namedOf(rs.Type()); n != nil && strings.Contains(strings.ToLower(n.Obj().Name()), "namer") {
				namerCall = fn.Obj
			}
		}
	}
	if namerCall == nil {
		r.undecided(rule, pkg+":namer.call", "", "the namer's call method was not found")
		return
	}
	var reserved []string
	for f := range c.reach(namerCall) {
		fi := c.funcByObj(f)
		if fi == nil || fi.Decl.Body == nil {
			continue
		}
		ast.Inspect(fi.Decl.Body, func(m ast.Node) bool {
			call, ok := m.(*ast.CallExpr)
			if !ok {
				return true
			}
			if cf := calleeOf(fi.Pkg.Info, call); cf != nil && cf.Name() == "HasPrefix" && len(call.Args) == 2 {
				if lit, ok := ast.Unparen(call.Args[1]).(*ast.BasicLit); ok {
					if s, err := strconv.Unquote(lit.Value); err == nil {
						reserved = append(reserved, s)
					}
				}
				if id, ok := ast.Unparen(call.Args[1]).(*ast.Ident); ok {
					// ranging over a table of prefixes: for _, p := range table
					_ = id
				}
			}
			return true
		})
	}
	// prefix tables: package-level []string variables ranged over in the namer
	for f := range c.reach(namerCall) {
		fi := c.funcByObj(f)
		if fi == nil || fi.Decl.Body == nil {
			continue
		}
		ast.Inspect(fi.Decl.Body, func(m ast.Node) bool {
			rs, ok := m.(*ast.RangeStmt)
			if !ok {
				return true
			}
			id, ok := ast.Unparen(rs.X).(*ast.Ident)
			if !ok {
				return true
			}
			v, ok := fi.Pkg.Info.Uses[id].(*types.Var)
			if !ok || v.Parent() != fi.Pkg.Types.Scope() {
				return true
			}
			for _, file := range fi.Pkg.Files {
				ast.Inspect(file, func(k ast.Node) bool {
					vs, ok := k.(*ast.ValueSpec)
					if !ok {
						return true
					}
					for i, nm := range vs.Names {
						if fi.Pkg.Info.Defs[nm] == v && i < len(vs.Values) {
							if cl, ok := vs.Values[i].(*ast.CompositeLit); ok {
								for _, e := range cl.Elts {
									if lit, ok := e.(*ast.BasicLit); ok {
										if s, err := strconv.Unquote(lit.Value); err == nil {
											reserved = append(reserved, s)
										}
									}
								}
							}
						}
					}
					return true
				})
			}
			return true
		})
	}
	r.inst("names.reservedPrefixes", len(reserved))
	for _, req := range required {
		found := false
		for _, p := range reserved {
			if p == req {
				found = true
			}
		}
		cons := pkg + ":reserved-prefix:" + req
		if found {
			r.ok(rule, cons, "", "")
		} else {
			r.viol(rule, cons, c.pos(c.funcByObj(namerCall).Decl.Pos()), "the namer of "+pkg+" does not treat the prefix "+strconv.Quote(req)+", which the target language reserves, specially: a user identifier starting with it is emitted unchanged")
		}
	}
	n := 0
	for _, fn := range c.allFuncs() {
		if fn.Pkg.Rel != pkg || fn.Obj == nil || fn.Decl.Body == nil {
			continue
		}
		info := fn.Pkg.Info
		// values passed to the namer in this function
		viaNamer := map[ast.Node]bool{}
		namerVars := map[types.Object]bool{}
		ast.Inspect(fn.Decl.Body, func(m ast.Node) bool {
			call, ok := m.(*ast.CallExpr)
			if !ok {
				return true
			}
			if cf := calleeOf(info, call); cf != nil && cf.Origin() == namerCall {
				for _, a := range call.Args {
					viaNamer[ast.Unparen(a)] = true
					if id, ok := ast.Unparen(a).(*ast.Ident); ok {
						namerVars[info.ObjectOf(id)] = true
					}
				}
			}
			return true
		})
		ord := map[string]int{}
		var visit func(m ast.Node, assignedTo types.Object)
		_ = visit
		ast.Inspect(fn.Decl.Body, func(m ast.Node) bool {
			var target types.Object
			var call *ast.CallExpr
			switch x := m.(type) {
			case *ast.AssignStmt:
				if len(x.Lhs) == 1 && len(x.Rhs) == 1 {
					if cl, ok := ast.Unparen(x.Rhs[0]).(*ast.CallExpr); ok {
						call = cl
						if id, ok := x.Lhs[0].(*ast.Ident); ok {
							target = info.ObjectOf(id)
						}
					}
				}
			case *ast.CallExpr:
				call = x
			}
			if call == nil || len(call.Args) == 0 {
				return true
			}
			cf := calleeOf(info, call)
			if cf == nil || cf.Name() != "Sprintf" {
				return true
			}
			lit, ok := ast.Unparen(call.Args[0]).(*ast.BasicLit)
			if !ok {
				return true
			}
			s, err := strconv.Unquote(lit.Value)
			if err != nil || !identFormat.MatchString(s) {
				return true
			}
			if _, isAssign := m.(*ast.AssignStmt); !isAssign {
				// reached again as the RHS of the assignment visited above: skip duplicates
				if seenFormatCall[call] {
					return true
				}
			}
			seenFormatCall[call] = true
			if strings.HasSuffix(s, "%d") || strings.HasSuffix(s, "_") {
				return true // ends in a digit / underscore: no user name does
			}
			n++
			ord[s]++
			cons := fn.id() + ":" + s + "#" + itoa(ord[s])
			prefix := s[:strings.Index(s, "%")]
			covered := ""
			for _, p := range reserved {
				if p != "" && strings.HasPrefix(prefix, p) {
					covered = p
				}
			}
			switch {
			case viaNamer[call] || (target != nil && namerVars[target]):
				r.ok(rule, cons, c.pos(call.Pos()), "")
			case covered != "":
				r.ok(rule, cons, c.pos(call.Pos()), "")
			case exceptions[cons] != "":
				r.exc(rule, cons, c.pos(call.Pos()), exceptions[cons])
			default:
				r.viol(rule, cons, c.pos(call.Pos()), fn.id()+" invents the name "+strconv.Quote(s)+", which neither ends in a digit or underscore, nor goes through the namer, nor starts with a prefix the namer reserves: a user identifier with that spelling is emitted unchanged and names a second entity")
			}
			return true
		})
	}
	r.inst(rule, n)
}

var seenFormatCall = map[*ast.CallExpr]bool{}

func init() {
	dumpers["genformat"] = func(c *Ctx, parts []string) {
		r := newReport("dump")
		for _, p := range []string{"glsl/internal/codegen", "hlsl/internal/codegen", "msl/internal/codegen"} {
			req := []string(nil)
			if strings.HasPrefix(p, "glsl") {
				req = []string{"gl_"}
			}
			c.runGenFormatReq(r, "names.genformat", p, nil, req)
		}
		for _, o := range r.Obs {
			println(o.Verdict, o.Construct, o.Pos)
		}
	}
}
