package main

import (
	"go/ast"
	"go/token"
	"go/types"
)

// epselect.agree (C05, C17): a backend option that names the entry point to
// compile has one meaning when it is empty. Where some loops over the module's
// entry points stop at the first one that passes the filter `opt == "" ||
// name == opt` (the reachable-set builder, the stage query) and others go on
// over every entry point that passes it, an empty selection on a module with
// several entry points declares the globals of the first and then writes a
// `main` for each - text that is not a program. Within one package every such
// filter must select the same set: if one site stops at the first match, none
// may continue.
func (c *Ctx) runEPSelectAgree(r *Report, rule, rel string) {
	type site struct {
		fn    *funcInfo
		pos   token.Pos
		first bool
		ord   int
	}
	var sites []site
	for _, fn := range c.allFuncs() {
		if fn.Pkg.Rel != rel || fn.Decl.Body == nil {
			continue
		}
		info := fn.Pkg.Info
		isOptEP := func(e ast.Expr) bool {
			sel, ok := ast.Unparen(e).(*ast.SelectorExpr)
			if !ok || sel.Sel.Name != "EntryPoint" {
				return false
			}
			v, ok := info.ObjectOf(sel.Sel).(*types.Var)
			return ok && v.IsField() && isStringType(v.Type())
		}
		// does cond compare the option with ""? with which operator?
		emptyCmp := func(cond ast.Expr) (token.Token, bool) {
			var op token.Token
			found := false
			ast.Inspect(cond, func(m ast.Node) bool {
				be, ok := m.(*ast.BinaryExpr)
				if !ok || (be.Op != token.EQL && be.Op != token.NEQ) {
					return true
				}
				for _, pair := range [][2]ast.Expr{{be.X, be.Y}, {be.Y, be.X}} {
					if lit, ok := ast.Unparen(pair[1]).(*ast.BasicLit); ok && lit.Value == `""` && isOptEP(pair[0]) {
						op, found = be.Op, true
					}
				}
				return true
			})
			return op, found
		}
		// the matched part leaves the loop unconditionally at its end
		endsLoop := func(list []ast.Stmt) bool {
			if n := len(list); n > 0 {
				switch x := list[n-1].(type) {
				case *ast.ReturnStmt:
					return true
				case *ast.BranchStmt:
					return x.Tok == token.BREAK
				}
			}
			return false
		}
		onlyContinue := func(b *ast.BlockStmt) bool {
			if len(b.List) != 1 {
				return false
			}
			br, ok := b.List[0].(*ast.BranchStmt)
			return ok && br.Tok == token.CONTINUE
		}
		ord := 0
		var visitLoop func(body *ast.BlockStmt)
		visitLoop = func(body *ast.BlockStmt) {
			for i, st := range body.List {
				ifs, ok := st.(*ast.IfStmt)
				if !ok {
					continue
				}
				op, ok := emptyCmp(ifs.Cond)
				if !ok {
					continue
				}
				if op == token.NEQ && !onlyContinue(ifs.Body) {
					continue // selects by name only; says nothing about the empty selection
				}
				ord++
				if op == token.EQL { // opt == "" || name == opt { matched }
					sites = append(sites, site{fn, ifs.Pos(), endsLoop(ifs.Body.List), ord})
				} else if onlyContinue(ifs.Body) { // opt != "" && name != opt { continue }; matched...
					sites = append(sites, site{fn, ifs.Pos(), endsLoop(body.List[i+1:]), ord})
				}
			}
		}
		ast.Inspect(fn.Decl.Body, func(m ast.Node) bool {
			switch x := m.(type) {
			case *ast.RangeStmt:
				visitLoop(x.Body)
			case *ast.ForStmt:
				visitLoop(x.Body)
			}
			return true
		})
	}
	anyFirst := false
	for _, s := range sites {
		if s.first {
			anyFirst = true
		}
	}
	for _, s := range sites {
		cons := s.fn.id() + ":filter#" + itoa(s.ord)
		if s.first || !anyFirst {
			r.ok(rule, cons, c.pos(s.pos), "")
		} else {
			r.viol(rule, cons, c.pos(s.pos), s.fn.id()+" goes on over every entry point that passes the empty-selection filter, while other functions of the package stop at the first: with no entry point selected and several in the module the parts of the output disagree about what is being compiled")
		}
	}
	r.inst(rule, len(sites))
}

func init() {
	dumpers["epselect"] = func(c *Ctx, parts []string) {
		for _, rel := range []string{"glsl/internal/codegen", "hlsl/internal/codegen", "msl/internal/codegen", "spirv/internal/codegen", "dxil/internal/emit", "hlsl", "msl", "glsl", "spirv", "dxil"} {
			r := newReport("dump")
			c.runEPSelectAgree(r, "epselect.agree", rel)
			for _, o := range r.Obs {
				println(rel, o.Verdict, o.Construct, o.Pos)
			}
		}
	}
}
