package main

import (
	"go/ast"
	"go/types"
	"strings"
)

// memo.skipkey (C01): the SPIR-V emitter keeps sets of expression handles
// (map[ir.ExpressionHandle]bool fields) that an expression-kind handler tests
// on its operand - `if set[x.Base] { take the short path }` - to skip emitting
// instructions into the current block. Such a set may only ever receive the
// handle of the expression being emitted by such a handler (its own
// ExpressionHandle parameter): a helper that records some other expression -
// the operand itself - makes a later handler skip instructions that were
// emitted in a block which need not dominate it (the spill store of a by-value
// array was emitted in one arm of an if and skipped in the other).
func (c *Ctx) runMemoSkipKey(r *Report, rule string, inPkg func(string) bool) {
	type setInfo struct{ tested bool }
	sets := map[*types.Var]*setInfo{}
	isSet := func(t types.Type) bool {
		m, ok := t.Underlying().(*types.Map)
		if !ok {
			return false
		}
		b, ok := m.Elem().Underlying().(*types.Basic)
		return ok && b.Kind() == types.Bool && irTypeName(m.Key()) == "ExpressionHandle"
	}
	exprKindParam := func(sig *types.Signature) *types.Var {
		for i := 0; i < sig.Params().Len(); i++ {
			if n := irTypeName(sig.Params().At(i).Type()); strings.HasPrefix(n, "Expr") && n != "ExpressionHandle" && n != "Expression" {
				return sig.Params().At(i)
			}
		}
		return nil
	}
	fieldOf := func(info *types.Info, e ast.Expr) *types.Var {
		sel, ok := ast.Unparen(e).(*ast.SelectorExpr)
		if !ok {
			return nil
		}
		s := info.Selections[sel]
		if s == nil || s.Kind() != types.FieldVal {
			return nil
		}
		v, _ := s.Obj().(*types.Var)
		if v == nil || !isSet(v.Type()) {
			return nil
		}
		return v
	}
	// pass 1: sets tested on <kindParam>.<Operand> in an if condition
	for _, fn := range c.allFuncs() {
		if !inPkg(fn.Pkg.Rel) || fn.Obj == nil || fn.Decl.Body == nil {
			continue
		}
		kp := exprKindParam(fn.Obj.Type().(*types.Signature))
		if kp == nil {
			continue
		}
		info := fn.Pkg.Info
		ast.Inspect(fn.Decl.Body, func(m ast.Node) bool {
			is, ok := m.(*ast.IfStmt)
			if !ok {
				return true
			}
			ast.Inspect(is.Cond, func(k ast.Node) bool {
				ix, ok := k.(*ast.IndexExpr)
				if !ok {
					return true
				}
				v := fieldOf(info, ix.X)
				if v == nil {
					return true
				}
				if se, ok := ast.Unparen(ix.Index).(*ast.SelectorExpr); ok {
					if id, ok := ast.Unparen(se.X).(*ast.Ident); ok && info.ObjectOf(id) == kp {
						if sets[v] == nil {
							sets[v] = &setInfo{}
						}
						sets[v].tested = true
					}
				}
				return true
			})
			return true
		})
	}
	r.inst("memo.skipSets", len(sets))
	// pass 2: every store into such a set
	n := 0
	for _, fn := range c.allFuncs() {
		if !inPkg(fn.Pkg.Rel) || fn.Obj == nil || fn.Decl.Body == nil {
			continue
		}
		info := fn.Pkg.Info
		sig := fn.Obj.Type().(*types.Signature)
		kp := exprKindParam(sig)
		ord := map[string]int{}
		ast.Inspect(fn.Decl.Body, func(m ast.Node) bool {
			as, ok := m.(*ast.AssignStmt)
			if !ok {
				return true
			}
			for _, l := range as.Lhs {
				ix, ok := l.(*ast.IndexExpr)
				if !ok {
					continue
				}
				v := fieldOf(info, ix.X)
				if v == nil || sets[v] == nil {
					continue
				}
				n++
				ord[v.Name()]++
				cons := fn.id() + ":" + v.Name() + "#" + itoa(ord[v.Name()])
				good := false
				if id, ok := ast.Unparen(ix.Index).(*ast.Ident); ok && kp != nil {
					if p, ok := info.ObjectOf(id).(*types.Var); ok && irTypeName(p.Type()) == "ExpressionHandle" {
						for i := 0; i < sig.Params().Len(); i++ {
							if sig.Params().At(i) == p {
								good = true
							}
						}
					}
				}
				if good {
					r.ok(rule, cons, c.pos(as.Pos()), "")
				} else {
					r.viol(rule, cons, c.pos(as.Pos()), fn.id()+" records "+types.ExprString(ix.Index)+" in "+v.Name()+", a set that expression handlers test on their operand to skip emitting instructions; only the handle of the expression a handler is emitting may enter it - recording another expression makes a later handler skip code emitted in a block that need not dominate it")
				}
			}
			return true
		})
	}
	r.inst(rule, n)
}

func init() {
	dumpers["skipkey"] = func(c *Ctx, parts []string) {
		r := newReport("dump")
		c.runMemoSkipKey(r, "memo.skipkey", func(string) bool { return true })
		for _, o := range r.Obs {
			println(o.Verdict, o.Construct, o.Pos, o.Msg)
		}
	}
}
