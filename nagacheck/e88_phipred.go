package main

import (
	"go/ast"
	"go/token"
	"go/types"
	"sort"
)

// phi.predecessor (C02): OpPhi carries exactly one (value, parent) pair for
// each predecessor of its block, and the parent is the label of the block that
// holds the branch. In an emitter that builds an OpPhi in the block it opens
// last, every block it closes with a branch to that block must have recorded
// its own label - read from currentBlock while that block is still current,
// i.e. after the setCurrentBlock that opened it and before the consumeBlock
// that closes it - exactly once into the list the OpPhi operands come from. A
// label read after the next block was opened names a block that is not a
// predecessor (or names one twice) and leaves the real predecessor out.
func (c *Ctx) runPhiPredecessor(r *Report, rule, rel string) {
	n := 0
	for _, fn := range c.allFuncs() {
		if fn.Pkg.Rel != rel || fn.Decl.Body == nil {
			continue
		}
		info := fn.Pkg.Info
		var phiBuild *ast.CallExpr
		ast.Inspect(fn.Decl.Body, func(m ast.Node) bool {
			call, ok := m.(*ast.CallExpr)
			if !ok || len(call.Args) != 1 {
				return true
			}
			if sel, ok := call.Fun.(*ast.SelectorExpr); !ok || sel.Sel.Name != "Build" {
				return true
			}
			if id, ok := ast.Unparen(call.Args[0]).(*ast.Ident); ok {
				if k, ok := info.ObjectOf(id).(*types.Const); ok && k.Name() == "OpPhi" {
					phiBuild = call
				}
			}
			return true
		})
		if phiBuild == nil {
			continue
		}
		type event struct {
			pos  token.Pos
			kind byte // 'S' setCurrentBlock, 'C' consumeBlock, 'E' label recorded
			call *ast.CallExpr
		}
		var evs []event
		// locals that hold a label read and are later appended
		appended := map[types.Object]bool{}
		var appends []*ast.CallExpr
		ast.Inspect(fn.Decl.Body, func(m ast.Node) bool {
			call, ok := m.(*ast.CallExpr)
			if !ok {
				return true
			}
			if id, ok := call.Fun.(*ast.Ident); ok && id.Name == "append" {
				if _, isB := info.ObjectOf(id).(*types.Builtin); isB {
					appends = append(appends, call)
					for _, a := range call.Args[1:] {
						ast.Inspect(a, func(k ast.Node) bool {
							if id, ok := k.(*ast.Ident); ok {
								if v, ok := info.ObjectOf(id).(*types.Var); ok {
									appended[v] = true
								}
							}
							return true
						})
					}
				}
				return true
			}
			if f := calleeOf(info, call); f != nil {
				switch f.Name() {
				case "setCurrentBlock":
					evs = append(evs, event{call.Pos(), 'S', call})
				case "consumeBlock":
					evs = append(evs, event{call.Pos(), 'C', call})
				}
			}
			return true
		})
		isLabelRead := func(e ast.Node) bool {
			sel, ok := e.(*ast.SelectorExpr)
			if !ok || sel.Sel.Name != "LabelID" {
				return false
			}
			in, ok := ast.Unparen(sel.X).(*ast.SelectorExpr)
			return ok && in.Sel.Name == "currentBlock"
		}
		inAppend := func(p token.Pos) bool {
			for _, a := range appends {
				if a.Pos() <= p && p < a.End() {
					return true
				}
			}
			return false
		}
		ast.Inspect(fn.Decl.Body, func(m ast.Node) bool {
			switch x := m.(type) {
			case *ast.SelectorExpr:
				if isLabelRead(x) && inAppend(x.Pos()) {
					evs = append(evs, event{x.Pos(), 'E', nil})
					return false
				}
			case *ast.AssignStmt:
				if len(x.Lhs) == 1 && len(x.Rhs) == 1 && isLabelRead(ast.Unparen(x.Rhs[0])) {
					if id, ok := x.Lhs[0].(*ast.Ident); ok {
						if v, ok := info.ObjectOf(id).(*types.Var); ok && appended[v] {
							evs = append(evs, event{x.Pos(), 'E', nil})
						}
					}
					return false
				}
			}
			return true
		})
		sort.Slice(evs, func(i, j int) bool { return evs[i].pos < evs[j].pos })
		// the merge label: LabelID of the block opened last before the OpPhi
		var merge types.Object
		for i := len(evs) - 1; i >= 0; i-- {
			if evs[i].kind != 'S' || evs[i].pos > phiBuild.Pos() || len(evs[i].call.Args) != 1 {
				continue
			}
			merge = c.blockLabelOf(fn, evs[i].call.Args[0])
			break
		}
		if merge == nil {
			r.undecided(rule, fn.id()+":merge", c.pos(phiBuild.Pos()), "the block that holds the OpPhi is not opened from a Block literal with a named label")
			n++
			continue
		}
		ord := 0
		for i, ev := range evs {
			if ev.kind != 'C' || ev.pos > phiBuild.Pos() || len(ev.call.Args) != 1 {
				continue
			}
			if !mentionsObjs(info, ev.call.Args[0], map[types.Object]bool{merge: true}) {
				continue
			}
			ord++
			n++
			cons := fn.id() + ":branch-to-" + merge.Name() + "#" + itoa(ord)
			cnt := 0
			for j := i - 1; j >= 0 && evs[j].kind != 'S'; j-- {
				if evs[j].kind == 'E' {
					cnt++
				}
			}
			switch cnt {
			case 1:
				r.ok(rule, cons, c.pos(ev.pos), "")
			case 0:
				r.viol(rule, cons, c.pos(ev.pos), fn.id()+" closes a block with a branch to "+merge.Name()+", the block of its OpPhi, without having recorded that block's label while it was current: the OpPhi has no parent operand for this predecessor")
			default:
				r.viol(rule, cons, c.pos(ev.pos), fn.id()+" records the label of the block it closes with a branch to "+merge.Name()+" "+itoa(cnt)+" times: OpPhi takes exactly one parent operand per predecessor")
			}
		}
	}
	r.inst(rule, n)
}

// blockLabelOf resolves the argument of setCurrentBlock to the variable that
// is the LabelID of the Block literal (directly, or through one local).
func (c *Ctx) blockLabelOf(fn *funcInfo, arg ast.Expr) types.Object {
	info := fn.Pkg.Info
	lit := func(e ast.Expr) types.Object {
		if u, ok := ast.Unparen(e).(*ast.UnaryExpr); ok && u.Op == token.AND {
			e = u.X
		}
		cl, ok := ast.Unparen(e).(*ast.CompositeLit)
		if !ok {
			return nil
		}
		for _, el := range cl.Elts {
			if kv, ok := el.(*ast.KeyValueExpr); ok {
				if k, ok := kv.Key.(*ast.Ident); ok && k.Name == "LabelID" {
					if id, ok := ast.Unparen(kv.Value).(*ast.Ident); ok {
						return info.ObjectOf(id)
					}
				}
			}
		}
		return nil
	}
	if o := lit(arg); o != nil {
		return o
	}
	id, ok := ast.Unparen(arg).(*ast.Ident)
	if !ok {
		return nil
	}
	v := info.ObjectOf(id)
	var out types.Object
	ast.Inspect(fn.Decl.Body, func(m ast.Node) bool {
		as, ok := m.(*ast.AssignStmt)
		if !ok || len(as.Lhs) != 1 || len(as.Rhs) != 1 {
			return true
		}
		if l, ok := as.Lhs[0].(*ast.Ident); ok && info.ObjectOf(l) == v {
			if o := lit(as.Rhs[0]); o != nil {
				out = o
			}
		}
		return true
	})
	return out
}

func init() {
	dumpers["phipred"] = func(c *Ctx, parts []string) {
		r := newReport("dump")
		c.runPhiPredecessor(r, "phi.predecessor", "spirv/internal/codegen")
		for _, o := range r.Obs {
			println(o.Verdict, o.Construct, o.Pos, o.Msg)
		}
	}
}
