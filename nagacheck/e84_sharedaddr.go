package main

import (
	"go/ast"
	"go/token"
	"go/types"
	"sort"
)

// ptr.sharedaddr (C06, C09, C13): IR nodes carry optional operands as
// *ExpressionHandle. Two such pointers must not be the address of the same
// local variable when that variable is assigned in between: both then see the
// last value (`compArg1 = &h; h = ...; compArg2 = &h` makes clamp(e, lo, hi)
// fold as clamp(e, hi, hi)). For every local variable of a handle type whose
// address is taken at two or more sites of one function, no assignment to the
// variable may lie between two of the sites (in source order, loops unrolled
// once: a single site inside a loop whose variable is declared outside the
// loop counts as two).
func (c *Ctx) runSharedAddr(r *Report, rule string, inPkg func(string) bool) {
	n := 0
	for _, fn := range c.allFuncs() {
		if !inPkg(fn.Pkg.Rel) || fn.Obj == nil || fn.Decl.Body == nil {
			continue
		}
		info := fn.Pkg.Info
		type ev struct {
			pos  token.Pos
			addr bool
		}
		events := map[types.Object][]ev{}
		ast.Inspect(fn.Decl.Body, func(m ast.Node) bool {
			switch x := m.(type) {
			case *ast.UnaryExpr:
				if x.Op == token.AND {
					if id, ok := ast.Unparen(x.X).(*ast.Ident); ok {
						if o, ok := info.ObjectOf(id).(*types.Var); ok && !o.IsField() && isHandleType(o.Type()) {
							events[o] = append(events[o], ev{x.Pos(), true})
						}
					}
				}
			case *ast.AssignStmt:
				if x.Tok == token.DEFINE {
					return true
				}
				for _, l := range x.Lhs {
					if id, ok := l.(*ast.Ident); ok {
						if o, ok := info.ObjectOf(id).(*types.Var); ok && isHandleType(o.Type()) {
							events[o] = append(events[o], ev{x.Pos(), false})
						}
					}
				}
			}
			return true
		})
		var objs []types.Object
		for o := range events {
			objs = append(objs, o)
		}
		sort.Slice(objs, func(i, j int) bool { return objs[i].Pos() < objs[j].Pos() })
		for _, o := range objs {
			es := events[o]
			sort.Slice(es, func(i, j int) bool { return es[i].pos < es[j].pos })
			addrs := 0
			for _, e := range es {
				if e.addr {
					addrs++
				}
			}
			if addrs < 2 {
				continue
			}
			n++
			cons := fn.id() + ":&" + o.Name()
			bad := token.NoPos
			seenAddr := false
			assignedSince := false
			for _, e := range es {
				if e.addr {
					if seenAddr && assignedSince {
						bad = e.pos
					}
					seenAddr = true
					assignedSince = false
				} else if seenAddr {
					assignedSince = true
				}
			}
			if bad.IsValid() {
				r.viol(rule, cons, c.pos(bad), fn.id()+" takes the address of "+o.Name()+" twice with an assignment to "+o.Name()+" in between: both pointers refer to one cell and see the last value")
			} else {
				r.ok(rule, cons, c.pos(o.Pos()), "")
			}
		}
	}
	r.inst(rule, n)
}

func isHandleType(t types.Type) bool {
	n := irTypeName(t)
	return len(n) > 6 && n[len(n)-6:] == "Handle"
}

func init() {
	dumpers["sharedaddr"] = func(c *Ctx, parts []string) {
		r := newReport("dump")
		c.runSharedAddr(r, "ptr.sharedaddr", func(string) bool { return true })
		nOK := 0
		for _, o := range r.Obs {
			if o.Verdict == "ok" {
				nOK++
				continue
			}
			println(o.Verdict, o.Construct, o.Pos)
		}
		println("ok", nOK)
	}
}
