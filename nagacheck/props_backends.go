package main

// Backend "operand consumption": an emitter that dispatches on every node kind
// and reads all operand handles of >=3/4 of them must read every operand of
// every kind: an operand that is never read cannot influence the output, so the
// emitted code cannot compute what the node means.

type backendSpec struct {
	Prop    string
	Name    string
	Pkg     string
	Entries []string
	Scopes  []resetScope
	Exc     []walkException
}

const bakeReason = "reference-count / bake heuristic only: Load, ImageSample, ImageLoad and Derivative are always baked, every other expression is pure, so an under-counted reference merely leaves a pure expression inlined (text differs, meaning does not)"

var backendSpecs = []backendSpec{
	{Prop: "C03", Name: "hlsl", Pkg: "hlsl/internal/codegen", Entries: []string{"hlsl.Compile"}, Scopes: writerResetScopes["hlsl"], Exc: []walkException{
		{"hlsl/internal/codegen.Writer.updateExpressionsToBake/ExpressionKind", "*", bakeReason},
	}},
	{Prop: "C04", Name: "msl", Pkg: "msl/internal/codegen", Entries: []string{"msl.Compile"}, Scopes: writerResetScopes["msl"], Exc: []walkException{
		{"msl/internal/codegen.exprRefs/ExpressionKind", "*", bakeReason},
		{"msl/internal/codegen.Writer.countStmtExprRefs/StatementKind", "*", bakeReason},
	}},
	{Prop: "C05", Name: "glsl", Pkg: "glsl/internal/codegen", Entries: []string{"glsl.Compile"}, Scopes: writerResetScopes["glsl"], Exc: []walkException{
		{"glsl/internal/codegen.Writer.scanNeedBakeExpressions/ExpressionKind", "*", bakeReason},
		{"glsl/internal/codegen.Writer.writeExpressionKind/ExpressionKind", "ExprRayQueryGetIntersection", "GLSL cannot express ray queries; the backend emits a placeholder comment for them (outside the property's 'programs GLSL can express')"},
		{"glsl/internal/codegen.Writer.writeStatementKind/StatementKind", "StmtRayQuery", "GLSL cannot express ray queries; the backend emits a placeholder comment for them (outside the property's 'programs GLSL can express')"},
	}},
	{Prop: "C01", Name: "spirv", Pkg: "spirv/internal/codegen", Entries: []string{"spirv/internal/codegen.Backend.Compile"}},
}

func (c *Ctx) runBackendWalk(r *Report, b backendSpec) {
	ents := c.entries(r, b.Entries...)
	reach := c.reach(ents...)
	c.runWalkAll(r, "operands", b.Name, inPkgs(b.Pkg), reachFilter(reach), true, true, b.Exc)
	if len(b.Scopes) > 0 {
		c.runResetScopes(r, b.Scopes)
	}
}

const indexLenClause = "indexable length (E13): every type switch that maps array -> Size, vector -> Size and has a matrix arm (the number of elements a dynamic index may address, which the bounds-check policies clamp against) reads Columns - never Rows - in its matrix arm"

const guardAgreeClause = "guard agreement (E14): a variable assigned at several sites of one function, each directly under an `== <enum constant>` test (the recorded name of the local_invocation_id / vertex_index / instance_index parameter for direct builtin arguments and for builtin struct members), is assigned under the same constant at every site"

const resolutionClause = "type resolution forms (E21): code that branches on the two forms of one ir.TypeResolution (inline Value vs Handle into Module.Types) and inspects the type in both branches recognises the same type shapes (scalar, vector, matrix ...) in both"

const recursionDepthClause = "nesting depth (E26): a self-recursive writer that uses an int parameter to spell a per-level generated name (loop variables of the zero-initialisation loops) or as a recursion bound passes a changed depth at every self-call made at a level that has used it - otherwise the inner loop variable shadows the outer one and only the diagonal of a nested array is written"

const orderClause = "operand order (E12): wherever a value derived only from the left operand of a binary expression (.Left of a node that has both fields, or the first of the two operand parameters of a function that also takes the operator) and one derived only from the right operand are handed on together - two arguments of a call, two elements of a positional literal, the Left/Right fields of a keyed literal, two consecutive text emissions - the left-derived one comes first; the sites that mirror the operands on purpose (HLSL mul, OpMatrixTimesScalar / OpVectorTimesScalar with a scalar on the left) are counted and must stay mirrored"

var orderFloors = map[string]int{"hlsl": 6, "msl": 7, "glsl": 25, "spirv": 15, "wgsl": 9, "ir": 5}

func backendProp(b backendSpec, meaning string) propFunc {
	return func(c *Ctx, r *Report) {
		r.Clauses = append(r.Clauses,
			"operand consumption (E3): every emitter of the "+b.Name+" backend that dispatches on IR node kinds and reads all operand handles of >=3/4 of them reads every operand handle of every kind the frontend can produce, and recurses into every nested block (an operand that is never read cannot influence the output); every handle remapper of the backend (functions that rebuild an expression arena, e.g. pipeline-constant substitution) rewrites every handle field of every node kind",
			"per-function writer state (E5): every Writer field written only while a function / entry point is being written is re-initialised in the prologue of that function's writer")
		r.NotDecided = append(r.NotDecided, meaning)
		c.runBackendWalk(r, b)
		r.Clauses = append(r.Clauses, "operator tokens (E2): in every dispatcher over all binary / unary operators of the "+b.Name+" backend the infix operator tokens and function-style spellings found in each arm's string literals are allowed for that operator in the target language, and each arm that prints a literal contains an allowed token")
		c.runOperatorTokens(r, "opsel.tokens", b.Pkg, "BinaryOperator", textBinaryTokens, textBinaryCalls)
		c.runOperatorTokens(r, "opsel.tokens", b.Pkg, "UnaryOperator", textUnaryTokens, textUnaryCalls)
		r.Clauses = append(r.Clauses, "math builtin names (E2): in the dispatcher over ir.MathFunction that selects the target builtin, the known "+b.Name+" builtins spelled in each arm are the builtin whose specified semantics equal the WGSL builtin's (reference table written from the language specifications), e.g. round -> rint / roundEven / round")
		c.runMathNames(r, "mathsel.names", b.Name, b.Pkg, 30)
		r.Clauses = append(r.Clauses, orderClause)
		c.runOperandOrder(r, "order."+b.Name, inPkgs(b.Name))
		r.floor("order."+b.Name, orderFloors[b.Name])
		if b.Name == "hlsl" {
			r.Clauses = append(r.Clauses, "width-blind scalar names (E22): every call of a helper that names integer scalars without looking at their width (right only for the float scalar of a matrix) - directly or through a wrapper that forwards its ScalarType parameter - passes the Scalar of an ir.MatrixType value or a float scalar literal; 64-bit integer scalars and vectors are never named through it")
			c.runScalarNarrow(r, "scalar.narrow", "hlsl/internal/codegen")
			r.floor("scalar.narrow.sites", 3)
		}
		if b.Name == "glsl" {
			r.Clauses = append(r.Clauses, resolutionClause)
			c.runResolutionSiblings(r, "resolution.siblings", inPkgs("glsl"), nil)
			r.floor("resolution.siblings", 4)
		}
		if b.Name == "hlsl" {
			r.Clauses = append(r.Clauses, "helpers written once (E49): in a helper writer that runs once per function and keeps written-sets in the writer, no written-set (lookup; continue when present; insert; emit) is a map local to the call")
			c.runHelperDedupScope(r, "helper.dedupscope", inPkgs("hlsl"))
			r.floor("helper.dedupscope", 5)
			r.Clauses = append(r.Clauses, "texel subscripts (E49): an HLSL writer function that writes the ArrayIndex operand of an image operation composes it with the coordinate in a vector constructor (or calls the coordinate helper that does)")
			c.runImageCoordMerge(r, "image.coordmerge", "hlsl/internal/codegen")
			r.floor("image.coordmerge", 2)
			r.Clauses = append(r.Clauses, "workgroup size products (E50): a product of three or more factors drawn from the elements of one three-element array uses each index exactly once", "declarator extents (E50): a self-recursive function that prints one [extent] per array level prints its own extent before recursing into the element type")
			c.runDimsProduct(r, "dims.product", inPkgs("hlsl"))
			r.floor("dims.product", 1)
			c.runExtentOrder(r, "array.extentorder", inPkgs("hlsl"))
			r.floor("array.extentorder", 1)
		}
		if b.Name == "glsl" {
			r.Clauses = append(r.Clauses, "sampler precision (E49): every GLSL declaration of a combined sampler uniform has the precision slot (\"uniform %s%s\") the ES flag fills with highp")
			c.runSamplerPrecision(r, "glsl.samplerprecision", "glsl/internal/codegen")
			r.floor("glsl.samplerprecision", 2)
			r.Clauses = append(r.Clauses, "declarator extents (E50): a self-recursive function that prints one [extent] per array level prints its own extent before recursing into the element type")
			c.runExtentOrder(r, "array.extentorder", inPkgs("glsl"))
			r.floor("array.extentorder", 1)
		}
		r.Clauses = append(r.Clauses, irFieldReadClause)
		c.runIRFieldRead(r, "irfield.read", b.Name, irFieldReadExceptions)
		r.floor("irfield.read."+b.Name, 90)
		c.runIRFieldReadSel(r, "irfield.decl", b.Name, irFieldReadExceptions, irDeclStructs)
		r.floor("irfield.decl."+b.Name, 25)
		r.Clauses = append(r.Clauses, "break-if in the scope of the continuing block (E98): a loop writer does not hand the continuing block to a block writer that drops the block's baked names at its end and write the break-if condition afterwards - the condition would be expanded again from its operands, after the continuing block's assignments")
		c.runUnemitBeforeUse(r, "scope.unemitbeforeuse", b.Pkg)
		r.floor("scope.unemitbeforeuse", 1)
		if b.Name == "hlsl" {
			r.Clauses = append(r.Clauses, missReportedClause)
			c.runMissReported(r, "bindmap.missreported", b.Pkg)
			r.floor("bindmap.missreported", 1)
		}
		if b.Name == "glsl" {
			r.Clauses = append(r.Clauses, "no glued signs (E93): where the GLSL writer puts a sign directly before substituted expression text (\"-%s\", \"-\" + text), the same function looks at how that text starts (strings.HasPrefix) - \"-\" before \"-5\" is the decrement operator")
			c.runPrefixGlue(r, "parens.prefixglue", b.Pkg)
		}
		if b.Name == "glsl" || b.Name == "hlsl" {
			r.Clauses = append(r.Clauses, epSelectClause)
			c.runEPSelectAgree(r, "epselect.agree", b.Pkg)
			r.floor("epselect.agree", 1)
		}
		if b.Name == "glsl" || b.Name == "hlsl" || b.Name == "msl" {
			r.Clauses = append(r.Clauses, "textures as arguments (E65): a function that answers which image type an expression has by looking for the global variable behind it also answers for a function argument (an arm for ExprFunctionArgument, the expression's resolved type, or a callee that does)")
			c.runImageTypeViaGlobal(r, "imagetype.viaglobal", inPkgs(b.Name))
			r.floor("imagetype.viaglobal", 1)
		}
		r.Clauses = append(r.Clauses, "no silent literal (E73): a type switch over IR expression kinds that renders text does not answer the kinds it has no arm for with a fixed literal (\"0\", \"{}\") and no error")
		c.runSilentLiteralArm(r, "dispatch.silentliteral", inPkgs(b.Name), nil)
		if b.Name != "spirv" {
			r.Clauses = append(r.Clauses, "emitted loop bounds (E86): the bound printed into a `for (...; i < %d; ...)` literal is not a Go compile-time constant")
			c.runEmitLoopBound(r, "emit.loopbound", inPkgs(b.Name))
			r.floor("emit.loopbound", 1)
		}
		r.Clauses = append(r.Clauses, shallowWalkerClause)
		c.runShallowWalker(r, "walker.shallow", inPkgs(b.Name), shallowWalkerExceptions)
		r.floor("walker.shallow", 2)
		r.Clauses = append(r.Clauses, argsRoleClause)
		c.runArgsNameRole(r, "args.namerole", inPkgs(b.Name))
		r.floor("args.namerole", 5)
		r.Clauses = append(r.Clauses, typeTextClause)
		c.runTypeByText(r, "type.bytext", inPkgs(b.Name))
		r.floor("type.renderedNames", 10)
		r.Clauses = append(r.Clauses, recursionDepthClause)
		c.runRecursionDepth(r, "recursion.depth", inPkgs(b.Name))
		r.floor("recursion.depth", 1)
		r.Clauses = append(r.Clauses, enumMapClause)
		c.runEnumTables(r, b.Name)
		r.Clauses = append(r.Clauses, "termination predicate (E15): the predicate over a block's last statement that decides whether a switch clause needs a closing break answers true only for Break/Continue/Return/Kill, for a trailing nested block what it answers for that block, for a trailing if only when both arms are terminated")
		c.runTerminatorPredicates(r, "term.lastonly", inPkgs(b.Name))
		r.floor("term.predicates", 1)
		if b.Name == "msl" {
			r.Clauses = append(r.Clauses, "parenthesisation (E30): the predicates that decide whether a child expression is wrapped in parentheses (recognised by guarding the emission of \"(\") agree on the set of loosely rendered expression kinds (Binary, Select, ArrayLength); and wherever the base of an access / access-index or the vector of a swizzle is written and the next emitted text is a postfix operator, such a predicate is asked about that child first, or the child is known to be a pointer")
			c.runParenSiblings(r, "parens.siblings", inPkgs("msl"))
			r.floor("parens.siblings", 4)
			c.runParenPostfix(r, "parens.postfix", inPkgs("msl"), parenPostfixExceptions)
			r.floor("parens.postfix", 8)
			r.Clauses = append(r.Clauses, "names already written (E30): a paren predicate concludes that a child is written as a name only from the writer's own table of emitted names, never from the IR's NamedExpressions table")
			c.runParenBakedOnly(r, "parens.bakedonly", inPkgs("msl"))
			r.floor("parens.bakedonly", 2)
			r.Clauses = append(r.Clauses, boundsStrictClause)
			c.runBoundsStrict(r, "bounds.strict", inPkgs("msl"))
			r.floor("bounds.strict", 4)
			r.Clauses = append(r.Clauses, runtimeArrClause)
			c.runRuntimeArrayShapes(r, "runtimearray.shapes", inPkgs("msl"))
			r.floor("runtimearray.shapes", 1)
			r.Clauses = append(r.Clauses, memberKeyClause)
			c.runMemberKeyAgree(r, "member.keyagree", "msl/internal/codegen")
			r.floor("member.keyagree", 5)
			r.Clauses = append(r.Clauses, guardAgreeClause)
			c.runGuardAgree(r, "guard.agree", inPkgs("msl"))
			r.floor("guard.agree", 3)
		}
		if b.Name == "hlsl" {
			r.Clauses = append(r.Clauses, "array declarations (E55): a declaration (type text, blank, declared name) of a module-scope variable, local variable, constant, struct member or function result takes its type text from the function that splits off the array suffix and prints that suffix after the name - never the whole text `T[N]` before the name")
			c.runDeclArraySuffix(r, "decl.arraysuffix", "hlsl/internal/codegen", nil)
			r.floor("decl.splitSuffixSites", 12)
			r.Clauses = append(r.Clauses, "column stride (E25): the byte stride used to address a matrix column in a buffer is the alignment factor of a vector with Rows components (never Columns)")
			c.runColStride(r, "layout.colstride", inPkgs("hlsl"))
			r.floor("layout.colstride", 3)
			r.Clauses = append(r.Clauses, colVecClause)
			c.runColVec(r, "shape.colvec", inPkgs("hlsl", "ir"))
			r.floor("shape.colvec", 5)
		}
		if b.Name == "glsl" {
			r.Clauses = append(r.Clauses, "image coordinates (E49): every function that writes the Coordinate operand of a storage-image access (load, store, atomic) takes the coordinate text from the one function that merges the layer and converts unsigned to signed")
			c.runImageCoordBuilder(r, "image.coordbuilder", "glsl/internal/codegen")
			r.floor("image.coordbuilder", 3)
			r.floor("image.coordHelpers", 1)
			r.Clauses = append(r.Clauses, builtinDirClause)
			c.runBuiltinDirection(r, "builtin.direction", inPkgs("glsl"))
			r.floor("builtin.direction", 2)
			r.Clauses = append(r.Clauses, "self-delimiting expression text (E30): the GLSL writer composes expression text by substitution, so a format literal returned by a (string, error) function over an expression kind has no binary or ternary operator outside every pair of brackets")
			c.runLooseFormat(r, "parens.looseformat", "glsl/internal/codegen", nil)
			r.floor("parens.looseformat", 100)
		}
		if b.Name == "glsl" || b.Name == "hlsl" {
			r.Clauses = append(r.Clauses, "continue forwarding (E57): where a continue may be rendered as `flag = true; break;`, every function that writes the case bodies of a switch enters the forwarding context and leaves it with exitSwitch, so the break is repeated after a nested switch")
			c.runContinueForwardNest(r, "continue.forwardnest", inPkgs(b.Name))
			r.floor("continue.forwardnest", 1)
			r.Clauses = append(r.Clauses, "bit-scan polyfills (E33): where a string literal spells min(K, firstbitlow/findLSB(x)), K - firstbithigh/findMSB(x) or ((ctz(x)+1) % K) - 1, K is 32, 31 and 33 respectively (countTrailingZeros(0) = 32, countLeadingZeros = 31 - msb)")
			c.runBitscanWidth(r, "bitscan.width", inPkgs(b.Name))
			r.floor("bitscan.width", 2)
		}
		if b.Name == "glsl" || b.Name == "msl" {
			r.Clauses = append(r.Clauses, "vector select (E56): the writer of ir.ExprSelect that spells the ?: operator first branches (with an early return) on something computed from the condition operand other than its text - in GLSL and MSL ?: takes a scalar bool only")
			c.runSelectCondShape(r, "select.condshape", inPkgs(b.Name))
			r.floor("select.condshape", 1)
			r.Clauses = append(r.Clauses, depthLikeClause)
			c.runDepthLike(r, "image.depthlike", inPkgs(b.Name))
			r.floor("image.depthlike", 1)
		}
		if b.Name == "hlsl" || b.Name == "msl" {
			r.Clauses = append(r.Clauses, "one class, one treatment (E64): the two address spaces that are one storage class (PushConstant and Immediate - the two WGSL spellings of the same thing, as the SPIR-V space-to-class function shows) appear together in every switch over / comparison with the address space")
			c.runSpaceSameClassIn(r, "space.sameclass", "spirv/internal/codegen", b.Name+"/internal/codegen", nil)
			r.floor("space.sameclass", 1)
			r.Clauses = append(r.Clauses, indexLenClause)
			c.runIndexLen(r, "shape.indexlen", inPkgs(b.Name))
			r.floor("shape.indexlen", 1)
		}
		r.floor("mathsel."+b.Name, 45)
		r.floor("optokens."+b.Pkg+".BinaryOperator", 18)
		r.floor("optokens."+b.Pkg+".UnaryOperator", 3)
		r.floor(b.Name+".ExpressionHandle.walkers", 2)
		r.floor(b.Name+".Block.walkers", 3)
	}
}

func init() {
	notDecided := "which operand kinds take which spelling, argument order, parenthesisation, byte offsets, baking order, anything data-dependent: that the emitted text computes the WGSL result"
	for _, b := range backendSpecs {
		if b.Prop != "C01" {
			register(b.Prop, backendProp(b, notDecided))
		}
	}
	for _, b := range backendSpecs {
		b := b
		dumpers["backend-"+b.Name] = func(c *Ctx, parts []string) {
			r := newReport("dump")
			c.runBackendWalk(r, b)
			for _, o := range r.Obs {
				if o.Verdict != OK {
					println(o.Verdict, o.Rule, o.Construct, o.Pos, o.Msg)
				}
			}
			for k, v := range r.Instances {
				println("  inst", k, v)
			}
		}
	}
}

var parenPostfixExceptions = map[string]string{
	"msl/internal/codegen.Writer.writeAccess:access.Base->.inner[#2":           "the base is a value of a wrapped array type (arrayWrappers lookup on its type handle); Binary, Select and ArrayLength expressions never have array type",
	"msl/internal/codegen.Writer.writeAccessIndex:access.Base->.inner[%d]#2": "the base is a value of a wrapped array type; Binary, Select and ArrayLength expressions never have array type",
	"msl/internal/codegen.Writer.writeAccessIndex:access.Base->[%d].inner#1": "the base is a binding array (isBindingArray); never a Binary / Select / ArrayLength expression",
}

const irFieldReadClause = "IR fields reach the output (E61): for every IR expression / statement kind the backend mentions, and for the declaration structs (GlobalVariable, LocalVariable, FunctionArgument, FunctionResult, StructMember, Override, SwitchCase, the scalar / vector / matrix / array / atomic / image / sampler types), each field is read somewhere in the backend - a field nobody reads cannot influence the output"

var resultPlaceholder = "result placeholder: the value is produced by the statement that names this expression as its Result (the statement's own Fun / Function / operands say the same thing)"

var irFieldReadExceptions = map[string]string{
	"spirv:EntryPoint.MeshInfo":    meshSkipped,
	"spirv:EntryPoint.TaskPayload": meshSkipped,
	"msl:EntryPoint.Workgroup":     "Metal takes the threadgroup size from the dispatch call; the shading language has no declaration for it (the size is returned to the caller through the IR)",
	"spirv:ExprAtomicResult.Comparison":         resultPlaceholder,
	"spirv:ExprCallResult.Function":             resultPlaceholder,
	"spirv:ExprSubgroupOperationResult.Type":    resultPlaceholder,
	"spirv:ExprRelational.Fun":                  "the SPIR-V emitter has no arm for ExprRelational at all (known finding of dispatch.reject under C08 and of the operand walker under C01); only a pre-scan mentions the type",
	"hlsl:ExprAtomicResult.Ty":                  resultPlaceholder,
	"hlsl:ExprAtomicResult.Comparison":          resultPlaceholder,
	"hlsl:ExprSubgroupOperationResult.Type":     resultPlaceholder,
	"hlsl:ExprOverride.Override":                "overrides are substituted by ir.ProcessOverrides before the HLSL writer runs; the only mention classifies the kind as uniform",
	"msl:ExprAtomicResult.Ty":                   resultPlaceholder,
	"msl:ExprAtomicResult.Comparison":           resultPlaceholder,
	"msl:ExprCallResult.Function":               resultPlaceholder,
	"msl:ExprSubgroupOperationResult.Type":      resultPlaceholder,
	"spirv:SamplerType.Comparison":              "SPIR-V has one OpTypeSampler; comparison sampling is chosen by the Dref image instructions, from ExprImageSample.DepthRef",
	"msl:SamplerType.Comparison":                "MSL has one sampler type; comparison sampling is chosen by sample_compare, from ExprImageSample.DepthRef",
	"hlsl:ImageType.StorageAccess":              "every storage texture is an RWTexture (as in Rust naga); the access mode only restricts what WGSL lets the program do",
	"msl:GlobalVariable.Access":                 "constness of a device buffer reference is derived from the uses of the variable, not from the declared access",
	"glsl:ArrayType.Stride":                     "GLSL has no stride syntax: element strides come from the block's std140 / std430 layout qualifier",
	"glsl:ExprAtomicResult.Ty":                  resultPlaceholder,
	"glsl:ExprAtomicResult.Comparison":          resultPlaceholder,
	"glsl:ExprSubgroupOperationResult.Type":     resultPlaceholder,
	"glsl:ExprRayQueryGetIntersection.Query":    "GLSL has no ray queries: any use needs a rayQueryInitialize statement, and writeRayQuery fails the compile",
	"glsl:ExprRayQueryGetIntersection.Committed": "GLSL has no ray queries: any use needs a rayQueryInitialize statement, and writeRayQuery fails the compile",
	"glsl:StmtRayQuery.Query":                   "GLSL has no ray queries: writeRayQuery returns an error",
	"glsl:StmtRayQuery.Fun":                     "GLSL has no ray queries: writeRayQuery returns an error",
}

const meshSkipped = "the SPIR-V backend skips task and mesh entry points altogether (it emits neither an OpEntryPoint nor a function for them), so the mesh-stage data has no output to appear in"

const epSelectClause = "one meaning of the empty selection (E92): within a backend package every loop over the module's entry points that filters on the entry-point option selects the same set when the option is empty - if one site stops at the first entry point that passes the filter (the reachable-set builder), no site goes on over all of them"
