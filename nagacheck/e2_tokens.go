package main

// operator tokens of the text backends: in every function that has a switch
// over all ir.BinaryOperator (ir.UnaryOperator) members, the infix operator
// tokens found in the string literals of each arm (a literal made of operator
// characters, or the text between two %s verbs of a format string) and the
// function-style spellings (word followed by "(") must be allowed for that
// operator in the target language; and every arm must contain an allowed token.

import (
	"go/ast"
	"go/constant"
	"go/token"
	"go/types"
	"regexp"
	"sort"
	"strings"
)

var infixRe = regexp.MustCompile(`%[sv]\s*([-+*/%<>=!&|^]{1,3})\s*%[sv]`)
var bareOpRe = regexp.MustCompile(`^\s*([-+*/%<>=!&|^~]{1,3})\s*$`)
var callRe = regexp.MustCompile(`([A-Za-z_][A-Za-z0-9_:]*)\(`)

func armTokens(info *types.Info, body []ast.Stmt) (infix []string, calls []string, pos token.Pos) {
	for _, st := range body {
		ast.Inspect(st, func(n ast.Node) bool {
			if _, ok := n.(*ast.FuncLit); ok {
				return false
			}
			// nested switches over a different enum still belong to the arm
			lit, ok := n.(*ast.BasicLit)
			if !ok || lit.Kind != token.STRING {
				return true
			}
			tv, ok := info.Types[lit]
			if !ok || tv.Value == nil || tv.Value.Kind() != constant.String {
				return true
			}
			s := strings.ReplaceAll(constant.StringVal(tv.Value), "%%", "\x00")
			for _, m := range infixRe.FindAllStringSubmatch(s, -1) {
				infix = append(infix, strings.ReplaceAll(m[1], "\x00", "%"))
				pos = lit.Pos()
			}
			if m := bareOpRe.FindStringSubmatch(s); m != nil {
				infix = append(infix, strings.ReplaceAll(m[1], "\x00", "%"))
				pos = lit.Pos()
			}
			for _, m := range callRe.FindAllStringSubmatch(s, -1) {
				calls = append(calls, m[1])
			}
			return true
		})
	}
	return
}

type tokenRef map[string][]string // operator -> allowed infix tokens

var textBinaryTokens = tokenRef{
	"BinaryAdd": {"+"}, "BinarySubtract": {"-"}, "BinaryMultiply": {"*"}, "BinaryDivide": {"/"}, "BinaryModulo": {"%", "-", "*", "/"},
	"BinaryEqual": {"=="}, "BinaryNotEqual": {"!="}, "BinaryLess": {"<"}, "BinaryLessEqual": {"<="}, "BinaryGreater": {">"}, "BinaryGreaterEqual": {">="},
	"BinaryAnd": {"&", "&&"}, "BinaryExclusiveOr": {"^", "!="}, "BinaryInclusiveOr": {"|", "||"}, "BinaryLogicalAnd": {"&&"}, "BinaryLogicalOr": {"||"},
	"BinaryShiftLeft": {"<<"}, "BinaryShiftRight": {">>"},
}

// function-style spellings that may replace the infix token (vector comparisons, float remainder)
var textBinaryCalls = map[string][]string{
	"BinaryEqual": {"equal"}, "BinaryNotEqual": {"notEqual"}, "BinaryLess": {"lessThan"}, "BinaryLessEqual": {"lessThanEqual"},
	"BinaryGreater": {"greaterThan"}, "BinaryGreaterEqual": {"greaterThanEqual"}, "BinaryModulo": {"fmod", "trunc", "metal::fmod", "metal::trunc"},
}

var textUnaryTokens = tokenRef{"UnaryNegate": {"-"}, "UnaryLogicalNot": {"!"}, "UnaryBitwiseNot": {"~"}}
var textUnaryCalls = map[string][]string{"UnaryLogicalNot": {"not"}}

func (c *Ctx) runOperatorTokens(r *Report, rule, pkgRel, enumType string, ref tokenRef, callRef map[string][]string) {
	n := 0
	for _, d := range c.dispatchSwitches() {
		if d.Func.Pkg.Rel != pkgRel || d.TagType != enumType || len(d.Covered) != len(d.Universe) {
			continue
		}
		sw, ok := d.Stmt.(*ast.SwitchStmt)
		if !ok {
			continue
		}
		info := d.Func.Pkg.Info
		for _, cl := range sw.Body.List {
			cc := cl.(*ast.CaseClause)
			for _, e := range cc.List {
				op := irConstName(info, e)
				allowed, known := ref[op]
				if !known {
					continue
				}
				infix, calls, pos := armTokens(info, cc.Body)
				if pos == token.NoPos {
					pos = cc.Pos()
				}
				n++
				construct := d.id() + ":" + op
				var bad []string
				good := false
				for _, t := range infix {
					ok := false
					for _, a := range allowed {
						if a == t {
							ok = true
						}
					}
					if ok {
						good = true
					} else {
						bad = append(bad, t)
					}
				}
				for _, cn := range calls {
					for _, a := range callRef[op] {
						if a == cn {
							good = true
						}
					}
				}
				sort.Strings(bad)
				switch {
				case len(bad) > 0:
					r.viol(rule, construct, c.pos(pos), d.Func.id()+" emits the operator token(s) "+strings.Join(bad, " ")+" in its arm for "+strings.TrimPrefix(op, "Binary")+"; allowed: "+strings.Join(allowed, " "))
				case !good && len(infix) == 0 && len(calls) == 0:
					// the arm delegates (no literal at all): not judged here
					r.triv(rule, construct, c.pos(pos), "arm contains no literal token (delegates)")
				case !good:
					r.viol(rule, construct, c.pos(pos), d.Func.id()+": the arm for "+op+" contains no token allowed for that operator ("+strings.Join(allowed, " ")+")")
				default:
					r.ok(rule, construct, c.pos(pos), "")
				}
			}
		}
	}
	r.inst("optokens."+pkgRel+"."+enumType, n)
}

func init() {
	dumpers["optokens"] = func(c *Ctx, parts []string) {
		r := newReport("dump")
		for _, p := range []string{"hlsl/internal/codegen", "msl/internal/codegen", "glsl/internal/codegen"} {
			c.runOperatorTokens(r, "opsel.tokens", p, "BinaryOperator", textBinaryTokens, textBinaryCalls)
			c.runOperatorTokens(r, "opsel.tokens", p, "UnaryOperator", textUnaryTokens, textUnaryCalls)
		}
		for _, o := range r.Obs {
			if o.Verdict != OK {
				println(o.Verdict, o.Construct, o.Pos, o.Msg)
			}
		}
		for k, v := range r.Instances {
			println(k, v)
		}
	}
}
