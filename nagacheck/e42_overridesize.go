package main

// precedence.arraysize (C18, C17): the number of registers a binding array
// occupies is written twice into a DXIL container - in the PSV0 resource
// records and in the dx.resources metadata of the bitcode - by two functions
// that each combine the size declared in the IR type (ir.BindingArrayType.Size)
// with the caller's BindingArraySize hint. Both must give the declared size
// precedence and use the hint only for an unbounded array: wherever the hint is
// dereferenced, an enclosing condition (an earlier case of the same tagless
// switch that tests the declared size for presence, or an if that tests the
// declared size for absence) has established that the IR declares no size.
// Otherwise the two records disagree for a sized array with a different hint.

import (
	"go/ast"
	"go/token"
	"go/types"
)

func (c *Ctx) runArraySizePrecedence(r *Report, rule string, pkgs func(string) bool) {
	n := 0
	for _, fn := range c.allFuncs() {
		if !pkgs(fn.Pkg.Rel) {
			continue
		}
		info := fn.Pkg.Info
		// values that hold the hint: the field itself and locals assigned from it
		isHintField := func(e ast.Expr) bool {
			se, ok := ast.Unparen(e).(*ast.SelectorExpr)
			return ok && se.Sel.Name == "BindingArraySize"
		}
		hintVar := map[types.Object]bool{}
		// values that hold the declared size: ba.Size and locals assigned from it / its deref
		isDeclField := func(e ast.Expr) bool {
			e = ast.Unparen(e)
			if st, ok := e.(*ast.StarExpr); ok {
				e = ast.Unparen(st.X)
			}
			se, ok := e.(*ast.SelectorExpr)
			if !ok || se.Sel.Name != "Size" {
				return false
			}
			return irTypeName(info.TypeOf(se.X)) == "BindingArrayType"
		}
		declVar := map[types.Object]bool{}
		ast.Inspect(fn.Decl.Body, func(m ast.Node) bool {
			as, ok := m.(*ast.AssignStmt)
			if !ok || len(as.Lhs) != len(as.Rhs) {
				return true
			}
			for i := range as.Lhs {
				id, ok := as.Lhs[i].(*ast.Ident)
				if !ok {
					continue
				}
				if isHintField(as.Rhs[i]) {
					hintVar[info.ObjectOf(id)] = true
				}
				if isDeclField(as.Rhs[i]) {
					declVar[info.ObjectOf(id)] = true
				}
			}
			return true
		})
		mentionsDecl := func(e ast.Node) bool {
			hit := false
			ast.Inspect(e, func(k ast.Node) bool {
				switch x := k.(type) {
				case *ast.Ident:
					if declVar[info.Uses[x]] {
						hit = true
					}
				case *ast.SelectorExpr:
					if isDeclField(x) {
						hit = true
					}
				}
				return !hit
			})
			return hit
		}
		ord := 0
		var stack []ast.Node
		ast.Inspect(fn.Decl.Body, func(m ast.Node) bool {
			if m == nil {
				stack = stack[:len(stack)-1]
				return true
			}
			stack = append(stack, m)
			st, ok := m.(*ast.StarExpr)
			if !ok {
				return true
			}
			isHint := isHintField(st.X)
			if id, ok := ast.Unparen(st.X).(*ast.Ident); ok && hintVar[info.Uses[id]] {
				isHint = true
			}
			if !isHint {
				return true
			}
			n++
			ord++
			cons := fn.id() + ":*BindingArraySize#" + itoa(ord)
			guarded := false
			for i := len(stack) - 2; i >= 0 && !guarded; i-- {
				switch p := stack[i].(type) {
				case *ast.IfStmt:
					// if ... declared == 0 / declared == nil ...
					ast.Inspect(p.Cond, func(k ast.Node) bool {
						if be, ok := k.(*ast.BinaryExpr); ok && be.Op == token.EQL && mentionsDecl(be.X) {
							guarded = true
						}
						return !guarded
					})
				case *ast.CaseClause:
					// an earlier clause of the same tagless switch tests the declared size for presence
					if i > 0 {
						if body, ok := stack[i-1].(*ast.BlockStmt); ok {
							for _, cl := range body.List {
								if cl == ast.Stmt(p) {
									break
								}
								for _, e := range cl.(*ast.CaseClause).List {
									if be, ok := ast.Unparen(e).(*ast.BinaryExpr); ok && be.Op == token.NEQ && mentionsDecl(be.X) {
										guarded = true
									}
								}
							}
						}
					}
				}
			}
			if guarded {
				r.ok(rule, cons, c.pos(st.Pos()), "")
			} else {
				r.viol(rule, cons, c.pos(st.Pos()), fn.id()+" uses the BindingArraySize hint without first establishing that the IR type declares no size: for binding_array<T, N> with a different hint the register range written here disagrees with the other record of the same container (PSV0 vs dx.resources), which keeps N")
			}
			return true
		})
	}
	r.inst("precedence.arraysize", n)
}

func init() {
	dumpers["arraysize"] = func(c *Ctx, parts []string) {
		r := newReport("dump")
		c.runArraySizePrecedence(r, "precedence.arraysize", func(string) bool { return true })
		for _, o := range r.Obs {
			println(o.Verdict, o.Construct, o.Pos, o.Msg)
		}
	}
}
