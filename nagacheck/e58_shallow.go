package main

import (
	"go/ast"
	"go/types"
	"sort"
	"strings"
)

// walker.shallow (C05, C03, C04, C01, C13, ...): statements nest - If, Switch,
// Loop and Block carry blocks of their own. A function that ranges over an
// ir.Block and type-switches on each statement's Kind to find statements of
// some kind sees only the top level unless the switch has arms for the four
// nesting kinds (or a default). A scan without them misses every occurrence
// inside an if, a loop or a switch (GLSL requested the image-atomics extension
// only for a top-level textureAtomic*).
func (c *Ctx) runShallowWalker(r *Report, rule string, inPkg func(string) bool, exceptions map[string]string) {
	nesting := []string{"StmtIf", "StmtSwitch", "StmtLoop", "StmtBlock"}
	n := 0
	for _, fn := range c.allFuncs() {
		if !inPkg(fn.Pkg.Rel) || fn.Decl.Body == nil {
			continue
		}
		info := fn.Pkg.Info
		ord := 0
		ast.Inspect(fn.Decl.Body, func(m ast.Node) bool {
			rs, ok := m.(*ast.RangeStmt)
			if !ok {
				return true
			}
			tv, ok := info.Types[rs.X]
			if !ok {
				return true
			}
			isBlock := irTypeName(tv.Type) == "Block"
			if !isBlock {
				if sl, ok := tv.Type.Underlying().(*types.Slice); ok && irTypeName(sl.Elem()) == "Statement" {
					isBlock = true
				}
			}
			if !isBlock {
				return true
			}
			// the type switch on the element's Kind directly in the loop body
			for _, st := range rs.Body.List {
				ts, ok := st.(*ast.TypeSwitchStmt)
				if !ok {
					continue
				}
				if !typeSwitchOnKind(ts) {
					continue
				}
				arms := map[string]bool{}
				hasDefault := false
				for _, cl := range ts.Body.List {
					cc := cl.(*ast.CaseClause)
					if cc.List == nil {
						hasDefault = true
					}
					for _, e := range cc.List {
						if t, ok := info.Types[e]; ok {
							arms[irTypeName(derefType(t.Type))] = true
						}
					}
				}
				isStmtSwitch := false
				for a := range arms {
					if strings.HasPrefix(a, "Stmt") {
						isStmtSwitch = true
					}
				}
				if !isStmtSwitch {
					continue
				}
				n++
				ord++
				cons := fn.id() + ":range#" + itoa(ord)
				var missing []string
				for _, k := range nesting {
					if !arms[k] {
						missing = append(missing, k)
					}
				}
				sort.Strings(missing)
				switch {
				case len(missing) == 0 || hasDefault:
					r.ok(rule, cons, c.pos(rs.Pos()), "")
				case exceptions[cons] != "":
					r.exc(rule, cons, c.pos(rs.Pos()), exceptions[cons])
				default:
					r.viol(rule, cons, c.pos(rs.Pos()), fn.id()+" scans the statements of a block by kind but has no arm for "+strings.Join(missing, ", ")+" (and no default): statements nested in those are never seen")
				}
			}
			return true
		})
	}
	r.inst(rule, n)
}

func typeSwitchOnKind(ts *ast.TypeSwitchStmt) bool {
	var x ast.Expr
	switch a := ts.Assign.(type) {
	case *ast.AssignStmt:
		if len(a.Rhs) == 1 {
			if ta, ok := a.Rhs[0].(*ast.TypeAssertExpr); ok {
				x = ta.X
			}
		}
	case *ast.ExprStmt:
		if ta, ok := a.X.(*ast.TypeAssertExpr); ok {
			x = ta.X
		}
	}
	sel, ok := x.(*ast.SelectorExpr)
	return ok && sel.Sel.Name == "Kind"
}

func init() {
	dumpers["shallow"] = func(c *Ctx, parts []string) {
		r := newReport("dump")
		c.runShallowWalker(r, "walker.shallow", func(string) bool { return true }, nil)
		nOK := 0
		for _, o := range r.Obs {
			if o.Verdict == "ok" {
				nOK++
				continue
			}
			println(o.Verdict, o.Construct, o.Pos, o.Msg)
		}
		println("ok", nOK)
	}
}
