package main

import (
	"go/ast"
	"go/token"
	"go/types"
)

// error.breakloop (C14): a loop over the items of a module that meets an item
// it cannot process has two honest choices - skip the item (continue) or
// report (return / record the error). `if err != nil { break }` with the error
// never read after the loop does neither: it silently leaves every later item
// unprocessed, so whether an item is resolved depends on what precedes it in
// the arena (evaluateGlobalInitializers left later globals with their
// unresolved override initialisers when an earlier one could not be folded).
func (c *Ctx) runErrBreakLoop(r *Report, rule string, inPkg func(string) bool) {
	n := 0
	for _, fn := range c.allFuncs() {
		if !inPkg(fn.Pkg.Rel) || fn.Decl.Body == nil {
			continue
		}
		info := fn.Pkg.Info
		ord := 0
		var walk func(node ast.Node, loop ast.Stmt)
		walk = func(node ast.Node, loop ast.Stmt) {
			ast.Inspect(node, func(m ast.Node) bool {
				if m == nil || m == node {
					return true
				}
				switch x := m.(type) {
				case *ast.ForStmt:
					walk(x, x)
					return false
				case *ast.RangeStmt:
					walk(x, x)
					return false
				case *ast.SwitchStmt, *ast.TypeSwitchStmt, *ast.SelectStmt:
					walk(x, nil) // an unlabeled break inside leaves the switch, not the loop
					return false
				case *ast.FuncLit:
					walk(x, nil)
					return false
				case *ast.IfStmt:
					if loop == nil {
						return true
					}
					errObj := errNotNil(info, x.Cond)
					if errObj == nil {
						return true
					}
					ord++
					n++
					cons := fn.id() + ":if-err#" + itoa(ord)
					var brk *ast.BranchStmt
					if k := len(x.Body.List); k > 0 {
						if b, ok := x.Body.List[k-1].(*ast.BranchStmt); ok && b.Tok == token.BREAK && b.Label == nil {
							brk = b
						}
					}
					if brk == nil {
						r.ok(rule, cons, c.pos(x.Pos()), "")
						return true
					}
					used := false
					ast.Inspect(fn.Decl.Body, func(k ast.Node) bool {
						id, ok := k.(*ast.Ident)
						if !ok || info.ObjectOf(id) != errObj {
							return true
						}
						if id.Pos() > loop.End() || (id.Pos() > x.Body.Pos() && id.Pos() < x.Body.End()) {
							used = true
						}
						return true
					})
					if used {
						r.ok(rule, cons, c.pos(x.Pos()), "")
					} else {
						r.viol(rule, cons, c.pos(brk.Pos()), fn.id()+" leaves its loop on the first item that yields an error and never reads that error: every later item stays unprocessed without a report")
					}
					return true
				}
				return true
			})
		}
		walk(fn.Decl.Body, nil)
	}
	r.inst(rule, n)
}

func errNotNil(info *types.Info, cond ast.Expr) types.Object {
	be, ok := ast.Unparen(cond).(*ast.BinaryExpr)
	if !ok || be.Op != token.NEQ {
		return nil
	}
	id, ok := ast.Unparen(be.X).(*ast.Ident)
	if !ok {
		return nil
	}
	if nid, ok := ast.Unparen(be.Y).(*ast.Ident); !ok || nid.Name != "nil" {
		return nil
	}
	v, ok := info.ObjectOf(id).(*types.Var)
	if !ok || v.Type().String() != "error" {
		return nil
	}
	return v
}

func init() {
	dumpers["errbreak"] = func(c *Ctx, parts []string) {
		r := newReport("dump")
		c.runErrBreakLoop(r, "error.breakloop", func(string) bool { return true })
		nv := 0
		for _, o := range r.Obs {
			if o.Verdict != "ok" {
				println(o.Verdict, o.Construct, o.Pos, o.Msg)
				nv++
			}
		}
		println("instances", len(r.Obs), "non-ok", nv)
	}
}
