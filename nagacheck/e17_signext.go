package main

// conv.signext (C06, C14, C15): widening an integer value of known signedness.
//
// The IR stores 32-bit integers in wider Go values (ScalarValue.Bits uint64,
// int64 evaluator results, float64 in float contexts). A nested conversion
// W(N(x)) - N a fixed-width integer type, W a wider integer type or a float
// type - sign-extends when N is signed and zero-extends when N is unsigned.
// Which of the two is right is fixed by the WGSL type of the value, and that
// type is visible at the site as one of
//   (a) the static Go type of x: ir.LiteralI32 / I64 / AbstractInt are signed,
//       ir.LiteralU32 / U64 unsigned;
//   (b) the enclosing guards on an ir.ScalarKind value (case ir.ScalarSint:,
//       if kind == ir.ScalarUint {...});
//   (c) the Kind field of the ir.ScalarValue literal the conversion sits in;
//   (d) an ir.ScalarSint / ir.ScalarUint constant returned next to it.
// Every site for which at least one of (a)-(d) fixes the signedness must use an
// N of that signedness (all applicable contexts must agree): int64(uint32(v))
// for an i32 turns -7 into 4294967289.

import (
	"go/ast"
	"go/token"
	"go/types"
	"strings"
)

func intWidthSigned(t types.Type) (width int, signed, ok bool) {
	b, isB := types.Unalias(t).Underlying().(*types.Basic)
	if !isB {
		return 0, false, false
	}
	switch b.Kind() {
	case types.Int8:
		return 8, true, true
	case types.Int16:
		return 16, true, true
	case types.Int32:
		return 32, true, true
	case types.Int64, types.Int:
		return 64, true, true
	case types.Uint8:
		return 8, false, true
	case types.Uint16:
		return 16, false, true
	case types.Uint32:
		return 32, false, true
	case types.Uint64, types.Uint:
		return 64, false, true
	}
	return 0, false, false
}

func isFloatBasic(t types.Type) bool {
	b, ok := types.Unalias(t).Underlying().(*types.Basic)
	return ok && (b.Kind() == types.Float32 || b.Kind() == types.Float64)
}

// conversionOf: if e is a conversion T(x) returns T and x.
func conversionOf(info *types.Info, e ast.Expr) (types.Type, ast.Expr) {
	call, ok := ast.Unparen(e).(*ast.CallExpr)
	if !ok || len(call.Args) != 1 {
		return nil, nil
	}
	tv, ok := info.Types[call.Fun]
	if !ok || !tv.IsType() {
		return nil, nil
	}
	return tv.Type, call.Args[0]
}

var signedLiteralTypes = map[string]bool{"LiteralI32": true, "LiteralI64": true, "LiteralAbstractInt": true}
var unsignedLiteralTypes = map[string]bool{"LiteralU32": true, "LiteralU64": true}

type signCtx struct {
	signed bool
	why    string
}

func (c *Ctx) runSignExt(r *Report, rule string, pkgs func(string) bool) {
	n := 0
	for _, fn := range c.allFuncs() {
		if !pkgs(fn.Pkg.Rel) {
			continue
		}
		info := fn.Pkg.Info
		ord := map[string]int{}
		var stack []ast.Node
		ast.Inspect(fn.Decl.Body, func(nd ast.Node) bool {
			if nd == nil {
				stack = stack[:len(stack)-1]
				return true
			}
			stack = append(stack, nd)
			outerT, inner := conversionOf(info, exprOf(nd))
			if outerT == nil {
				return true
			}
			innerT, x := conversionOf(info, inner)
			if innerT == nil {
				return true
			}
			nw, nSigned, ok := intWidthSigned(innerT)
			if !ok || namedName(innerT) != "" {
				return true
			}
			if ow, _, isInt := intWidthSigned(outerT); isInt {
				if ow <= nw {
					return true
				}
			} else if !isFloatBasic(outerT) {
				return true
			}
			// contexts
			var ctxs []signCtx
			if tv, ok := info.Types[x]; ok {
				tn := irTypeName(tv.Type)
				if signedLiteralTypes[tn] {
					ctxs = append(ctxs, signCtx{true, "the operand has type ir." + tn})
				} else if unsignedLiteralTypes[tn] {
					ctxs = append(ctxs, signCtx{false, "the operand has type ir." + tn})
				}
			}
			// (b) enclosing guards, innermost first; (c) ScalarValue literal; (d) return statement
			for i := len(stack) - 2; i >= 0; i-- {
				switch p := stack[i].(type) {
				case *ast.CaseClause:
					var ks kindSet
					for _, l := range p.List {
						if nm := irConstName(info, l); strings.HasPrefix(nm, "Scalar") && isNamedScalarKindExpr(info, l) {
							if ks == nil {
								ks = kindSet{}
							}
							ks[nm] = true
						}
					}
					if s, ok := kindSetSign(ks); ok {
						ctxs = append(ctxs, signCtx{s, "it is inside case " + ks.String()})
					}
				case *ast.IfStmt:
					// only the then-branch carries the positive fact
					if i+1 < len(stack) && stack[i+1] == p.Body {
						if ks, _ := kindFacts(info, p.Cond); ks != nil {
							if s, ok := kindSetSign(ks); ok {
								ctxs = append(ctxs, signCtx{s, "it is guarded by " + types.ExprString(p.Cond)})
							}
						}
					}
				case *ast.CompositeLit:
					if tv, ok := info.Types[p]; ok && irTypeName(tv.Type) == "ScalarValue" {
						for _, el := range p.Elts {
							if kv, ok := el.(*ast.KeyValueExpr); ok {
								if id, ok := kv.Key.(*ast.Ident); ok && id.Name == "Kind" {
									switch irConstName(info, kv.Value) {
									case "ScalarSint":
										ctxs = append(ctxs, signCtx{true, "it fills a ScalarValue of Kind ScalarSint"})
									case "ScalarUint":
										ctxs = append(ctxs, signCtx{false, "it fills a ScalarValue of Kind ScalarUint"})
									}
								}
							}
						}
					}
				case *ast.ReturnStmt:
					for _, res := range p.Results {
						switch irConstName(info, res) {
						case "ScalarSint":
							ctxs = append(ctxs, signCtx{true, "it is returned together with ir.ScalarSint"})
						case "ScalarUint":
							ctxs = append(ctxs, signCtx{false, "it is returned together with ir.ScalarUint"})
						}
					}
				case *ast.FuncLit:
					i = -1
				}
			}
			if len(ctxs) == 0 {
				// (e) the operand is x.Bits and earlier statements of the same list returned for some kinds of
				// x.Kind (`if sv.Kind == ir.ScalarFloat { return ... }`): the kinds that are left reach this
				// conversion; if both ScalarSint and ScalarUint are among them, a fixed signedness is wrong for one
				if se, ok := ast.Unparen(x).(*ast.SelectorExpr); ok && se.Sel.Name == "Bits" {
					subj := types.ExprString(se.X)
					for i := len(stack) - 2; i >= 0; i-- {
						var list []ast.Stmt
						switch p := stack[i].(type) {
						case *ast.BlockStmt:
							list = p.List
						case *ast.CaseClause:
							list = p.Body
						case *ast.FuncLit:
							i = -1
							continue
						default:
							continue
						}
						left := allKinds()
						tested := false
						for _, st := range list {
							if st.Pos() <= nd.Pos() && nd.End() <= st.End() {
								break
							}
							ifs, ok := st.(*ast.IfStmt)
							if !ok || ifs.Else != nil || len(ifs.Body.List) == 0 {
								continue
							}
							if _, isRet := ifs.Body.List[len(ifs.Body.List)-1].(*ast.ReturnStmt); !isRet {
								continue
							}
							// the condition must be about subj.Kind
							aboutSubj := false
							ast.Inspect(ifs.Cond, func(k ast.Node) bool {
								if ks, ok := k.(*ast.SelectorExpr); ok && ks.Sel.Name == "Kind" && types.ExprString(ks.X) == subj {
									aboutSubj = true
								}
								return !aboutSubj
							})
							if !aboutSubj {
								continue
							}
							if pos, exact := kindFacts(info, ifs.Cond); pos != nil && exact {
								tested = true
								for k := range pos {
									delete(left, k)
								}
							}
						}
						if tested {
							if left["ScalarSint"] && left["ScalarUint"] {
								n++
								cons := fn.id() + ":" + noSpace(types.ExprString(exprOf(nd)))
								ord[cons]++
								if ord[cons] > 1 {
									cons += "#" + itoa(ord[cons])
								}
								ext := "zero-extends"
								if nSigned {
									ext = "sign-extends"
								}
								r.viol(rule, cons, c.pos(nd.Pos()), fn.id()+": "+types.ExprString(exprOf(nd))+" "+ext+" the bits of "+subj+", whose Kind at this point can still be ScalarSint or ScalarUint (earlier statements returned only for "+(func() string {
									gone := kindSet{}
									for k := range allKinds() {
										if !left[k] {
											gone[k] = true
										}
									}
									return gone.String()
								})()+"): values with the top bit set are widened wrongly for one of the two")
							}
							break
						}
					}
				}
				return true
			}
			n++
			cons := fn.id() + ":" + noSpace(types.ExprString(exprOf(nd)))
			ord[cons]++
			if ord[cons] > 1 {
				cons += "#" + itoa(ord[cons])
			}
			pos := c.pos(nd.Pos())
			var bad []string
			for _, cx := range ctxs {
				if cx.signed != nSigned {
					bad = append(bad, cx.why)
				}
			}
			if len(bad) == 0 {
				r.ok(rule, cons, pos, "")
				return true
			}
			ext, want := "zero-extends", "signed"
			if nSigned {
				ext, want = "sign-extends", "unsigned"
			}
			r.viol(rule, cons, pos, fn.id()+": "+types.ExprString(exprOf(nd))+" "+ext+" the value, but it is "+want+" here ("+strings.Join(bad, "; ")+"): values with the top bit set are widened to a different number")
			return true
		})
	}
	r.inst("conv.signext", n)
}

func exprOf(n ast.Node) ast.Expr {
	if e, ok := n.(ast.Expr); ok {
		return e
	}
	return nil
}

func isNamedScalarKindExpr(info *types.Info, e ast.Expr) bool {
	tv, ok := info.Types[e]
	return ok && isNamed(types.Unalias(tv.Type), "ir", "ScalarKind")
}

// kindSetSign: signedness fixed by a set of scalar kinds (only Sint, or only Uint).
func kindSetSign(ks kindSet) (signed bool, ok bool) {
	if len(ks) != 1 {
		return false, false
	}
	if ks["ScalarSint"] {
		return true, true
	}
	if ks["ScalarUint"] {
		return false, true
	}
	return false, false
}

var _ = token.ADD

func init() {
	dumpers["signext"] = func(c *Ctx, parts []string) {
		r := newReport("dump")
		c.runSignExt(r, "conv.signext", func(string) bool { return true })
		for _, o := range r.Obs {
			println(o.Verdict, o.Construct, o.Pos, o.Msg)
		}
	}
}
