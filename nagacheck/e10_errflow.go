package main

// E10 errflow: diagnostics are produced and not lost.

import (
	"fmt"
	"go/ast"
	"go/token"
	"go/types"
	"strings"
)

func isDiagType(t types.Type) bool {
	if t == nil {
		return false
	}
	if isErrorType(t) {
		return true
	}
	n := namedOf(t)
	if n != nil && n.Obj().Pkg() != nil && strings.HasPrefix(n.Obj().Pkg().Path(), modPath) {
		switch n.Obj().Name() {
		case "ParseError", "SourceError":
			_, isPtr := types.Unalias(t).(*types.Pointer)
			return isPtr
		}
	}
	return false
}

type droppedErr struct {
	Func   *funcInfo
	Callee string
	Pos    ast.Node
	How    string
}

// droppedErrors lists call sites whose error / diagnostic result is discarded.
func (c *Ctx) droppedErrors(pkg func(string) bool) []droppedErr {
	var out []droppedErr
	for _, fn := range c.allFuncs() {
		if pkg != nil && !pkg(fn.Pkg.Rel) {
			continue
		}
		info := fn.Pkg.Info
		resultDiag := func(call *ast.CallExpr) []int {
			tv, ok := info.Types[call]
			if !ok || tv.Type == nil {
				return nil
			}
			var idx []int
			if tup, ok := tv.Type.(*types.Tuple); ok {
				for i := 0; i < tup.Len(); i++ {
					if isDiagType(tup.At(i).Type()) {
						idx = append(idx, i)
					}
				}
			} else if isDiagType(tv.Type) {
				idx = append(idx, 0)
			}
			return idx
		}
		infallible := func(call *ast.CallExpr) bool {
			f := calleeOf(info, call)
			if f == nil || f.Pkg() == nil {
				return false
			}
			switch f.Pkg().Path() {
			case "fmt":
				return strings.HasPrefix(f.Name(), "Fprint") || strings.HasPrefix(f.Name(), "Print")
			case "strings", "bytes", "bufio", "hash", "io":
				return strings.HasPrefix(f.Name(), "Write")
			}
			return false
		}
		calleeName := func(call *ast.CallExpr) string {
			if f := calleeOf(info, call); f != nil {
				if f.Pkg() != nil {
					return relPkg(f.Pkg().Path()) + "." + f.Name()
				}
				return f.Name()
			}
			return types.ExprString(call.Fun)
		}
		ast.Inspect(fn.Decl.Body, func(n ast.Node) bool {
			switch x := n.(type) {
			case *ast.ExprStmt:
				if call, ok := x.X.(*ast.CallExpr); ok {
					if idx := resultDiag(call); len(idx) > 0 && !infallible(call) {
						out = append(out, droppedErr{fn, calleeName(call), call, "result unused"})
					}
				}
			case *ast.AssignStmt:
				if len(x.Rhs) == 1 {
					if call, ok := ast.Unparen(x.Rhs[0]).(*ast.CallExpr); ok {
						for _, i := range resultDiag(call) {
							if i < len(x.Lhs) && !infallible(call) {
								if id, ok := x.Lhs[i].(*ast.Ident); ok && id.Name == "_" {
									out = append(out, droppedErr{fn, calleeName(call), call, "assigned to _"})
								}
							}
						}
					}
				}
			case *ast.DeferStmt, *ast.GoStmt:
				return true
			}
			return true
		})
	}
	return out
}

type silentExpect struct {
	Func  *funcInfo
	Calls []struct {
		Caller *funcInfo
		Pos    ast.Node
		Arg    string
	}
}

// silentExpectations: a parser method that takes the expected token kind,
// advances when the current token matches, and has no result through which a
// mismatch could be reported (and records no error).
func (c *Ctx) silentExpectations() []*silentExpect {
	pp := c.ByPath[modPath+"/wgsl/internal/parser"]
	if pp == nil {
		return nil
	}
	var out []*silentExpect
	byObj := map[*types.Func]*silentExpect{}
	for _, fn := range c.allFuncs() {
		if fn.Pkg.Rel != "wgsl/internal/parser" || fn.Obj == nil {
			continue
		}
		sig := fn.Obj.Type().(*types.Signature)
		if sig.Recv() == nil || sig.Results().Len() != 0 {
			continue
		}
		hasKind := false
		for i := 0; i < sig.Params().Len(); i++ {
			if namedName(sig.Params().At(i).Type()) == "TokenKind" {
				hasKind = true
			}
		}
		if !hasKind {
			continue
		}
		// body conditionally consumes a token and never records an error
		info := fn.Pkg.Info
		consumes, records := false, false
		ast.Inspect(fn.Decl.Body, func(n ast.Node) bool {
			switch x := n.(type) {
			case *ast.CallExpr:
				if f := calleeOf(info, x); f != nil && f.Name() == "advance" {
					consumes = true
				}
			case *ast.AssignStmt:
				for _, l := range x.Lhs {
					if sel, ok := ast.Unparen(l).(*ast.SelectorExpr); ok && sel.Sel.Name == "errors" {
						records = true
					}
				}
			}
			return true
		})
		if consumes && !records {
			se := &silentExpect{Func: fn}
			out = append(out, se)
			byObj[fn.Obj] = se
		}
	}
	if len(out) == 0 {
		return nil
	}
	for _, fn := range c.allFuncs() {
		if fn.Pkg.Rel != "wgsl/internal/parser" {
			continue
		}
		info := fn.Pkg.Info
		ast.Inspect(fn.Decl.Body, func(n ast.Node) bool {
			call, ok := n.(*ast.CallExpr)
			if !ok {
				return true
			}
			if f := calleeOf(info, call); f != nil {
				if se := byObj[f.Origin()]; se != nil {
					arg := ""
					if len(call.Args) > 0 {
						arg = types.ExprString(call.Args[0])
					}
					se.Calls = append(se.Calls, struct {
						Caller *funcInfo
						Pos    ast.Node
						Arg    string
					}{fn, call, arg})
				}
			}
			return true
		})
	}
	return out
}

func (c *Ctx) runErrflow(r *Report, pkg func(string) bool, droppedExc map[string]string) {
	c.runErrflowFiltered(r, pkg, droppedExc, nil, true)
}

func (c *Ctx) runErrflowFiltered(r *Report, pkg func(string) bool, droppedExc map[string]string, calleeFilter func(string) bool, withExpect bool) {
	// (a) silent expectations
	var ses []*silentExpect
	if withExpect {
		ses = c.silentExpectations()
	}
	nParserFuncs := 0
	for _, fn := range c.allFuncs() {
		if fn.Pkg.Rel == "wgsl/internal/parser" {
			nParserFuncs++
		}
	}
	r.inst("errflow.parser-functions", nParserFuncs)
	for _, se := range ses {
		if len(se.Calls) == 0 {
			r.triv("errflow.silent-expect", se.Func.id(), c.pos(se.Func.Decl.Pos()), "silent expectation helper without call sites")
		}
		ord := map[string]int{}
		for _, cs := range se.Calls {
			k := cs.Caller.id() + ":" + se.Func.Name + "(" + cs.Arg + ")"
			ord[k]++
			construct := k
			if ord[k] > 1 {
				construct = fmt.Sprintf("%s#%d", k, ord[k])
			}
			r.viol("errflow.silent-expect", construct, c.pos(cs.Pos.Pos()), cs.Caller.id()+" expects token "+cs.Arg+" through "+se.Func.id()+", which neither returns nor records an error when the token is missing: the malformed input is accepted")
		}
	}
	if len(ses) == 0 && withExpect {
		r.ok("errflow.silent-expect", "wgsl/internal/parser", "", "no token-expectation helper can fail silently")
	}
	// (b) dropped diagnostics
	ord := map[string]int{}
	ds := c.droppedErrors(pkg)
	for _, d := range ds {
		if calleeFilter != nil && !calleeFilter(d.Callee) {
			continue
		}
		k := d.Func.id() + ":" + d.Callee
		ord[k]++
		construct := k
		if ord[k] > 1 {
			construct = fmt.Sprintf("%s#%d", k, ord[k])
		}
		if reason, ok := droppedExc[k]; ok {
			r.exc("errflow.dropped", construct, c.pos(d.Pos.Pos()), reason)
			continue
		}
		r.viol("errflow.dropped", construct, c.pos(d.Pos.Pos()), d.Func.id()+" discards the error returned by "+d.Callee+" ("+d.How+")")
	}
	r.inst("errflow.dropped-sites", len(ds))
}

func init() {
	dumpers["errflow"] = func(c *Ctx, parts []string) {
		r := newReport("dump")
		c.runErrflow(r, nil, nil)
		for _, o := range r.Obs {
			if o.Verdict != OK {
				fmt.Println(o.Verdict, o.Rule, o.Construct, o.Pos)
			}
		}
		fmt.Println(r.Instances)
	}
}

// literal.rawparse (C06, C07, C14, C17): the parser keeps a numeric literal's
// token text unchanged in Literal.Value - with its WGSL type suffix (64u, 1.5f,
// 3i, 2h, 7lu) and, for integers, possibly in hexadecimal. A call of
// strconv.ParseInt / ParseUint / ParseFloat / Atoi or fmt.Sscanf whose text
// argument is syntactically the Value field of a parser.Literal therefore fails
// (or stops early) on every suffixed or hexadecimal literal; the sites that did
// this treated the failure as "attribute absent" (@workgroup_size(64u) became
// 1, @align(0x10) was ignored, an override lost its default). Numeric text must
// be parsed by the lowerer's literal parsers, which strip the suffix first and
// use base 0.
func (c *Ctx) runLiteralRawParse(r *Report, rule string, pkgs func(string) bool, exceptions map[string]string) {
	n := 0
	for _, fn := range c.allFuncs() {
		if !pkgs(fn.Pkg.Rel) {
			continue
		}
		info := fn.Pkg.Info
		ord := map[string]int{}
		// locals that hold (a slice of) a literal's text
		litText := map[types.Object]bool{}
		isLitValue := func(e ast.Expr) bool {
			for {
				e = ast.Unparen(e)
				if sl, ok := e.(*ast.SliceExpr); ok {
					e = sl.X
					continue
				}
				break
			}
			if id, ok := e.(*ast.Ident); ok {
				return litText[info.Uses[id]]
			}
			if se, ok := e.(*ast.SelectorExpr); ok && se.Sel.Name == "Value" {
				if nt := namedOf(derefType(info.TypeOf(se.X))); nt != nil && nt.Obj().Name() == "Literal" {
					return true
				}
			}
			return false
		}
		for changed := true; changed; {
			changed = false
			ast.Inspect(fn.Decl.Body, func(m ast.Node) bool {
				if as, ok := m.(*ast.AssignStmt); ok && len(as.Lhs) == len(as.Rhs) {
					for i := range as.Lhs {
						if id, ok := as.Lhs[i].(*ast.Ident); ok && isLitValue(as.Rhs[i]) {
							if o := info.ObjectOf(id); o != nil && !litText[o] {
								litText[o] = true
								changed = true
							}
						}
					}
				}
				return true
			})
		}
		// radix: under a guard Kind == TokenIntLiteral the text may be hexadecimal
		var stack []ast.Node
		ast.Inspect(fn.Decl.Body, func(m ast.Node) bool {
			if m == nil {
				stack = stack[:len(stack)-1]
				return true
			}
			stack = append(stack, m)
			call, ok := m.(*ast.CallExpr)
			if !ok || len(call.Args) == 0 {
				return true
			}
			f := calleeOf(info, call)
			if f == nil || f.Pkg() == nil || f.Pkg().Path() != "strconv" || !isLitValue(call.Args[0]) {
				return true
			}
			blind := f.Name() == "ParseFloat" || f.Name() == "Atoi"
			if (f.Name() == "ParseInt" || f.Name() == "ParseUint") && len(call.Args) >= 2 {
				if v, ok := constInt(info, call.Args[1]); ok && v == 10 {
					blind = true
				}
			}
			if !blind {
				return true
			}
			intGuard := false
			for i := len(stack) - 2; i >= 0; i-- {
				if ifs, ok := stack[i].(*ast.IfStmt); ok && i+1 < len(stack) && stack[i+1] == ast.Node(ifs.Body) {
					ast.Inspect(ifs.Cond, func(k ast.Node) bool {
						if be, ok := k.(*ast.BinaryExpr); ok && be.Op == token.EQL && irConstNameAny(info, be.Y) == "TokenIntLiteral" {
							intGuard = true
						}
						return true
					})
				}
			}
			if !intGuard {
				return true
			}
			n++
			cons := fn.id() + ":radix:" + f.Name()
			ord[cons]++
			if ord[cons] > 1 {
				cons += "#" + itoa(ord[cons])
			}
			// fine when the same guarded block also handles the hexadecimal spelling
			handlesHex := false
			for i := len(stack) - 2; i >= 0 && !handlesHex; i-- {
				if ifs, ok := stack[i].(*ast.IfStmt); ok {
					ast.Inspect(ifs.Body, func(k ast.Node) bool {
						if bl, ok := k.(*ast.BasicLit); ok && (strings.Contains(bl.Value, "0x") || strings.Contains(bl.Value, "0X")) {
							handlesHex = true
						}
						if c2, ok := k.(*ast.CallExpr); ok && len(c2.Args) >= 2 {
							if g := calleeOf(info, c2); g != nil && (g.Name() == "ParseInt" || g.Name() == "ParseUint") {
								if v, ok := constInt(info, c2.Args[1]); ok && (v == 0 || v == 16) {
									handlesHex = true
								}
							}
						}
						return !handlesHex
					})
				}
			}
			if handlesHex {
				r.ok(rule, cons, c.pos(call.Pos()), "hexadecimal handled in the same block")
			} else if exceptions[cons] != "" {
				r.exc(rule, cons, c.pos(call.Pos()), exceptions[cons])
			} else {
				r.viol(rule, cons, c.pos(call.Pos()), fn.id()+" parses the text of an INTEGER literal with "+f.Name()+" in base 10 only: a hexadecimal literal (0x10) is a valid WGSL integer and fails here although the decimal spelling of the same value works")
			}
			return true
		})
		ast.Inspect(fn.Decl.Body, func(m ast.Node) bool {
			call, ok := m.(*ast.CallExpr)
			if !ok || len(call.Args) == 0 {
				return true
			}
			f := calleeOf(info, call)
			if f == nil || f.Pkg() == nil {
				return true
			}
			isParse := (f.Pkg().Path() == "strconv" && (strings.HasPrefix(f.Name(), "Parse") || f.Name() == "Atoi")) ||
				(f.Pkg().Path() == "fmt" && strings.HasPrefix(f.Name(), "Sscan"))
			if !isParse {
				return true
			}
			n++
			se, ok := ast.Unparen(call.Args[0]).(*ast.SelectorExpr)
			raw := false
			if ok && se.Sel.Name == "Value" {
				if tv, ok := info.Types[se.X]; ok {
					t := tv.Type
					if p, ok := t.Underlying().(*types.Pointer); ok {
						t = p.Elem()
					}
					if nt := namedOf(t); nt != nil && nt.Obj().Name() == "Literal" && nt.Obj().Pkg() != nil && relPkg(nt.Obj().Pkg().Path()) == "wgsl/internal/parser" {
						raw = true
					}
				}
			}
			cons := fn.id() + ":" + f.Pkg().Name() + "." + f.Name()
			ord[cons]++
			if ord[cons] > 1 {
				cons += "#" + itoa(ord[cons])
			}
			pos := c.pos(call.Pos())
			switch {
			case !raw:
				r.ok(rule, cons, pos, "")
			case exceptions[cons] != "":
				r.exc(rule, cons, pos, exceptions[cons])
			default:
				r.viol(rule, cons, pos, fn.id()+" hands the raw token text "+types.ExprString(call.Args[0])+" of a numeric literal to "+f.Pkg().Name()+"."+f.Name()+": the text keeps the WGSL suffix (64u, 1.5f) and may be hexadecimal, so the parse fails or stops early and the caller falls back to a default")
			}
			return true
		})
	}
	r.inst("literal.parses", n)
}

func derefType(t types.Type) types.Type {
	if t == nil {
		return nil
	}
	if p, ok := t.Underlying().(*types.Pointer); ok {
		return p.Elem()
	}
	return t
}
