package main

import (
	"go/ast"
	"go/token"
	"go/types"
	"sort"
)

// scope.leaveclean (C11, C08): the lowerer's function-scope name tables are
// cleared in the prologue of the per-function lowering. The module driver
// interleaves that lowering with the handlers of module-scope declarations
// (constants, const_assert, overrides, global variables) in declaration order,
// and those handlers resolve names through evaluators that look into the same
// tables first. A table that still holds the bindings of the function lowered
// last makes a module-scope `const_assert N == 5` see that function's `let N
// = 5`. Every map-typed table that is reset in the prologue and read by a
// function reachable from a sibling handler must also be reset when the
// per-function lowering is left (a deferred call).
func (c *Ctx) runLeaveClean(r *Report, rule string, sc resetScope) {
	p := c.ByPath[modPath+"/"+sc.TypePkg]
	if p == nil {
		r.undecided(rule, sc.Name, "", "package not loaded")
		return
	}
	tn, _ := p.Types.Scope().Lookup(sc.TypeName).(*types.TypeName)
	entry := c.lookupFunc(sc.Entry)
	if tn == nil || entry == nil || c.funcByObj(entry) == nil {
		r.undecided(rule, sc.Name, "", "scope type or entry not found")
		return
	}
	st := tn.Type().Underlying().(*types.Struct)
	F := c.funcByObj(entry)
	prologue := map[string]token.Pos{}
	c.resetForms(F, tn, 0, prologue)
	// what is reset on leaving: deferred calls of F
	onExit := map[string]token.Pos{}
	for _, s := range F.Decl.Body.List {
		ds, ok := s.(*ast.DeferStmt)
		if !ok {
			continue
		}
		if callee := calleeOf(F.Pkg.Info, ds.Call); callee != nil {
			if fi := c.funcByObj(callee); fi != nil {
				c.resetForms(fi, tn, 0, onExit)
			}
		}
		if fl, ok := ds.Call.Fun.(*ast.FuncLit); ok {
			tmp := &funcInfo{Pkg: F.Pkg, Name: F.Name, Obj: F.Obj, Decl: &ast.FuncDecl{Name: F.Decl.Name, Recv: F.Decl.Recv, Type: fl.Type, Body: fl.Body}}
			c.resetForms(tmp, tn, 0, onExit)
		}
	}
	// sibling handlers: other functions called by the callers of F
	g := c.graph()
	var siblings []*types.Func
	for caller, outs := range g.out {
		callsF := false
		for _, o := range outs {
			if o == entry {
				callsF = true
			}
		}
		if !callsF || caller == entry {
			continue
		}
		for _, o := range outs {
			if o != entry && c.funcByObj(o) != nil && c.funcByObj(o).Pkg == F.Pkg {
				siblings = append(siblings, o)
			}
		}
	}
	if len(siblings) == 0 {
		r.undecided(rule, sc.Name, "", "no driver interleaves "+sc.Entry+" with other handlers")
		return
	}
	// cut F out: what the siblings reach without going through the per-function lowering
	seen := map[*types.Func]bool{entry: true}
	var stack []*types.Func
	for _, s := range siblings {
		if !seen[s] {
			seen[s] = true
			stack = append(stack, s)
		}
	}
	for len(stack) > 0 {
		x := stack[len(stack)-1]
		stack = stack[:len(stack)-1]
		for _, y := range g.out[x] {
			if !seen[y] {
				seen[y] = true
				stack = append(stack, y)
			}
		}
	}
	delete(seen, entry)
	readBy := map[string]string{}
	for f := range seen {
		fi := c.funcByObj(f)
		if fi == nil || fi.Decl.Body == nil || fi.Pkg != F.Pkg {
			continue
		}
		ast.Inspect(fi.Decl.Body, func(m ast.Node) bool {
			sel, ok := m.(*ast.SelectorExpr)
			if !ok {
				return true
			}
			if s := fi.Pkg.Info.Selections[sel]; s == nil || s.Kind() != types.FieldVal {
				return true
			}
			if structTypeName(fi.Pkg.Info, sel.X) != tn {
				return true
			}
			if cur, ok := readBy[sel.Sel.Name]; !ok || fi.id() < cur {
				readBy[sel.Sel.Name] = fi.id()
			}
			return true
		})
	}
	var names []string
	for f := range prologue {
		names = append(names, f)
	}
	sort.Strings(names)
	n := 0
	for _, f := range names {
		ft := fieldType(st, f)
		if ft == nil {
			continue
		}
		if _, isMap := ft.Underlying().(*types.Map); !isMap {
			continue
		}
		reader, ok := readBy[f]
		if !ok {
			continue
		}
		n++
		cons := sc.Name + ":" + f
		if _, ok := onExit[f]; ok {
			r.ok(rule, cons, c.pos(prologue[f]), "")
			continue
		}
		r.viol(rule, cons, c.pos(prologue[f]), "the table "+sc.TypeName+"."+f+" is cleared when "+F.id()+" is entered but not when it is left, and "+reader+" - reachable from a module-scope handler that the driver runs between functions - looks into it: a module-scope declaration after a function sees that function's bindings")
	}
	r.inst(rule, n)
}

func init() {
	dumpers["leaveclean"] = func(c *Ctx, parts []string) {
		r := newReport("dump")
		c.runLeaveClean(r, "scope.leaveclean", lowerResetScopes[0])
		for _, o := range r.Obs {
			println(o.Verdict, o.Construct, o.Pos, o.Msg)
		}
	}
}
