package main

// spirv.mergefirst (C02): structured control flow. A block that ends in
// OpBranchConditional or OpSwitch heads a selection (or is a loop header) and
// must carry an OpSelectionMerge / OpLoopMerge, except when the branch only
// exits a construct whose merge was declared before. In the SPIR-V emitter
// every function that emits such a terminator therefore emits a merge
// instruction first: on every control-flow path (go/cfg, forward must-analysis)
// from the function's entry to the emission of an OpBranchConditional /
// OpSwitch, an emission of OpSelectionMerge or OpLoopMerge has happened - as a
// direct Build(OpSelectionMerge), through a builder method that does so, or
// through a local closure that does so.

import (
	"go/ast"
	"go/types"

	"golang.org/x/tools/go/cfg"
)

func (c *Ctx) runMergeFirst(r *Report, rule string) {
	// functions (methods of the builder) whose body builds a merge instruction
	mergeFuncs := map[*types.Func]bool{}
	branchFuncs := map[*types.Func]bool{}
	usesConst := func(info *types.Info, n ast.Node, names ...string) bool {
		hit := false
		ast.Inspect(n, func(m ast.Node) bool {
			if id, ok := m.(*ast.Ident); ok {
				if k, ok := info.Uses[id].(*types.Const); ok {
					for _, nm := range names {
						if k.Name() == nm {
							hit = true
						}
					}
				}
			}
			return !hit
		})
		return hit
	}
	for _, fn := range c.allFuncs() {
		if fn.Pkg.Rel != "spirv/internal/codegen" || fn.Obj == nil {
			continue
		}
		// small builder helpers only: the body mentions a merge opcode and no branch opcode
		if usesConst(fn.Pkg.Info, fn.Decl.Body, "OpSelectionMerge", "OpLoopMerge") && !usesConst(fn.Pkg.Info, fn.Decl.Body, "OpBranchConditional", "OpSwitch") && len(fn.Decl.Body.List) <= 6 {
			mergeFuncs[fn.Obj] = true
		}
		// builder helpers that only append a conditional branch: judged at their call sites
		if usesConst(fn.Pkg.Info, fn.Decl.Body, "OpBranchConditional", "OpSwitch") && !usesConst(fn.Pkg.Info, fn.Decl.Body, "OpSelectionMerge", "OpLoopMerge") && len(fn.Decl.Body.List) <= 6 {
			branchFuncs[fn.Obj] = true
		}
	}
	n := 0
	for _, fn := range c.allFuncs() {
		if fn.Pkg.Rel != "spirv/internal/codegen" || (fn.Obj != nil && (mergeFuncs[fn.Obj] || branchFuncs[fn.Obj])) {
			continue
		}
		info := fn.Pkg.Info
		callsBranchFunc := false
		ast.Inspect(fn.Decl.Body, func(m ast.Node) bool {
			if call, ok := m.(*ast.CallExpr); ok {
				if f := calleeOf(info, call); f != nil && branchFuncs[f.Origin()] {
					callsBranchFunc = true
				}
			}
			return !callsBranchFunc
		})
		if !usesConst(info, fn.Decl.Body, "OpBranchConditional", "OpSwitch") && !callsBranchFunc {
			continue
		}
		// local closures that emit a merge
		mergeClosures := map[types.Object]bool{}
		ast.Inspect(fn.Decl.Body, func(m ast.Node) bool {
			as, ok := m.(*ast.AssignStmt)
			if !ok || len(as.Lhs) != 1 || len(as.Rhs) != 1 {
				return true
			}
			lit, ok := as.Rhs[0].(*ast.FuncLit)
			if !ok {
				return true
			}
			if usesConst(info, lit.Body, "OpSelectionMerge", "OpLoopMerge") {
				if id, ok := as.Lhs[0].(*ast.Ident); ok {
					if o := info.Defs[id]; o != nil {
						mergeClosures[o] = true
					}
				}
			}
			return true
		})
		isMergeEvent := func(nd ast.Node) bool {
			hit := false
			ast.Inspect(nd, func(m ast.Node) bool {
				switch x := m.(type) {
				case *ast.FuncLit:
					return false
				case *ast.Ident:
					if k, ok := info.Uses[x].(*types.Const); ok && (k.Name() == "OpSelectionMerge" || k.Name() == "OpLoopMerge") {
						hit = true
					}
				case *ast.CallExpr:
					if f := calleeOf(info, x); f != nil && mergeFuncs[f.Origin()] {
						hit = true
					}
					if id, ok := ast.Unparen(x.Fun).(*ast.Ident); ok && mergeClosures[info.Uses[id]] {
						hit = true
					}
				}
				return !hit
			})
			return hit
		}
		isBranchEvent := func(nd ast.Node) bool {
			hit := false
			ast.Inspect(nd, func(m ast.Node) bool {
				switch x := m.(type) {
				case *ast.FuncLit:
					return false
				case *ast.Ident:
					if k, ok := info.Uses[x].(*types.Const); ok && (k.Name() == "OpBranchConditional" || k.Name() == "OpSwitch") {
						hit = true
					}
				case *ast.CallExpr:
					if f := calleeOf(info, x); f != nil && branchFuncs[f.Origin()] {
						hit = true
					}
				}
				return !hit
			})
			return hit
		}
		g := cfg.New(fn.Decl.Body, func(*ast.CallExpr) bool { return true })
		// must-analysis: in[b] = merge emitted on every path to b
		in := make([]int8, len(g.Blocks)) // -1 unknown, 0 no, 1 yes
		for i := range in {
			in[i] = -1
		}
		in[0] = 0
		work := []int32{0}
		type site struct {
			node ast.Node
			ok   bool
		}
		sites := map[ast.Node]*site{}
		var order []ast.Node
		for len(work) > 0 {
			bi := work[0]
			work = work[1:]
			st := in[bi]
			for _, nd := range g.Blocks[bi].Nodes {
				// a node may contain both (merge first in source order is the common case): judge the branch after the merge
				m, b := isMergeEvent(nd), isBranchEvent(nd)
				if m {
					st = 1
				}
				if b {
					s := sites[nd]
					if s == nil {
						s = &site{node: nd, ok: true}
						sites[nd] = s
						order = append(order, nd)
					}
					if st != 1 {
						s.ok = false
					}
				}
			}
			for _, s := range g.Blocks[bi].Succs {
				nv := st
				if in[s.Index] == -1 {
					in[s.Index] = nv
					work = append(work, s.Index)
				} else if nv < in[s.Index] {
					in[s.Index] = nv
					work = append(work, s.Index)
				}
			}
		}
		for i, nd := range order {
			n++
			cons := fn.id() + ":branch#" + itoa(i+1)
			if sites[nd].ok {
				r.ok(rule, cons, c.pos(nd.Pos()), "")
			} else {
				r.viol(rule, cons, c.pos(nd.Pos()), fn.id()+" can reach this OpBranchConditional / OpSwitch emission on a path on which no OpSelectionMerge / OpLoopMerge has been emitted: the block heads a selection without a merge instruction (not structured control flow)")
			}
		}
	}
	r.inst("spirv.mergefirst", n)
}
