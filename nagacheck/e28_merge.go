package main

// spirv.mergefirst (C02): structured control flow. A block that ends in
// OpBranchConditional or OpSwitch heads a selection (or is a loop header) and
// must carry an OpSelectionMerge / OpLoopMerge, except when the branch only
// exits a construct whose merge was declared before. In the SPIR-V emitter
// every function that emits such a terminator therefore emits a merge
// instruction first: on every control-flow path (go/cfg, forward must-analysis)
// from the function's entry to the emission of an OpBranchConditional /
// OpSwitch, an emission of OpSelectionMerge or OpLoopMerge has happened - as a
// direct Build(OpSelectionMerge), through a builder method that does so, or
// through a local closure that does so.

import (
	"go/ast"
	"go/token"
	"go/types"
	"sort"

	"golang.org/x/tools/go/cfg"
)

func (c *Ctx) runMergeFirst(r *Report, rule string) {
	// functions (methods of the builder) whose body builds a merge instruction
	mergeFuncs := map[*types.Func]bool{}
	branchFuncs := map[*types.Func]bool{}
	usesConst := func(info *types.Info, n ast.Node, names ...string) bool {
		hit := false
		ast.Inspect(n, func(m ast.Node) bool {
			if id, ok := m.(*ast.Ident); ok {
				if k, ok := info.Uses[id].(*types.Const); ok {
					for _, nm := range names {
						if k.Name() == nm {
							hit = true
						}
					}
				}
			}
			return !hit
		})
		return hit
	}
	for _, fn := range c.allFuncs() {
		if fn.Pkg.Rel != "spirv/internal/codegen" || fn.Obj == nil {
			continue
		}
		// small builder helpers only: the body mentions a merge opcode and no branch opcode
		if usesConst(fn.Pkg.Info, fn.Decl.Body, "OpSelectionMerge", "OpLoopMerge") && !usesConst(fn.Pkg.Info, fn.Decl.Body, "OpBranchConditional", "OpSwitch") && len(fn.Decl.Body.List) <= 6 {
			mergeFuncs[fn.Obj] = true
		}
		// builder helpers that only append a conditional branch: judged at their call sites
		if usesConst(fn.Pkg.Info, fn.Decl.Body, "OpBranchConditional", "OpSwitch") && !usesConst(fn.Pkg.Info, fn.Decl.Body, "OpSelectionMerge", "OpLoopMerge") && len(fn.Decl.Body.List) <= 6 {
			branchFuncs[fn.Obj] = true
		}
	}
	n := 0
	for _, fn := range c.allFuncs() {
		if fn.Pkg.Rel != "spirv/internal/codegen" || (fn.Obj != nil && (mergeFuncs[fn.Obj] || branchFuncs[fn.Obj])) {
			continue
		}
		info := fn.Pkg.Info
		callsBranchFunc := false
		ast.Inspect(fn.Decl.Body, func(m ast.Node) bool {
			if call, ok := m.(*ast.CallExpr); ok {
				if f := calleeOf(info, call); f != nil && branchFuncs[f.Origin()] {
					callsBranchFunc = true
				}
			}
			return !callsBranchFunc
		})
		if !usesConst(info, fn.Decl.Body, "OpBranchConditional", "OpSwitch") && !callsBranchFunc {
			continue
		}
		// local closures that emit a merge
		mergeClosures := map[types.Object]bool{}
		ast.Inspect(fn.Decl.Body, func(m ast.Node) bool {
			as, ok := m.(*ast.AssignStmt)
			if !ok || len(as.Lhs) != 1 || len(as.Rhs) != 1 {
				return true
			}
			lit, ok := as.Rhs[0].(*ast.FuncLit)
			if !ok {
				return true
			}
			if usesConst(info, lit.Body, "OpSelectionMerge", "OpLoopMerge") {
				if id, ok := as.Lhs[0].(*ast.Ident); ok {
					if o := info.Defs[id]; o != nil {
						mergeClosures[o] = true
					}
				}
			}
			return true
		})
		isMergeEvent := func(nd ast.Node) bool {
			hit := false
			ast.Inspect(nd, func(m ast.Node) bool {
				switch x := m.(type) {
				case *ast.FuncLit:
					return false
				case *ast.Ident:
					if k, ok := info.Uses[x].(*types.Const); ok && (k.Name() == "OpSelectionMerge" || k.Name() == "OpLoopMerge") {
						hit = true
					}
				case *ast.CallExpr:
					if f := calleeOf(info, x); f != nil && mergeFuncs[f.Origin()] {
						hit = true
					}
					if id, ok := ast.Unparen(x.Fun).(*ast.Ident); ok && mergeClosures[info.Uses[id]] {
						hit = true
					}
				}
				return !hit
			})
			return hit
		}
		isBranchEvent := func(nd ast.Node) bool {
			hit := false
			ast.Inspect(nd, func(m ast.Node) bool {
				switch x := m.(type) {
				case *ast.FuncLit:
					return false
				case *ast.Ident:
					if k, ok := info.Uses[x].(*types.Const); ok && (k.Name() == "OpBranchConditional" || k.Name() == "OpSwitch") {
						hit = true
					}
				case *ast.CallExpr:
					if f := calleeOf(info, x); f != nil && branchFuncs[f.Origin()] {
						hit = true
					}
				}
				return !hit
			})
			return hit
		}
		g := cfg.New(fn.Decl.Body, func(*ast.CallExpr) bool { return true })
		// must-analysis: in[b] = merge emitted on every path to b
		in := make([]int8, len(g.Blocks)) // -1 unknown, 0 no, 1 yes
		for i := range in {
			in[i] = -1
		}
		in[0] = 0
		work := []int32{0}
		type site struct {
			node ast.Node
			ok   bool
		}
		sites := map[ast.Node]*site{}
		var order []ast.Node
		for len(work) > 0 {
			bi := work[0]
			work = work[1:]
			st := in[bi]
			for _, nd := range g.Blocks[bi].Nodes {
				// a node may contain both (merge first in source order is the common case): judge the branch after the merge
				m, b := isMergeEvent(nd), isBranchEvent(nd)
				if m {
					st = 1
				}
				if b {
					s := sites[nd]
					if s == nil {
						s = &site{node: nd, ok: true}
						sites[nd] = s
						order = append(order, nd)
					}
					if st != 1 {
						s.ok = false
					}
				}
			}
			for _, s := range g.Blocks[bi].Succs {
				nv := st
				if in[s.Index] == -1 {
					in[s.Index] = nv
					work = append(work, s.Index)
				} else if nv < in[s.Index] {
					in[s.Index] = nv
					work = append(work, s.Index)
				}
			}
		}
		for i, nd := range order {
			n++
			cons := fn.id() + ":branch#" + itoa(i+1)
			if sites[nd].ok {
				r.ok(rule, cons, c.pos(nd.Pos()), "")
			} else {
				r.viol(rule, cons, c.pos(nd.Pos()), fn.id()+" can reach this OpBranchConditional / OpSwitch emission on a path on which no OpSelectionMerge / OpLoopMerge has been emitted: the block heads a selection without a merge instruction (not structured control flow)")
			}
		}
	}
	r.inst("spirv.mergefirst", n)
}

// spirv.blockstate (C02, C10): the emitter writes instructions into a current
// block; consumeBlock(terminator) terminates and closes it (the current block
// becomes nil), setCurrentBlock(b) opens the next one. Within a function, on no
// control-flow path may consumeBlock be reached while the current block is
// definitely closed (nil dereference, and a terminator without a block), nor
// setCurrentBlock while it is definitely open (the open block is dropped
// unterminated with the instructions emitted into it), nor e.currentBlock.X be
// read while definitely closed.
//
// Four-valued forward analysis over go/cfg (bottom / open / closed / unknown;
// different states join to unknown). Calls are interpreted through per-function
// summaries - the state in which the callee returns on its non-error returns
// when entered with an open block - computed as the least fixed point over the
// package (bottom = "has not been seen to return yet", which makes recursion
// through emitStatement / emitBlock converge from below). A test of
// e.currentBlock against nil refines the state on its two branches. A call of a
// local closure or of a function value gives unknown. Methods of the emitter are
// entered with an open block; function-level drivers with unknown.
func (c *Ctx) runBlockState(r *Report, rule string) {
	const (
		bot    = -1
		unk    = 0
		open   = 1
		closed = 2
	)
	join := func(a, b int8) int8 {
		switch {
		case a == bot:
			return b
		case b == bot:
			return a
		case a == b:
			return a
		}
		return unk
	}
	var consumeF, setF *types.Func
	var funcs []*funcInfo
	for _, fn := range c.allFuncs() {
		if fn.Pkg.Rel != "spirv/internal/codegen" || fn.Obj == nil {
			continue
		}
		switch fn.Name {
		case "ExpressionEmitter.consumeBlock":
			consumeF = fn.Obj
			continue
		case "ExpressionEmitter.setCurrentBlock":
			setF = fn.Obj
			continue
		}
		funcs = append(funcs, fn)
	}
	if consumeF == nil || setF == nil {
		r.undecided(rule, "spirv/internal/codegen:consumeBlock/setCurrentBlock", "", "block open/close functions not found")
		return
	}
	isCurBlock := func(info *types.Info, e ast.Expr) bool {
		se, ok := ast.Unparen(e).(*ast.SelectorExpr)
		if !ok || se.Sel.Name != "currentBlock" {
			return false
		}
		v, ok := info.Uses[se.Sel].(*types.Var)
		return ok && v.IsField()
	}
	isNil := func(info *types.Info, e ast.Expr) bool {
		id, ok := ast.Unparen(e).(*ast.Ident)
		if !ok {
			return false
		}
		_, isN := info.Uses[id].(*types.Nil)
		return isN
	}
	// functions that change the block state, directly or through callees
	changes := map[*types.Func]bool{consumeF: true, setF: true}
	writesField := func(fn *funcInfo) bool {
		hit := false
		ast.Inspect(fn.Decl.Body, func(m ast.Node) bool {
			if as, ok := m.(*ast.AssignStmt); ok {
				for _, l := range as.Lhs {
					if isCurBlock(fn.Pkg.Info, l) {
						hit = true
					}
				}
			}
			return !hit
		})
		return hit
	}
	for _, fn := range funcs {
		if writesField(fn) {
			changes[fn.Obj] = true
		}
	}
	for changed := true; changed; {
		changed = false
		for _, fn := range funcs {
			if changes[fn.Obj] {
				continue
			}
			info := fn.Pkg.Info
			ast.Inspect(fn.Decl.Body, func(m ast.Node) bool {
				if call, ok := m.(*ast.CallExpr); ok {
					if f := calleeOf(info, call); f != nil && changes[f.Origin()] {
						changes[fn.Obj] = true
						changed = true
					}
				}
				return !changes[fn.Obj]
			})
		}
	}
	entryOf := func(fn *funcInfo) int8 {
		if sig, ok := fn.Obj.Type().(*types.Signature); ok && sig.Recv() != nil && namedName(sig.Recv().Type()) == "ExpressionEmitter" {
			return open
		}
		return unk
	}
	summary := map[*types.Func]int8{consumeF: closed, setF: open}
	for _, fn := range funcs {
		if changes[fn.Obj] {
			summary[fn.Obj] = bot
		}
	}
	type siteRes struct {
		node ast.Node
		desc string
		msg  string
	}
	errorT := types.Universe.Lookup("error").Type()
	analyse := func(fn *funcInfo, report bool) (int8, []siteRes) {
		info := fn.Pkg.Info
		// returns that are error returns: `return ..., err` directly inside `if err != nil {`, or a freshly made error
		errReturn := map[*ast.ReturnStmt]bool{}
		ast.Inspect(fn.Decl.Body, func(m ast.Node) bool {
			ifs, ok := m.(*ast.IfStmt)
			if !ok {
				return true
			}
			be, ok := ast.Unparen(ifs.Cond).(*ast.BinaryExpr)
			if !ok || be.Op != token.NEQ || !isNil(info, be.Y) {
				return true
			}
			cid, ok := ast.Unparen(be.X).(*ast.Ident)
			if !ok || !types.Identical(info.TypeOf(cid), errorT) {
				return true
			}
			for _, st := range ifs.Body.List {
				if rs, ok := st.(*ast.ReturnStmt); ok && len(rs.Results) > 0 {
					if id, ok := ast.Unparen(rs.Results[len(rs.Results)-1]).(*ast.Ident); ok && info.Uses[id] == info.Uses[cid] {
						errReturn[rs] = true
					}
				}
			}
			return true
		})
		isErrReturn := func(rs *ast.ReturnStmt) bool {
			if errReturn[rs] {
				return true
			}
			if len(rs.Results) == 0 {
				return false
			}
			last := ast.Unparen(rs.Results[len(rs.Results)-1])
			if call, ok := last.(*ast.CallExpr); ok && types.Identical(info.TypeOf(call), errorT) {
				if f := calleeOf(info, call); f != nil && f.Pkg() != nil && (f.Pkg().Path() == "fmt" && f.Name() == "Errorf" || f.Pkg().Path() == "errors" && f.Name() == "New") {
					return true
				}
			}
			return false
		}
		hasClosure := false
		ast.Inspect(fn.Decl.Body, func(m ast.Node) bool {
			if _, ok := m.(*ast.FuncLit); ok {
				hasClosure = true
			}
			return !hasClosure
		})
		g := cfg.New(fn.Decl.Body, func(*ast.CallExpr) bool { return true })
		in := make([]int8, len(g.Blocks))
		for i := range in {
			in[i] = bot
		}
		in[0] = entryOf(fn)
		work := []int32{0}
		queued := map[int32]bool{0: true}
		bad := map[ast.Node]string{}
		siteSeen := map[ast.Node]string{}
		var order []ast.Node
		note := func(nd ast.Node, desc string) {
			if _, s := siteSeen[nd]; !s {
				siteSeen[nd] = desc
				order = append(order, nd)
			}
		}
		exit := int8(bot)
		for len(work) > 0 {
			bi := work[0]
			work = work[1:]
			queued[bi] = false
			st := in[bi]
			blk := g.Blocks[bi]
			var refine ast.Expr
			for ni, nd := range blk.Nodes {
				if st == bot {
					break
				}
				// reads of e.currentBlock.X
				ast.Inspect(nd, func(m ast.Node) bool {
					switch x := m.(type) {
					case *ast.FuncLit:
						return false
					case *ast.SelectorExpr:
						if isCurBlock(info, x.X) {
							note(x, "currentBlock."+x.Sel.Name)
							if st == closed {
								bad[x] = "e.currentBlock." + x.Sel.Name + " is read while the current block is closed (nil)"
							}
						}
					case *ast.StarExpr:
						if isCurBlock(info, x.X) {
							note(x, "*currentBlock")
							if st == closed {
								bad[x] = "*e.currentBlock is read while the current block is closed (nil)"
							}
						}
					}
					return true
				})
				for _, call := range callsIn(nd) {
					f := calleeOf(info, call)
					if f != nil {
						f = f.Origin()
					}
					switch {
					case f == consumeF:
						note(call, "consumeBlock")
						if st == closed {
							bad[call] = "consumeBlock is reached while the current block is already closed (nil)"
						}
						st = closed
					case f == setF:
						note(call, "setCurrentBlock")
						if st == open {
							bad[call] = "setCurrentBlock is reached while the current block is still open: that block is dropped without a terminator, with the instructions emitted into it"
						}
						st = open
					case f != nil && changes[f]:
						s := summary[f]
						switch {
						case s == bot:
							st = bot
						case st == open || entryOf(&funcInfo{Obj: f}) == unk:
							st = s
						default:
							st = unk
						}
					case f == nil && hasClosure:
						if _, isConv := info.Types[call.Fun]; isConv && info.Types[call.Fun].IsType() {
							break
						}
						if _, isB := info.Uses[identOf(call.Fun)].(*types.Builtin); isB {
							break
						}
						st = unk
					}
					if st == bot {
						break
					}
				}
				if st == bot {
					break
				}
				if as, ok := nd.(*ast.AssignStmt); ok {
					for li, l := range as.Lhs {
						if isCurBlock(info, l) && li < len(as.Rhs) {
							if isNil(info, as.Rhs[li]) {
								st = closed
							} else {
								st = open
							}
						}
					}
				}
				if ni == len(blk.Nodes)-1 {
					if e, ok := nd.(ast.Expr); ok && len(blk.Succs) == 2 {
						refine = e
					}
				}
			}
			if st == bot {
				continue
			}
			if len(blk.Succs) == 0 {
				counted := true
				if len(blk.Nodes) > 0 {
					switch x := blk.Nodes[len(blk.Nodes)-1].(type) {
					case *ast.ReturnStmt:
						counted = !isErrReturn(x)
					case *ast.ExprStmt:
						if call, ok := x.X.(*ast.CallExpr); ok {
							if _, isB := info.Uses[identOf(call.Fun)].(*types.Builtin); isB && identOf(call.Fun).Name == "panic" {
								counted = false
							}
						}
					}
				}
				if counted {
					exit = join(exit, st)
				}
				continue
			}
			for si, s := range blk.Succs {
				nv := st
				if refine != nil {
					if be, ok := ast.Unparen(refine).(*ast.BinaryExpr); ok && (be.Op == token.EQL || be.Op == token.NEQ) && isCurBlock(info, be.X) && isNil(info, be.Y) {
						isNilBranch := (be.Op == token.EQL) == (si == 0)
						if isNilBranch {
							nv = closed
						} else {
							nv = open
						}
					}
				}
				j := join(in[s.Index], nv)
				if j != in[s.Index] {
					in[s.Index] = j
					if !queued[s.Index] {
						queued[s.Index] = true
						work = append(work, s.Index)
					}
				}
			}
		}
		if !report {
			return exit, nil
		}
		var out []siteRes
		for _, nd := range order {
			out = append(out, siteRes{nd, siteSeen[nd], bad[nd]})
		}
		return exit, out
	}
	// least fixed point of the summaries
	for round := 0; ; round++ {
		changed := false
		for _, fn := range funcs {
			if !changes[fn.Obj] {
				continue
			}
			ex, _ := analyse(fn, false)
			if j := join(summary[fn.Obj], ex); j != summary[fn.Obj] {
				summary[fn.Obj] = j
				changed = true
			}
		}
		if !changed {
			break
		}
		if round > 50 {
			r.undecided(rule, "spirv/internal/codegen:summaries", "", "block-state summaries did not converge")
			return
		}
	}
	c.blockSummaries = map[string]int8{}
	for f, s := range summary {
		c.blockSummaries[f.FullName()] = s
	}
	n := 0
	for _, fn := range funcs {
		if !changes[fn.Obj] {
			// still judge reads of currentBlock.X? they cannot be closed without a change: skip
			continue
		}
		_, sites := analyse(fn, true)
		ord := map[string]int{}
		for _, s := range sites {
			n++
			ord[s.desc]++
			cons := fn.id() + ":" + s.desc + "#" + itoa(ord[s.desc])
			if s.msg != "" {
				r.viol(rule, cons, c.pos(s.node.Pos()), fn.id()+": "+s.msg)
			} else {
				r.ok(rule, cons, c.pos(s.node.Pos()), "")
			}
		}
	}
	r.inst("spirv.blockstate", n)
}

func identOf(e ast.Expr) *ast.Ident {
	id, _ := ast.Unparen(e).(*ast.Ident)
	return id
}

func init() {
	dumpers["blockstate"] = func(c *Ctx, parts []string) {
		r := newReport("dump")
		c.runBlockState(r, "spirv.blockstate")
		names := []string{"bottom", "unknown", "open", "closed"}
		var keys []string
		for k := range c.blockSummaries {
			keys = append(keys, k)
		}
		sort.Strings(keys)
		for _, k := range keys {
			println("summary", k, names[c.blockSummaries[k]+1])
		}
		for _, o := range r.Obs {
			println(o.Verdict, o.Construct, o.Pos, o.Msg)
		}
	}
}
