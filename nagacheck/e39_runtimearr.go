package main

// runtimearray.shapes (C15, C04): a runtime-sized array lives either in a global
// variable that IS the array (var<storage> d: array<T>) or in the last member of
// a global's struct. A function that looks at the type of a global variable
// (a type handle read from a GlobalVariable's Type field, directly or through a
// resolver that returns it) and decides whether an array is runtime-sized
// (Size.Constant compared with nil) computes the dynamic length for a
// bounds-check policy or arrayLength(): it must examine the global's type for
// BOTH shapes - a type assertion / switch arm on that handle for ir.StructType
// and one for ir.ArrayType. With only the struct shape, accesses to a bare
// runtime array get no clamp / no range test.

import (
	"go/ast"
	"go/token"
	"go/types"
	"sort"
	"strings"
)

const runtimeArrClause = "runtime array shapes (E39): a function that decides runtime-sizedness of an array reached through the type of a global variable examines that type for both shapes a runtime-sized array can have - the global itself (ArrayType) and the last member of its struct (StructType)"

func (c *Ctx) runRuntimeArrayShapes(r *Report, rule string, pkgs func(string) bool) {
	n := 0
	for _, fn := range c.allFuncs() {
		if !pkgs(fn.Pkg.Rel) {
			continue
		}
		info := fn.Pkg.Info
		// type-handle variables that hold a global variable's type
		globalTy := map[types.Object]bool{}
		exprIsGlobalTy := func(e ast.Expr) bool {
			e = ast.Unparen(e)
			if id, ok := e.(*ast.Ident); ok {
				return globalTy[info.Uses[id]]
			}
			if se, ok := e.(*ast.SelectorExpr); ok && se.Sel.Name == "Type" {
				if tv, ok := info.Types[se.X]; ok && irTypeName(tv.Type) == "GlobalVariable" {
					return true
				}
			}
			return false
		}
		for changed := true; changed; {
			changed = false
			ast.Inspect(fn.Decl.Body, func(m ast.Node) bool {
				as, ok := m.(*ast.AssignStmt)
				if !ok {
					return true
				}
				mark := func(l ast.Expr) {
					if id, ok := l.(*ast.Ident); ok && id.Name != "_" {
						if o := info.ObjectOf(id); o != nil && !globalTy[o] && irTypeName(o.Type()) == "TypeHandle" {
							globalTy[o] = true
							changed = true
						}
					}
				}
				if len(as.Lhs) == len(as.Rhs) {
					for i := range as.Rhs {
						if exprIsGlobalTy(as.Rhs[i]) {
							mark(as.Lhs[i])
						}
					}
				} else if len(as.Rhs) == 1 {
					// idx, ty, ok := w.resolveGlobalVariable(h): a callee that itself returns GlobalVariables[..].Type
					if call, ok := ast.Unparen(as.Rhs[0]).(*ast.CallExpr); ok {
						if f := calleeOf(info, call); f != nil {
							if fi := c.funcByObj(f.Origin()); fi != nil && fi.Decl.Body != nil {
								returnsGlobalTy := -1
								ast.Inspect(fi.Decl.Body, func(k ast.Node) bool {
									if rs, ok := k.(*ast.ReturnStmt); ok {
										for i, e := range rs.Results {
											if se, ok := ast.Unparen(e).(*ast.SelectorExpr); ok && se.Sel.Name == "Type" {
												if tv, ok := fi.Pkg.Info.Types[se.X]; ok && irTypeName(tv.Type) == "GlobalVariable" {
													returnsGlobalTy = i
												}
											}
										}
									}
									return true
								})
								if returnsGlobalTy >= 0 && returnsGlobalTy < len(as.Lhs) {
									mark(as.Lhs[returnsGlobalTy])
								}
							}
						}
					}
				}
				return true
			})
		}
		// runtime-sizedness test
		testsRuntime := false
		ast.Inspect(fn.Decl.Body, func(m ast.Node) bool {
			if be, ok := m.(*ast.BinaryExpr); ok && (be.Op == token.EQL || be.Op == token.NEQ) {
				if se, ok := ast.Unparen(be.X).(*ast.SelectorExpr); ok && se.Sel.Name == "Constant" {
					if id, ok := ast.Unparen(be.Y).(*ast.Ident); ok && id.Name == "nil" {
						testsRuntime = true
					}
				}
			}
			return !testsRuntime
		})
		if !testsRuntime {
			continue
		}
		// shapes examined on a global's type: Types[T].Inner.(ir.K) / switch Types[T].Inner.(type) { case ir.K }
		shapes := map[string]bool{}
		onGlobal := func(x ast.Expr) bool {
			// x is <...>.Types[T].Inner with T a global type handle
			se, ok := ast.Unparen(x).(*ast.SelectorExpr)
			if !ok || se.Sel.Name != "Inner" {
				return false
			}
			ix, ok := ast.Unparen(se.X).(*ast.IndexExpr)
			if !ok {
				return false
			}
			return exprIsGlobalTy(ix.Index)
		}
		ast.Inspect(fn.Decl.Body, func(m ast.Node) bool {
			switch x := m.(type) {
			case *ast.TypeAssertExpr:
				if x.Type != nil && onGlobal(x.X) {
					shapes[irTypeName(info.TypeOf(x.Type))] = true
				}
			case *ast.TypeSwitchStmt:
				var subj ast.Expr
				switch a := x.Assign.(type) {
				case *ast.AssignStmt:
					if ta, ok := ast.Unparen(a.Rhs[0]).(*ast.TypeAssertExpr); ok {
						subj = ta.X
					}
				case *ast.ExprStmt:
					if ta, ok := ast.Unparen(a.X).(*ast.TypeAssertExpr); ok {
						subj = ta.X
					}
				}
				if subj != nil && onGlobal(subj) {
					for _, cl := range x.Body.List {
						for _, l := range cl.(*ast.CaseClause).List {
							shapes[irTypeName(info.TypeOf(l))] = true
						}
					}
				}
			}
			return true
		})
		if !shapes["StructType"] && !shapes["ArrayType"] {
			continue // looks at the global's type for something else (binding arrays, images)
		}
		n++
		var ks []string
		for k := range shapes {
			ks = append(ks, k)
		}
		sort.Strings(ks)
		cons := fn.id() + ":global-type-shapes"
		if shapes["StructType"] && shapes["ArrayType"] {
			r.ok(rule, cons, c.pos(fn.Decl.Pos()), strings.Join(ks, ","))
		} else {
			r.viol(rule, cons, c.pos(fn.Decl.Pos()), fn.id()+" resolves a runtime-sized array through the type of a global variable but examines that type only for ["+strings.Join(ks, ",")+"]: a runtime-sized array is either the last member of the global's struct or the global itself (var<storage> d: array<T>); the shape left out gets no dynamic length")
		}
	}
	r.inst("runtimearray.shapes", n)
}

func init() {
	dumpers["runtimearr"] = func(c *Ctx, parts []string) {
		r := newReport("dump")
		c.runRuntimeArrayShapes(r, "runtimearray.shapes", func(string) bool { return true })
		for _, o := range r.Obs {
			println(o.Verdict, o.Construct, o.Pos, o.Msg)
		}
	}
}
