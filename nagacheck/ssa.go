package main

import (
	"golang.org/x/tools/go/callgraph"
	"golang.org/x/tools/go/callgraph/cha"
	"golang.org/x/tools/go/callgraph/vta"
	"golang.org/x/tools/go/packages"
	"golang.org/x/tools/go/ssa"
	"golang.org/x/tools/go/ssa/ssautil"
)

type ssaState struct {
	Prog *ssa.Program
	Pkgs map[string]*ssa.Package
	cg   *callgraph.Graph
}

// SSA builds (once) the SSA form of every loaded package.
func (c *Ctx) SSA() *ssaState {
	if c.ssa != nil {
		return c.ssa
	}
	var all []*packages.Package
	for _, p := range c.Roots {
		all = append(all, p)
	}
	prog, pkgs := ssautil.AllPackages(all, ssa.InstantiateGenerics)
	prog.Build()
	st := &ssaState{Prog: prog, Pkgs: map[string]*ssa.Package{}}
	for i, p := range pkgs {
		if p != nil {
			st.Pkgs[all[i].PkgPath] = p
		}
	}
	c.ssa = st
	return st
}

// CallGraph returns the VTA call graph (built once).
func (s *ssaState) CallGraph() *callgraph.Graph {
	if s.cg == nil {
		s.cg = vta.CallGraph(ssautil.AllFunctions(s.Prog), cha.CallGraph(s.Prog))
	}
	return s.cg
}
