package main

import "regexp"

// Reference tables for E18 (enum maps). Sources: SPIR-V 1.6 unified
// specification (BuiltIn, StorageClass, ExecutionModel/Mode, Decoration,
// Capability, Image Format), "Semantics" (HLSL reference, Direct3D 10+ system
// values), Metal Shading Language Specification (tables "Attributes for vertex
// / fragment / kernel function input arguments", address spaces, interpolation
// and sampling qualifiers, texture types), OpenGL Shading Language 4.60 /
// ESSL 3.20 (built-in variables, interpolation qualifiers, image format layout
// qualifiers, opaque types), WGSL (builtin values, address spaces, texel
// formats). Words are written as the backends spell them (SPIR-V constants by
// the names of the constants in spirv/internal/codegen, whose numeric values
// are checked separately by tables.spirv).

type enumTable struct {
	Rule      string
	Pkg       string // package prefix
	Enum      string
	Sum       bool   // Enum is a sum type of package ir (type switch over its variants) instead of a constant enum
	VocabType string // all constants of this Go type (declared under Pkg) join the vocabulary
	Ref       enumRef
	SkipFuncs map[string]string // function id -> reason (arm words there have another meaning)
}

func same(ms []string, words ...string) enumRef {
	r := enumRef{}
	for _, m := range ms {
		r[m] = words
	}
	return r
}

func merge(rs ...enumRef) enumRef {
	out := enumRef{}
	for _, r := range rs {
		for k, v := range r {
			out[k] = append(out[k], v...)
		}
	}
	return out
}

var subgroupBuiltins = []string{"BuiltinNumSubgroups", "BuiltinSubgroupID", "BuiltinSubgroupSize", "BuiltinSubgroupInvocationID"}

var hlslSemantics = enumRef{
	"BuiltinPosition": {"SV_Position", "SVPosition"}, "BuiltinVertexIndex": {"SV_VertexID", "SVVertexID"}, "BuiltinInstanceIndex": {"SV_InstanceID", "SVInstanceID"},
	"BuiltinFrontFacing": {"SV_IsFrontFace", "SVIsFrontFace"}, "BuiltinFragDepth": {"SV_Depth", "SVDepth", "SV_DepthGreaterEqual", "SV_DepthLessEqual"},
	"BuiltinSampleIndex": {"SV_SampleIndex", "SVSampleIndex"}, "BuiltinSampleMask": {"SV_Coverage", "SVCoverage"},
	"BuiltinGlobalInvocationID": {"SV_DispatchThreadID"}, "BuiltinLocalInvocationID": {"SV_GroupThreadID"}, "BuiltinLocalInvocationIndex": {"SV_GroupIndex"},
	"BuiltinWorkGroupID": {"SV_GroupID"},
	// num_workgroups has no HLSL system value: the backend reads it from a helper constant buffer; the semantic table carries a placeholder
	"BuiltinNumWorkGroups": {"SV_GroupID"},
	"BuiltinViewIndex":     {"SV_ViewID", "SVViewID"}, "BuiltinBarycentric": {"SV_Barycentrics", "SVBarycentrics"},
	"BuiltinClipDistance": {"SV_ClipDistance", "SVClipDistance"}, "BuiltinPrimitiveIndex": {"SV_PrimitiveID", "SVPrimitiveID"},
	"BuiltinPointSize": {"PSIZE", "PSize"}, "BuiltinCullPrimitive": {"SV_CullPrimitive", "SVCullPrimitive"},
}

var enumTables = []enumTable{
	// ---- SPIR-V ------------------------------------------------------------
	{Rule: "enummap.spirv.builtin", Pkg: "spirv", Enum: "BuiltinValue", VocabType: "BuiltIn", Ref: enumRef{
		"BuiltinPosition": {"BuiltInPosition", "BuiltInFragCoord"}, "BuiltinVertexIndex": {"BuiltInVertexIndex"}, "BuiltinInstanceIndex": {"BuiltInInstanceIndex"},
		"BuiltinFrontFacing": {"BuiltInFrontFacing"}, "BuiltinFragDepth": {"BuiltInFragDepth"}, "BuiltinSampleIndex": {"BuiltInSampleID"}, "BuiltinSampleMask": {"BuiltInSampleMask"},
		"BuiltinLocalInvocationID": {"BuiltInLocalInvocationID"}, "BuiltinLocalInvocationIndex": {"BuiltInLocalInvocationIndex"}, "BuiltinGlobalInvocationID": {"BuiltInGlobalInvocationID"},
		"BuiltinWorkGroupID": {"BuiltInWorkgroupID"}, "BuiltinNumWorkGroups": {"BuiltInNumWorkgroups"}, "BuiltinNumSubgroups": {"BuiltInNumSubgroups"}, "BuiltinSubgroupID": {"BuiltInSubgroupID"},
		"BuiltinSubgroupSize": {"BuiltInSubgroupSize"}, "BuiltinSubgroupInvocationID": {"BuiltInSubgroupLocalInvID"}, "BuiltinClipDistance": {"BuiltInClipDistance"},
		"BuiltinPrimitiveIndex": {"BuiltInPrimitiveID"}, "BuiltinBarycentric": {"BuiltInBaryCoordKHR"}, "BuiltinViewIndex": {"BuiltInViewIndex"}, "BuiltinPointSize": {"BuiltInPointSize"},
	}},
	{Rule: "enummap.spirv.builtincap", Pkg: "spirv", Enum: "BuiltinValue", VocabType: "Capability", Ref: merge(enumRef{
		"BuiltinSampleIndex": {"CapabilitySampleRateShading"},
		"BuiltinSampleMask":  {"CapabilitySampleRateShading"}, // not required by the specification; over-declaring is harmless
		"BuiltinViewIndex":   {"CapabilityMultiView"}, "BuiltinBarycentric": {"CapabilityFragmentBarycentricKHR"},
		"BuiltinClipDistance": {"CapabilityClipDistance"}, "BuiltinPrimitiveIndex": {"CapabilityGeometry", "CapabilityTessellation", "CapabilityRayTracingKHR", "CapabilityMeshShadingEXT"},
		"BuiltinPosition": {}, "BuiltinVertexIndex": {}, "BuiltinInstanceIndex": {}, "BuiltinFrontFacing": {}, "BuiltinFragDepth": {}, "BuiltinLocalInvocationID": {},
		"BuiltinLocalInvocationIndex": {}, "BuiltinGlobalInvocationID": {}, "BuiltinWorkGroupID": {}, "BuiltinNumWorkGroups": {}, "BuiltinPointSize": {},
	}, same(subgroupBuiltins, "CapabilityGroupNonUniform"))},
	{Rule: "enummap.spirv.stage", Pkg: "spirv", Enum: "ShaderStage", VocabType: "ExecutionModel", Ref: enumRef{
		"StageVertex": {"ExecutionModelVertex"}, "StageFragment": {"ExecutionModelFragment"}, "StageCompute": {"ExecutionModelGLCompute"},
		"StageTask": {"ExecutionModelTaskEXT", "ExecutionModelTaskNV"}, "StageMesh": {"ExecutionModelMeshEXT", "ExecutionModelMeshNV"},
	}},
	{Rule: "enummap.spirv.execmode", Pkg: "spirv", Enum: "ShaderStage", VocabType: "ExecutionMode", Ref: enumRef{
		"StageVertex":   {},
		"StageFragment": {"ExecutionModeOriginUpperLeft", "ExecutionModeDepthReplacing", "ExecutionModeEarlyFragmentTests", "ExecutionModeDepthGreater", "ExecutionModeDepthLess", "ExecutionModeDepthUnchanged", "ExecutionModePixelCenterInteger", "ExecutionModeOriginLowerLeft"},
		"StageCompute":  {"ExecutionModeLocalSize", "ExecutionModeLocalSizeId", "ExecutionModeLocalSizeHint"},
	}},
	{Rule: "enummap.spirv.space", Pkg: "spirv", Enum: "AddressSpace", VocabType: "StorageClass", Ref: enumRef{
		"SpaceFunction": {"StorageClassFunction"}, "SpacePrivate": {"StorageClassPrivate"}, "SpaceWorkGroup": {"StorageClassWorkgroup"}, "SpaceUniform": {"StorageClassUniform"},
		"SpaceStorage": {"StorageClassStorageBuffer"}, "SpacePushConstant": {"StorageClassPushConstant"}, "SpaceImmediate": {"StorageClassPushConstant"},
		"SpaceHandle": {"StorageClassUniformConstant"}, "SpaceTaskPayload": {"StorageClassTaskPayloadWorkgroupEXT"},
	}},
	{Rule: "enummap.spirv.interp", Pkg: "spirv", Enum: "InterpolationKind", Ref: enumRef{
		"InterpolationFlat": {"DecorationFlat"}, "InterpolationLinear": {"DecorationNoPerspective"}, "InterpolationPerspective": {},
		"_": {"DecorationCentroid", "DecorationSample"},
	}},
	{Rule: "enummap.spirv.sampling", Pkg: "spirv", Enum: "InterpolationSampling", Ref: enumRef{
		"SamplingCentroid": {"DecorationCentroid"}, "SamplingSample": {"DecorationSample"}, "SamplingCenter": {},
		"_": {"DecorationFlat", "DecorationNoPerspective"},
	}},
	{Rule: "enummap.spirv.dimcap", Pkg: "spirv", Enum: "ImageDimension", VocabType: "Capability", Ref: enumRef{
		"Dim1D": {"CapabilitySampled1D", "CapabilityImage1D"}, "DimCube": {"CapabilitySampledCubeArray", "CapabilityImageCubeArray"},
		"Dim2D": {"CapabilityImageMSArray", "CapabilityStorageImageMultisample"}, "Dim3D": {},
	}},
	{Rule: "enummap.spirv.scalarcap", Pkg: "spirv", Enum: "ScalarKind", VocabType: "Capability", Ref: enumRef{
		"ScalarFloat": {"CapabilityFloat16", "CapabilityFloat64", "CapabilityStorageBuffer16BitAccess", "CapabilityUniformAndStorageBuffer16BitAccess", "CapabilityStorageInputOutput16", "CapabilityStoragePushConstant16", "CapabilityAtomicFloat32AddEXT", "CapabilityAtomicFloat32MinMaxEXT"},
		"ScalarSint":  {"CapabilityInt8", "CapabilityInt16", "CapabilityInt64", "CapabilityInt64Atomics", "CapabilityStorageBuffer8BitAccess", "CapabilityUniformAndStorageBuffer8BitAccess", "CapabilityStorageBuffer16BitAccess", "CapabilityUniformAndStorageBuffer16BitAccess", "CapabilityStorageInputOutput16"},
		"ScalarUint":  {"CapabilityInt8", "CapabilityInt16", "CapabilityInt64", "CapabilityInt64Atomics", "CapabilityStorageBuffer8BitAccess", "CapabilityUniformAndStorageBuffer8BitAccess", "CapabilityStorageBuffer16BitAccess", "CapabilityUniformAndStorageBuffer16BitAccess", "CapabilityStorageInputOutput16"},
		"ScalarBool":  {},
	}},
	{Rule: "enummap.spirv.format", Pkg: "spirv", Enum: "StorageFormat", VocabType: "ImageFormat", Ref: enumRef{
		"StorageFormatR8Unorm": {"ImageFormatR8"}, "StorageFormatR8Snorm": {"ImageFormatR8Snorm"}, "StorageFormatR8Uint": {"ImageFormatR8ui"}, "StorageFormatR8Sint": {"ImageFormatR8i"},
		"StorageFormatR16Uint": {"ImageFormatR16ui"}, "StorageFormatR16Sint": {"ImageFormatR16i"}, "StorageFormatR16Float": {"ImageFormatR16f"},
		"StorageFormatR16Unorm": {"ImageFormatR16"}, "StorageFormatR16Snorm": {"ImageFormatR16Snorm"},
		"StorageFormatRg8Unorm": {"ImageFormatRg8"}, "StorageFormatRg8Snorm": {"ImageFormatRg8Snorm"}, "StorageFormatRg8Uint": {"ImageFormatRg8ui"}, "StorageFormatRg8Sint": {"ImageFormatRg8i"},
		"StorageFormatR32Uint": {"ImageFormatR32ui"}, "StorageFormatR32Sint": {"ImageFormatR32i"}, "StorageFormatR32Float": {"ImageFormatR32f"},
		"StorageFormatRg16Uint": {"ImageFormatRg16ui"}, "StorageFormatRg16Sint": {"ImageFormatRg16i"}, "StorageFormatRg16Float": {"ImageFormatRg16f"},
		"StorageFormatRg16Unorm": {"ImageFormatRg16"}, "StorageFormatRg16Snorm": {"ImageFormatRg16Snorm"},
		"StorageFormatRgba8Unorm": {"ImageFormatRgba8"}, "StorageFormatRgba8Snorm": {"ImageFormatRgba8Snorm"}, "StorageFormatRgba8Uint": {"ImageFormatRgba8ui"}, "StorageFormatRgba8Sint": {"ImageFormatRgba8i"},
		// SPIR-V has no BGRA image format; WGSL bgra8unorm storage textures are declared Rgba8 (the swizzle is the API's job)
		"StorageFormatBgra8Unorm": {"ImageFormatRgba8", "ImageFormatUnknown"},
		"StorageFormatRgb10a2Uint": {"ImageFormatRgb10a2ui"}, "StorageFormatRgb10a2Unorm": {"ImageFormatRgb10A2"}, "StorageFormatRg11b10Ufloat": {"ImageFormatR11fG11fB10f"},
		"StorageFormatRg32Uint": {"ImageFormatRg32ui"}, "StorageFormatRg32Sint": {"ImageFormatRg32i"}, "StorageFormatRg32Float": {"ImageFormatRg32f"},
		"StorageFormatRgba16Uint": {"ImageFormatRgba16ui"}, "StorageFormatRgba16Sint": {"ImageFormatRgba16i"}, "StorageFormatRgba16Float": {"ImageFormatRgba16f"},
		"StorageFormatRgba16Unorm": {"ImageFormatRgba16"}, "StorageFormatRgba16Snorm": {"ImageFormatRgba16Snorm"},
		"StorageFormatRgba32Uint": {"ImageFormatRgba32ui"}, "StorageFormatRgba32Sint": {"ImageFormatRgba32i"}, "StorageFormatRgba32Float": {"ImageFormatRgba32f"},
		"StorageFormatR64Uint": {"ImageFormatR64ui"}, "StorageFormatR64Sint": {"ImageFormatR64i"},
	}},
	// ---- HLSL --------------------------------------------------------------
	{Rule: "enummap.hlsl.builtin", Pkg: "hlsl", Enum: "BuiltinValue", Ref: hlslSemantics},
	{Rule: "enummap.hlsl.stage", Pkg: "hlsl", Enum: "ShaderStage", Ref: enumRef{
		"StageVertex": {"vs", "Vertex"}, "StageFragment": {"ps", "Fragment", "Pixel"}, "StageCompute": {"cs", "Compute"}, "StageMesh": {"ms", "Mesh"}, "StageTask": {"as", "Task", "Amplification"},
	}},
	{Rule: "enummap.hlsl.interp", Pkg: "hlsl", Enum: "InterpolationKind", Ref: enumRef{
		"InterpolationFlat": {"nointerpolation"}, "InterpolationLinear": {"noperspective"}, "InterpolationPerspective": {"linear"},
	}},
	{Rule: "enummap.hlsl.regtype", Pkg: "hlsl", Enum: "AddressSpace", VocabType: "RegisterType", Ref: enumRef{
		"SpaceUniform": {"RegisterTypeB"}, "SpaceStorage": {"RegisterTypeT", "RegisterTypeU"}, "SpaceHandle": {"RegisterTypeT", "RegisterTypeU", "RegisterTypeS"},
		"SpacePushConstant": {"RegisterTypeB"}, "SpaceImmediate": {"RegisterTypeB"},
	}},
	{Rule: "enummap.hlsl.scalar", Pkg: "hlsl", Enum: "ScalarKind", Ref: enumRef{
		"ScalarBool": {"bool"}, "ScalarSint": {"int", "int64_t", "asint", "min16int", "int16_t"}, "ScalarUint": {"uint", "uint64_t", "asuint", "min16uint", "uint16_t", "dword"},
		"ScalarFloat": {"float", "half", "double", "asfloat", "min16float", "float16_t"},
	}},
	{Rule: "enummap.hlsl.format", Pkg: "hlsl", Enum: "StorageFormat", Ref: merge(
		same([]string{"StorageFormatR8Unorm", "StorageFormatR16Unorm"}, "unorm", "float"), same([]string{"StorageFormatR8Snorm", "StorageFormatR16Snorm"}, "snorm", "float"),
		same([]string{"StorageFormatR16Float", "StorageFormatR32Float"}, "float"),
		same([]string{"StorageFormatR8Uint", "StorageFormatR16Uint", "StorageFormatR32Uint"}, "uint"), same([]string{"StorageFormatR8Sint", "StorageFormatR16Sint", "StorageFormatR32Sint"}, "int"),
		same([]string{"StorageFormatR64Uint"}, "uint64_t"), same([]string{"StorageFormatR64Sint"}, "int64_t"),
		same([]string{"StorageFormatRg8Unorm", "StorageFormatRg16Unorm", "StorageFormatRgba8Unorm", "StorageFormatBgra8Unorm", "StorageFormatRgba16Unorm", "StorageFormatRgb10a2Unorm"}, "unorm", "float4", "float2"),
		same([]string{"StorageFormatRg8Snorm", "StorageFormatRg16Snorm", "StorageFormatRgba8Snorm", "StorageFormatRgba16Snorm"}, "snorm", "float4", "float2"),
		same([]string{"StorageFormatRg16Float", "StorageFormatRg32Float", "StorageFormatRg11b10Ufloat", "StorageFormatRgba16Float", "StorageFormatRgba32Float"}, "float4", "float2", "float3"),
		same([]string{"StorageFormatRg8Uint", "StorageFormatRg16Uint", "StorageFormatRg32Uint", "StorageFormatRgba8Uint", "StorageFormatRgba16Uint", "StorageFormatRgba32Uint", "StorageFormatRgb10a2Uint"}, "uint4", "uint2"),
		same([]string{"StorageFormatRg8Sint", "StorageFormatRg16Sint", "StorageFormatRg32Sint", "StorageFormatRgba8Sint", "StorageFormatRgba16Sint", "StorageFormatRgba32Sint"}, "int4", "int2"),
	)},
	// ---- MSL ---------------------------------------------------------------
	{Rule: "enummap.msl.builtin", Pkg: "msl", Enum: "BuiltinValue", Ref: enumRef{
		"BuiltinPosition": {"position"}, "BuiltinVertexIndex": {"vertex_id"}, "BuiltinInstanceIndex": {"instance_id"}, "BuiltinFrontFacing": {"front_facing"},
		"BuiltinFragDepth": {"depth"}, "BuiltinSampleIndex": {"sample_id"}, "BuiltinSampleMask": {"sample_mask"},
		"BuiltinLocalInvocationID": {"thread_position_in_threadgroup"}, "BuiltinLocalInvocationIndex": {"thread_index_in_threadgroup"}, "BuiltinGlobalInvocationID": {"thread_position_in_grid"},
		"BuiltinWorkGroupID": {"threadgroup_position_in_grid"}, "BuiltinNumWorkGroups": {"threadgroups_per_grid"},
		"BuiltinNumSubgroups": {"simdgroups_per_threadgroup"}, "BuiltinSubgroupID": {"simdgroup_index_in_threadgroup"}, "BuiltinSubgroupSize": {"threads_per_simdgroup"},
		"BuiltinSubgroupInvocationID": {"thread_index_in_simdgroup"}, "BuiltinPrimitiveIndex": {"primitive_id"}, "BuiltinBarycentric": {"barycentric_coord"},
		"BuiltinViewIndex": {"amplification_id"}, "BuiltinPointSize": {"point_size"}, "BuiltinClipDistance": {"clip_distance"},
		"_": {"thread_index_in_quadgroup", "threads_per_threadgroup", "threads_per_grid", "dispatch_threadgroups_per_threadgroup", "render_target_array_index", "viewport_array_index", "base_vertex", "base_instance"},
	}},
	{Rule: "enummap.msl.stage", Pkg: "msl", Enum: "ShaderStage", Ref: enumRef{
		"StageVertex": {"vertex", "attribute"}, "StageFragment": {"fragment", "color"}, "StageCompute": {"kernel"}, "_": {"compute"},
	}},
	{Rule: "enummap.msl.space", Pkg: "msl", Enum: "AddressSpace", Ref: enumRef{
		"SpaceUniform": {"constant"}, "SpaceStorage": {"device"}, "SpacePrivate": {"thread"}, "SpaceFunction": {"thread"}, "SpaceWorkGroup": {"threadgroup"},
		"SpacePushConstant": {"constant"}, "SpaceImmediate": {"constant"}, "_": {"threadgroup_imageblock", "ray_data", "object_data"},
	}},
	{Rule: "enummap.msl.interp", Pkg: "msl", Enum: "InterpolationKind", Ref: enumRef{
		"InterpolationFlat": {"flat"}, "InterpolationLinear": {"center_no_perspective", "centroid_no_perspective", "sample_no_perspective"},
		"InterpolationPerspective": {"center_perspective", "centroid_perspective", "sample_perspective"},
	}},
	{Rule: "enummap.msl.sampling", Pkg: "msl", Enum: "InterpolationSampling", Ref: enumRef{
		"SamplingCenter": {"center_perspective", "center_no_perspective"}, "SamplingCentroid": {"centroid_perspective", "centroid_no_perspective"},
		"SamplingSample": {"sample_perspective", "sample_no_perspective"}, "_": {"flat"},
	}},
	{Rule: "enummap.msl.scalar", Pkg: "msl", Enum: "ScalarKind", Ref: enumRef{
		"ScalarBool": {"bool"}, "ScalarSint": {"int", "long", "short", "char", "atomic_int", "atomic_long", "i32", "i64"},
		"ScalarUint": {"uint", "ulong", "ushort", "uchar", "atomic_uint", "atomic_ulong", "u32", "u64"},
		"ScalarFloat": {"float", "half", "double", "atomic_float", "f16", "f32", "f64", "bfloat"}, "ScalarAbstractInt": {"int", "long"}, "ScalarAbstractFloat": {"float"},
	}},
	{Rule: "enummap.msl.dim", Pkg: "msl", Enum: "ImageDimension", Ref: enumRef{
		"Dim1D": {"texture1d", "texture1d_array", "get_width", "uint"}, "Dim2D": {"texture2d", "texture2d_ms", "texture2d_array", "texture2d_ms_array", "depth2d", "depth2d_ms", "depth2d_array", "depth2d_ms_array", "get_width", "get_height", "uint2", "suint2"},
		"Dim3D": {"texture3d", "get_width", "get_height", "get_depth", "uint3", "suint3"}, "DimCube": {"texturecube", "texturecube_array", "depthcube", "depthcube_array", "get_width", "get_height", "uint2", "suint2"},
	}},
	// ---- GLSL --------------------------------------------------------------
	{Rule: "enummap.glsl.builtin", Pkg: "glsl", Enum: "BuiltinValue", Ref: enumRef{
		"BuiltinPosition": {"gl_Position", "gl_FragCoord"}, "BuiltinVertexIndex": {"gl_VertexID", "gl_VertexIndex"}, "BuiltinInstanceIndex": {"gl_InstanceID", "gl_InstanceIndex"},
		"BuiltinFrontFacing": {"gl_FrontFacing"}, "BuiltinFragDepth": {"gl_FragDepth"}, "BuiltinSampleIndex": {"gl_SampleID"}, "BuiltinSampleMask": {"gl_SampleMaskIn", "gl_SampleMask"},
		"BuiltinLocalInvocationID": {"gl_LocalInvocationID"}, "BuiltinLocalInvocationIndex": {"gl_LocalInvocationIndex"}, "BuiltinGlobalInvocationID": {"gl_GlobalInvocationID"},
		"BuiltinWorkGroupID": {"gl_WorkGroupID"}, "BuiltinNumWorkGroups": {"gl_NumWorkGroups"}, "BuiltinNumSubgroups": {"gl_NumSubgroups"}, "BuiltinSubgroupID": {"gl_SubgroupID"},
		"BuiltinSubgroupSize": {"gl_SubgroupSize"}, "BuiltinSubgroupInvocationID": {"gl_SubgroupInvocationID"}, "BuiltinClipDistance": {"gl_ClipDistance"},
		"BuiltinPrimitiveIndex": {"gl_PrimitiveID"}, "BuiltinBarycentric": {"gl_BaryCoordEXT", "gl_BaryCoordNV"}, "BuiltinViewIndex": {"gl_ViewID_OVR", "gl_ViewIndex"}, "BuiltinPointSize": {"gl_PointSize"},
		"_": {"gl_WorkGroupSize", "gl_PointCoord", "gl_SamplePosition", "gl_Layer", "gl_ViewportIndex", "gl_HelperInvocation", "gl_CullDistance"},
	}},
	{Rule: "enummap.glsl.interp", Pkg: "glsl", Enum: "InterpolationKind", Ref: enumRef{
		"InterpolationFlat": {"flat"}, "InterpolationLinear": {"noperspective"}, "InterpolationPerspective": {"smooth"},
	}},
	{Rule: "enummap.glsl.sampling", Pkg: "glsl", Enum: "InterpolationSampling", Ref: enumRef{
		"SamplingCentroid": {"centroid"}, "SamplingSample": {"sample"}, "SamplingCenter": {},
	}},
	{Rule: "enummap.glsl.scalar", Pkg: "glsl", Enum: "ScalarKind", Ref: enumRef{
		"ScalarBool": {"bool", "bvec", "bvec2", "bvec3", "bvec4", "b"}, "ScalarSint": {"int", "int64_t", "ivec", "ivec2", "ivec3", "ivec4", "i", "iimage", "isampler"},
		"ScalarUint": {"uint", "uint64_t", "uvec", "uvec2", "uvec3", "uvec4", "u", "uimage", "usampler"},
		"ScalarFloat": {"float", "double", "float16_t", "vec", "vec2", "vec3", "vec4", "dvec", "mat", "dmat"}, "ScalarAbstractInt": {"int"}, "ScalarAbstractFloat": {"float"},
	}, SkipFuncs: map[string]string{
		"glsl/internal/codegen.Writer.getInverseScalarKind": "returns the scalar type of the *other* side of a bitcast (floatBitsToInt / intBitsToFloat pairs): int-kinded sources name float and vice versa by design",
	}},
	{Rule: "enummap.glsl.format", Pkg: "glsl", Enum: "StorageFormat", Ref: enumRef{
		"StorageFormatRgba8Unorm": {"rgba8"}, "StorageFormatRgba8Snorm": {"rgba8_snorm"}, "StorageFormatRgba8Uint": {"rgba8ui"}, "StorageFormatRgba8Sint": {"rgba8i"},
		"StorageFormatRgba16Uint": {"rgba16ui"}, "StorageFormatRgba16Sint": {"rgba16i"}, "StorageFormatRgba16Float": {"rgba16f"},
		"StorageFormatRgba32Uint": {"rgba32ui"}, "StorageFormatRgba32Sint": {"rgba32i"}, "StorageFormatRgba32Float": {"rgba32f"},
		"StorageFormatR32Uint": {"r32ui"}, "StorageFormatR32Sint": {"r32i"}, "StorageFormatR32Float": {"r32f"},
		"StorageFormatR8Unorm": {"r8"}, "StorageFormatR8Snorm": {"r8_snorm"}, "StorageFormatR8Uint": {"r8ui"}, "StorageFormatR8Sint": {"r8i"},
		"StorageFormatR16Uint": {"r16ui"}, "StorageFormatR16Sint": {"r16i"}, "StorageFormatR16Float": {"r16f"}, "StorageFormatR16Unorm": {"r16"}, "StorageFormatR16Snorm": {"r16_snorm"},
		"StorageFormatRg8Unorm": {"rg8"}, "StorageFormatRg8Snorm": {"rg8_snorm"}, "StorageFormatRg8Uint": {"rg8ui"}, "StorageFormatRg8Sint": {"rg8i"},
		"StorageFormatRg16Uint": {"rg16ui"}, "StorageFormatRg16Sint": {"rg16i"}, "StorageFormatRg16Float": {"rg16f"}, "StorageFormatRg16Unorm": {"rg16"}, "StorageFormatRg16Snorm": {"rg16_snorm"},
		"StorageFormatRg32Uint": {"rg32ui"}, "StorageFormatRg32Sint": {"rg32i"}, "StorageFormatRg32Float": {"rg32f"},
		"StorageFormatRgba16Unorm": {"rgba16"}, "StorageFormatRgba16Snorm": {"rgba16_snorm"},
		"StorageFormatRgb10a2Unorm": {"rgb10_a2"}, "StorageFormatRgb10a2Uint": {"rgb10_a2ui"}, "StorageFormatRg11b10Ufloat": {"r11f_g11f_b10f"}, "StorageFormatBgra8Unorm": {"rgba8"},
	}},
	// ---- atomics, relational, derivatives (semantic vocabulary of C01, C03-C05) ---
	{Rule: "enummap.spirv.atomic", Pkg: "spirv", Enum: "AtomicFunction", Sum: true, Ref: enumRef{
		"AtomicAdd": {"OpAtomicIAdd", "OpAtomicFAddEXT"}, "AtomicSubtract": {"OpAtomicISub"}, "AtomicAnd": {"OpAtomicAnd"}, "AtomicInclusiveOr": {"OpAtomicOr"}, "AtomicExclusiveOr": {"OpAtomicXor"},
		"AtomicMin": {"OpAtomicSMin", "OpAtomicUMin", "OpAtomicFMinEXT"}, "AtomicMax": {"OpAtomicSMax", "OpAtomicUMax", "OpAtomicFMaxEXT"},
		"AtomicExchange": {"OpAtomicExchange", "OpAtomicCompareExchange"}, "AtomicLoad": {"OpAtomicLoad"}, "AtomicStore": {"OpAtomicStore"},
		"_": {"OpAtomicIIncrement", "OpAtomicIDecrement", "OpAtomicCompareExchangeWeak"},
	}},
	{Rule: "enummap.hlsl.atomic", Pkg: "hlsl", Enum: "AtomicFunction", Sum: true, Ref: enumRef{
		// HLSL has no InterlockedSub: subtraction is InterlockedAdd of the negated value
		"AtomicAdd": {"InterlockedAdd", "Add"}, "AtomicSubtract": {"InterlockedAdd", "Add"}, "AtomicAnd": {"InterlockedAnd", "And"}, "AtomicInclusiveOr": {"InterlockedOr", "Or"},
		"AtomicExclusiveOr": {"InterlockedXor", "Xor"}, "AtomicMin": {"InterlockedMin", "Min"}, "AtomicMax": {"InterlockedMax", "Max"},
		"AtomicExchange": {"InterlockedExchange", "InterlockedCompareExchange", "Exchange", "CompareExchange"},
	}},
	{Rule: "enummap.msl.atomic", Pkg: "msl", Enum: "AtomicFunction", Sum: true, Ref: enumRef{
		"AtomicAdd": {"atomic_fetch_add_explicit", "fetch_add"}, "AtomicSubtract": {"atomic_fetch_sub_explicit", "fetch_sub"}, "AtomicAnd": {"atomic_fetch_and_explicit", "fetch_and"},
		"AtomicInclusiveOr": {"atomic_fetch_or_explicit", "fetch_or"}, "AtomicExclusiveOr": {"atomic_fetch_xor_explicit", "fetch_xor"},
		"AtomicMin": {"atomic_fetch_min_explicit", "atomic_min_explicit", "fetch_min", "min"}, "AtomicMax": {"atomic_fetch_max_explicit", "atomic_max_explicit", "fetch_max", "max"},
		"AtomicExchange": {"atomic_exchange_explicit", "atomic_compare_exchange_weak_explicit", "exchange"}, "AtomicLoad": {"atomic_load_explicit"}, "AtomicStore": {"atomic_store_explicit"},
	}},
	{Rule: "enummap.glsl.atomic", Pkg: "glsl", Enum: "AtomicFunction", Sum: true, Ref: enumRef{
		// GLSL has no atomicSub: subtraction is atomicAdd of the negated value
		"AtomicAdd": {"atomicAdd", "Add"}, "AtomicSubtract": {"atomicAdd", "Add"}, "AtomicAnd": {"atomicAnd", "And"}, "AtomicInclusiveOr": {"atomicOr", "Or"}, "AtomicExclusiveOr": {"atomicXor", "Xor"},
		"AtomicMin": {"atomicMin", "Min"}, "AtomicMax": {"atomicMax", "Max"}, "AtomicExchange": {"atomicExchange", "atomicCompSwap", "Exchange", "CompSwap"},
	}},
	{Rule: "enummap.hlsl.relational", Pkg: "hlsl", Enum: "RelationalFunction", Ref: enumRef{"RelationalAll": {"all"}, "RelationalAny": {"any"}, "RelationalIsNan": {"isnan"}, "RelationalIsInf": {"isinf"}}},
	{Rule: "enummap.msl.relational", Pkg: "msl", Enum: "RelationalFunction", Ref: enumRef{"RelationalAll": {"all"}, "RelationalAny": {"any"}, "RelationalIsNan": {"isnan"}, "RelationalIsInf": {"isinf"}}},
	{Rule: "enummap.glsl.relational", Pkg: "glsl", Enum: "RelationalFunction", Ref: enumRef{"RelationalAll": {"all"}, "RelationalAny": {"any"}, "RelationalIsNan": {"isnan"}, "RelationalIsInf": {"isinf"}}},
	{Rule: "enummap.spirv.derivaxis", Pkg: "spirv", Enum: "DerivativeAxis", Ref: enumRef{
		"DerivativeX": {"OpDPdx", "OpDPdxCoarse", "OpDPdxFine"}, "DerivativeY": {"OpDPdy", "OpDPdyCoarse", "OpDPdyFine"}, "DerivativeWidth": {"OpFwidth", "OpFwidthCoarse", "OpFwidthFine"}}},
	{Rule: "enummap.spirv.derivctrl", Pkg: "spirv", Enum: "DerivativeControl", Ref: enumRef{
		"DerivativeCoarse": {"OpDPdxCoarse", "OpDPdyCoarse", "OpFwidthCoarse"}, "DerivativeFine": {"OpDPdxFine", "OpDPdyFine", "OpFwidthFine"}, "DerivativeNone": {"OpDPdx", "OpDPdy", "OpFwidth"}}},
	{Rule: "enummap.hlsl.derivaxis", Pkg: "hlsl", Enum: "DerivativeAxis", Ref: enumRef{
		"DerivativeX": {"ddx", "ddx_coarse", "ddx_fine"}, "DerivativeY": {"ddy", "ddy_coarse", "ddy_fine"}, "DerivativeWidth": {"fwidth"}}},
	{Rule: "enummap.hlsl.derivctrl", Pkg: "hlsl", Enum: "DerivativeControl", Ref: enumRef{
		"DerivativeCoarse": {"ddx_coarse", "ddy_coarse"}, "DerivativeFine": {"ddx_fine", "ddy_fine"}, "DerivativeNone": {"ddx", "ddy", "fwidth"}}},
	{Rule: "enummap.msl.derivaxis", Pkg: "msl", Enum: "DerivativeAxis", Ref: enumRef{"DerivativeX": {"dfdx"}, "DerivativeY": {"dfdy"}, "DerivativeWidth": {"fwidth"}}},
	{Rule: "enummap.glsl.derivaxis", Pkg: "glsl", Enum: "DerivativeAxis", Ref: enumRef{
		"DerivativeX": {"dFdx", "dFdxCoarse", "dFdxFine"}, "DerivativeY": {"dFdy", "dFdyCoarse", "dFdyFine"}, "DerivativeWidth": {"fwidth", "fwidthCoarse", "fwidthFine"}}},
	{Rule: "enummap.glsl.derivctrl", Pkg: "glsl", Enum: "DerivativeControl", Ref: enumRef{
		"DerivativeCoarse": {"dFdxCoarse", "dFdyCoarse", "fwidthCoarse"}, "DerivativeFine": {"dFdxFine", "dFdyFine", "fwidthFine"}, "DerivativeNone": {"dFdx", "dFdy", "fwidth"}}},
	// ---- subgroup operations -------------------------------------------------
	{Rule: "enummap.spirv.subgroup", Pkg: "spirv", Enum: "SubgroupOperation", Ref: enumRef{
		"SubgroupOperationAll": {"OpGroupNonUniformAll", "CapabilityGroupNonUniformVote"}, "SubgroupOperationAny": {"OpGroupNonUniformAny", "CapabilityGroupNonUniformVote"},
		"SubgroupOperationAdd": {"OpGroupNonUniformIAdd", "OpGroupNonUniformFAdd", "CapabilityGroupNonUniformArithmetic"}, "SubgroupOperationMul": {"OpGroupNonUniformIMul", "OpGroupNonUniformFMul", "CapabilityGroupNonUniformArithmetic"},
		"SubgroupOperationMin": {"OpGroupNonUniformSMin", "OpGroupNonUniformUMin", "OpGroupNonUniformFMin", "CapabilityGroupNonUniformArithmetic"},
		"SubgroupOperationMax": {"OpGroupNonUniformSMax", "OpGroupNonUniformUMax", "OpGroupNonUniformFMax", "CapabilityGroupNonUniformArithmetic"},
		"SubgroupOperationAnd": {"OpGroupNonUniformBitwiseAnd", "OpGroupNonUniformLogicalAnd", "CapabilityGroupNonUniformArithmetic"},
		"SubgroupOperationOr":  {"OpGroupNonUniformBitwiseOr", "OpGroupNonUniformLogicalOr", "CapabilityGroupNonUniformArithmetic"},
		"SubgroupOperationXor": {"OpGroupNonUniformBitwiseXor", "OpGroupNonUniformLogicalXor", "CapabilityGroupNonUniformArithmetic"},
		"_": {"CapabilityGroupNonUniformBallot", "CapabilityGroupNonUniformShuffle", "CapabilityGroupNonUniformShuffleRelative", "CapabilityGroupNonUniformQuad", "CapabilityGroupNonUniformClustered"},
	}},
	{Rule: "enummap.spirv.gather", Pkg: "spirv", Enum: "GatherMode", Sum: true, Ref: enumRef{
		"GatherBroadcastFirst": {"OpGroupNonUniformBroadcastFirst", "CapabilityGroupNonUniformBallot"}, "GatherBroadcast": {"OpGroupNonUniformBroadcast", "CapabilityGroupNonUniformBallot"},
		"GatherShuffle": {"OpGroupNonUniformShuffle", "CapabilityGroupNonUniformShuffle"}, "GatherShuffleXor": {"OpGroupNonUniformShuffleXor", "CapabilityGroupNonUniformShuffle"},
		"GatherShuffleDown": {"OpGroupNonUniformShuffleDown", "CapabilityGroupNonUniformShuffleRel", "CapabilityGroupNonUniformShuffleRelative"}, "GatherShuffleUp": {"OpGroupNonUniformShuffleUp", "CapabilityGroupNonUniformShuffleRel", "CapabilityGroupNonUniformShuffleRelative"},
		"GatherQuadBroadcast": {"OpGroupNonUniformQuadBroadcast", "CapabilityGroupNonUniformQuad"}, "GatherQuadSwap": {"OpGroupNonUniformQuadSwap", "CapabilityGroupNonUniformQuad"},
		"_": {"CapabilityGroupNonUniformVote", "CapabilityGroupNonUniformArithmetic"},
	}},
	{Rule: "enummap.msl.subgroup", Pkg: "msl", Enum: "SubgroupOperation", Ref: enumRef{
		"SubgroupOperationAll": {"simd_all"}, "SubgroupOperationAny": {"simd_any"}, "SubgroupOperationAdd": {"simd_sum", "simd_prefix_exclusive_sum", "simd_prefix_inclusive_sum"},
		"SubgroupOperationMul": {"simd_product", "simd_prefix_exclusive_product", "simd_prefix_inclusive_product"}, "SubgroupOperationMin": {"simd_min"}, "SubgroupOperationMax": {"simd_max"},
		"SubgroupOperationAnd": {"simd_and"}, "SubgroupOperationOr": {"simd_or"}, "SubgroupOperationXor": {"simd_xor"},
	}},
	{Rule: "enummap.msl.collective", Pkg: "msl", Enum: "CollectiveOperation", Ref: enumRef{
		"CollectiveReduce": {"simd_sum", "simd_product"}, "CollectiveExclusiveScan": {"simd_prefix_exclusive_sum", "simd_prefix_exclusive_product"},
		"CollectiveInclusiveScan": {"simd_prefix_inclusive_sum", "simd_prefix_inclusive_product"},
	}},
	{Rule: "enummap.msl.gather", Pkg: "msl", Enum: "GatherMode", Sum: true, Ref: enumRef{
		"GatherBroadcastFirst": {"simd_broadcast_first", "ssimd_broadcast_first"}, "GatherBroadcast": {"simd_broadcast", "ssimd_broadcast"}, "GatherShuffle": {"simd_shuffle", "ssimd_shuffle"},
		"GatherShuffleDown": {"simd_shuffle_down", "ssimd_shuffle_down"}, "GatherShuffleUp": {"simd_shuffle_up", "ssimd_shuffle_up"}, "GatherShuffleXor": {"simd_shuffle_xor", "ssimd_shuffle_xor"},
		"GatherQuadBroadcast": {"quad_broadcast", "squad_broadcast"}, "GatherQuadSwap": {"quad_shuffle_xor", "squad_shuffle_xor"},
	}},
	{Rule: "enummap.glsl.subgroup", Pkg: "glsl", Enum: "SubgroupOperation", Ref: enumRef{
		"SubgroupOperationAll": {"subgroupAll"}, "SubgroupOperationAny": {"subgroupAny"}, "SubgroupOperationAdd": {"subgroupAdd", "subgroupExclusiveAdd", "subgroupInclusiveAdd"},
		"SubgroupOperationMul": {"subgroupMul", "subgroupExclusiveMul", "subgroupInclusiveMul"}, "SubgroupOperationMin": {"subgroupMin"}, "SubgroupOperationMax": {"subgroupMax"},
		"SubgroupOperationAnd": {"subgroupAnd"}, "SubgroupOperationOr": {"subgroupOr"}, "SubgroupOperationXor": {"subgroupXor"},
	}},
	{Rule: "enummap.glsl.collective", Pkg: "glsl", Enum: "CollectiveOperation", Ref: enumRef{
		"CollectiveReduce": {"subgroupAdd", "subgroupMul", "subgroupMin", "subgroupMax", "subgroupAnd", "subgroupOr", "subgroupXor", "subgroupAll", "subgroupAny"},
		"CollectiveExclusiveScan": {"subgroupExclusiveAdd", "subgroupExclusiveMul"}, "CollectiveInclusiveScan": {"subgroupInclusiveAdd", "subgroupInclusiveMul"},
	}},
	{Rule: "enummap.glsl.gather", Pkg: "glsl", Enum: "GatherMode", Sum: true, Ref: enumRef{
		"GatherBroadcastFirst": {"subgroupBroadcastFirst"}, "GatherBroadcast": {"subgroupBroadcast"}, "GatherShuffle": {"subgroupShuffle"}, "GatherShuffleDown": {"subgroupShuffleDown"},
		"GatherShuffleUp": {"subgroupShuffleUp"}, "GatherShuffleXor": {"subgroupShuffleXor"}, "GatherQuadBroadcast": {"subgroupQuadBroadcast"},
		"GatherQuadSwap": {"subgroupQuadSwapHorizontal", "subgroupQuadSwapVertical", "subgroupQuadSwapDiagonal"},
	}},
	{Rule: "enummap.hlsl.subgroup", Pkg: "hlsl", Enum: "SubgroupOperation", Ref: enumRef{
		"SubgroupOperationAll": {"WaveActiveAllTrue"}, "SubgroupOperationAny": {"WaveActiveAnyTrue"}, "SubgroupOperationAdd": {"WaveActiveSum", "WavePrefixSum"}, "SubgroupOperationMul": {"WaveActiveProduct", "WavePrefixProduct"},
		"SubgroupOperationMin": {"WaveActiveMin"}, "SubgroupOperationMax": {"WaveActiveMax"}, "SubgroupOperationAnd": {"WaveActiveBitAnd"}, "SubgroupOperationOr": {"WaveActiveBitOr"}, "SubgroupOperationXor": {"WaveActiveBitXor"},
	}},
	{Rule: "enummap.hlsl.gather", Pkg: "hlsl", Enum: "GatherMode", Sum: true, Ref: enumRef{
		"GatherBroadcastFirst": {"WaveReadLaneFirst"}, "GatherBroadcast": {"WaveReadLaneAt"}, "GatherShuffle": {"WaveReadLaneAt"}, "GatherShuffleDown": {"WaveReadLaneAt", "WaveGetLaneIndex"},
		"GatherShuffleUp": {"WaveReadLaneAt", "WaveGetLaneIndex"}, "GatherShuffleXor": {"WaveReadLaneAt", "WaveGetLaneIndex"}, "GatherQuadBroadcast": {"QuadReadLaneAt"},
		"GatherQuadSwap": {"QuadReadAcrossX", "QuadReadAcrossY", "QuadReadAcrossDiagonal"},
	}},
	// ---- DXIL (signature / PSV parts) -----------------------------------------
	{Rule: "enummap.dxil.semantic", Pkg: "dxil", Enum: "BuiltinValue", Ref: hlslSemantics},
	{Rule: "enummap.dxil.stage", Pkg: "dxil", Enum: "ShaderStage", Ref: enumRef{
		"StageVertex": {"VertexShader", "PSVVertex"}, "StageFragment": {"PixelShader", "PSVPixel"}, "StageCompute": {"ComputeShader", "PSVCompute"},
		"StageMesh": {"MeshShader", "PSVMesh"}, "StageTask": {"AmplificationShader", "PSVAmplification"},
		"_": {"GeometryShader", "HullShader", "DomainShader", "PSVGeometry", "PSVHull", "PSVDomain", "LibraryShader"},
	}},
	{Rule: "enummap.dxil.comptype", Pkg: "dxil", Enum: "ScalarKind", Ref: enumRef{
		"ScalarFloat": {"CompTypeFloat32", "CompTypeFloat16", "CompTypeFloat64", "overloadF16", "overloadF32", "overloadF64"},
		"ScalarSint":  {"CompTypeSint32", "CompTypeSint16", "CompTypeSint64", "overloadI16", "overloadI32", "overloadI64"},
		"ScalarUint":  {"CompTypeUint32", "CompTypeUint16", "CompTypeUint64", "overloadI16", "overloadI32", "overloadI64"},
		"ScalarBool":  {"CompTypeUint32", "overloadI1"},
	}},
}

// interfaceTables: the tables that concern bindings and stage interfaces (C17)
var interfaceTableRe = regexp.MustCompile(`\.(builtin|builtincap|stage|execmode|space|interp|sampling|regtype|format|semantic)$`)

func (c *Ctx) runInterfaceEnumTables(r *Report, pkgPrefixes ...string) {
	c.runEnumTablesFiltered(r, func(rule string) bool { return interfaceTableRe.MatchString(rule) }, pkgPrefixes...)
}

func (c *Ctx) runEnumTables(r *Report, pkgPrefixes ...string) {
	c.runEnumTablesFiltered(r, nil, pkgPrefixes...)
}

func (c *Ctx) runEnumTablesFiltered(r *Report, keep func(string) bool, pkgPrefixes ...string) {
	for _, t := range enumTables {
		if keep != nil && !keep(t.Rule) {
			continue
		}
		use := false
		for _, p := range pkgPrefixes {
			if p == t.Pkg {
				use = true
			}
		}
		if !use {
			continue
		}
		c.runEnumMapT(r, t)
		if fl, ok := enumTableFloors[t.Rule]; ok {
			r.floor(t.Rule, fl)
		} else {
			r.floor(t.Rule, 1)
		}
	}
}

// instance counts confirmed on the pinned tree (about 3/4 of them as floors)
var enumTableFloors = map[string]int{
	"enummap.dxil.comptype": 9, "enummap.dxil.semantic": 20, "enummap.dxil.stage": 10,
	"enummap.glsl.builtin": 16, "enummap.glsl.format": 10, "enummap.glsl.interp": 3, "enummap.glsl.sampling": 2, "enummap.glsl.scalar": 20,
	"enummap.hlsl.builtin": 11, "enummap.hlsl.format": 40, "enummap.hlsl.interp": 2, "enummap.hlsl.regtype": 3, "enummap.hlsl.scalar": 23, "enummap.hlsl.stage": 3,
	"enummap.msl.builtin": 17, "enummap.msl.dim": 10, "enummap.msl.interp": 3, "enummap.msl.sampling": 4, "enummap.msl.scalar": 13, "enummap.msl.space": 5, "enummap.msl.stage": 3,
	"enummap.spirv.scalarcap": 3, "enummap.spirv.builtin": 15, "enummap.spirv.builtincap": 7, "enummap.spirv.dimcap": 2, "enummap.spirv.execmode": 2, "enummap.spirv.format": 32,
	"enummap.spirv.interp": 2, "enummap.spirv.sampling": 2, "enummap.spirv.space": 7, "enummap.spirv.stage": 3,
}

const enumMapClause = "vocabulary tables (E18): in every switch over an enum of package ir (builtin value, shader stage, address space, interpolation kind / sampling, image dimension, storage texel format, scalar kind) the words of the target's vocabulary named in the arm for a member - SPIR-V BuiltIn / StorageClass / ExecutionModel / ExecutionMode / Capability / ImageFormat constants, HLSL semantics, register classes and type names, MSL attributes, address-space keywords and type names, GLSL gl_ variables, qualifiers and format layout names, DXIL semantic and shader-kind names - are words the target's specification assigns to that member (reference tables written from the specifications)"
