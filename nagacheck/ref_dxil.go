package main

// Reference tables for the DXIL backend (C18), written from the specifications
// and headers, not from the repository: DXIL.rst / DxilConstants.h (dx.op
// opcodes, AtomicBinOpCode, BarrierMode, WaveOpKind, SignedOpKind,
// WaveBitOpKind, QuadOpKind, ShaderKind, ResourceKind), DxilContainer.h /
// DxilPipelineStateValidation.h (PSV resource types, signature component
// types, system-value semantics as D3D_NAME), LLVM 3.7 LLVMBitCodes.h (block
// ids, MODULE / TYPE / CST / FUNC / METADATA / VST / PARAMATTR record codes,
// attribute kinds, binary / cast opcodes) and llvm/IR/InstrTypes.h
// (CmpInst::Predicate), llvm/IR/Instructions.h (AtomicRMWInst::BinOp).
// Keys are the repository's constant names; a constant that is not listed is
// not judged; a listed constant that is never referenced by library code is
// reported as unused instead of judged (its value cannot reach the output).

var refDXILOpcode = map[string]int64{
	"OpLoadInput": 4, "OpStoreOutput": 5, "OpFAbs": 6, "OpSaturate": 7, "OpIsNaN": 8, "OpIsInf": 9, "OpIsFinite": 10, "OpIsNormal": 11,
	"OpCos": 12, "OpSin": 13, "OpTan": 14, "OpAcos": 15, "OpAsin": 16, "OpAtan": 17, "OpHCos": 18, "OpHSin": 19, "OpHTan": 20,
	"OpExp": 21, "OpFrc": 22, "OpLog": 23, "OpSqrt": 24, "OpRsqrt": 25, "OpRoundNE": 26, "OpRoundNI": 27, "OpRoundPI": 28, "OpRoundZ": 29,
	"OpReverseBits": 30, "OpBfrev": 30, "OpCountBits": 31, "OpFirstbitLo": 32, "OpFirstbitHi": 33, "OpFirstbitShiHi": 34, "OpFirstbitShiHiAlt": 34,
	"OpFMax": 35, "OpFMin": 36, "OpIMax": 37, "OpIMin": 38, "OpUMax": 39, "OpUMin": 40,
	"OpFMad": 46, "OpFma": 47, "OpIMad": 48, "OpUMad": 49, "OpIBfe": 51, "OpUBfe": 52, "OpBfi": 53, "OpDot2": 54, "OpDot3": 55, "OpDot4": 56,
	"OpCreateHandle": 57, "OpCBufferLoadLegacy": 59, "OpSample": 60, "OpSampleBias": 61, "OpSampleLevel": 62, "OpSampleGrad": 63, "OpSampleCmp": 64,
	"OpSampleCmpLevelZero": 65, "OpTextureLoad": 66, "OpTextureStore": 67, "OpBufferLoad": 68, "OpBufferStore": 69, "OpGetDimensions": 72,
	"OpTextureGather": 73, "OpTextureGatherCmp": 74, "OpAtomicBinOp": 78, "OpAtomicCmpXchg": 79, "OpBarrier": 80,
	"OpDerivCoarseX": 83, "OpDerivCoarseY": 84, "OpDerivFineX": 85, "OpDerivFineY": 86, "OpCoverage": 91,
	"OpThreadID": 93, "OpGroupID": 94, "OpThreadIDInGroup": 95, "OpFlattenedTIDInGroup": 96, "OpMakeDouble": 101, "OpSplitDouble": 102,
	"OpWaveIsFirstLane": 110, "OpWaveGetLaneIndex": 111, "OpWaveGetLaneCount": 112, "OpWaveAnyTrue": 113, "OpWaveAllTrue": 114, "OpWaveBallot": 116,
	"OpWaveReadLaneAt": 117, "OpWaveReadLaneFirst": 118, "OpWaveActiveOp": 119, "OpWaveActiveBit": 120, "OpWavePrefixOp": 121, "OpQuadReadLaneAt": 122, "OpQuadOp": 123,
	"OpBitcastI16toF16": 124, "OpBitcastF16toI16": 125, "OpLegacyF32ToF16": 130, "OpLegacyF16ToF32": 131, "OpViewID": 138, "OpRawBufferLoad": 139, "OpRawBufferStore": 140,
	"OpSetMeshOutputCounts": 168, "OpEmitIndices": 169, "OpGetMeshPayload": 170, "OpStoreVertexOutput": 171, "OpStorePrimitiveOutput": 172, "OpDispatchMesh": 173,
	"OpAllocateRayQuery": 178, "OpRayQueryTraceRayInline": 179, "OpRayQueryProceed": 180, "OpRayQueryAbort": 181, "OpRayQueryCommitNonOpaqueTriangleHit": 182,
	"OpRayQueryCommitProceduralPrimitiveHit": 183, "OpRayQueryCommittedStatus": 184, "OpRayQueryCandidateType": 185, "OpRayQueryCandidateObjectToWorld3x4": 186,
	"OpRayQueryCandidateWorldToObject3x4": 187, "OpRayQueryCommittedObjectToWorld3x4": 188, "OpRayQueryCommittedWorldToObject3x4": 189,
	"OpRayQueryCandidateProceduralPrimitiveNonOpaque": 190, "OpRayQueryCandidateTriangleFrontFace": 191, "OpRayQueryCommittedTriangleFrontFace": 192,
	"OpRayQueryCandidateTriangleBarycentrics": 193, "OpRayQueryCommittedTriangleBarycentrics": 194, "OpRayQueryRayFlags": 195, "OpRayQueryWorldRayOrigin": 196,
	"OpRayQueryWorldRayDirection": 197, "OpRayQueryRayTMin": 198, "OpRayQueryCandidateTriangleRayT": 199, "OpRayQueryCommittedRayT": 200,
	"OpRayQueryCandidateInstanceIndex": 201, "OpRayQueryCandidateInstanceID": 202, "OpRayQueryCandidateGeometryIndex": 203, "OpRayQueryCandidatePrimitiveIndex": 204,
	"OpRayQueryCandidateObjectRayOrigin": 205, "OpRayQueryCandidateObjectRayDirection": 206, "OpRayQueryCommittedInstanceIndex": 207, "OpRayQueryCommittedInstanceID": 208,
	"OpRayQueryCommittedGeometryIndex": 209, "OpRayQueryCommittedPrimitiveIndex": 210, "OpRayQueryCommittedObjectRayOrigin": 211, "OpRayQueryCommittedObjectRayDirection": 212,
}

type dxilTable struct {
	Pkg, Type string // Type "" = untyped constants selected by name
	Ref       map[string]int64
}

var dxilTables = []dxilTable{
	{"dxil/internal/emit", "DXILOpcode", refDXILOpcode},
	{"dxil/internal/emit", "DXILAtomicOp", map[string]int64{"DXILAtomicAdd": 0, "DXILAtomicAnd": 1, "DXILAtomicOr": 2, "DXILAtomicXor": 3, "DXILAtomicIMin": 4, "DXILAtomicIMax": 5, "DXILAtomicUMin": 6, "DXILAtomicUMax": 7, "DXILAtomicExchange": 8}},
	{"dxil/internal/emit", "DXILBarrierMode", map[string]int64{"BarrierModeSyncThreadGroup": 1, "BarrierModeUAVFenceGlobal": 2, "BarrierModeUAVFenceThreadGroup": 4, "BarrierModeGroupSharedMemFence": 8}},
	{"dxil/internal/emit", "BinOpKind", map[string]int64{"BinOpAdd": 0, "BinOpFAdd": 0, "BinOpSub": 1, "BinOpFSub": 1, "BinOpMul": 2, "BinOpFMul": 2, "BinOpUDiv": 3, "BinOpSDiv": 4, "BinOpFDiv": 4,
		"BinOpURem": 5, "BinOpFRem": 5, "BinOpSRem": 6, "BinOpShl": 7, "BinOpLShr": 8, "BinOpAShr": 9, "BinOpAnd": 10, "BinOpOr": 11, "BinOpXor": 12}},
	{"dxil/internal/emit", "CmpPredicate", map[string]int64{"FCmpFalse": 0, "FCmpOEQ": 1, "FCmpOGT": 2, "FCmpOGE": 3, "FCmpOLT": 4, "FCmpOLE": 5, "FCmpONE": 6, "FCmpORD": 7, "FCmpUNO": 8,
		"FCmpUEQ": 9, "FCmpUGT": 10, "FCmpUGE": 11, "FCmpULT": 12, "FCmpULE": 13, "FCmpUNE": 14, "FCmpTrue": 15,
		"ICmpEQ": 32, "ICmpNE": 33, "ICmpUGT": 34, "ICmpUGE": 35, "ICmpULT": 36, "ICmpULE": 37, "ICmpSGT": 38, "ICmpSGE": 39, "ICmpSLT": 40, "ICmpSLE": 41}},
	{"dxil/internal/emit", "CastOpKind", map[string]int64{"CastTrunc": 0, "CastZExt": 1, "CastSExt": 2, "CastFPToUI": 3, "CastFPToSI": 4, "CastUIToFP": 5, "CastSIToFP": 6, "CastFPTrunc": 7, "CastFPExt": 8,
		"CastPtrToInt": 9, "CastIntToPtr": 10, "CastBitcast": 11, "CastAddrSpaceCast": 12}},
	{"dxil/internal/emit", "AtomicRMWOp", map[string]int64{"AtomicRMWXchg": 0, "AtomicRMWAdd": 1, "AtomicRMWSub": 2, "AtomicRMWAnd": 3, "AtomicRMWNand": 4, "AtomicRMWOr": 5, "AtomicRMWXor": 6,
		"AtomicRMWMax": 7, "AtomicRMWMin": 8, "AtomicRMWUMax": 9, "AtomicRMWUMin": 10}},
	{"dxil/internal/emit", "DXILWaveOp", map[string]int64{"DXILWaveOpSum": 0, "DXILWaveOpMul": 1, "DXILWaveOpMin": 2, "DXILWaveOpMax": 3}},
	{"dxil/internal/emit", "DXILWaveOpSign", map[string]int64{"DXILWaveOpSignSigned": 0, "DXILWaveOpSignUnsigned": 1}},
	{"dxil/internal/emit", "DXILWaveBitOp", map[string]int64{"DXILWaveBitAnd": 0, "DXILWaveBitOr": 1, "DXILWaveBitXor": 2}},
	{"dxil/internal/emit", "DXILQuadOpKind", map[string]int64{"DXILQuadOpReadAcrossX": 0, "DXILQuadOpReadAcrossY": 1, "DXILQuadOpReadAcrossDiag": 2}},
	{"dxil/internal/module", "ShaderKind", map[string]int64{"PixelShader": 0, "VertexShader": 1, "GeometryShader": 2, "HullShader": 3, "DomainShader": 4, "ComputeShader": 5, "MeshShader": 13, "AmplificationShader": 14}},
	{"dxil/internal/container", "PSVShaderKind", map[string]int64{"PSVPixel": 0, "PSVVertex": 1, "PSVGeometry": 2, "PSVHull": 3, "PSVDomain": 4, "PSVCompute": 5, "PSVLibrary": 6, "PSVRayGeneration": 7,
		"PSVIntersection": 8, "PSVAnyHit": 9, "PSVClosestHit": 10, "PSVMiss": 11, "PSVCallable": 12, "PSVMesh": 13, "PSVAmplification": 14, "PSVNode": 15, "PSVInvalid": 16}},
	{"dxil/internal/container", "PSVResourceType", map[string]int64{"PSVResTypeInvalid": 0, "PSVResTypeSampler": 1, "PSVResTypeCBV": 2, "PSVResTypeSRVTyped": 3, "PSVResTypeSRVRaw": 4, "PSVResTypeSRVStructured": 5,
		"PSVResTypeUAVTyped": 6, "PSVResTypeUAVRaw": 7, "PSVResTypeUAVStructured": 8, "PSVResTypeUAVStructuredWithCounter": 9}},
	{"dxil/internal/container", "PSVResourceKind", map[string]int64{"PSVResKindInvalid": 0, "PSVResKindTexture1D": 1, "PSVResKindTexture2D": 2, "PSVResKindTexture2DMS": 3, "PSVResKindTexture3D": 4,
		"PSVResKindTextureCube": 5, "PSVResKindTexture1DArray": 6, "PSVResKindTexture2DArray": 7, "PSVResKindTexture2DMSArray": 8, "PSVResKindTextureCubeArray": 9, "PSVResKindTypedBuffer": 10,
		"PSVResKindRawBuffer": 11, "PSVResKindStructuredBuffer": 12, "PSVResKindCBuffer": 13, "PSVResKindSampler": 14, "PSVResKindTBuffer": 15, "PSVResKindRTAccelerationStructure": 16}},
	{"dxil/internal/container", "ProgSigCompType", map[string]int64{"CompTypeUnknown": 0, "CompTypeUint32": 1, "CompTypeSint32": 2, "CompTypeFloat32": 3, "CompTypeUint16": 4, "CompTypeSint16": 5, "CompTypeFloat16": 6,
		"CompTypeUint64": 7, "CompTypeSint64": 8, "CompTypeFloat64": 9}},
	{"dxil/internal/container", "SystemValueKind", map[string]int64{"SVArbitrary": 0, "SVPosition": 1, "SVClipDistance": 2, "SVCullDistance": 3, "SVRenderTargetArrayIndex": 4, "SVViewportArrayIndex": 5,
		"SVVertexID": 6, "SVPrimitiveID": 7, "SVInstanceID": 8, "SVIsFrontFace": 9, "SVSampleIndex": 10, "SVTarget": 64, "SVDepth": 65, "SVCoverage": 66, "SVDepthGreaterEqual": 67, "SVDepthLessEqual": 68, "SVStencilRef": 69}},
	// LLVM 3.7 bitcode record codes (untyped constants of the serialiser)
	{"dxil/internal/module", "", map[string]int64{
		"blockInfoID": 0, "firstAppBlockID": 8, "moduleBlockID": 8, "paramAttrID": 9, "paramAttrGrpID": 10, "constBlockID": 11, "functionBlockID": 12, "valueSymtabID": 14, "metadataBlockID": 15, "typeBlockID": 17,
		"moduleCodeVersion": 1, "moduleCodeTriple": 2, "moduleCodeDataLayout": 3, "moduleCodeGlobalVar": 7, "moduleCodeFunction": 8,
		"paramattrCodeEntry": 2, "paramattrGrpCodeEntry": 3, "attrKindNoDuplicate": 12, "attrKindNoUnwind": 18, "attrKindReadNone": 20, "attrKindReadOnly": 21,
		"typeCodeNumEntry": 1, "typeCodeVoid": 2, "typeCodeFloat": 3, "typeCodeDouble": 4, "typeCodeLabel": 5, "typeCodeInteger": 7, "typeCodePointer": 8, "typeCodeHalf": 10, "typeCodeArray": 11,
		"typeCodeVector": 12, "typeCodeMetadata": 16, "typeCodeStructAnon": 18, "typeCodeStructName": 19, "typeCodeStructNamed": 20, "typeCodeFuncType": 21,
		"constCodeSetType": 1, "constCodeNull": 2, "constCodeUndef": 3, "constCodeInteger": 4, "constCodeFloat": 6, "constCodeAggregate": 7, "constCodeData": 22,
		"funcCodeDeclareBlocks": 1, "funcCodeInstBinop": 2, "funcCodeInstCast": 3, "funcCodeInstGEPOld": 4, "funcCodeInstRet": 10, "funcCodeInstBr": 11, "funcCodeInstPhi": 16, "funcCodeInstAlloca": 19,
		"funcCodeInstLoad": 20, "funcCodeInstCmp2": 28, "funcCodeInstSelect": 29, "funcCodeInstCall": 34, "funcCodeInstAtomicRMW": 38, "funcCodeInstGEP": 43, "funcCodeInstStore": 44, "funcCodeInstCmpXchg": 46,
		"metadataString": 1, "metadataValue": 2, "metadataNode": 3, "metadataName": 4, "metadataKind": 6, "metadataNamedNode": 10, "vstCodeEntry": 1, "vstCodeBBEntry": 2,
	}},
}
