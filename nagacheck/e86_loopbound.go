package main

import (
	"go/ast"
	"go/token"
	"strconv"
	"strings"
)

// emit.loopbound (C03-C05, C15): where a text backend writes a counting loop
// (a format literal containing `for (` with a `< %d` bound), the bound describes
// the extent of the thing being walked (the element count of a workgroup array
// that is zero-initialised). The argument printed for the bound must therefore
// not be a Go compile-time constant: with a constant every array gets the same
// trip count (elements beyond it stay uninitialised).
func (c *Ctx) runEmitLoopBound(r *Report, rule string, inPkg func(string) bool) {
	n := 0
	for _, fn := range c.allFuncs() {
		if !inPkg(fn.Pkg.Rel) || fn.Obj == nil || fn.Decl.Body == nil {
			continue
		}
		info := fn.Pkg.Info
		ord := 0
		ast.Inspect(fn.Decl.Body, func(m ast.Node) bool {
			call, ok := m.(*ast.CallExpr)
			if !ok {
				return true
			}
			fi := -1
			var format string
			for i, a := range call.Args {
				if lit, ok := ast.Unparen(a).(*ast.BasicLit); ok && lit.Kind == token.STRING {
					if s, err := strconv.Unquote(lit.Value); err == nil && strings.Contains(s, "for (") && strings.Contains(s, "< %d") {
						fi, format = i, s
						break
					}
				}
			}
			if fi < 0 {
				return true
			}
			// index of the verb that follows "< "
			verb := 0
			bound := -1
			for i := 0; i+1 < len(format); i++ {
				if format[i] == '%' {
					if format[i+1] == '%' {
						i++
						continue
					}
					if i >= 2 && format[i-2:i] == "< " && format[i+1] == 'd' {
						bound = verb
					}
					verb++
				}
			}
			if bound < 0 || fi+1+bound >= len(call.Args) {
				return true
			}
			arg := call.Args[fi+1+bound]
			ord++
			n++
			cons := fn.id() + ":for#" + itoa(ord)
			if tv, ok := info.Types[arg]; ok && tv.Value != nil {
				r.viol(rule, cons, c.pos(arg.Pos()), fn.id()+" writes a counting loop whose bound is the Go constant "+tv.Value.ExactString()+": the trip count does not depend on what is walked")
			} else {
				r.ok(rule, cons, c.pos(arg.Pos()), "")
			}
			return true
		})
	}
	r.inst(rule, n)
}

func init() {
	dumpers["loopbound"] = func(c *Ctx, parts []string) {
		r := newReport("dump")
		c.runEmitLoopBound(r, "emit.loopbound", inPkgs("hlsl", "msl", "glsl"))
		for _, o := range r.Obs {
			println(o.Verdict, o.Construct, o.Pos)
		}
	}
}
